// Package c15 decides property C15: Path, Parent, FlattenedKeys and diff always
// describe the actual structure.
//
// Sub-check positional-histories: C12's operation histories (hist.Case)
// restricted as the quantifier says (no references; every node a dictionary
// or a list: operations that would give a node both parts are skipped) and
// enriched with the operations that move things (removal from the middle of
// lists, append/prepend merges, re-attached children). After every step every
// node of the model is navigated to with Child and asked for its Path and
// Parent, FlattenedKeys is compared with the model's leaves and
// diff.CompareConfigs with the leaves before and after the step.
//
// The spelling of positions is a dimension of its own: index segments of
// dotted names in every integer syntax, trees that spell their structure in
// dotted keys (hist.FoldKeys), Merge sources other than generic data. Path,
// PathOf, FlattenedKeys and CompareConfigs answer with names and plain
// decimal indices however a position was written.
//
// The read side is a dimension of its own as well (readopts_test.go): the
// option list FlattenedKeys and CompareConfigs are called with (PathSep with
// any separator or none, other options around it) is independent of the
// options the configurations were written with, and so is the separator Path
// and PathOf are asked with.
//
// Sub-check diff-pairs: pairs of trees given to diff.CompareConfigs, each also
// in a second spelling with dotted keys.
//
// Only the public surface is used (no hooks).
package c15

import (
	"fmt"
	"os"
	"sort"
	"strings"
	"testing"

	ucfg "github.com/elastic/go-ucfg"
	"github.com/elastic/go-ucfg/diff"
	"pgregory.net/rapid"

	"verif/harness/internal/canon"
	"verif/harness/internal/gen"
	"verif/harness/internal/hist"
	"verif/harness/internal/model"
	"verif/harness/internal/runlog"
	"verif/harness/internal/uc"
)

// Case is a history (hist.Case) together with the read side: the option lists
// FlattenedKeys and CompareConfigs are called with (one per step, in rotation)
// and the separator Path and PathOf are asked with.
type Case struct {
	hist.Case
	// ReadOpts: the option lists of the reading calls; the check after step i uses number (i+1) mod len
	// (the initial state number 0). Empty (cases recorded before the dimension existed): only the options
	// the history was written with.
	ReadOpts []ReadOpts `json:"readopts,omitempty"`
	// QSep: the separator Path and PathOf are asked with throughout the history ("": "." or, every fourth
	// history, "/")
	QSep string `json:"qsep,omitempty"`
}

// d14Open: finding D14 (SetChild of an already attached child keeps its old
// path) has no repair; while it is open the generator constructs the class
// away. Class predicate: the history contains an operation of kind
// "reattach", i.e. a SetChild whose value is a config that already has a
// parent (obtained with Child, or attached before with SetChild).
func d14Open() bool {
	return runlog.IsOpen("D14") || os.Getenv("VERIF_FORCE_OPEN_D14") != ""
}

// isD14Class is the class predicate of finding D14.
func isD14Class(c Case) bool {
	for _, op := range c.Ops {
		if op.Kind == hist.Reattach {
			return true
		}
	}
	return false
}

// dictionary-ish and list-ish names are kept apart so that most operations
// keep every node a dictionary or a list
var names = []string{
	"a", "b", "c", "a.b", "a.c", "a.b.c", "d.x", "d.y",
	"l", "l", "l.0", "l.1", "l.2", "l.0.x", "l.1.x", "l.1.y", "l.2.x",
	"a.l", "a.l", "a.l.0", "a.l.1", "a.l.2", "a.l.1.x",
	"m.0.0", "m.0.1", "m.1.0", "m.1", "m", "",
}

var treeKeys = []string{"a", "b", "c", "d", "x", "y"}

func genCfg() *hist.GenCfg {
	return &hist.GenCfg{
		Names:  names,
		MaxIdx: 3,
		MinOps: 3,
		MaxOps: runlog.Pick(20, 36),
		Kinds: []string{hist.Set, hist.Set, hist.Set, hist.Set, hist.Set, hist.Remove, hist.Remove, hist.Remove, hist.Remove, hist.Remove,
			hist.Child, hist.Child, hist.Child, hist.SetChild, hist.SetChild, hist.Merge, hist.Merge, hist.Merge, hist.Reattach, hist.Reattach},
		Trees:     &gen.TreeCfg{Depth: 2, Width: 3, Keys: treeKeys, NoFloat: true},
		Prims:     &gen.TreeCfg{PrimOnly: true, NoNil: true, NoFloat: true},
		Policies:  []model.Policy{model.Default, model.Replace, model.ReplaceArr, model.Append, model.Prepend, model.Append, model.Prepend},
		NReads:    0,
		ListNames: []string{"l", "a.l", "m", "l", "a.l"},
		InitLists: 6,
		MoveBias:  5,
		D14Open:   d14Open(),
		// the spelling of positions: index segments of dotted names in every integer syntax, indices whose
		// octal / hexadecimal / decimal spellings differ, trees that spell their structure in dotted keys
		Respell:  3,
		WideIdx:  1,
		WideIdxs: []int{8, 10, 9, 16},
		Dotted:   5,
		Sources:  2,
		// the Go representation of the trees: structs (by value and pointer), typed slices / arrays / maps of
		// structs, nested, in the initial tree, in SetChild trees and in merged values
		Structs: 3,
		// the separator the history is written with (PathSep of every operation, and of the reading calls that are
		// given the history's own options)
		Seps: []string{".", ".", "/", "::", ".", "|"},
	}
}

// nonCanonical reports whether a name (split at the separator if dotted) has a segment
// that is a list index but not written as the plain decimal number Path and
// FlattenedKeys have to answer with.
func nonCanonical(name string, dotted bool, sep string) bool {
	if name == "" {
		return false
	}
	parts := []string{name}
	if dotted {
		parts = strings.Split(name, sep)
	}
	for _, p := range parts {
		if sg := model.ClassifySeg(p); sg.IsIdx && sg.String() != p {
			return true
		}
	}
	return false
}

// keySpelling classifies the object keys of a tree: does a key contain the
// separator, and does such a key have a non-canonical index segment?
func keySpelling(t *gen.Tree, dotted bool, sep string) (dottedKey, nonCanon bool) {
	if t == nil || !dotted {
		return false, false
	}
	t.Walk(nil, func(_ []string, n *gen.Tree) {
		if n.K != "obj" {
			return
		}
		for _, k := range n.Keys {
			if strings.Contains(k, sep) {
				dottedKey = true
			}
			if nonCanonical(k, true, sep) {
				nonCanon = true
			}
		}
	})
	return
}

// qSeps: separators for Path / PathOf ("" = the old rule: "." or "/").
var qSeps = []string{"", "", "", "::", "-", "~", "→", " ", "..", "|", "_", ":", "%v", "./", "\\"}

func genCase(t *rapid.T) Case {
	c := Case{Case: hist.Gen(t, genCfg())}
	n := rapid.IntRange(1, 3).Draw(t, "nreadopts")
	for i := 0; i < n; i++ {
		c.ReadOpts = append(c.ReadOpts, genRead(t, fmt.Sprintf("read%d", i)))
	}
	c.QSep = rapid.SampledFrom(qSeps).Draw(t, "qsep")
	return c
}

// ---------------------------------------------------------------------------
// oracle

// checkPositions navigates to every node of the model with Child and compares
// Path and Parent.
//
// qsep is the separator the paths are asked for with. One separator is used
// throughout a history (and only after the last step the other one as well):
// reads must not disturb each other - an implementation that remembers the
// last answer per node would be refreshed by every change of the separator.
//
// rd (may be nil): after the last step every container that is reached is also
// asked for its FlattenedKeys under the read options of that check: the
// root-relative paths of the non-nil primitive settings below it.
func checkPositions(st *hist.State, qsep string, final bool, rd *reader) (nodes int, err error) {
	root := st.Root
	if p := root.C.Path(qsep); p != "" {
		return 0, fmt.Errorf("the root says its path is %q", p)
	}
	if err := checkPathOf(root.C, nil, qsep, final); err != nil {
		return 0, err
	}
	if root.C.Parent() != nil {
		return 0, fmt.Errorf("the root has a parent")
	}
	var walk func(h *ucfg.Config, m *model.Node, path []model.Seg) error
	visit := func(h *ucfg.Config, sg model.Seg, cm *model.Node, path []model.Seg) error {
		if cm.Kind == "prim" {
			return nil
		}
		name, idx := hist.SegAddr(sg)
		p := append(append([]model.Seg{}, path...), sg)
		want := model.JoinSegs(p, qsep)
		var ch *ucfg.Config
		cerr := uc.Safe("Child", func() error {
			var e error
			ch, e = h.Child(name, idx, st.Opts...)
			return e
		})
		if cm.Kind == "nil" {
			// a nil setting: whether it can be taken as a child is not stated; if it can, it has a position
			if cerr != nil || ch == nil {
				return nil
			}
		} else if cerr != nil || ch == nil {
			return fmt.Errorf("navigating to %q: Child(%q,%d) failed: %v", want, name, idx, cerr)
		}
		nodes++
		if got := ch.Path(qsep); got != want {
			return fmt.Errorf("the node reached by navigating to %q says its path is %q (Path(%q))", want, got, qsep)
		}
		if err := checkPathOf(ch, p, qsep, final); err != nil {
			return err
		}
		if par := ch.Parent(); par != h {
			pp := "<nil>"
			if par != nil {
				pp = fmt.Sprintf("a node with path %q", par.Path(qsep))
			}
			return fmt.Errorf("the node at %q: Parent() is not the node it was reached from (%q) but %s", want, model.JoinSegs(path, qsep), pp)
		}
		if cm.Kind == "cont" {
			if final && rd != nil && rd.decided {
				below := cm.Leaves(rd.sep)
				for i := range below {
					below[i] = model.JoinSegs(p, rd.sep) + rd.sep + below[i]
				}
				sort.Strings(below)
				if err := checkFlattened(ch, below, rd.opts); err != nil {
					return fmt.Errorf("the node reached by navigating to %q, called with the options %s: %v", want, rd.ro, err)
				}
			}
			return walk(ch, cm, p)
		}
		return nil
	}
	walk = func(h *ucfg.Config, m *model.Node, path []model.Seg) error {
		for _, k := range m.SortedKeys() {
			if err := visit(h, model.NameSeg(k), m.D[k], path); err != nil {
				return err
			}
		}
		for i, e := range m.A {
			if err := visit(h, model.IdxSeg(i), e, path); err != nil {
				return err
			}
		}
		return nil
	}
	return nodes, walk(root.C, root.M, nil)
}

// checkPathOf: PathOf(field, sep) is the path of the node extended by the
// field; after the last step of a history (final) Path and PathOf are also
// asked with the other separator, which joins the same names and indices.
func checkPathOf(c *ucfg.Config, path []model.Seg, qsep string, final bool) error {
	here := model.JoinSegs(path, qsep)
	seps := []string{qsep}
	if final {
		other := "/"
		if qsep == "/" {
			other = "."
		}
		if got, want := c.Path(other), model.JoinSegs(path, other); got != want {
			return fmt.Errorf("the node at %q: Path(%q) = %q, want %q", here, other, got, want)
		}
		seps = append(seps, other)
	}
	for _, sep := range seps {
		for _, f := range []string{"x", "2"} {
			want := model.JoinSegs(append(append([]model.Seg{}, path...), model.NameSeg(f)), sep)
			if got := c.PathOf(f, sep); got != want {
				return fmt.Errorf("the node at %q: PathOf(%q, %q) = %q, want %q", here, f, sep, got, want)
			}
		}
	}
	return nil
}

func sameKeys(got, want []string) bool {
	if len(got) != len(want) {
		return false
	}
	for i := range got {
		if got[i] != want[i] {
			return false
		}
	}
	return true
}

func checkFlattened(c *ucfg.Config, leaves []string, opts []ucfg.Option) error {
	var keys []string
	if err := uc.Safe("FlattenedKeys", func() error { keys = c.FlattenedKeys(opts...); return nil }); err != nil {
		return err
	}
	if !sort.StringsAreSorted(keys) {
		return fmt.Errorf("FlattenedKeys is not sorted: %q", keys)
	}
	if !sameKeys(keys, leaves) {
		return fmt.Errorf("FlattenedKeys = %q, the non-nil primitive settings are at %q", keys, leaves)
	}
	return nil
}

// hasDup reports whether a sorted list of paths holds one path twice.
func hasDup(sorted []string) bool {
	for i := 1; i < len(sorted); i++ {
		if sorted[i] == sorted[i-1] {
			return true
		}
	}
	return false
}

func set(keys []string) map[string]bool {
	m := map[string]bool{}
	for _, k := range keys {
		m[k] = true
	}
	return m
}

// checkDiff: CompareConfigs(old, new) must put every path in exactly the
// right one of Keep / Add / Remove.
func checkDiff(old, new *ucfg.Config, oldLeaves, newLeaves []string, opts []ucfg.Option) error {
	var d diff.Diff
	if err := uc.Safe("CompareConfigs", func() error { d = diff.CompareConfigs(old, new, opts...); return nil }); err != nil {
		return err
	}
	o, n := set(oldLeaves), set(newLeaves)
	want := map[diff.Type]map[string]bool{diff.Keep: {}, diff.Add: {}, diff.Remove: {}}
	for k := range o {
		if n[k] {
			want[diff.Keep][k] = true
		} else {
			want[diff.Remove][k] = true
		}
	}
	for k := range n {
		if !o[k] {
			want[diff.Add][k] = true
		}
	}
	for _, tp := range []diff.Type{diff.Keep, diff.Add, diff.Remove} {
		got := map[string]bool{}
		for _, k := range d[tp] {
			if got[k] {
				return fmt.Errorf("CompareConfigs lists %q twice under %q", k, tp.String())
			}
			got[k] = true
		}
		var wrong []string
		for k := range got {
			if !want[tp][k] {
				wrong = append(wrong, "unexpected "+k)
			}
		}
		for k := range want[tp] {
			if !got[k] {
				wrong = append(wrong, "missing "+k)
			}
		}
		if len(wrong) > 0 {
			sort.Strings(wrong)
			return fmt.Errorf("CompareConfigs, class %q: %s\n old settings %q\n new settings %q\n diff %v", tp.String(), strings.Join(wrong, ", "), oldLeaves, newLeaves, map[diff.Type][]string(d))
		}
	}
	changed := len(want[diff.Add]) > 0 || len(want[diff.Remove]) > 0
	if d.HasChanged() != changed {
		return fmt.Errorf("CompareConfigs: HasChanged() = %v, want %v", d.HasChanged(), changed)
	}
	return nil
}

// fresh builds a config from the model's generic rendering.
func fresh(m *model.Node, opts []ucfg.Option) (*ucfg.Config, error) {
	v := m.Reify()
	if v == nil {
		return ucfg.New(), nil
	}
	var c *ucfg.Config
	err := uc.Safe("NewFrom", func() error {
		var e error
		c, e = ucfg.NewFrom(v, opts...)
		return e
	})
	return c, err
}

func listLens(root *model.Node) map[*model.Node]int {
	out := map[*model.Node]int{}
	root.Walk(nil, func(_ []model.Seg, n *model.Node) {
		if n.Kind == "cont" {
			out[n] = len(n.A)
		}
	})
	return out
}

// grew: a list that was not empty got longer (append/prepend merges number the
// new elements after / before the old ones).
func grew(before map[*model.Node]int, root *model.Node) bool {
	g := false
	root.Walk(nil, func(_ []model.Seg, n *model.Node) {
		if l, ok := before[n]; ok && l > 0 && len(n.A) > l {
			g = true
		}
	})
	return g
}

func trace(c Case, upto int) string {
	var b strings.Builder
	b.WriteString("\n history:")
	if c.Init != nil {
		fmt.Fprintf(&b, "\n  init %s", canon.Show(c.Init.Go()))
	}
	for i := 0; i <= upto && i < len(c.Ops); i++ {
		op := c.Ops[i]
		fmt.Fprintf(&b, "\n  %d: %s", i, op)
		if op.Val != nil {
			fmt.Fprintf(&b, " %s", canon.Show(op.Val.Go()))
		}
	}
	fmt.Fprintf(&b, "\n  pathsep=%v %q", c.PathSep, c.Sep)
	for i, ro := range c.ReadOpts {
		fmt.Fprintf(&b, "\n  read options %d: %s", i, ro)
	}
	fmt.Fprintf(&b, "\n  Path/PathOf asked with %q (\"\": \".\", every fourth history \"/\")", c.QSep)
	return b.String()
}

func runCase(c Case, r *runlog.R) error {
	if c.ExclD14 > 0 {
		r.Excluded("D14")
	}
	st, ok, err := hist.New(c.Case, true)
	if err != nil {
		return err
	}
	if !ok {
		r.Discard()
		return nil
	}
	// the read side: one reader per option list of the case
	var readers []*reader
	for _, ro := range c.ReadOpts {
		rd, err := newReader(ro)
		if err != nil {
			return err
		}
		readers = append(readers, rd)
	}
	var prevM *model.Node // the model before the step (for the paths under another separator)
	nchecks, readJoints := 0, map[int]bool{}
	// wsep: the separator the history is written with, which is also what the reading calls that are given the
	// history's own options join with ("." without PathSep)
	wsep := "."
	if st.Sep != "" {
		wsep = st.Sep
	}
	prevLeaves := st.Root.M.Leaves(wsep)
	prevCfg, err := fresh(st.Root.M, st.Opts)
	if err != nil {
		return fmt.Errorf("building a config from the initial model failed: %v", err)
	}
	// the separator Path and PathOf are asked with: one per history (see checkPositions)
	qsep := "."
	if c.QSep != "" {
		qsep = c.QSep
	} else if len(c.Ops)%4 == 3 {
		qsep = "/"
	}
	final := false
	check := func(label string) error {
		// frame: the data agree (C12's oracle; here it guards the model)
		got, err := uc.Dump(st.Root.C)
		if err != nil {
			return fmt.Errorf("dumping failed: %v", err)
		}
		if want := st.Root.M.Reify(); !canon.EqualSplit(got, want) {
			return fmt.Errorf("the root differs from the model\n got  %s\n want %s", canon.String(canon.Split(canon.Of(got))), canon.String(canon.Split(canon.Of(want))))
		}
		var rd *reader
		if len(readers) > 0 {
			rd = readers[nchecks%len(readers)]
		}
		if _, err := checkPositions(st, qsep, final, rd); err != nil {
			return err
		}
		leaves := st.Root.M.Leaves(wsep)
		if err := checkFlattened(st.Root.C, leaves, st.Opts); err != nil {
			return err
		}
		cur, err := fresh(st.Root.M, st.Opts)
		if err != nil {
			return fmt.Errorf("building a config from the model failed: %v", err)
		}
		if hasDup(prevLeaves) || hasDup(leaves) {
			// Without PathSep a key may contain the separator literally ("m.1" next to m:{1:..}); two settings
			// then share one path string and "partitions those paths" has no meaning: diff is not asserted.
			r.Class("ambiguous path strings: diff not asserted")
		} else {
			// against the state before the step (built from the model)
			if err := checkDiff(prevCfg, st.Root.C, prevLeaves, leaves, st.Opts); err != nil {
				return fmt.Errorf("old = state before the step: %v", err)
			}
			// against an equal config: no change
			if err := checkDiff(st.Root.C, cur, leaves, leaves, st.Opts); err != nil {
				return fmt.Errorf("new = an equal config built from scratch: %v", err)
			}
		}
		// the same three questions asked with another option list: the answers are the same positions, joined
		// with the separator asked for
		if len(readers) > 0 {
			k := nchecks % len(readers)
			rd := readers[k]
			rleaves, err := rd.flattened(st.Root.C, st.Root.M)
			if err != nil {
				return err
			}
			if prevM != nil {
				if err := rd.diff(prevCfg, st.Root.C, prevM.Leaves(rd.sep), rleaves); err != nil {
					return fmt.Errorf("old = state before the step: %v", err)
				}
			}
			if err := rd.diff(st.Root.C, cur, rleaves, rleaves); err != nil {
				return fmt.Errorf("new = an equal config built from scratch: %v", err)
			}
			if err := rd.diff(cur, st.Root.C, rleaves, rleaves); err != nil {
				return fmt.Errorf("old = an equal config built from scratch: %v", err)
			}
			if joints(st.Root.M) {
				readJoints[k] = true
			}
		}
		nchecks++
		prevM = st.Root.M.Copy()
		prevCfg, prevLeaves = cur, leaves
		return nil
	}
	if err := check("initial state"); err != nil {
		return fmt.Errorf("initial state: %v%s", err, trace(c, -1))
	}
	nt, structLists := false, false
	for i, op := range c.Ops {
		before := hist.Positions(st.Root.M)
		lens := listLens(st.Root.M)
		info, err := st.Apply(op)
		if err != nil {
			return fmt.Errorf("step %d: %v%s", i, err, trace(c, i))
		}
		if st.Root.M.Mixed() {
			return fmt.Errorf("harness: step %d made a node of the model both a dictionary and a list%s", i, trace(c, i))
		}
		moved := hist.Moved(before, hist.Positions(st.Root.M))
		if op.Kind == hist.Merge && (op.Policy == model.Append || op.Policy == model.Prepend) && grew(lens, st.Root.M) {
			moved = true
			r.Class("moved by " + op.Policy.String() + " merge")
		}
		switch {
		case info.Skipped != "":
			r.Class("skipped: " + info.Skipped)
		case info.Rejected:
			r.Class("rejected " + op.Kind)
		default:
			r.Class("op " + op.Kind)
			r.ClassIf(op.Kind == hist.Merge, "merge "+op.Policy.String())
			r.ClassIf(op.Kind == hist.Merge && info.Source != "", "merge source: "+info.Source)
			reprs := make([]string, 0, len(info.Reprs))
			for k := range info.Reprs {
				reprs = append(reprs, k)
			}
			sort.Strings(reprs)
			for _, k := range reprs {
				r.Class(op.Kind + " representation: " + k)
			}
			if op.From == hist.FromStruct && (info.Reprs["list with struct elements"] > 0 || info.Reprs["[]T of structs"] > 0 || info.Reprs["[N]T of structs"] > 0 || info.Reprs["[]*T of structs"] > 0) {
				r.Class(op.Kind + " brings in a list whose elements are Go structs")
				structLists = true
			}
		}
		if info.Skipped == "" && !info.Rejected {
			odd := op.Kind != hist.Merge && nonCanonical(op.Name, c.PathSep, wsep)
			r.ClassIf(odd, "op address with an index segment in another integer syntax")
			r.ClassIf(odd && info.Wrote && op.Kind != hist.Remove, "write through an index segment in another integer syntax")
			r.ClassIf(odd && info.Padded, "padding write through an index segment in another integer syntax")
			dk, nc := keySpelling(op.Val, c.PathSep, wsep)
			r.ClassIf(dk, op.Kind+" of a tree with dotted keys")
			r.ClassIf(nc, op.Kind+" of a tree whose dotted keys have index segments in another integer syntax")
		}
		r.ClassIf(info.Shifted, "removal before the end of a list")
		r.ClassIf(moved, "step moved existing settings")
		r.ClassIf(moved && op.Kind == hist.Reattach, "moved by re-attaching")
		r.ClassIf(info.ViaHandle && info.Wrote && !info.Detached, "write through a live handle")
		if moved {
			nt = true
		}
		final = i == len(c.Ops)-1
		if err := check(fmt.Sprintf("after step %d", i)); err != nil {
			return fmt.Errorf("after step %d (%s): %v%s", i, op, err, trace(c, i))
		}
	}
	r.NonTrivialIf(nt)
	if dk, nc := keySpelling(c.Init, c.PathSep, wsep); dk {
		r.Class("initial tree (NewFrom) with dotted keys")
		r.ClassIf(nc, "initial tree (NewFrom) whose dotted keys have index segments in another integer syntax")
	}
	r.ClassIf(c.InitRepr, "initial tree (NewFrom) in Go struct representations")
	r.ClassIf(structLists, "history brings in a list whose elements are Go structs (merge or SetChild)")
	r.Class("paths asked with separator " + qsep)
	for k, rd := range readers {
		if k >= nchecks {
			break
		}
		r.Class(rd.ro.sepClass())
		r.ClassIf(readJoints[k], "read options used on a state with a setting below the top level")
		r.ClassIf(readJoints[k] && rd.sep != ".", "read with another separator than \".\" on a state with a setting below the top level")
		r.ClassIf(len(rd.ro.Others) > 0, "read options with other options around PathSep")
		r.ClassIf(len(rd.ro.Others) > 0 && !rd.ro.NoSep && rd.ro.At > 0, "read options: PathSep is not the first option")
		r.ClassIf(len(rd.ro.Others) > 0 && !rd.ro.NoSep && rd.ro.At < len(rd.ro.Others), "read options: PathSep is not the last option")
		for _, o := range rd.ro.Others {
			r.Class("read option " + o)
		}
		r.ClassIf(rd.ro.Sep == "" && !rd.ro.NoSep && rd.decided, fmt.Sprintf("PathSep(\"\") read as %q", rd.sep))
	}
	r.ClassIf(c.PathSep, "with PathSep")
	r.ClassIf(c.PathSep, fmt.Sprintf("history written with PathSep(%q)", wsep))
	r.ClassIf(!c.PathSep, "without PathSep")
	r.ClassIf(isD14Class(c), "D14 class (re-attached child)")
	return nil
}

var subHist = runlog.Register(&runlog.Sub[Case]{
	Name: "positional-histories",
	Rule: "histories of 3-20 (thorough: 3-36) operations Set*, SetChild(fresh config), Remove, Merge under all five policies (half of the merged trees put a list where the history keeps its lists; 2 in 10 merges take their value from mixed Go representations, a fresh *Config kept in the case, the *Config of the root / a child handle / a stand-alone config, or data embedding one; 3 in 10 of the other merges, of the SetChild trees and of the initial trees (NewFrom) are handed over in Go STRUCT representations: structs by value and by pointer with interface{} or concretely typed fields, []T / [N]T / []*T of structs, map[string]T / map[string]*T of structs, lists of mixed struct elements, nested in each other; half of those trees are a list of 1-3 objects with the same keys below a name where the history keeps its lists (existing key), below any key of the alphabet (mostly new) or one level deeper), Child, and re-attachment of a pooled child with SetChild (after removing it from its old place), on the root and on pooled child handles; addresses from overlapping dictionary-ish and list-ish dotted names plus explicit indices 0..3 (1 in 10: 8, 9, 10, 16); the spelling of positions is varied: 3 in 10 index segments of a dotted name are written in another integer syntax of strconv base 0 (+1, 02, 0o2, 0x1, 0b1, 0_1, -0, 1_0 ...), an explicit index is sometimes written as the last segment, and with PathSep half of the trees that are merged, attached with SetChild or given to NewFrom (initial tree) spell part of their structure in dotted keys (\"l.02.x\": 1 for l: [nil, nil, {x: 1}]; all children of a container inlined or only some of them next to the plain key; nil padding left to the library; index segments in every integer syntax); operations that would give a node both named keys and list elements are skipped, no references. After every step: every node of the model is navigated to Child by Child; its Path(sep) must be the navigated path - names as written, indices as plain decimal numbers whatever spelling wrote them - and its Parent() pointer-identical to the handle it was reached from (root: empty path, nil parent); PathOf(field, sep) is that path extended by the field; sep is one separator for the whole history (4 in 15: one of \"::\" - ~ \u2192 space .. | _ : %v ./ backslash; else \".\" or, every fourth history, \"/\"), after the last step a second one is asked as well (\".\", or \"/\" if the first is \".\"); FlattenedKeys equals the sorted model paths of the non-nil primitives (decimal indices); CompareConfigs(state before the step, state) partitions exactly and CompareConfigs(state, equal config built from scratch out of plain nested maps and lists) reports no change; these three are asked with the options the history is written with (with PathSep 1 in 2 histories is written with another separator than \".\": \"/\", \"::\", \"|\", which is then the joint of every path) AND, after every step, with one of the 1-3 READ OPTION LISTS of the case in rotation, which are independent of how the history was written: PathSep(s) with s one of 21 separators (sorting before \".\", between \".\" and digits, between digits and letters, after the letters; multi-byte, multi-character, containing \".\", white space, \"%v\", \".\" itself, and \"\" for which \".\" and \"\" are both accepted as the joint, the same one for FlattenedKeys and CompareConfigs) or (1 in 12) no PathSep at all (joint \".\"), in half of the lists surrounded by 1-3 of 16 options that say nothing about how positions are reported (VarExp, ResolveEnv, ResolveNOOP, Env, EscapePath, MaxIdx(0), MaxIdx(100000), EnableNumKeys, MetaData, the four merge policies, StructTag, ValidatorTag, FieldAppendValues) with PathSep first, last or between them: FlattenedKeys(opts) equals the sorted model paths joined with s, CompareConfigs(before, state, opts), (state, equal config, opts) and (equal config, state, opts) partition exactly those path strings (not asserted when two settings share one path string under s); after the last step every container reached by navigation is asked for FlattenedKeys(opts) as well: the root-relative paths of the non-nil primitives below it. Non-trivial: some step moved an existing non-nil setting to another path (removal before the end of a list, prepend merge, re-attachment) or an append/prepend merge extended a non-empty list; all positional queries follow it. Distinct: hash of the whole case. While finding D14 is open the generator replaces re-attachments by SetChild of fresh configs (counted in excluded_known).",
	Gen:  genCase,
	Run:  runCase,
})

func TestPositionalHistories(t *testing.T) { subHist.Check(t, 23000, 1800000) }

// ---------------------------------------------------------------------------
// pairs of configurations for diff

type PairCase struct {
	A       *gen.Tree `json:"a"`
	B       *gen.Tree `json:"b"`
	PathSep bool      `json:"pathsep"`
	// A2, B2: the same data as A and B with part of the structure spelled in dotted keys ("l.0x1.x": 1), list
	// indices in any integer syntax (only with PathSep)
	A2 *gen.Tree `json:"a2,omitempty"`
	B2 *gen.Tree `json:"b2,omitempty"`
	// Structs: A and B are also built from their Go struct representations (hist.StructRepr, chosen by the R
	// fields of their containers)
	Structs bool `json:"structs,omitempty"`
	// Read: the option list FlattenedKeys and CompareConfigs are called with (nil: the options the
	// configurations were built with)
	Read *ReadOpts `json:"read,omitempty"`
}

func pairCfg() *gen.TreeCfg {
	return &gen.TreeCfg{Depth: runlog.Pick(3, 4), Width: runlog.Pick(4, 5), Keys: []string{"a", "b", "c", "x"}, NoFloat: true, NoEmpty: true}
}

// variant returns an edited copy of t: children are kept (edited
// recursively), dropped or replaced, and new ones are added.
func variant(t *rapid.T, cfg *gen.TreeCfg, a *gen.Tree, depth int) *gen.Tree {
	if !a.IsCont() {
		if rapid.IntRange(0, 5).Draw(t, "replaceleaf") == 0 {
			return gen.GenTree(t, cfg, depth)
		}
		return a.Clone()
	}
	out := &gen.Tree{K: a.K}
	for i, v := range a.Vals {
		var nv *gen.Tree
		switch rapid.IntRange(0, 9).Draw(t, "edit") {
		case 0, 1:
			continue // dropped (in a list: the later elements move down)
		case 2:
			nv = gen.GenTree(t, cfg, depth-1)
		default:
			nv = variant(t, cfg, v, depth-1)
		}
		if a.K == "obj" {
			out.Put(a.Keys[i], nv)
		} else {
			out.Vals = append(out.Vals, nv)
		}
	}
	for n := rapid.IntRange(0, 2).Draw(t, "added"); n > 0; n-- {
		nv := gen.GenTree(t, cfg, depth-1)
		if a.K == "obj" {
			k := rapid.SampledFrom(cfg.Keys).Draw(t, "newkey")
			if out.Get(k) == nil {
				out.Put(k, nv)
			}
		} else if rapid.Bool().Draw(t, "front") {
			out.Vals = append([]*gen.Tree{nv}, out.Vals...)
		} else {
			out.Vals = append(out.Vals, nv)
		}
	}
	return out
}

func genPair(t *rapid.T) PairCase {
	cfg := pairCfg()
	top := func() *gen.Tree {
		if rapid.IntRange(0, 4).Draw(t, "toplist") == 0 {
			return gen.GenList(t, cfg, cfg.Depth)
		}
		return gen.GenObj(t, cfg, cfg.Depth)
	}
	pc := PairCase{A: top(), PathSep: rapid.Bool().Draw(t, "pathsep")}
	if rapid.IntRange(0, 3).Draw(t, "independent") == 0 {
		pc.B = top()
	} else {
		pc.B = variant(t, cfg, pc.A, cfg.Depth)
	}
	if pc.PathSep {
		pc.A2 = hist.FoldKeys(t, pc.A, 5, "a2")
		pc.B2 = hist.FoldKeys(t, pc.B, 5, "b2")
	}
	if rapid.IntRange(0, 2).Draw(t, "structs") == 0 {
		pc.Structs = true
		hist.AssignStructReprs(t, pc.A)
		hist.AssignStructReprs(t, pc.B)
	}
	if rapid.IntRange(0, 3).Draw(t, "readopts") != 0 {
		ro := genRead(t, "read")
		pc.Read = &ro
	}
	return pc
}

func runPair(pc PairCase, r *runlog.R) error {
	if pc.A == nil || pc.B == nil || !pc.A.IsCont() || !pc.B.IsCont() {
		r.Discard()
		return nil
	}
	var opts []ucfg.Option
	if pc.PathSep {
		opts = []ucfg.Option{ucfg.PathSep(".")}
	}
	ma, mb := model.NewCont(), model.NewCont()
	model.MergeCont(model.Default, nil, ma, model.FromTree(pc.A))
	model.MergeCont(model.Default, nil, mb, model.FromTree(pc.B))
	if ma.Mixed() || mb.Mixed() {
		r.Discard()
		return nil
	}
	build := opts // the options the configurations are built with
	mk := func(t *gen.Tree) (*ucfg.Config, error) {
		var c *ucfg.Config
		err := uc.Safe("NewFrom", func() error {
			var e error
			c, e = ucfg.NewFrom(t.Go(), build...)
			return e
		})
		return c, err
	}
	a, err := mk(pc.A)
	if err != nil {
		return fmt.Errorf("NewFrom(A): %v", err)
	}
	a2, _ := mk(pc.A)
	b, err := mk(pc.B)
	if err != nil {
		return fmt.Errorf("NewFrom(B): %v", err)
	}
	// the read side: the options the reading calls are given (from here on opts are those), rsep the
	// separator the answers are joined with
	rsep := "."
	if pc.Read != nil {
		rd, err := newReader(*pc.Read)
		if err != nil {
			return err
		}
		// PathSep(""): "." or "" (see ReadOpts.Sep), told apart on whichever configuration has a joint
		if _, err := rd.flattened(a, ma); err != nil {
			return fmt.Errorf("A: %v", err)
		}
		if _, err := rd.flattened(b, mb); err != nil {
			return fmt.Errorf("B: %v", err)
		}
		opts, rsep = rd.opts, rd.sep
		r.Class(pc.Read.sepClass())
		r.ClassIf(len(pc.Read.Others) > 0, "read options with other options around PathSep")
		r.ClassIf(rsep != "." && (joints(ma) || joints(mb)), "read with another separator than \".\", setting below the top level")
		for _, o := range pc.Read.Others {
			r.Class("read option " + o)
		}
	} else {
		r.Class("read with the options the configurations were built with")
	}
	la, lb := ma.Leaves(rsep), mb.Leaves(rsep)
	if hasDup(la) || hasDup(lb) {
		r.Discard() // a key that contains the separator: two settings share one path string
		return nil
	}
	if err := checkFlattened(a, la, opts); err != nil {
		return fmt.Errorf("A: %v", err)
	}
	if err := checkFlattened(b, lb, opts); err != nil {
		return fmt.Errorf("B: %v", err)
	}
	if err := checkDiff(a, b, la, lb, opts); err != nil {
		return fmt.Errorf("A -> B: %v", err)
	}
	if err := checkDiff(b, a, lb, la, opts); err != nil {
		return fmt.Errorf("B -> A: %v", err)
	}
	if err := checkDiff(a, a2, la, la, opts); err != nil {
		return fmt.Errorf("A -> equal copy of A: %v", err)
	}
	if err := checkDiff(a, a, la, la, opts); err != nil {
		return fmt.Errorf("A -> A itself: %v", err)
	}
	if pc.PathSep && pc.A2 != nil && pc.B2 != nil {
		// the same two configurations written with dotted keys: positions are reported as plain names and
		// decimal indices however they were spelled
		for _, x := range []struct {
			name   string
			t      *gen.Tree
			leaves []string
		}{{"A2", pc.A2, la}, {"B2", pc.B2, lb}} {
			m, err := model.FromTreeSep(x.t, ".", false)
			if err != nil || !sameKeys(m.Leaves(rsep), x.leaves) {
				return fmt.Errorf("harness: %s does not denote the same settings as its plain spelling (%v)", x.name, err)
			}
		}
		a2, err := mk(pc.A2)
		if err != nil {
			return fmt.Errorf("NewFrom(A2): %v", err)
		}
		b2, err := mk(pc.B2)
		if err != nil {
			return fmt.Errorf("NewFrom(B2): %v", err)
		}
		if err := checkFlattened(a2, la, opts); err != nil {
			return fmt.Errorf("A2 (A spelled with dotted keys): %v", err)
		}
		if err := checkFlattened(b2, lb, opts); err != nil {
			return fmt.Errorf("B2 (B spelled with dotted keys): %v", err)
		}
		if err := checkDiff(a, a2, la, la, opts); err != nil {
			return fmt.Errorf("A -> A2 (the same settings spelled with dotted keys): %v", err)
		}
		if err := checkDiff(a2, b2, la, lb, opts); err != nil {
			return fmt.Errorf("A2 -> B2: %v", err)
		}
		if err := checkDiff(b2, a, lb, la, opts); err != nil {
			return fmt.Errorf("B2 -> A: %v", err)
		}
		dka, nca := keySpelling(pc.A2, true, ".")
		dkb, ncb := keySpelling(pc.B2, true, ".")
		r.ClassIf(dka || dkb, "a configuration spelled with dotted keys")
		r.ClassIf(nca || ncb, "dotted keys with index segments in another integer syntax")
	}
	if pc.Structs {
		// the same two configurations handed to NewFrom as Go structs, typed slices / arrays / maps of structs
		mkS := func(t *gen.Tree, used map[string]int) (*ucfg.Config, error) {
			var c *ucfg.Config
			err := uc.Safe("NewFrom", func() error {
				v, e := hist.StructRepr(t, build, used)
				if e != nil {
					return e
				}
				c, e = ucfg.NewFrom(v, build...)
				return e
			})
			return c, err
		}
		used := map[string]int{}
		a3, err := mkS(pc.A, used)
		if err != nil {
			return fmt.Errorf("NewFrom(A in struct representations): %v", err)
		}
		b3, err := mkS(pc.B, used)
		if err != nil {
			return fmt.Errorf("NewFrom(B in struct representations): %v", err)
		}
		if err := checkFlattened(a3, la, opts); err != nil {
			return fmt.Errorf("A3 (A in Go struct representations): %v", err)
		}
		if err := checkFlattened(b3, lb, opts); err != nil {
			return fmt.Errorf("B3 (B in Go struct representations): %v", err)
		}
		if err := checkDiff(a, a3, la, la, opts); err != nil {
			return fmt.Errorf("A -> A3 (the same settings in Go struct representations): %v", err)
		}
		if err := checkDiff(a3, b3, la, lb, opts); err != nil {
			return fmt.Errorf("A3 -> B3: %v", err)
		}
		r.Class("a configuration built from Go struct representations")
		r.ClassIf(used["list with struct elements"]+used["[]T of structs"]+used["[N]T of structs"]+used["[]*T of structs"] > 0, "a configuration with a list whose elements are Go structs")
		r.ClassIf(used["map of structs"] > 0, "a configuration with a map of Go structs")
	}
	sa, sb := set(la), set(lb)
	common, onlyA, onlyB := 0, 0, 0
	for k := range sa {
		if sb[k] {
			common++
		} else {
			onlyA++
		}
	}
	for k := range sb {
		if !sa[k] {
			onlyB++
		}
	}
	r.NonTrivialIf(common > 0 && (onlyA > 0 || onlyB > 0))
	r.ClassIf(common > 0, "kept paths")
	r.ClassIf(onlyA > 0, "removed paths")
	r.ClassIf(onlyB > 0, "added paths")
	r.ClassIf(onlyA == 0 && onlyB == 0, "equal key sets")
	r.ClassIf(pc.A.K == "list" || pc.B.K == "list", "top-level list")
	return nil
}

var subPairs = runlog.Register(&runlog.Sub[PairCase]{
	Name: "diff-pairs",
	Rule: "pairs (A, B) of random trees without references, every node a dictionary or a list, B an edited copy of A (children dropped, replaced, added; 3 of 4 cases) or independent: FlattenedKeys of each equals the model's non-nil primitive paths; CompareConfigs(A,B) and (B,A) put every path in exactly the right one of Keep/Add/Remove; CompareConfigs(A, equal copy) and (A, A) report no change. With PathSep each of A and B is also written a second way (A2, B2: part of the structure spelled in dotted keys, list indices in any integer syntax, nil padding left out): FlattenedKeys(A2) equals the same plain decimal paths, CompareConfigs(A, A2) reports no change, CompareConfigs(A2, B2) and (B2, A) partition like (A, B) and (B, A). In 1 of 3 cases A and B are also built a third way (A3, B3: NewFrom of Go struct representations: structs by value and pointer with interface{} or concretely typed fields, []T / [N]T / []*T and map[string]T / map[string]*T of structs, nested): FlattenedKeys(A3) equals the same paths, CompareConfigs(A, A3) reports no change, CompareConfigs(A3, B3) partitions like (A, B). In 3 of 4 cases every FlattenedKeys and CompareConfigs call above is given a READ OPTION LIST that is independent of the options the configurations were built with (as in positional-histories: PathSep(s) with one of 21 separators or no PathSep, alone or with 1-3 other options before / after it): the expected paths are the same positions joined with s. Non-trivial: the two key sets share a path and differ in one. Distinct: hash of the case.",
	Gen:  genPair,
	Run:  runPair,
})

func TestDiffPairs(t *testing.T) { subPairs.Check(t, 30000, 1500000) }

func TestReplay(t *testing.T) { runlog.ReplayMain(t) }
