package c15

// The read side: the options FlattenedKeys and diff.CompareConfigs are CALLED
// with are a dimension of their own, independent of the options a
// configuration was written with. The statement does not condition
// FlattenedKeys / CompareConfigs on options, so under every option list the
// answer is the same set of positions, joined with the separator the caller
// asked for (the one thing FlattenedKeys takes from its options for
// configurations without references; "." if no PathSep is given), and
// CompareConfigs(old, new, opts...) partitions exactly
// old.FlattenedKeys(opts...) and new.FlattenedKeys(opts...).

import (
	"fmt"
	"strings"

	ucfg "github.com/elastic/go-ucfg"
	"pgregory.net/rapid"

	"verif/harness/internal/model"
	"verif/harness/internal/uc"
)

// ReadOpts is one option list for the reading calls.
type ReadOpts struct {
	// NoSep: no PathSep option at all (paths are joined with ".")
	NoSep bool `json:"nosep,omitempty"`
	// Sep is the separator given to PathSep. PathSep("") is the one value the documentation says nothing about
	// (FlattenedKeys without PathSep joins with "."): both "." and "" are accepted, whichever FlattenedKeys uses,
	// CompareConfigs has to use too.
	Sep string `json:"sep"`
	// Others: names of options (otherOptions) that say nothing about how positions are reported; they are put
	// around PathSep, which stands at position At among them
	Others []string `json:"others,omitempty"`
	At     int      `json:"at,omitempty"`
}

// readSeps: separators that sort before ".", between "." and the digits, between digits and letters, between
// upper and lower case, after the letters; of more than one byte, of more than one character, containing ".",
// white space; "." itself and "".
var readSeps = []string{"/", "::", "-", "~", ":", "_", "→", " ", "..", "|", "\\", "#", "./", "->", ".", "*", "\t", "", "$", "[", "%v"}

// otherOptions: options that do not say how positions are reported. None of them may change what FlattenedKeys
// and CompareConfigs answer for a configuration without references.
var otherOptions = map[string]func() ucfg.Option{
	"VarExp":            func() ucfg.Option { return ucfg.VarExp },
	"ResolveEnv":        func() ucfg.Option { return ucfg.ResolveEnv },
	"ResolveNOOP":       func() ucfg.Option { return ucfg.ResolveNOOP },
	"Env":               func() ucfg.Option { return ucfg.Env(ucfg.New()) },
	"EscapePath":        func() ucfg.Option { return ucfg.EscapePath() },
	"MaxIdx(0)":         func() ucfg.Option { return ucfg.MaxIdx(0) },
	"MaxIdx(100000)":    func() ucfg.Option { return ucfg.MaxIdx(100000) },
	"EnableNumKeys":     func() ucfg.Option { return ucfg.EnableNumKeys(true) },
	"MetaData":          func() ucfg.Option { return ucfg.MetaData(ucfg.Meta{Source: "src"}) },
	"ReplaceValues":     func() ucfg.Option { return ucfg.ReplaceValues },
	"ReplaceArrValues":  func() ucfg.Option { return ucfg.ReplaceArrValues },
	"AppendValues":      func() ucfg.Option { return ucfg.AppendValues },
	"PrependValues":     func() ucfg.Option { return ucfg.PrependValues },
	"StructTag":         func() ucfg.Option { return ucfg.StructTag("json") },
	"ValidatorTag":      func() ucfg.Option { return ucfg.ValidatorTag("v") },
	"FieldAppendValues": func() ucfg.Option { return ucfg.FieldAppendValues("l") },
}

var otherNames = []string{"VarExp", "MaxIdx(0)", "EscapePath", "ReplaceValues", "EnableNumKeys", "MetaData", "ResolveEnv", "AppendValues",
	"Env", "StructTag", "PrependValues", "MaxIdx(100000)", "ReplaceArrValues", "ResolveNOOP", "ValidatorTag", "FieldAppendValues"}

func genRead(t *rapid.T, label string) ReadOpts {
	var ro ReadOpts
	switch k := rapid.IntRange(0, 11).Draw(t, label+"sepkind"); {
	case k == 11:
		ro.NoSep = true
	default:
		ro.Sep = rapid.SampledFrom(readSeps).Draw(t, label+"sep")
	}
	n := 0
	if rapid.Bool().Draw(t, label+"withothers") || ro.NoSep {
		n = rapid.IntRange(1, 3).Draw(t, label+"nothers")
	}
	for i := 0; i < n; i++ {
		o := rapid.SampledFrom(otherNames).Draw(t, label+"other")
		dup := false
		for _, x := range ro.Others {
			dup = dup || x == o
		}
		if !dup {
			ro.Others = append(ro.Others, o)
		}
	}
	if len(ro.Others) > 0 && !ro.NoSep {
		// the far positions first: rapid prefers small numbers
		ro.At = len(ro.Others) - rapid.IntRange(0, len(ro.Others)).Draw(t, label+"at")
	}
	return ro
}

// Options builds the option list.
func (ro ReadOpts) Options() ([]ucfg.Option, error) {
	var opts []ucfg.Option
	for i := 0; i <= len(ro.Others); i++ {
		if i == ro.At && !ro.NoSep {
			opts = append(opts, ucfg.PathSep(ro.Sep))
		}
		if i < len(ro.Others) {
			mk := otherOptions[ro.Others[i]]
			if mk == nil {
				return nil, fmt.Errorf("harness: unknown option %q in the case", ro.Others[i])
			}
			opts = append(opts, mk())
		}
	}
	if !ro.NoSep && (ro.At < 0 || ro.At > len(ro.Others)) {
		return nil, fmt.Errorf("harness: PathSep at position %d of %d options", ro.At, len(ro.Others))
	}
	return opts, nil
}

func (ro ReadOpts) String() string {
	parts := append([]string{}, ro.Others...)
	if !ro.NoSep {
		at := ro.At
		if at < 0 || at > len(parts) {
			at = len(parts)
		}
		parts = append(parts[:at], append([]string{fmt.Sprintf("PathSep(%q)", ro.Sep)}, parts[at:]...)...)
	}
	return "[" + strings.Join(parts, ", ") + "]"
}

// sepClass is the label of the separator in the evidence.
func (ro ReadOpts) sepClass() string {
	if ro.NoSep {
		return "read options without PathSep"
	}
	return fmt.Sprintf("read options with PathSep(%q)", ro.Sep)
}

// joints reports whether a model has a setting below the top level (a path
// string with a joint: the only place a separator shows).
func joints(m *model.Node) bool {
	deep := false
	m.Walk(nil, func(p []model.Seg, n *model.Node) {
		if n.Kind == "prim" && len(p) > 1 {
			deep = true
		}
	})
	return deep
}

// reader answers the reading calls under one option list.
type reader struct {
	ro   ReadOpts
	opts []ucfg.Option
	// sep is the separator the answers have to be joined with; for PathSep("") it is fixed by the first
	// FlattenedKeys answer that tells "." and "" apart
	sep     string
	decided bool
}

func newReader(ro ReadOpts) (*reader, error) {
	opts, err := ro.Options()
	if err != nil {
		return nil, err
	}
	rd := &reader{ro: ro, opts: opts, sep: ".", decided: true}
	if !ro.NoSep {
		rd.sep = ro.Sep
		if ro.Sep == "" {
			rd.sep, rd.decided = ".", false
		}
	}
	return rd, nil
}

// flattened checks c.FlattenedKeys(opts...) against the model and returns the
// expected keys (sorted model paths of the non-nil primitives under the
// separator asked for).
func (rd *reader) flattened(c *ucfg.Config, m *model.Node) ([]string, error) {
	if !rd.decided {
		var keys []string
		if err := uc.Safe("FlattenedKeys", func() error { keys = c.FlattenedKeys(rd.opts...); return nil }); err != nil {
			return nil, err
		}
		dot, none := m.Leaves("."), m.Leaves("")
		switch {
		case sameKeys(dot, none): // no joint anywhere: nothing to tell apart yet
		case sameKeys(keys, none):
			rd.sep, rd.decided = "", true
		default:
			rd.sep, rd.decided = ".", true
		}
	}
	leaves := m.Leaves(rd.sep)
	if err := checkFlattened(c, leaves, rd.opts); err != nil {
		return nil, fmt.Errorf("called with the options %s: %v", rd.ro, err)
	}
	return leaves, nil
}

func (rd *reader) diff(old, new *ucfg.Config, oldLeaves, newLeaves []string) error {
	if hasDup(oldLeaves) || hasDup(newLeaves) {
		return nil // two settings share one path string under this separator: "partitions those paths" has no meaning
	}
	if err := checkDiff(old, new, oldLeaves, newLeaves, rd.opts); err != nil {
		return fmt.Errorf("called with the options %s: %v", rd.ro, err)
	}
	return nil
}
