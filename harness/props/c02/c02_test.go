// Package c02 decides property C02: variable expansion is late-bound
// substitution with a fixed lookup order.
package c02

import (
	"fmt"
	"reflect"
	"strings"
	"testing"

	ucfg "github.com/elastic/go-ucfg"
	"pgregory.net/rapid"

	"verif/harness/internal/canon"
	"verif/harness/internal/runlog"
	"verif/harness/internal/uc"
	"verif/harness/internal/vx"
)

// Case: the own tree is built by merging Layers in order (so a referenced
// setting may be defined before or after the referencing one and be redefined
// later); reads happen after every merge.
type Case struct {
	Layers    []*vx.Node `json:"layers"`
	Envs      []*vx.Node `json:"envs,omitempty"`
	Resolvers [][]vx.KV  `json:"resolvers,omitempty"`
	// Later: after all reads the surroundings change while the Option values (built once) stay the same: the
	// resolvers answer from other tables, settings are merged into the Env configs; then everything is read again
	Later *Later `json:"later,omitempty"`
	// ReadNoSep: the configuration is merged with PathSep(".") but read without a PathSep option (top-level names
	// and a child handle only): the names of references were bound when the strings were merged
	ReadNoSep bool `json:"read_nosep,omitempty"`
	// EnvOrder: the Env options of the reading calls, as indices into Envs in the order given; an index may occur
	// more than once (an Env config given again counts as added most recently). Empty: each once, in order.
	EnvOrder []int `json:"env_order,omitempty"`
	// Sep: the path separator of the case ("" = "."); every name in the case is spelled with it
	Sep string `json:"sep,omitempty"`
}

type Later struct {
	Resolvers [][]vx.KV  `json:"resolvers,omitempty"`
	EnvLayers []*vx.Node `json:"env_layers,omitempty"`
}

func genCase(t *rapid.T) Case {
	sep := rapid.SampledFrom([]string{"", "", "", "/", "->", "|"}).Draw(t, "sep")
	g := &vx.GCfg{Depth: runlog.Pick(2, 3), Names: vx.Names, NoDollar: runlog.IsOpen("D27"), EnvExprs: true, ResolverCfgs: true, Sep: sep}
	c := Case{Layers: []*vx.Node{g.GenRoot(t)}, Sep: sep}
	nl := rapid.IntRange(0, 2).Draw(t, "nlayers")
	for i := 0; i < nl; i++ {
		l := &vx.Node{K: "obj"}
		for _, k := range []string{"a", "b", "c", "d"} {
			if rapid.IntRange(0, 2).Draw(t, "redef"+k) == 0 {
				l.Put(k, g.GenLeaf(t, true))
			}
		}
		if rapid.IntRange(0, 3).Draw(t, "redefo") == 0 {
			o := &vx.Node{K: "obj"}
			o.Put(rapid.SampledFrom([]string{"x", "y"}).Draw(t, "okey"), g.GenLeaf(t, true))
			l.Put("o", o)
		}
		if rapid.IntRange(0, 3).Draw(t, "redefl") == 0 {
			l.Put("l", &vx.Node{K: "list", Vals: []*vx.Node{g.GenLeaf(t, true)}})
		}
		c.Layers = append(c.Layers, l)
	}
	for i, n := 0, rapid.IntRange(0, 3).Draw(t, "nenv"); i < n; i++ {
		c.Envs = append(c.Envs, g.GenEnv(t))
	}
	for i, n := 0, rapid.IntRange(0, 3).Draw(t, "nres"); i < n; i++ {
		c.Resolvers = append(c.Resolvers, g.GenResolver(t))
	}
	if len(c.Envs)+len(c.Resolvers) > 0 && rapid.IntRange(0, 2).Draw(t, "later") == 0 {
		c.Later = &Later{}
		for range c.Resolvers {
			c.Later.Resolvers = append(c.Later.Resolvers, g.GenResolver(t))
		}
		for range c.Envs {
			c.Later.EnvLayers = append(c.Later.EnvLayers, g.GenEnvLayer(t))
		}
	}
	c.ReadNoSep = rapid.IntRange(0, 3).Draw(t, "readnosep") == 0
	if len(c.Envs) >= 2 && rapid.IntRange(0, 2).Draw(t, "envorder") == 0 {
		n := rapid.IntRange(len(c.Envs), len(c.Envs)+2).Draw(t, "nenvopts")
		for i := 0; i < n; i++ {
			c.EnvOrder = append(c.EnvOrder, rapid.IntRange(0, len(c.Envs)-1).Draw(t, "envidx"))
		}
	}
	if rapid.IntRange(0, 7).Draw(t, "samename") == 0 {
		// the same name computed in the own tree and in an Env config, both reached within one read: each
		// reference is looked up in the tree the referencing setting lives in first
		ref := func(n string) vx.Part { return vx.Part{IsVar: true, Name: []vx.Part{{Lit: n}}} }
		env := g.GenEnv(t)
		h := rapid.SampledFrom([]string{"e1", "both"}).Draw(t, "h")
		env.Put("a", &vx.Node{K: "expr", Expr: []vx.Part{{Lit: rapid.SampledFrom([]string{"E", "env-", "9"}).Draw(t, "el")}, ref(rapid.SampledFrom([]string{"zz", "both", "e2", "r1"}).Draw(t, "er"))}})
		env.Put(h, &vx.Node{K: "expr", Expr: []vx.Part{ref("a")}})
		env.Put("zz", &vx.Node{K: "str", S: "z"})
		if h != "both" {
			env.Put("both", &vx.Node{K: "uint", U: 3})
		}
		c.Envs = append(c.Envs, env)
		parts := []vx.Part{ref("a"), {Lit: ":"}, ref(h)}
		if rapid.Bool().Draw(t, "rev") {
			parts = []vx.Part{ref(h), {Lit: ":"}, ref("a")}
		}
		c.Layers[0].Put(rapid.SampledFrom([]string{"b", "c", "d"}).Draw(t, "k"), &vx.Node{K: "expr", Expr: parts})
		if c.Layers[0].Get("a") == nil || rapid.Bool().Draw(t, "owna") {
			c.Layers[0].Put("a", &vx.Node{K: "expr", Expr: []vx.Part{{Lit: "own"}, ref(rapid.SampledFrom([]string{"p", "b", "zz", "e2"}).Draw(t, "ar"))}})
		}
	}
	// evaluation has no memo: bound the work of a case (see vx.Lighten)
	trees := append(append([]*vx.Node{}, c.Layers...), c.Envs...)
	if c.Later != nil {
		trees = append(trees, c.Later.EnvLayers...)
	}
	vx.Lighten(20000, trees...)
	return c
}

func unpackField(c *ucfg.Config, key string, opts []ucfg.Option) (interface{}, error) {
	typ := reflect.StructOf([]reflect.StructField{{Name: "V", Type: reflect.TypeOf((*interface{})(nil)).Elem(), Tag: reflect.StructTag(fmt.Sprintf(`config:"%s"`, key))}})
	out := reflect.New(typ)
	err := uc.Safe("Unpack", func() error { return c.Unpack(out.Interface(), opts...) })
	return out.Elem().Field(0).Interface(), err
}

// check compares one read with the model's verdict.
func check(what string, got interface{}, gerr error, want interface{}, werr error, ambiguousAlt bool) error {
	if werr != nil {
		if gerr == nil {
			if ambiguousAlt {
				return nil
			}
			return fmt.Errorf("%s: the model fails with %q but the library returned %s", what, werr, canon.Show(got))
		}
		if terr := vx.Typed(what, gerr); terr != nil {
			return terr
		}
		if m, ok := werr.(*vx.ErrMsg); ok && m.Msg != "" && !carries(gerr, m.Msg) {
			return fmt.Errorf("%s: ${x:?%s} failed without carrying its message: %v", what, m.Msg, gerr)
		}
		return nil
	}
	if gerr != nil {
		if ambiguousAlt {
			return nil
		}
		return fmt.Errorf("%s: the model yields %s but the library failed: %v", what, canon.Show(want), gerr)
	}
	if !canon.EqualData(got, want) {
		if ambiguousAlt {
			return nil
		}
		return fmt.Errorf("%s: got %s, want %s", what, canon.Show(got), canon.Show(want))
	}
	return nil
}

// carries reports whether the error or one of its reasons mentions msg.
func carries(err error, msg string) bool {
	for i := 0; err != nil && i < 20; i++ {
		if strings.Contains(err.Error(), msg) {
			return true
		}
		e, ok := err.(ucfg.Error)
		if !ok || e.Reason() == err {
			return false
		}
		err = e.Reason()
	}
	return false
}

// altOnEmpty reports whether the tree contains ${x:+a}: "set" is ambiguous in
// the statement when x is the empty string (reading decision 4); both
// outcomes are accepted when such an operator meets an empty value.
func altOnEmpty(root *vx.Node) bool {
	return root.AnyPart(func(p *vx.Part) bool { return p.IsVar && p.Op == ":+" })
}

func hasEmptyWorld(w *vx.World, root *vx.Node) bool {
	return hasEmpty(Case{Envs: w.Envs, Resolvers: w.Resolvers}, root)
}

func hasEmpty(c Case, root *vx.Node) bool {
	found := false
	var walk func(n *vx.Node)
	walk = func(n *vx.Node) {
		if n.K == "str" && n.S == "" {
			found = true
		}
		for _, v := range n.Vals {
			walk(v)
		}
	}
	walk(root)
	for _, e := range c.Envs {
		walk(e)
	}
	for _, r := range c.Resolvers {
		for _, kv := range r {
			if kv.V == "" {
				found = true
			}
		}
	}
	return found
}

// earlyBound recognises the class of finding D50: the layer assigns to a
// setting such that old and new value may both evaluate to nil or a container
// and at least one of them is an expression (which Merge then evaluates).
func earlyBound(old, layer *vx.Node) bool {
	if old == nil {
		return false
	}
	// either side may evaluate to nil or a container when it is nil, a container or an expression
	oldMay := old.K == "nil" || old.K == "obj" || old.K == "list" || old.K == "expr"
	newMay := layer.K == "nil" || layer.K == "obj" || layer.K == "list" || layer.K == "expr"
	if (layer.K == "expr" || old.K == "expr") && oldMay && newMay {
		return true
	}
	if old.K == "obj" && layer.K == "obj" {
		for i, k := range layer.Keys {
			if earlyBound(old.Get(k), layer.Vals[i]) {
				return true
			}
		}
	}
	if old.K == "list" && layer.K == "list" {
		for i, v := range layer.Vals {
			if i < len(old.Vals) && earlyBound(old.Vals[i], v) {
				return true
			}
		}
	}
	return false
}

func runCase(c Case, r *runlog.R) error {
	live, err := vx.OptionsLiveSep(c.Envs, c.Resolvers, c.Sep)
	if err != nil {
		return err
	}
	opts := live.Opts
	readOpts := opts
	if c.ReadNoSep {
		readOpts = live.NoSep()
	}
	// the Env options of the reads, in the order the case gives (every Env config at least once)
	ordered := func(envs []*vx.Node) []*vx.Node { return envs }
	if len(c.EnvOrder) > 0 {
		order := append([]int(nil), c.EnvOrder...)
		for i := range c.Envs {
			seen := false
			for _, o := range order {
				seen = seen || o == i
			}
			if !seen {
				order = append(order, i)
			}
		}
		readOpts = live.WithEnvOrder(order, c.ReadNoSep)
		ordered = func(envs []*vx.Node) []*vx.Node {
			var out []*vx.Node
			for _, i := range order {
				if i >= 0 && i < len(envs) {
					out = append(out, envs[i])
				}
			}
			return out
		}
		r.Class("Env options in a generated order, some given twice")
	}
	cfg := ucfg.New()
	var root *vx.Node
	nt := false
	for li, layer := range c.Layers {
		if li > 0 && earlyBound(root, layer) {
			r.Class("class of D50: reference merged with nil/container")
			if runlog.IsOpen("D50") {
				// open finding D50: Merge evaluates a reference at merge time when both sides evaluate to
				// objects, lists or nil; constructed away: the remaining layers of this case are not merged
				r.Excluded("D50")
				break
			}
		}
		if err := uc.Safe("Merge", func() error { return cfg.Merge(layer.Go(), opts...) }); err != nil {
			return fmt.Errorf("merging layer %d failed: %v", li, err)
		}
		if root == nil {
			root = layer.Clone()
		} else {
			root = vx.MergeModel(root, layer)
		}
		w := &vx.World{Root: root, Envs: ordered(c.Envs), Resolvers: c.Resolvers, Sep: c.Sep}
		n, err := readAll(fmt.Sprintf("after layer %d", li), c, cfg, root, w, readOpts, li > 0, r)
		if err != nil {
			return err
		}
		nt = nt || n
		r.ClassIf(li > 0, "read after a later merge")
	}
	if c.Later != nil && root != nil {
		// the surroundings change, the Option values stay: every read yields the CURRENT values
		envs := append([]*vx.Node(nil), c.Envs...)
		for i, l := range c.Later.EnvLayers {
			if i >= len(envs) || l == nil || len(l.Keys) == 0 {
				continue
			}
			if err := uc.Safe("Merge", func() error { return live.EnvCfgs[i].Merge(l.Go(), ucfg.PathSep(live.Sep), ucfg.VarExp) }); err != nil {
				return fmt.Errorf("merging into Env config %d failed: %v", i, err)
			}
			envs[i] = vx.MergeModel(envs[i].Clone(), l)
		}
		for i, t := range c.Later.Resolvers {
			if i < len(live.Tables) {
				live.Tables[i] = t
			}
		}
		w := &vx.World{Root: root, Envs: ordered(envs), Resolvers: live.Tables, Sep: c.Sep}
		n, err := readAll("after the resolvers' answers and the Env configs changed (same Option values)", c, cfg, root, w, readOpts, true, r)
		if err != nil {
			return err
		}
		nt = nt || n
		r.Class("read again after resolvers and Env configs changed")
	}
	r.ClassIf(c.ReadNoSep, "merged with PathSep, read without")
	r.ClassIf(c.Sep != "" && c.Sep != ".", "path separator other than '.'")
	r.NonTrivialIf(nt)
	return nil
}

// readAll reads every setting through Unpack, the String getter and a child handle and compares with the model.
func readAll(when string, c Case, cfg *ucfg.Config, root *vx.Node, w *vx.World, opts []ucfg.Option, later bool, r *runlog.R) (bool, error) {
	nt := false
	amb := altOnEmpty(root) && hasEmptyWorld(w, root)
	for i, k := range root.Keys {
		setting := root.Vals[i]
		w.Reset()
		want, werr := w.Eval(setting)
		if w.SawCycle {
			r.Class("field read re-enters a reference (left to C08)")
			continue
		}
		if c.ReadNoSep && w.ComputedDotted {
			r.Class("computed dotted name read without PathSep (not asserted)")
			continue
		}
		if w.ThroughExpr {
			r.Class("name leads through an expression (lookups in evaluated values are not modelled)")
			continue
		}
		got, gerr := unpackField(cfg, k, opts)
		if err := check(fmt.Sprintf("%s: Unpack of %q", when, k), got, gerr, want, werr, amb); err != nil {
			return false, err
		}
		if w.FromEnv || w.FromResolver || w.LeftUnset || w.Shadowed || later {
			nt = true
		}
		r.ClassIf(w.FromEnv, "name found in an Env config")
		r.ClassIf(w.FromResolver, "name provided by a resolver")
		r.ClassIf(w.LeftUnset, "operator with unset/empty left side")
		r.ClassIf(w.Shadowed, "name present in several layers")
		r.ClassIf(werr != nil, "model: read fails")
		r.ClassIf(werr == nil, "model: read succeeds")
		// typed getter
		if setting.K != "obj" && setting.K != "list" {
			w.Reset()
			ws, wserr := w.EvalString(setting)
			if !w.SawCycle && !w.ThroughExpr {
				var gs string
				var gserr error
				e := uc.Safe("String", func() error { gs, gserr = cfg.String(k, -1, opts...); return nil })
				if e != nil {
					return false, e
				}
				if err := check(fmt.Sprintf("%s: String(%q)", when, k), gs, gserr, ws, wserr, amb); err != nil {
					return false, err
				}
			}
		}
	}
	// through a child handle: o.x / o.y are read relative to the child, references still resolve from the root
	if o := root.Get("o"); o != nil && o.K == "obj" {
		var child *ucfg.Config
		var cerr error
		if e := uc.Safe("Child", func() error { child, cerr = cfg.Child("o", -1, opts...); return nil }); e != nil {
			return false, e
		}
		if cerr != nil {
			return false, fmt.Errorf("%s: Child(\"o\") failed: %v", when, cerr)
		}
		for i, k := range o.Keys {
			w.Reset()
			want, werr := w.Eval(o.Vals[i])
			if w.SawCycle || w.ThroughExpr || (c.ReadNoSep && w.ComputedDotted) {
				continue
			}
			got, gerr := unpackField(child, k, opts)
			if err := check(fmt.Sprintf("%s: Unpack of %q through the child handle of \"o\"", when, k), got, gerr, want, werr, amb); err != nil {
				return false, err
			}
			r.Class("read through a child handle")
		}
	}
	return nt, nil
}

var subExpand = runlog.Register(&runlog.Sub[Case]{
	Name: "expansion-model",
	Rule: "own tree built by merging 1-3 layers (settings a-d, object o{x,y}, list l; later layers redefine settings), 0-3 Env configs (whose values may be expressions themselves, evaluated with the Env config as their own tree; one case in eight plants the same name computed in the own tree and in an Env config and reaches both in one read), 0-3 resolvers; string leaves are rendered expression ASTs (literals incl. $ } : { , references, nested names, : :+ :? operators, escapes) over a pool of 16 names placed in the own tree, in Env configs, in resolvers, in several layers or nowhere. After every merge each setting is read through Unpack (interface{} field), the String getter and a child handle and compared with the reference evaluator (value, typed pass-through of single references, error for unresolved names, message of :?). Reads that re-enter a reference are left to C08. Non-trivial: a read resolves a name outside the first layer consulted, meets an operator with unset/empty left side, finds a name present in several layers, or happens after a later merge. Distinct: hash of the case.",
	Gen:  genCase,
	Run:  runCase,
})

func TestExpansionModel(t *testing.T) { subExpand.Check(t, 80000, 4000000) }

func TestReplay(t *testing.T) { runlog.ReplayMain(t) }
