// Package c02 decides property C02: variable expansion is late-bound
// substitution with a fixed lookup order.
package c02

import (
	"fmt"
	"os"
	"reflect"
	"strings"
	"testing"

	ucfg "github.com/elastic/go-ucfg"
	"github.com/elastic/go-ucfg/parse"
	"pgregory.net/rapid"

	"verif/harness/internal/canon"
	"verif/harness/internal/runlog"
	"verif/harness/internal/uc"
	"verif/harness/internal/vx"
)

// Case: the own tree is built by merging Layers in order (so a referenced
// setting may be defined before or after the referencing one and be redefined
// later); reads happen after every merge.
type Case struct {
	Layers    []*vx.Node `json:"layers"`
	Envs      []*vx.Node `json:"envs,omitempty"`
	Resolvers [][]vx.KV  `json:"resolvers,omitempty"`
	// Later: after all reads the surroundings change while the Option values (built once) stay the same: the
	// resolvers answer from other tables, settings are merged into the Env configs; then everything is read again
	Later *Later `json:"later,omitempty"`
	// ReadNoSep: the configuration is merged with PathSep(".") but read without a PathSep option (top-level names
	// and a child handle only): the names of references were bound when the strings were merged
	ReadNoSep bool `json:"read_nosep,omitempty"`
	// EnvOrder: the Env options of the reading calls, as indices into Envs in the order given; an index may occur
	// more than once (an Env config given again counts as added most recently). Empty: each once, in order.
	EnvOrder []int `json:"env_order,omitempty"`
	// Sep: the path separator of the case ("" = "."); every name in the case is spelled with it
	Sep string `json:"sep,omitempty"`
	// ResOrder: the resolver options of every call, in the order given: i >= 0 is the Resolve option of table i
	// (an index may occur more than once: the same Option value given again, or not at all), -1 is ResolveEnv
	// (the process environment, see EnvVars). Empty: Resolve(table 0), Resolve(table 1), ... and no ResolveEnv.
	ResOrder []int `json:"res_order,omitempty"`
	// EnvVars: variables of the process environment while the case runs (set before the first merge, removed at
	// the end); a variable with an empty value counts as unset (documented behaviour of ResolveEnv)
	EnvVars []vx.KV `json:"env_vars,omitempty"`
	// OptLayout: where the options stand in the option list of every call. bit 0: the resolver options stand
	// before the Env options; bit 1: PathSep and VarExp stand at the end of the list instead of the front
	OptLayout int `json:"opt_layout,omitempty"`
}

type Later struct {
	Resolvers [][]vx.KV  `json:"resolvers,omitempty"`
	EnvLayers []*vx.Node `json:"env_layers,omitempty"`
	// EnvVars: the process environment after the change (replaces Case.EnvVars completely)
	EnvVars []vx.KV `json:"env_vars,omitempty"`
	// SetEnvVars: false = the process environment stays as it is
	SetEnvVars bool `json:"set_env_vars,omitempty"`
}

// envResolver marks ResolveEnv in Case.ResOrder.
const envResolver = -1

func genCase(t *rapid.T) Case {
	sep := rapid.SampledFrom([]string{"", "", "", "/", "->", "|"}).Draw(t, "sep")
	g := &vx.GCfg{Depth: runlog.Pick(2, 3), Names: vx.Names, NoDollar: runlog.IsOpen("D27"), EnvExprs: true, ResolverCfgs: true, Sep: sep}
	c := Case{Layers: []*vx.Node{g.GenRoot(t)}, Sep: sep}
	nl := rapid.IntRange(0, 2).Draw(t, "nlayers")
	for i := 0; i < nl; i++ {
		l := &vx.Node{K: "obj"}
		for _, k := range []string{"a", "b", "c", "d"} {
			if rapid.IntRange(0, 2).Draw(t, "redef"+k) == 0 {
				l.Put(k, g.GenLeaf(t, true))
			}
		}
		if rapid.IntRange(0, 3).Draw(t, "redefo") == 0 {
			o := &vx.Node{K: "obj"}
			o.Put(rapid.SampledFrom([]string{"x", "y"}).Draw(t, "okey"), g.GenLeaf(t, true))
			l.Put("o", o)
		}
		if rapid.IntRange(0, 3).Draw(t, "redefl") == 0 {
			l.Put("l", &vx.Node{K: "list", Vals: []*vx.Node{g.GenLeaf(t, true)}})
		}
		c.Layers = append(c.Layers, l)
	}
	for i, n := 0, rapid.IntRange(0, 3).Draw(t, "nenv"); i < n; i++ {
		c.Envs = append(c.Envs, g.GenEnv(t))
	}
	for i, n := 0, rapid.IntRange(0, 3).Draw(t, "nres"); i < n; i++ {
		c.Resolvers = append(c.Resolvers, g.GenResolver(t))
	}
	// the kinds and the order of the resolver options: ResolveEnv (the process environment) stands anywhere among
	// the Resolve options, a Resolve option may be given again (it then counts as added most recently) or be left out
	if rapid.IntRange(0, 2).Draw(t, "reskinds") == 0 {
		for i := range c.Resolvers {
			c.ResOrder = append(c.ResOrder, i)
		}
		for i, n := 0, rapid.SampledFrom([]int{1, 1, 1, 2}).Draw(t, "nresenv"); i < n; i++ {
			at := rapid.IntRange(0, len(c.ResOrder)).Draw(t, "resenvat")
			c.ResOrder = append(c.ResOrder[:at], append([]int{envResolver}, c.ResOrder[at:]...)...)
		}
		if len(c.Resolvers) > 0 && rapid.IntRange(0, 3).Draw(t, "resagain") == 0 {
			c.ResOrder = append(c.ResOrder, rapid.IntRange(0, len(c.Resolvers)-1).Draw(t, "residx"))
		}
		if len(c.Resolvers) > 1 && rapid.IntRange(0, 7).Draw(t, "resdrop") == 0 {
			at := rapid.IntRange(0, len(c.ResOrder)-1).Draw(t, "resdropat")
			if c.ResOrder[at] != envResolver {
				c.ResOrder = append(c.ResOrder[:at], c.ResOrder[at+1:]...)
			}
		}
		c.EnvVars = genEnvVars(t, sep)
	}
	c.OptLayout = rapid.SampledFrom([]int{0, 0, 0, 1, 2, 3}).Draw(t, "optlayout")
	if len(c.Envs)+len(c.Resolvers)+len(c.ResOrder) > 0 && rapid.IntRange(0, 2).Draw(t, "later") == 0 {
		c.Later = &Later{}
		for range c.Resolvers {
			c.Later.Resolvers = append(c.Later.Resolvers, g.GenResolver(t))
		}
		for range c.Envs {
			c.Later.EnvLayers = append(c.Later.EnvLayers, g.GenEnvLayer(t))
		}
		if len(c.ResOrder) > 0 && rapid.IntRange(0, 3).Draw(t, "laterenvvars") > 0 {
			c.Later.SetEnvVars = true
			c.Later.EnvVars = genEnvVars(t, sep)
		}
	}
	c.ReadNoSep = rapid.IntRange(0, 3).Draw(t, "readnosep") == 0
	if len(c.Envs) >= 2 && rapid.IntRange(0, 2).Draw(t, "envorder") == 0 {
		n := rapid.IntRange(len(c.Envs), len(c.Envs)+2).Draw(t, "nenvopts")
		for i := 0; i < n; i++ {
			c.EnvOrder = append(c.EnvOrder, rapid.IntRange(0, len(c.Envs)-1).Draw(t, "envidx"))
		}
	}
	if rapid.IntRange(0, 7).Draw(t, "samename") == 0 {
		// the same name computed in the own tree and in an Env config, both reached within one read: each
		// reference is looked up in the tree the referencing setting lives in first
		ref := func(n string) vx.Part { return vx.Part{IsVar: true, Name: []vx.Part{{Lit: n}}} }
		env := g.GenEnv(t)
		h := rapid.SampledFrom([]string{"e1", "both"}).Draw(t, "h")
		env.Put("a", &vx.Node{K: "expr", Expr: []vx.Part{{Lit: rapid.SampledFrom([]string{"E", "env-", "9"}).Draw(t, "el")}, ref(rapid.SampledFrom([]string{"zz", "both", "e2", "r1"}).Draw(t, "er"))}})
		env.Put(h, &vx.Node{K: "expr", Expr: []vx.Part{ref("a")}})
		env.Put("zz", &vx.Node{K: "str", S: "z"})
		if h != "both" {
			env.Put("both", &vx.Node{K: "uint", U: 3})
		}
		c.Envs = append(c.Envs, env)
		parts := []vx.Part{ref("a"), {Lit: ":"}, ref(h)}
		if rapid.Bool().Draw(t, "rev") {
			parts = []vx.Part{ref(h), {Lit: ":"}, ref("a")}
		}
		c.Layers[0].Put(rapid.SampledFrom([]string{"b", "c", "d"}).Draw(t, "k"), &vx.Node{K: "expr", Expr: parts})
		if c.Layers[0].Get("a") == nil || rapid.Bool().Draw(t, "owna") {
			c.Layers[0].Put("a", &vx.Node{K: "expr", Expr: []vx.Part{{Lit: "own"}, ref(rapid.SampledFrom([]string{"p", "b", "zz", "e2"}).Draw(t, "ar"))}})
		}
	}
	// evaluation has no memo: bound the work of a case (see vx.Lighten)
	trees := append(append([]*vx.Node{}, c.Layers...), c.Envs...)
	if c.Later != nil {
		trees = append(trees, c.Later.EnvLayers...)
	}
	vx.Lighten(20000, trees...)
	// literal text that looks like syntax: ':' ':+' ':?' '+' '?' inside the text right of an operator and
	// outside of any expansion, where they are ordinary characters
	for _, tr := range trees {
		decorate(t, tr)
	}
	// what resolvers hand out is taken as it is: text that looks like a reference or an escape stays that text
	tables := append([][]vx.KV{}, c.Resolvers...)
	if c.Later != nil {
		tables = append(tables, c.Later.Resolvers...)
	}
	for _, tb := range tables {
		for i := range tb {
			if !g.NoDollar && rapid.IntRange(0, 7).Draw(t, "rawval") == 0 {
				tb[i].V = rapid.SampledFrom(rawVals).Draw(t, "rawv")
			}
		}
	}
	return c
}

// rawVals: answers of resolvers (and values of environment variables) that look like expansion syntax.
var rawVals = []string{"${r2}", "x:+y", "$$", "a$}b", "${zz:d}", "u://h:1/f:?q"}

var envVals = []string{"ev", "7", "", "p,q", "false", " e ", "{k: 1}", "-1", "${r2}", "x:+y", "s3cr,et,[x]", "'q'"}

// nm spells a name (given with ".") with the separator of the case.
func nm(sep, name string) string {
	if sep == "" || sep == "." {
		return name
	}
	return strings.ReplaceAll(name, ".", sep)
}

// genEnvVars draws variables of the process environment over the names the resolver tables use, names of own
// settings and of Env configs (which the trees shadow) and a three-segment name.
func genEnvVars(t *rapid.T, sep string) []vx.KV {
	var out []vx.KV
	for _, k := range []string{"r1", "r2", "both", "a", "zz", "o.x", "e1", "p.x.y"} {
		if rapid.IntRange(0, 2).Draw(t, "envvarhas") == 0 {
			out = append(out, vx.KV{K: nm(sep, k), V: rapid.SampledFrom(envVals).Draw(t, "envval"), C: 2})
		}
	}
	return out
}

// synLits: literal text made of the characters of the operator syntax. Right of an operator and outside of any
// expansion these are ordinary characters and have to come out as written.
var synLits = []string{":", ":+", ":?", "a:b", "+", "?", "::", ":+:?", "u://h:1/f:?q=a:+b", ":-", "k:+v", "\u00e9:?"}

// decorate inserts literal text from synLits into the expressions of a tree: at the top level of a string and
// into the right-hand sides of operators at every depth (never into names).
func decorate(t *rapid.T, n *vx.Node) {
	if n == nil {
		return
	}
	if n.K == "expr" {
		n.Expr = decorateParts(t, n.Expr, 5)
	}
	for _, v := range n.Vals {
		decorate(t, v)
	}
}

func decorateParts(t *rapid.T, ps []vx.Part, odds int) []vx.Part {
	out := append([]vx.Part(nil), ps...)
	if rapid.IntRange(0, odds).Draw(t, "synlit") == 0 {
		at := rapid.IntRange(0, len(out)).Draw(t, "synat")
		lit := vx.Part{Lit: rapid.SampledFrom(synLits).Draw(t, "syn")}
		out = append(out[:at], append([]vx.Part{lit}, out[at:]...)...)
	}
	for i := range out {
		if out[i].IsVar {
			out[i] = decorateVar(t, out[i])
		}
	}
	// adjacent literals are one literal
	var merged []vx.Part
	for _, p := range out {
		if !p.IsVar && len(merged) > 0 && !merged[len(merged)-1].IsVar {
			merged[len(merged)-1].Lit += p.Lit
			continue
		}
		if p.IsVar || p.Lit != "" {
			merged = append(merged, p)
		}
	}
	return merged
}

func decorateVar(t *rapid.T, p vx.Part) vx.Part {
	// names keep their text; expansions inside a computed name have right-hand sides of their own
	name := append([]vx.Part(nil), p.Name...)
	for i := range name {
		if name[i].IsVar {
			name[i] = decorateVar(t, name[i])
		}
	}
	p.Name = name
	if p.Op != "" {
		p.Right = decorateParts(t, p.Right, 3)
		// "${x:" followed by '+' or '?' would spell another operator: such a default starts with ':' instead
		if p.Op == ":" && len(p.Right) > 0 && !p.Right[0].IsVar && (strings.HasPrefix(p.Right[0].Lit, "+") || strings.HasPrefix(p.Right[0].Lit, "?")) {
			p.Right[0].Lit = ":" + p.Right[0].Lit
		}
	}
	return p
}

func unpackField(c *ucfg.Config, key string, opts []ucfg.Option) (interface{}, error) {
	typ := reflect.StructOf([]reflect.StructField{{Name: "V", Type: reflect.TypeOf((*interface{})(nil)).Elem(), Tag: reflect.StructTag(fmt.Sprintf(`config:"%s"`, key))}})
	out := reflect.New(typ)
	err := uc.Safe("Unpack", func() error { return c.Unpack(out.Interface(), opts...) })
	return out.Elem().Field(0).Interface(), err
}

// check compares one read with the model's verdict.
func check(what string, got interface{}, gerr error, want interface{}, werr error, ambiguousAlt bool) error {
	if werr != nil {
		if gerr == nil {
			if ambiguousAlt {
				return nil
			}
			return fmt.Errorf("%s: the model fails with %q but the library returned %s", what, werr, canon.Show(got))
		}
		if terr := vx.Typed(what, gerr); terr != nil {
			return terr
		}
		if m, ok := werr.(*vx.ErrMsg); ok && m.Msg != "" && !carries(gerr, m.Msg) {
			return fmt.Errorf("%s: ${x:?%s} failed without carrying its message: %v", what, m.Msg, gerr)
		}
		return nil
	}
	if gerr != nil {
		if ambiguousAlt {
			return nil
		}
		return fmt.Errorf("%s: the model yields %s but the library failed: %v", what, canon.Show(want), gerr)
	}
	if !canon.EqualData(got, want) {
		if ambiguousAlt {
			return nil
		}
		return fmt.Errorf("%s: got %s, want %s", what, canon.Show(got), canon.Show(want))
	}
	return nil
}

// carries reports whether the error or one of its reasons mentions msg.
func carries(err error, msg string) bool {
	for i := 0; err != nil && i < 20; i++ {
		if strings.Contains(err.Error(), msg) {
			return true
		}
		e, ok := err.(ucfg.Error)
		if !ok || e.Reason() == err {
			return false
		}
		err = e.Reason()
	}
	return false
}

// Finding D78 (repaired in /repo, 3856e01): a name of three or more segments that only a resolver knows is not
// looked up in the resolvers when the tree consulted last (the oldest Env config; the own tree when there is
// none) holds a primitive at the first segment: the read fails although the resolver knows the name; with
// two segments, or with one more (unrelated) Env config, the resolver answers. Strict by default; only while the
// finding were listed as open the class would be constructed away (environment variables with such names not set).
func nC021Open() bool { return runlog.IsOpen("D78") }

// dropDeep removes the variables whose names have three or more segments.
func dropDeep(vars []vx.KV, sep string) ([]vx.KV, bool) {
	if sep == "" {
		sep = "."
	}
	var out []vx.KV
	dropped := false
	for _, kv := range vars {
		if strings.Count(kv.K, sep) >= 2 {
			dropped = true
			continue
		}
		out = append(out, kv)
	}
	return out, dropped
}

func isErrMsg(err error) bool { _, ok := err.(*vx.ErrMsg); return ok }

// rightHasSyntaxText reports whether some right-hand side in the setting contains a ':' as literal text.
func rightHasSyntaxText(n *vx.Node) bool {
	return n.AnyPart(func(p *vx.Part) bool {
		if !p.IsVar || p.Op == "" {
			return false
		}
		for _, q := range p.Right {
			if !q.IsVar && strings.Contains(q.Lit, ":") {
				return true
			}
		}
		return false
	})
}

// altOnEmpty reports whether the tree contains ${x:+a}: "set" is ambiguous in
// the statement when x is the empty string (reading decision 4); both
// outcomes are accepted when such an operator meets an empty value.
func altOnEmpty(root *vx.Node) bool {
	return root.AnyPart(func(p *vx.Part) bool { return p.IsVar && p.Op == ":+" })
}

func hasEmptyWorld(w *vx.World, root *vx.Node) bool {
	return hasEmpty(Case{Envs: w.Envs, Resolvers: w.Resolvers}, root)
}

func hasEmpty(c Case, root *vx.Node) bool {
	found := false
	var walk func(n *vx.Node)
	walk = func(n *vx.Node) {
		if n.K == "str" && n.S == "" {
			found = true
		}
		for _, v := range n.Vals {
			walk(v)
		}
	}
	walk(root)
	for _, e := range c.Envs {
		walk(e)
	}
	for _, r := range c.Resolvers {
		for _, kv := range r {
			if kv.V == "" {
				found = true
			}
		}
	}
	return found
}

// earlyBound recognises the class of finding D50: the layer assigns to a
// setting such that old and new value may both evaluate to nil or a container
// and at least one of them is an expression (which Merge then evaluates).
func earlyBound(old, layer *vx.Node) bool {
	if old == nil {
		return false
	}
	// either side may evaluate to nil or a container when it is nil, a container or an expression
	oldMay := old.K == "nil" || old.K == "obj" || old.K == "list" || old.K == "expr"
	newMay := layer.K == "nil" || layer.K == "obj" || layer.K == "list" || layer.K == "expr"
	if (layer.K == "expr" || old.K == "expr") && oldMay && newMay {
		return true
	}
	if old.K == "obj" && layer.K == "obj" {
		for i, k := range layer.Keys {
			if earlyBound(old.Get(k), layer.Vals[i]) {
				return true
			}
		}
	}
	if old.K == "list" && layer.K == "list" {
		for i, v := range layer.Vals {
			if i < len(old.Vals) && earlyBound(old.Vals[i], v) {
				return true
			}
		}
	}
	return false
}

// resolverOpts: the resolver options of a call in the order of the case.
func (c Case) resolverOpts(live *vx.Live) []ucfg.Option {
	if len(c.ResOrder) == 0 {
		return live.ResOpts
	}
	var out []ucfg.Option
	for _, i := range c.ResOrder {
		switch {
		case i == envResolver:
			out = append(out, ucfg.ResolveEnv)
		case i >= 0 && i < len(live.ResOpts):
			out = append(out, live.ResOpts[i])
		}
	}
	return out
}

// options: the option list of a call. envOrder lists the Env options (nil: each once, in order).
func (c Case) options(live *vx.Live, envOrder []int, withSep bool) []ucfg.Option {
	var head, envs []ucfg.Option
	if withSep {
		head = append(head, ucfg.PathSep(live.Sep))
	}
	head = append(head, ucfg.VarExp)
	if envOrder == nil {
		envs = live.EnvOpts
	}
	for _, i := range envOrder {
		if i >= 0 && i < len(live.EnvOpts) {
			envs = append(envs, live.EnvOpts[i])
		}
	}
	res := c.resolverOpts(live)
	var body []ucfg.Option
	if c.OptLayout&1 != 0 {
		body = append(append(body, res...), envs...)
	} else {
		body = append(append(body, envs...), res...)
	}
	if c.OptLayout&2 != 0 {
		return append(body, head...)
	}
	return append(head, body...)
}

// envTable is the process environment as a resolver table: ResolveEnv answers with the value of the variable
// named like the reference and parse.EnvConfig; an empty value counts as unset. Variables the case did not set
// are part of the table as well (the model sees what the library sees).
func envTable(vars []vx.KV) []vx.KV {
	var out []vx.KV
	mine := map[string]bool{}
	for _, kv := range vars {
		mine[kv.K] = true
		if kv.V != "" {
			out = append(out, vx.KV{K: kv.K, V: kv.V, C: 2})
		}
	}
	for _, e := range ambientEnv {
		if i := strings.Index(e, "="); i > 0 && !mine[e[:i]] && e[i+1:] != "" {
			out = append(out, vx.KV{K: e[:i], V: e[i+1:], C: 2})
		}
	}
	return out
}

// ambientEnv: the process environment the worker was started with (cases restore it when they end).
var ambientEnv = os.Environ()

// modelResolvers: the resolver tables in the order the options of the case add them.
func (c Case) modelResolvers(tables [][]vx.KV, envVars []vx.KV) [][]vx.KV {
	if len(c.ResOrder) == 0 {
		return tables
	}
	var out [][]vx.KV
	for _, i := range c.ResOrder {
		switch {
		case i == envResolver:
			out = append(out, envTable(envVars))
		case i >= 0 && i < len(tables):
			out = append(out, tables[i])
		}
	}
	return out
}

// setEnv sets variables of the process environment and returns the function that restores the previous state.
func setEnv(vars []vx.KV) (func(), error) {
	type prev struct {
		k, v string
		had  bool
	}
	var old []prev
	restore := func() {
		for i := len(old) - 1; i >= 0; i-- {
			if old[i].had {
				os.Setenv(old[i].k, old[i].v)
			} else {
				os.Unsetenv(old[i].k)
			}
		}
	}
	for _, kv := range vars {
		v, had := os.LookupEnv(kv.K)
		old = append(old, prev{kv.K, v, had})
		if err := os.Setenv(kv.K, kv.V); err != nil {
			restore()
			return nil, fmt.Errorf("harness: setting the environment variable %q failed: %v", kv.K, err)
		}
	}
	return restore, nil
}

func (c Case) usesEnvResolver() bool {
	for _, i := range c.ResOrder {
		if i == envResolver {
			return true
		}
	}
	return false
}

func runCase(c Case, r *runlog.R) error {
	live, err := vx.OptionsLiveSep(c.Envs, c.Resolvers, c.Sep)
	if err != nil {
		return err
	}
	deep := false
	if c.usesEnvResolver() {
		var d1, d2 bool
		vars, d1 := dropDeep(c.EnvVars, c.Sep)
		var lvars []vx.KV
		if c.Later != nil {
			lvars, d2 = dropDeep(c.Later.EnvVars, c.Sep)
		}
		deep = d1 || d2
		r.ClassIf(deep, "a resolver knows a name of three segments (class of D78)")
		if deep && nC021Open() {
			r.Excluded("D78")
			c.EnvVars = vars
			if c.Later != nil {
				l := *c.Later
				l.EnvVars = lvars
				c.Later = &l
			}
		}
	}
	restore, err := setEnv(c.EnvVars)
	if err != nil {
		return err
	}
	defer func() { restore() }()
	opts := c.options(live, nil, true)
	readOpts := c.options(live, nil, !c.ReadNoSep)
	// the Env options of the reads, in the order the case gives (every Env config at least once)
	ordered := func(envs []*vx.Node) []*vx.Node { return envs }
	if len(c.EnvOrder) > 0 {
		order := append([]int(nil), c.EnvOrder...)
		for i := range c.Envs {
			seen := false
			for _, o := range order {
				seen = seen || o == i
			}
			if !seen {
				order = append(order, i)
			}
		}
		readOpts = c.options(live, order, !c.ReadNoSep)
		ordered = func(envs []*vx.Node) []*vx.Node {
			var out []*vx.Node
			for _, i := range order {
				if i >= 0 && i < len(envs) {
					out = append(out, envs[i])
				}
			}
			return out
		}
		r.Class("Env options in a generated order, some given twice")
	}
	r.ClassIf(c.usesEnvResolver(), "ResolveEnv among the resolver options")
	r.ClassIf(len(c.ResOrder) > 0 && c.ResOrder[len(c.ResOrder)-1] == envResolver && len(c.ResOrder) > 1, "ResolveEnv added after a Resolve option")
	r.ClassIf(c.OptLayout&1 != 0, "resolver options before the Env options")
	r.ClassIf(c.OptLayout&2 != 0, "PathSep/VarExp at the end of the option list")
	cfg := ucfg.New()
	var root *vx.Node
	nt := false
	for li, layer := range c.Layers {
		if li > 0 && earlyBound(root, layer) {
			r.Class("class of D50: reference merged with nil/container")
			if runlog.IsOpen("D50") {
				// open finding D50: Merge evaluates a reference at merge time when both sides evaluate to
				// objects, lists or nil; constructed away: the remaining layers of this case are not merged
				r.Excluded("D50")
				break
			}
		}
		if err := uc.Safe("Merge", func() error { return cfg.Merge(layer.Go(), opts...) }); err != nil {
			return fmt.Errorf("merging layer %d failed: %v", li, err)
		}
		if root == nil {
			root = layer.Clone()
		} else {
			root = vx.MergeModel(root, layer)
		}
		w := &vx.World{Root: root, Envs: ordered(c.Envs), Resolvers: c.modelResolvers(c.Resolvers, c.EnvVars), Sep: c.Sep}
		n, err := readAll(fmt.Sprintf("after layer %d", li), c, cfg, root, w, readOpts, li > 0, r)
		if err != nil {
			return err
		}
		nt = nt || n
		r.ClassIf(li > 0, "read after a later merge")
	}
	if c.Later != nil && root != nil {
		// the surroundings change, the Option values stay: every read yields the CURRENT values
		envs := append([]*vx.Node(nil), c.Envs...)
		for i, l := range c.Later.EnvLayers {
			if i >= len(envs) || l == nil || len(l.Keys) == 0 {
				continue
			}
			if err := uc.Safe("Merge", func() error { return live.EnvCfgs[i].Merge(l.Go(), ucfg.PathSep(live.Sep), ucfg.VarExp) }); err != nil {
				return fmt.Errorf("merging into Env config %d failed: %v", i, err)
			}
			envs[i] = vx.MergeModel(envs[i].Clone(), l)
		}
		for i, t := range c.Later.Resolvers {
			if i < len(live.Tables) {
				live.Tables[i] = t
			}
		}
		envVars := c.EnvVars
		if c.Later.SetEnvVars {
			// the process environment changes as well: the variables of the case are removed, others are set
			restore()
			if restore, err = setEnv(c.Later.EnvVars); err != nil {
				restore = func() {}
				return err
			}
			envVars = c.Later.EnvVars
			r.Class("read again after the process environment changed")
		}
		w := &vx.World{Root: root, Envs: ordered(envs), Resolvers: c.modelResolvers(live.Tables, envVars), Sep: c.Sep}
		n, err := readAll("after the resolvers' answers, the process environment and the Env configs changed (same Option values)", c, cfg, root, w, readOpts, true, r)
		if err != nil {
			return err
		}
		nt = nt || n
		r.Class("read again after resolvers and Env configs changed")
	}
	r.ClassIf(c.ReadNoSep, "merged with PathSep, read without")
	r.ClassIf(c.Sep != "" && c.Sep != ".", "path separator other than '.'")
	r.NonTrivialIf(nt)
	return nil
}

// readAll reads every setting through Unpack, the String getter and a child handle and compares with the model.
func readAll(when string, c Case, cfg *ucfg.Config, root *vx.Node, w *vx.World, opts []ucfg.Option, later bool, r *runlog.R) (bool, error) {
	nt := false
	amb := altOnEmpty(root) && hasEmptyWorld(w, root)
	for i, k := range root.Keys {
		setting := root.Vals[i]
		w.Reset()
		want, werr := w.Eval(setting)
		if w.SawCycle {
			r.Class("field read re-enters a reference (left to C08)")
			continue
		}
		if c.ReadNoSep && w.ComputedDotted {
			r.Class("computed dotted name read without PathSep (not asserted)")
			continue
		}
		if w.ThroughExpr {
			r.Class("name leads through an expression (lookups in evaluated values are not modelled)")
			continue
		}
		got, gerr := unpackField(cfg, k, opts)
		if err := check(fmt.Sprintf("%s: Unpack of %q", when, k), got, gerr, want, werr, amb); err != nil {
			return false, err
		}
		if w.FromEnv || w.FromResolver || w.LeftUnset || w.Shadowed || later {
			nt = true
		}
		r.ClassIf(w.FromEnv, "name found in an Env config")
		r.ClassIf(w.FromResolver, "name provided by a resolver")
		r.ClassIf(w.LeftUnset, "operator with unset/empty left side")
		r.ClassIf(w.Shadowed, "name present in several layers")
		r.ClassIf(werr != nil, "model: read fails")
		r.ClassIf(werr == nil, "model: read succeeds")
		if len(c.ResOrder) > 1 {
			// measure: would the read come out differently with the resolver options in the opposite order?
			rev := &vx.World{Root: w.Root, Envs: w.Envs, Sep: w.Sep}
			for i := len(w.Resolvers) - 1; i >= 0; i-- {
				rev.Resolvers = append(rev.Resolvers, w.Resolvers[i])
			}
			want2, werr2 := rev.Eval(setting)
			if !rev.SawCycle && ((werr == nil) != (werr2 == nil) || (werr == nil && !canon.EqualData(want, want2))) {
				r.Class("the order of the resolver options decides the read")
			}
		}
		if werr == nil || isErrMsg(werr) {
			r.ClassIf(rightHasSyntaxText(setting), "text right of an operator contains ':' ':+' ':?' (read asserted)")
		}
		// typed getter
		if setting.K != "obj" && setting.K != "list" {
			w.Reset()
			ws, wserr := w.EvalString(setting)
			if !w.SawCycle && !w.ThroughExpr {
				var gs string
				var gserr error
				e := uc.Safe("String", func() error { gs, gserr = cfg.String(k, -1, opts...); return nil })
				if e != nil {
					return false, e
				}
				if err := check(fmt.Sprintf("%s: String(%q)", when, k), gs, gserr, ws, wserr, amb); err != nil {
					return false, err
				}
			}
		}
	}
	// through a child handle: o.x / o.y are read relative to the child, references still resolve from the root
	if o := root.Get("o"); o != nil && o.K == "obj" {
		var child *ucfg.Config
		var cerr error
		if e := uc.Safe("Child", func() error { child, cerr = cfg.Child("o", -1, opts...); return nil }); e != nil {
			return false, e
		}
		if cerr != nil {
			return false, fmt.Errorf("%s: Child(\"o\") failed: %v", when, cerr)
		}
		for i, k := range o.Keys {
			w.Reset()
			want, werr := w.Eval(o.Vals[i])
			if w.SawCycle || w.ThroughExpr || (c.ReadNoSep && w.ComputedDotted) {
				continue
			}
			got, gerr := unpackField(child, k, opts)
			if err := check(fmt.Sprintf("%s: Unpack of %q through the child handle of \"o\"", when, k), got, gerr, want, werr, amb); err != nil {
				return false, err
			}
			r.Class("read through a child handle")
		}
	}
	return nt, nil
}

var subExpand = runlog.Register(&runlog.Sub[Case]{
	Name: "expansion-model",
	Rule: "own tree built by merging 1-3 layers (settings a-d, object o{x,y}, list l; later layers redefine settings), 0-3 Env configs (whose values may be expressions themselves, evaluated with the Env config as their own tree; one case in eight plants the same name computed in the own tree and in an Env config and reaches both in one read), 0-3 resolver callbacks; string leaves are rendered expression ASTs (literals incl. $ } : { , references, nested names, : :+ :? operators, escapes) over a pool of 18 names placed in the own tree, in Env configs, in resolvers, in several layers or nowhere. Literal text made of the operator characters (: :+ :? + ? :: :- and a URL with :? and :+) is inserted at the top level of strings and into the right-hand sides of operators at every depth, where it has to come out as written (default text, alternative text, message of :?). One case in three gives the resolver options in a generated order: ResolveEnv (variables of the process environment set for the case over the names r1 r2 both a zz o.x e1 p.x.y, some empty = unset) stands anywhere among the Resolve options, once or twice, a Resolve option may be given again or left out; the model orders its resolver tables alike (the environment is a table answering with parse.EnvConfig). Resolver answers and environment values include text that looks like a reference, an operator or an escape (handed out as it is). The option list of every call comes in one of four layouts (resolver options before or after the Env options, PathSep/VarExp in front or at the end). After every merge each setting is read through Unpack (interface{} field), the String getter and a child handle and compared with the reference evaluator (value, typed pass-through of single references, error for unresolved names, message of :?); then the resolvers' answers, the process environment and the Env configs change under the same Option values and everything is read again. Reads that re-enter a reference are left to C08. The class 'the order of the resolver options decides the read' counts reads whose model value changes when the resolver list is reversed. Non-trivial: a read resolves a name outside the first layer consulted, meets an operator with unset/empty left side, finds a name present in several layers, or happens after a later merge. Distinct: hash of the case.",
	Gen:  genCase,
	Run:  runCase,
})

func TestExpansionModel(t *testing.T) { subExpand.Check(t, 80000, 4000000) }

// ---------------------------------------------------------------------------
// resolver-kinds: every kind of resolver option in every order, decided by a direct oracle

// KindCase: one name, referenced by five settings, and a list of resolver options of all three kinds.
type KindCase struct {
	Name string `json:"name"`
	// Kinds: the resolver options of the calls in order: 0 / 1 = Resolve(callback A / B), -1 = ResolveEnv,
	// -2 = ResolveNOOP; a kind may occur more than once
	Kinds []int `json:"kinds"`
	// AHas/BHas: the callback knows the name (and answers AVal/BVal, never empty)
	AHas bool   `json:"a_has,omitempty"`
	BHas bool   `json:"b_has,omitempty"`
	AVal string `json:"a_val,omitempty"`
	BVal string `json:"b_val,omitempty"`
	// EnvVal: the value of the environment variable called Name ("" = not set)
	EnvVal string `json:"env_val,omitempty"`
	// Own / EnvCfg: the own tree / an Env config defines the name as well (then no resolver is asked)
	Own    bool `json:"own,omitempty"`
	EnvCfg bool `json:"env_cfg,omitempty"`
	// ResFirst: the resolver options stand before VarExp and the Env option
	ResFirst bool `json:"res_first,omitempty"`
}

const noopResolver = -2

func genKindCase(t *rapid.T) KindCase {
	c := KindCase{Name: rapid.SampledFrom([]string{"r1", "HOME_X", "o.x", "both"}).Draw(t, "name")}
	n := rapid.IntRange(1, 4).Draw(t, "nkinds")
	for i := 0; i < n; i++ {
		c.Kinds = append(c.Kinds, rapid.SampledFrom([]int{0, envResolver, noopResolver, 1}).Draw(t, "kind"))
	}
	vals := []string{"cb", "7", "x:+y", "${r2}", "p;q", "true", "a b"}
	if c.AHas = rapid.IntRange(0, 3).Draw(t, "ahas") > 0; c.AHas {
		c.AVal = "A-" + rapid.SampledFrom(vals).Draw(t, "aval")
	}
	if c.BHas = rapid.IntRange(0, 2).Draw(t, "bhas") > 0; c.BHas {
		c.BVal = "B-" + rapid.SampledFrom(vals).Draw(t, "bval")
	}
	if rapid.IntRange(0, 3).Draw(t, "envhas") > 0 {
		c.EnvVal = "E-" + rapid.SampledFrom(vals).Draw(t, "eval")
	}
	c.Own = rapid.IntRange(0, 7).Draw(t, "own") == 0
	c.EnvCfg = rapid.IntRange(0, 7).Draw(t, "envcfg") == 0
	c.ResFirst = rapid.IntRange(0, 3).Draw(t, "resfirst") == 0
	return c
}

// put sets a dotted name in a generic tree.
func put(m map[string]interface{}, name string, v interface{}) {
	segs := strings.Split(name, ".")
	for _, s := range segs[:len(segs)-1] {
		sub, ok := m[s].(map[string]interface{})
		if !ok {
			sub = map[string]interface{}{}
			m[s] = sub
		}
		m = sub
	}
	m[segs[len(segs)-1]] = v
}

func runKindCase(c KindCase, r *runlog.R) error {
	restore, err := setEnv([]vx.KV{{K: c.Name, V: c.EnvVal}})
	if err != nil {
		return err
	}
	defer restore()
	callback := func(has bool, val string) ucfg.Option {
		return ucfg.Resolve(func(name string) (string, parse.Config, error) {
			if has && name == c.Name {
				return val, parse.NoopConfig, nil
			}
			return "", parse.NoopConfig, ucfg.ErrMissing
		})
	}
	cbA, cbB := callback(c.AHas, c.AVal), callback(c.BHas, c.BVal)
	var res []ucfg.Option
	// the oracle: the own tree, then the Env config, then the resolvers from the most recently added one
	answer, found, by := "", false, ""
	for _, k := range c.Kinds {
		switch k {
		case 0:
			res = append(res, cbA)
		case 1:
			res = append(res, cbB)
		case envResolver:
			res = append(res, ucfg.ResolveEnv)
		case noopResolver:
			res = append(res, ucfg.ResolveNOOP)
		}
	}
	knowing := 0
	for i := len(c.Kinds) - 1; i >= 0; i-- {
		a, ok, who := "", false, ""
		switch c.Kinds[i] {
		case 0:
			a, ok, who = c.AVal, c.AHas, "a Resolve callback"
		case 1:
			a, ok, who = c.BVal, c.BHas, "a Resolve callback"
		case envResolver:
			a, ok, who = c.EnvVal, c.EnvVal != "", "ResolveEnv"
		case noopResolver:
			// documented: "will return the provided key wrapped with the field reference syntax"
			a, ok, who = "${"+c.Name+"}", true, "ResolveNOOP"
		}
		if ok {
			knowing++
			if !found {
				answer, found, by = a, true, who
			}
		}
	}
	base := []ucfg.Option{ucfg.PathSep("."), ucfg.VarExp}
	var opts []ucfg.Option
	if c.EnvCfg {
		tree := map[string]interface{}{}
		put(tree, c.Name, "from-env-config")
		ec, err := ucfg.NewFrom(tree, base...)
		if err != nil {
			return fmt.Errorf("building the Env config failed: %v", err)
		}
		opts = append(opts, ucfg.Env(ec))
		answer, found, by = "from-env-config", true, "the Env config"
	}
	if c.ResFirst {
		opts = append(append(append([]ucfg.Option{}, res...), base...), opts...)
	} else {
		opts = append(append(append([]ucfg.Option{}, base...), opts...), res...)
	}
	tree := map[string]interface{}{
		"sole":    "${" + c.Name + "}",
		"spliced": "v ${" + c.Name + "}!",
		"dflt":    "${" + c.Name + ":none}",
		"alt":     "${" + c.Name + ":+yes}",
		"req":     "${" + c.Name + ":?need it}",
	}
	if c.Own {
		put(tree, c.Name, "from-own-tree")
		answer, found, by = "from-own-tree", true, "the own tree"
	}
	cfg, err := ucfg.NewFrom(tree, opts...)
	if err != nil {
		return fmt.Errorf("NewFrom failed: %v", err)
	}
	type exp struct {
		key, want string
		fails     bool
	}
	exps := []exp{
		{"sole", answer, !found},
		{"spliced", "v " + answer + "!", !found},
		{"dflt", answer, false},
		{"alt", "yes", false},
		{"req", answer, !found},
	}
	if !found {
		exps[2].want = "none"
		exps[3].want = ""
	}
	var out struct {
		Sole    *string `config:"sole"`
		Spliced *string `config:"spliced"`
		Dflt    *string `config:"dflt"`
		Alt     *string `config:"alt"`
		Req     *string `config:"req"`
	}
	uerr := uc.Safe("Unpack", func() error { return cfg.Unpack(&out, opts...) })
	unpacked := map[string]*string{"sole": out.Sole, "spliced": out.Spliced, "dflt": out.Dflt, "alt": out.Alt, "req": out.Req}
	for _, e := range exps {
		var gs string
		var gerr error
		if err := uc.Safe("String", func() error { gs, gerr = cfg.String(e.key, -1, opts...); return nil }); err != nil {
			return err
		}
		what := fmt.Sprintf("String(%q) with the resolver options %v (expected to be answered by %s)", e.key, c.Kinds, by)
		if e.fails {
			if gerr == nil {
				return fmt.Errorf("%s: nothing knows the name, but the read returned %q", what, gs)
			}
			if terr := vx.Typed(what, gerr); terr != nil {
				return terr
			}
			if e.key == "req" && !carries(gerr, "need it") {
				return fmt.Errorf("%s: failed without carrying the message: %v", what, gerr)
			}
			continue
		}
		if gerr != nil {
			return fmt.Errorf("%s: failed: %v, want %q", what, gerr, e.want)
		}
		if gs != e.want {
			return fmt.Errorf("%s: got %q, want %q", what, gs, e.want)
		}
		if found && uerr == nil {
			if p := unpacked[e.key]; p == nil || *p != e.want {
				return fmt.Errorf("Unpack of %q into a string with the resolver options %v: got %v, want %q", e.key, c.Kinds, show(p), e.want)
			}
		}
	}
	if found && uerr != nil {
		return fmt.Errorf("Unpack with the resolver options %v failed although every setting resolves: %v", c.Kinds, uerr)
	}
	if !found && uerr == nil {
		return fmt.Errorf("Unpack with the resolver options %v succeeded although nothing knows %q", c.Kinds, c.Name)
	}
	r.Class("answered by " + map[bool]string{true: by, false: "nothing (reads fail)"}[found])
	r.ClassIf(knowing > 1 && !c.Own && !c.EnvCfg, "several resolver options know the name (their order decides)")
	has := func(k int) bool {
		for _, x := range c.Kinds {
			if x == k {
				return true
			}
		}
		return false
	}
	r.ClassIf(has(noopResolver) && c.Kinds[len(c.Kinds)-1] != noopResolver, "ResolveNOOP followed by other resolver options")
	r.ClassIf(has(envResolver) && c.Kinds[len(c.Kinds)-1] != envResolver, "ResolveEnv followed by other resolver options")
	r.ClassIf(c.ResFirst, "resolver options before VarExp and Env")
	r.NonTrivialIf(knowing > 1 || c.Own || c.EnvCfg || !found)
	return nil
}

func show(p *string) string {
	if p == nil {
		return "<nil>"
	}
	return fmt.Sprintf("%q", *p)
}

var subKinds = runlog.Register(&runlog.Sub[KindCase]{
	Name: "resolver-kinds",
	Rule: "one name (plain, upper-case, dotted) referenced by five settings (${n}, spliced, ${n:d}, ${n:+a}, ${n:?m}) and 1-4 resolver options drawn with repeats from Resolve(callback A), Resolve(callback B), ResolveEnv (process environment variable set or unset for the case) and ResolveNOOP, in every order, before or after VarExp/Env in the option list; one case in eight defines the name in the own tree or in an Env config as well. Direct oracle: own tree, then Env config, then the resolver options from the most recently added to the oldest (a callback that does not know the name and an unset environment variable pass on, ResolveNOOP answers every name with the text ${name}, which is not expanded again). Every setting is read through the String getter and through Unpack into string fields: value, failure when nothing knows the name (typed, :? carries its message). Non-trivial: more than one option knows the name, a tree shadows the resolvers, or nothing knows the name. Distinct: hash of the case.",
	Gen:  genKindCase,
	Run:  runKindCase,
})

func TestResolverKinds(t *testing.T) { subKinds.Check(t, 12000, 400000) }

func TestReplay(t *testing.T) { runlog.ReplayMain(t) }
