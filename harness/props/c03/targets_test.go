package c03

import (
	"fmt"
	"math/big"
	"reflect"
	"time"

	ucfg "github.com/elastic/go-ucfg"
)

// Named variants of the fourteen primitive kinds. They carry no methods, so
// the library has to treat them by their kind.
type (
	NBool    bool
	NInt     int
	NInt8    int8
	NInt16   int16
	NInt32   int32
	NInt64   int64
	NUint    uint
	NUint8   uint8
	NUint16  uint16
	NUint32  uint32
	NUint64  uint64
	NFloat32 float32
	NFloat64 float64
	NString  string
)

// tgtDesc describes one target type of the cross product.
type tgtDesc struct {
	name  string // as it appears in a case: "int8", "duration", ...
	kind  string // bool | int | uint | float | string | duration
	bits  int
	plain reflect.Type
	named reflect.Type // nil: no named variant (time.Duration, see the reading decisions in the Rule text)
}

var targetList = []tgtDesc{
	{"bool", "bool", 0, reflect.TypeOf(false), reflect.TypeOf(NBool(false))},
	{"int", "int", 0, reflect.TypeOf(int(0)), reflect.TypeOf(NInt(0))},
	{"int8", "int", 0, reflect.TypeOf(int8(0)), reflect.TypeOf(NInt8(0))},
	{"int16", "int", 0, reflect.TypeOf(int16(0)), reflect.TypeOf(NInt16(0))},
	{"int32", "int", 0, reflect.TypeOf(int32(0)), reflect.TypeOf(NInt32(0))},
	{"int64", "int", 0, reflect.TypeOf(int64(0)), reflect.TypeOf(NInt64(0))},
	{"uint", "uint", 0, reflect.TypeOf(uint(0)), reflect.TypeOf(NUint(0))},
	{"uint8", "uint", 0, reflect.TypeOf(uint8(0)), reflect.TypeOf(NUint8(0))},
	{"uint16", "uint", 0, reflect.TypeOf(uint16(0)), reflect.TypeOf(NUint16(0))},
	{"uint32", "uint", 0, reflect.TypeOf(uint32(0)), reflect.TypeOf(NUint32(0))},
	{"uint64", "uint", 0, reflect.TypeOf(uint64(0)), reflect.TypeOf(NUint64(0))},
	{"float32", "float", 0, reflect.TypeOf(float32(0)), reflect.TypeOf(NFloat32(0))},
	{"float64", "float", 0, reflect.TypeOf(float64(0)), reflect.TypeOf(NFloat64(0))},
	{"string", "string", 0, reflect.TypeOf(""), reflect.TypeOf(NString(""))},
	{"duration", "duration", 64, reflect.TypeOf(time.Duration(0)), nil},
}

var targets = map[string]*tgtDesc{}

// variants of a target for the Unpack read path.
//
//	""          the plain type, zero before the call
//	"set"       the plain type, holding a sentinel before the call
//	"ptr"       nil pointer to the type
//	"ptr-set"   pointer to a sentinel
//	"named"     the named variant
//	"ptr-named" nil pointer to the named variant
var allVariants = []string{"", "set", "ptr", "ptr-set", "named", "ptr-named"}

// getterTargets are the targets the typed getters read into.
var getterTargets = []string{"bool", "int64", "uint64", "float64", "string"}

// holder struct types, one per (target, variant): struct{ V T `config:"v"` }
var holders = map[string]reflect.Type{}

func init() {
	for i := range targetList {
		t := &targetList[i]
		if t.kind == "int" || t.kind == "uint" || t.kind == "float" {
			t.bits = t.plain.Bits()
		}
		targets[t.name] = t
		for _, v := range allVariants {
			ft, ok := t.fieldType(v)
			if !ok {
				continue
			}
			holders[t.name+"/"+v] = reflect.StructOf([]reflect.StructField{{Name: "V", Type: ft, Tag: `config:"v"`}})
		}
	}
}

func (t *tgtDesc) fieldType(variant string) (reflect.Type, bool) {
	switch variant {
	case "", "set":
		return t.plain, true
	case "ptr", "ptr-set":
		return reflect.PointerTo(t.plain), true
	case "named":
		return t.named, t.named != nil
	case "ptr-named":
		if t.named == nil {
			return nil, false
		}
		return reflect.PointerTo(t.named), true
	}
	return nil, false
}

func (t *tgtDesc) variants() []string {
	var out []string
	for _, v := range allVariants {
		if _, ok := t.fieldType(v); ok {
			out = append(out, v)
		}
	}
	return out
}

// intRange returns the inclusive range of an integer or Duration target.
func (t *tgtDesc) intRange() (lo, hi *big.Int) {
	one := big.NewInt(1)
	if t.kind == "uint" {
		return big.NewInt(0), new(big.Int).Sub(new(big.Int).Lsh(one, uint(t.bits)), one)
	}
	return new(big.Int).Neg(new(big.Int).Lsh(one, uint(t.bits-1))), new(big.Int).Sub(new(big.Int).Lsh(one, uint(t.bits-1)), one)
}

// sentinel fills v (a settable value of the plain or named type) with a value
// that is unlikely to be the expected one, so that "returned nil but stored
// nothing" is visible.
func sentinel(v reflect.Value) {
	switch v.Kind() {
	case reflect.Bool:
		v.SetBool(true)
	case reflect.Int, reflect.Int8, reflect.Int16, reflect.Int32, reflect.Int64:
		v.SetInt(85)
	case reflect.Uint, reflect.Uint8, reflect.Uint16, reflect.Uint32, reflect.Uint64:
		v.SetUint(85)
	case reflect.Float32, reflect.Float64:
		v.SetFloat(85.5)
	case reflect.String:
		v.SetString("sentinel")
	}
}

// readGetter reads the setting "v" through the typed getter that belongs to
// the target kind.
func readGetter(c *ucfg.Config, t *tgtDesc, idx0 bool, opts []ucfg.Option) (reflect.Value, error, error) {
	idx := -1
	if idx0 {
		idx = 0
	}
	switch t.name {
	case "bool":
		b, err := c.Bool("v", idx, opts...)
		return reflect.ValueOf(b), err, nil
	case "int64":
		i, err := c.Int("v", idx, opts...)
		return reflect.ValueOf(i), err, nil
	case "uint64":
		u, err := c.Uint("v", idx, opts...)
		return reflect.ValueOf(u), err, nil
	case "float64":
		f, err := c.Float("v", idx, opts...)
		return reflect.ValueOf(f), err, nil
	case "string":
		s, err := c.String("v", idx, opts...)
		return reflect.ValueOf(s), err, nil
	}
	return reflect.Value{}, nil, fmt.Errorf("harness: no typed getter for target %s", t.name)
}
