package c03

import (
	"encoding/json"
	"fmt"
	"math"
	"math/big"
	"sort"
	"strconv"
	"strings"
	"sync"

	"pgregory.net/rapid"
)

// ---------------------------------------------------------------------------
// boundaries shared by the grid and the random generator

func pow2(n uint) *big.Int { return new(big.Int).Lsh(big.NewInt(1), n) }

// typeBoundaries: min and max of the ten integer kinds (int/uint are 64 bit).
func typeBoundaries() []*big.Int {
	var out []*big.Int
	for _, bits := range []uint{8, 16, 32, 64} {
		out = append(out,
			new(big.Int).Neg(pow2(bits-1)),                // min intN
			new(big.Int).Sub(pow2(bits-1), big.NewInt(1)), // max intN
			new(big.Int).Sub(pow2(bits), big.NewInt(1)),   // max uintN
		)
	}
	return out
}

const maxSeconds = 9223372036 // floor(2^63 / 10^9)

// otherBoundaries: 0, +-2^53, +-2^63, 2^64, the last whole second counts a Duration can hold.
func otherBoundaries() []*big.Int {
	return []*big.Int{
		big.NewInt(0),
		pow2(53), new(big.Int).Neg(pow2(53)),
		pow2(63), new(big.Int).Neg(pow2(63)),
		pow2(64),
		big.NewInt(maxSeconds), big.NewInt(-maxSeconds),
	}
}

var (
	boundsOnce sync.Once
	allBounds  []*big.Int
)

func boundaries() []*big.Int {
	boundsOnce.Do(func() { allBounds = append(typeBoundaries(), otherBoundaries()...) })
	return allBounds
}

var (
	bigMaxUint64 = new(big.Int).SetUint64(math.MaxUint64)
	// exact number of seconds that is 2^63 ns, as the nearest float64
	maxSecondsF = 9223372036.854775807
	// the rounding midpoint above MaxFloat32: 2^128 - 2^103
	f32Midpoint = math.Ldexp(1, 128) - math.Ldexp(1, 103)
)

// intSources returns n as int64 and/or uint64 source, whichever can hold it.
func intSources(n *big.Int) []Src {
	var out []Src
	if n.IsInt64() {
		out = append(out, srcI(n.Int64()))
	}
	if n.Sign() >= 0 && n.Cmp(bigMaxUint64) <= 0 {
		out = append(out, srcU(n.Uint64()))
	}
	return out
}

func nearestFloat(n *big.Int) float64 {
	f, _ := new(big.Float).SetInt(n).Float64()
	return f
}

func ulps(f float64, k int) float64 {
	for ; k > 0; k-- {
		f = math.Nextafter(f, math.Inf(1))
	}
	for ; k < 0; k++ {
		f = math.Nextafter(f, math.Inf(-1))
	}
	return f
}

// ---------------------------------------------------------------------------
// spellings of an integer / a float

func signed(n *big.Int, prefix string, base int) string {
	a := new(big.Int).Abs(n).Text(base)
	if n.Sign() < 0 {
		return "-" + prefix + a
	}
	return prefix + a
}

func underscored(dec string) string {
	sign := ""
	if strings.HasPrefix(dec, "-") || strings.HasPrefix(dec, "+") {
		sign, dec = dec[:1], dec[1:]
	}
	var b strings.Builder
	for i, ch := range dec {
		if i > 0 && (len(dec)-i)%3 == 0 {
			b.WriteByte('_')
		}
		b.WriteRune(ch)
	}
	return sign + b.String()
}

// intSpellings: every syntax strconv accepts for an integer (and some it
// accepts for floats only).
func intSpellings(n *big.Int) []string {
	dec := n.String()
	f := nearestFloat(n)
	out := []string{
		dec,
		signed(n, "0x", 16), signed(n, "0X", 16),
		signed(n, "0o", 8), signed(n, "0", 8),
		signed(n, "0b", 2),
		underscored(dec), signed(n, "0x_", 16),
		dec + ".0", dec + ".",
		strconv.FormatFloat(f, 'e', -1, 64),
		strconv.FormatFloat(f, 'E', -1, 64),
		strconv.FormatFloat(f, 'x', -1, 64),
		"00" + strings.TrimPrefix(dec, "-"),
	}
	if n.Sign() >= 0 {
		out = append(out, "+"+dec, "+"+signed(n, "0x", 16))
	}
	return out
}

// moreSpellings: the explicit plus sign with every other syntax, exponent
// forms that keep every digit, leading zeros behind a base prefix. In the grid
// these are read through the reduced target list gridTextTargets.
func moreSpellings(n *big.Int) []string {
	dec := n.String()
	f := nearestFloat(n)
	var out []string
	if n.Sign() >= 0 {
		out = append(out,
			"+"+signed(n, "0X", 16), "+"+signed(n, "0o", 8), "+"+signed(n, "0", 8), "+"+signed(n, "0b", 2),
			"+"+underscored(dec), "+"+signed(n, "0x_", 16),
			"+"+dec+".0", "+"+dec+"e0", "+"+strconv.FormatFloat(f, 'e', -1, 64), "+"+strconv.FormatFloat(f, 'x', -1, 64),
			"+00"+dec,
		)
	}
	out = append(out, dec+"e0", dec+"e+0", dec+"E-0", dec+"0e-1", signed(n, "0x00", 16), signed(n, "0b0", 2), signed(n, "0o0", 8), signed(n, "0_", 8))
	return out
}

// naturalCuts are the positions where a numeral falls into meaningful
// pieces: behind the sign, behind the base prefix, around the exponent
// marker, the point and the first underscore, and before the last digit.
func naturalCuts(s string) []int {
	var out []int
	add := func(i int) {
		if i <= 0 || i >= len(s) {
			return
		}
		for _, o := range out {
			if o == i {
				return
			}
		}
		out = append(out, i)
	}
	i := 0
	if i < len(s) && (s[i] == '+' || s[i] == '-') {
		i++
		add(i)
	}
	if i+1 < len(s) && s[i] == '0' && strings.ContainsRune("xXoObB", rune(s[i+1])) {
		add(i + 2)
	} else if i+1 < len(s) && s[i] == '0' {
		add(i + 1)
	}
	if j := strings.IndexAny(s, "eEpP"); j > 0 && !strings.ContainsAny(s[:j], "xX") || j > 0 && strings.ContainsRune("pP", rune(s[j])) {
		add(j)
		add(j + 1)
	}
	if j := strings.IndexByte(s, '.'); j > 0 {
		add(j)
	}
	if j := strings.IndexByte(s, '_'); j > 0 {
		add(j + 1)
	}
	add(len(s) - 1)
	return out
}

var miscStrings = []string{
	// empty and blanks
	"", " ", "\t",
	// bool words (strconv.ParseBool, the parser's own, neither)
	"true", "false", "TRUE", "FALSE", "True", "False", "t", "f", "T", "F", "1", "0",
	"on", "off", "ON", "OFF", "On", "yes", "no", "tRuE",
	// inf / nan spellings
	"inf", "Inf", "+Inf", "-Inf", "+inf", "-inf", "infinity", "Infinity", "-Infinity", "INF", "nan", "NaN", "NAN", "+nan", "-nan", "infin",
	// float syntax
	"1.5", "-1.5", "0.5", "-0.5", ".5", "-.5", "5.", "0.9", "-0.9", "-0", "+0", "-0.0", "1e3", "1E3", "1e+3", "1e-3", "1.5e3", "1e0", "2.5e-1",
	"0x1p4", "0x1P4", "0x1.8p1", "0x1p-2", "-0x1p63", "0x1p63", "0x1p64", "0x1.fffffffffffffp62", "0x.8p1", "0x1p", "0x1.8", "1p4",
	"1_000.5", "1_0e1_0", "1e1_0",
	// malformed numbers
	"1__0", "_1", "1_", "0x", "0b", "0o", "0b102", "0o8", "08", "09", "0x1g", "1e", "e1", "--1", "+-1", "1-", "1 2", "1.2.3", "0x-1", "1,000", "１", "1a", "abc", "0_x1", "- 1",
	// blanks around valid numbers
	" 12", "12 ", " 12 ", "\t12\n", " -7", " 0x10 ", " 1.5 ", " true ",
	// beyond every 64 bit type
	"18446744073709551616", "-9223372036854775809", "1e19", "-1e19", "1e20", "1e400", "-1e400", "1e-400", "1e309", "1.7976931348623157e308", "1.7976931348623159e308",
	"36893488147419103232", "0x10000000000000000", "-0x8000000000000001",
	// float32 range
	"3.4028234663852886e38", "3.4028235e38", "3.4028235677973366e38", "3.4028235677973367e38", "3.4028236e38", "3.5e38", "1e39", "-3.4028235e38", "-3.4028236e38", "1e-46", "1.401298464324817e-45", "7e-46",
	"16777217", "9007199254740993", "1.0000000596046448", "1.00000005960464477539062500001",
	// durations (time.ParseDuration)
	"1s", "1h", "1.5h", "-1m", "1ns", "1us", "1µs", "1μs", "1ms", "1h1m1s", "+1s", ".5s", "1.s", "0s", "-0s",
	"9223372036854775807ns", "9223372036854775808ns", "-9223372036854775808ns", "-9223372036854775809ns",
	"2562047h47m16.854775807s", "2562047h47m16.854775808s", "-2562047h47m16.854775808s", "-2562047h47m16.854775809s", "2562048h",
	"9223372036.854775807s", "9223372036.854775808s", "9223372036s", "9223372037s", "153722867m", "153722868m",
	"1d", "1 s", "1S", "s", "1hs", "1e3s", "0x1s", "1_0s", "1h1", "5", "5.5", "-5",
	// values that are not primitive once re-parsed (discarded for text deliveries, plain strings otherwise)
	"null", "1,2", "[1]", "[1, 2]", "{a: 1}", "'12'", "\"12\"", "\"0x10\"", "a,b",
}

// ---------------------------------------------------------------------------
// the grid

var (
	gridOnce    sync.Once
	gridSrc     []Src
	gridReduced = map[string]bool{} // string sources crossed with gridTextTargets only
)

func mustJSON(v interface{}) []byte {
	b, _ := json.Marshal(v)
	return b
}

func gridSources() []Src {
	gridOnce.Do(func() {
		seen := map[string]bool{}
		add := func(ss ...Src) {
			for _, s := range ss {
				b, _ := json.Marshal(s)
				if !seen[string(b)] {
					seen[string(b)] = true
					gridSrc = append(gridSrc, s)
				}
			}
		}
		addFloat := func(f float64) {
			add(srcF(f))
			if !math.IsNaN(f) && !math.IsInf(f, 0) {
				add(srcF(math.Nextafter(f, math.Inf(1))), srcF(math.Nextafter(f, math.Inf(-1))))
			}
		}

		// integers around every boundary
		var ints []*big.Int
		seenInt := map[string]bool{}
		addInt := func(b *big.Int, ds ...int64) {
			for _, d := range ds {
				n := new(big.Int).Add(b, big.NewInt(d))
				if !seenInt[n.String()] {
					seenInt[n.String()] = true
					ints = append(ints, n)
				}
			}
		}
		for _, b := range typeBoundaries() {
			addInt(b, -1, 0, 1)
		}
		for _, b := range otherBoundaries() {
			addInt(b, -2, -1, 0, 1, 2)
		}
		addInt(pow2(40), 0)                             // DESIGN: 1<<40 seconds wraps silently
		addInt(new(big.Int).Neg(pow2(64)), 0)           // -2^64
		addInt(big.NewInt(1000), 0)                     // an unremarkable number with a short exponent form
		addInt(big.NewInt(16777217), 0)                 // 2^24+1: not a float32
		addInt(new(big.Int).Add(pow2(60), pow2(36)), 1) // double rounding int64 -> float64 -> float32
		for _, n := range ints {
			add(intSources(n)...)
			f := nearestFloat(n)
			addFloat(f)
			if math.Abs(f) < 1<<51 {
				add(srcF(f+0.5), srcF(f-0.5), srcF(f+0.25), srcF(f-0.25))
			}
		}

		// floats
		for _, f := range []float64{0, math.Copysign(0, -1), math.NaN(), math.Inf(1), math.Inf(-1),
			math.SmallestNonzeroFloat64, -math.SmallestNonzeroFloat64, math.SmallestNonzeroFloat32, 0x1p-1022,
			0.1, 0.9, -0.9, 1.5, -1.5, 1e-9, 0.5e-9, 1e-10, 1e9, 1e10, 1e19, 1e300, -1e300} {
			addFloat(f)
		}
		for _, m := range []float64{math.MaxFloat32, f32Midpoint, math.Ldexp(1, 128), math.MaxFloat64, math.MaxFloat64 / 1e9} {
			for k := -2; k <= 2; k++ {
				if g := ulps(m, k); !math.IsInf(g, 0) {
					add(srcF(g), srcF(-g))
				}
			}
		}
		// float second counts around 2^63 ns
		for k := -6; k <= 6; k++ {
			add(srcF(ulps(maxSecondsF, k)), srcF(-ulps(maxSecondsF, k)))
		}
		add(srcB(true), srcB(false))

		// strings
		for _, n := range ints {
			for _, s := range intSpellings(n) {
				add(srcS(s))
			}
		}
		for i, n := range ints {
			if i%9 == 0 { // blanks around a number: a sample is enough, the rule does not depend on the value
				add(srcS(" "+n.String()), srcS(n.String()+" "), srcS("\t"+n.String()+"\n"))
			}
		}
		for _, s := range miscStrings {
			add(srcS(s))
		}
		for _, n := range ints {
			for _, s := range moreSpellings(n) {
				if src := srcS(s); !seen[string(mustJSON(src))] {
					add(src)
					gridReduced[s] = true
				}
			}
		}
		for _, f := range []float64{math.MaxFloat32, f32Midpoint, math.MaxFloat64, math.SmallestNonzeroFloat64, maxSecondsF, 1e300} {
			for _, fmtc := range []byte{'g', 'e', 'f', 'x'} {
				add(srcS(strconv.FormatFloat(f, fmtc, -1, 64)), srcS(strconv.FormatFloat(-f, fmtc, -1, 64)))
			}
		}
	})
	return gridSrc
}

// deliveries of a source in the grid.
func gridDeliveries(s Src) []Case {
	n := len(s.text())
	out := []Case{
		{Src: s, Deliv: "lit"},
		{Src: s, Deliv: "ref"},
		{Src: s, Deliv: "resolver"},
		{Src: s, Deliv: "splice", Cut: n / 2},
	}
	if s.K == "s" {
		out = append(out, Case{Src: s, Deliv: "splice", Cut: 0})
	} else {
		out = append(out, Case{Src: s, Deliv: "splice-val"})
	}
	return out
}

// textDeliveries: the ways a text reaches the setting besides the four of
// gridDeliveries. They are crossed with the reduced target list gridTextTargets.
func textDeliveries(s Src) []Case {
	if s.K == "f" || s.K == "b" {
		return nil // every float spelling of every boundary is among the string sources
	}
	text := s.text()
	out := []Case{
		{Src: s, Deliv: "resolver", PC: "env"},
		{Src: s, Deliv: "resolver", PC: "noop"},
		{Src: s, Deliv: "resolve-env"},
		{Src: s, Deliv: "envcfg"},
		{Src: s, Deliv: "default"},
		{Src: s, Deliv: "alt"},
	}
	if _, ok := numeralValue(strings.TrimSpace(text)); !ok {
		return out
	}
	// a numeral built from pieces: literal head + number/string/resolver tail, and all pieces referenced
	for i, cut := range naturalCuts(text) {
		if i == 0 {
			out = append(out, Case{Src: s, Deliv: "pieces", Cuts: []int{cut}, Kinds: "ln"})
		}
		out = append(out, Case{Src: s, Deliv: "pieces", Cuts: []int{cut}, Kinds: []string{"sn", "lr", "rl", "nl", "ns"}[i%5]})
	}
	return out
}

// gridTextTargets: the text -> value step does not depend on the target, so
// the additional text deliveries are read through one target of every kind
// and width (plain variant), the pointer-to-named 64 bit integers and the getters.
type tv struct{ tgt, variant string }

var gridTextTargets = []tv{
	{"int64", ""}, {"uint64", ""}, {"int64", "ptr-named"}, {"uint64", "ptr-named"}, {"int8", "named"}, {"uint16", ""},
	{"int32", "ptr"}, {"uint", "ptr-set"}, {"float32", ""}, {"float64", "set"}, {"string", ""}, {"bool", ""}, {"duration", "ptr"},
}

var gridTextGetters = []string{"int64", "uint64", "float64", "string"}

func enumGrid(yield func(Case) bool) {
	for _, s := range gridSources() {
		ds := gridDeliveries(s)
		if s.K == "s" && gridReduced[s.S] {
			ds = nil
		}
		for _, c := range ds {
			for i := range targetList {
				t := &targetList[i]
				for _, v := range t.variants() {
					c.Tgt, c.Var, c.Read = t.name, v, "unpack"
					if !yield(c) {
						return
					}
				}
			}
			for _, g := range getterTargets {
				c.Tgt, c.Var, c.Read = g, "", "getter"
				if !yield(c) {
					return
				}
			}
		}
		ts := textDeliveries(s)
		if s.K == "s" && gridReduced[s.S] {
			ts = append(gridDeliveries(s), ts...)
		}
		for _, c := range ts {
			for _, t := range gridTextTargets {
				c.Tgt, c.Var, c.Read = t.tgt, t.variant, "unpack"
				if !yield(c) {
					return
				}
			}
			for _, g := range gridTextGetters {
				c.Tgt, c.Var, c.Read = g, "", "getter"
				if !yield(c) {
					return
				}
			}
		}
	}
}

// ---------------------------------------------------------------------------
// the random generator

func genBig(t *rapid.T, tg *tgtDesc) *big.Int {
	var b *big.Int
	if (tg.kind == "int" || tg.kind == "uint") && rapid.Bool().Draw(t, "own-boundary") {
		lo, hi := tg.intRange()
		b = lo
		if rapid.Bool().Draw(t, "hi") {
			b = hi
		}
	} else if tg.kind == "duration" && rapid.Bool().Draw(t, "own-boundary") {
		b = big.NewInt(maxSeconds)
		if rapid.Bool().Draw(t, "neg") {
			b = big.NewInt(-maxSeconds)
		}
	} else {
		b = rapid.SampledFrom(boundaries()).Draw(t, "boundary")
	}
	return new(big.Int).Add(b, big.NewInt(int64(rapid.IntRange(-3, 3).Draw(t, "offset"))))
}

var fracs = []float64{0.5, -0.5, 0.25, -0.25, 0.75, -0.75, 0.999, -0.999, 0.001, -0.001}

// genNumber draws a numeric source.
func genNumber(t *rapid.T, tg *tgtDesc) Src {
	switch rapid.IntRange(0, 8).Draw(t, "numclass") {
	case 0:
		return srcI(int64(rapid.Uint64().Draw(t, "bits")))
	case 1:
		return srcU(rapid.Uint64().Draw(t, "bits"))
	case 2:
		return srcF(math.Float64frombits(rapid.Uint64().Draw(t, "bits")))
	case 3: // integer next to a boundary
		n := genBig(t, tg)
		if ss := intSources(n); len(ss) > 0 {
			return ss[rapid.IntRange(0, len(ss)-1).Draw(t, "as")]
		}
		return srcF(nearestFloat(n))
	case 4: // float a few ulp from a boundary
		return srcF(ulps(nearestFloat(genBig(t, tg)), rapid.IntRange(-3, 3).Draw(t, "ulps")))
	case 5: // float a fraction away from a boundary
		return srcF(nearestFloat(genBig(t, tg)) + rapid.SampledFrom(fracs).Draw(t, "frac"))
	case 6: // seconds around 2^63 ns
		f := ulps(maxSecondsF, rapid.IntRange(-8, 8).Draw(t, "ulps"))
		if rapid.Bool().Draw(t, "neg") {
			f = -f
		}
		return srcF(f)
	case 7: // float32 / float64 limits
		m := rapid.SampledFrom([]float64{math.MaxFloat32, f32Midpoint, math.Ldexp(1, 128), math.MaxFloat64, math.SmallestNonzeroFloat32, math.SmallestNonzeroFloat64}).Draw(t, "limit")
		f := ulps(m, rapid.IntRange(-3, 3).Draw(t, "ulps"))
		if rapid.Bool().Draw(t, "neg") {
			f = -f
		}
		return srcF(f)
	default: // a float with a random exponent in the interesting range and a random mantissa
		exp := rapid.IntRange(-70, 70).Draw(t, "exp")
		m := 1 + float64(rapid.Uint64Range(0, 1<<52-1).Draw(t, "mant"))/(1<<52)
		f := math.Ldexp(m, exp)
		if rapid.Bool().Draw(t, "neg") {
			f = -f
		}
		return srcF(f)
	}
}

func srcBig(s Src) *big.Int {
	switch s.K {
	case "i":
		return big.NewInt(s.I)
	case "u":
		return new(big.Int).SetUint64(s.U)
	}
	return nil
}

const junk = "_xXoObB.eEpP+-0179 af,"

// genString spells a number as a string in a random syntax, or draws one of
// the fixed words, or a duration string.
func genString(t *rapid.T, tg *tgtDesc) Src {
	var s string
	switch rapid.IntRange(0, 7).Draw(t, "strclass") {
	case 0:
		return srcS(rapid.SampledFrom(miscStrings).Draw(t, "misc"))
	case 6, 7: // an integer numeral of any magnitude: sign x base syntax x leading zeros / underscores
		u := rapid.Uint64().Draw(t, "bits") >> uint(rapid.SampledFrom([]int{0, 0, 1, 10, 11, 32, 56, 0, 1}).Draw(t, "shift"))
		if rapid.IntRange(0, 3).Draw(t, "near") == 0 {
			u = genBig(t, tg).Uint64() // the low 64 bits of a number next to a boundary
		}
		n := new(big.Int).SetUint64(u)
		syn := rapid.SampledFrom([]struct {
			prefix string
			base   int
		}{{"", 10}, {"0x", 16}, {"0X", 16}, {"0o", 8}, {"0", 8}, {"0b", 2}, {"0B", 2}, {"0O", 8}, {"0x00", 16}, {"0_", 8}, {"0b_", 2}, {"00", 8}}).Draw(t, "syntax")
		s = n.Text(syn.base)
		if rapid.IntRange(0, 3).Draw(t, "underscores") == 0 && syn.base != 10 {
			for i := len(s) - 4; i > 0; i -= 4 {
				s = s[:i] + "_" + s[i:]
			}
		} else if syn.base == 10 && rapid.IntRange(0, 3).Draw(t, "underscores10") == 0 {
			s = underscored(s)
		}
		s = rapid.SampledFrom([]string{"+", "-", "", "+"}).Draw(t, "sign") + syn.prefix + s
	case 1: // duration strings near the limits
		unit := rapid.SampledFrom([]struct {
			u string
			n int64
		}{{"ns", 1}, {"us", 1e3}, {"µs", 1e3}, {"ms", 1e6}, {"s", 1e9}, {"m", 60e9}, {"h", 3600e9}}).Draw(t, "unit")
		n := new(big.Int).Quo(pow2(63), big.NewInt(unit.n))
		n.Add(n, big.NewInt(int64(rapid.IntRange(-2, 2).Draw(t, "offset"))))
		s = n.String() + unit.u
		switch rapid.IntRange(0, 3).Draw(t, "shape") {
		case 0:
			s = "-" + s
		case 1:
			s = fmt.Sprintf("%s.%d%s", n.String(), rapid.IntRange(0, 999999999).Draw(t, "frac"), unit.u)
		case 2:
			s = fmt.Sprintf("%d%s", rapid.Int64Range(-100000, 100000).Draw(t, "small"), unit.u)
		}
	default:
		n := genNumber(t, tg)
		if b := srcBig(n); b != nil {
			sp := intSpellings(b)
			s = sp[rapid.IntRange(0, len(sp)-1).Draw(t, "spelling")]
		} else {
			f, _ := n.float()
			fmtc := rapid.SampledFrom([]byte{'g', 'e', 'E', 'f', 'x', 'X', 'G'}).Draw(t, "fmt")
			s = strconv.FormatFloat(f, fmtc, -1, 64)
			if rapid.IntRange(0, 3).Draw(t, "underscore") == 0 {
				s = underscored(s)
			}
		}
	}
	switch rapid.IntRange(0, 9).Draw(t, "edit") {
	case 0: // one damaging edit
		pos := rapid.IntRange(0, len(s)).Draw(t, "pos")
		ch := junk[rapid.IntRange(0, len(junk)-1).Draw(t, "ch")]
		s = s[:pos] + string(ch) + s[pos:]
	case 1:
		if len(s) > 0 {
			pos := rapid.IntRange(0, len(s)-1).Draw(t, "pos")
			s = s[:pos] + s[pos+1:]
		}
	case 2:
		s = rapid.SampledFrom([]string{" ", "\t", "  ", "\n"}).Draw(t, "blank") + s
	case 3:
		s = s + rapid.SampledFrom([]string{" ", "\t", "  ", "\n"}).Draw(t, "blank")
	}
	// cases must be valid UTF-8; an edit may have split "µ"
	return srcS(strings.ToValidUTF8(s, "u"))
}

// randTargets orders the targets for the random generator: rapid favours both
// ends of a range, so the 64 bit kinds, Duration and float32 sit there.
var randTargets = []string{"int64", "uint64", "int8", "uint8", "int16", "uint16", "string", "bool", "float64", "int32", "uint32", "int", "uint", "float32", "duration"}

func genCase(t *rapid.T) Case {
	var c Case
	if rapid.IntRange(0, 4).Draw(t, "getter") == 4 {
		c.Read = "getter"
		c.Tgt = rapid.SampledFrom(getterTargets).Draw(t, "tgt")
	} else {
		c.Read = "unpack"
		c.Tgt = rapid.SampledFrom(randTargets).Draw(t, "tgt")
		c.Var = rapid.SampledFrom(targets[c.Tgt].variants()).Draw(t, "variant")
	}
	tg := targets[c.Tgt]
	k := rapid.IntRange(0, 19).Draw(t, "srckind")
	if tg.kind == "bool" && k < 9 {
		k += 11 // numbers into bool are not asserted: mostly words and bools for this target
	}
	switch {
	case k <= 10:
		c.Src = genNumber(t, tg)
	case k == 11:
		c.Src = srcB(rapid.Bool().Draw(t, "b"))
	default:
		c.Src = genString(t, tg)
	}
	c.Deliv = rapid.SampledFrom([]string{"lit", "ref", "resolver", "pieces", "splice", "splice-val", "resolve-env", "lit", "envcfg", "default", "alt", "pieces", "resolver"}).Draw(t, "deliv")
	switch c.Deliv {
	case "splice":
		c.Cut = rapid.IntRange(0, len(c.Src.text())).Draw(t, "cut")
	case "resolver":
		c.PC = rapid.SampledFrom(parseConfigNames).Draw(t, "pc")
	case "pieces":
		text := c.Src.text()
		n := rapid.IntRange(1, 3).Draw(t, "ncuts")
		nat := naturalCuts(text)
		for i := 0; i < n; i++ {
			if len(nat) > 0 && rapid.Bool().Draw(t, "natural") {
				c.Cuts = append(c.Cuts, rapid.SampledFrom(nat).Draw(t, "cut"))
			} else {
				c.Cuts = append(c.Cuts, rapid.IntRange(0, len(text)).Draw(t, "cut"))
			}
		}
		sort.Ints(c.Cuts)
		k := make([]byte, n+1)
		for i := range k {
			k[i] = "nlsr"[rapid.IntRange(0, 3).Draw(t, "kind")]
		}
		c.Kinds = string(k)
	}
	if c.Deliv != "lit" && c.Deliv != "ref" && c.Deliv != "envcfg" {
		c.IC = rapid.IntRange(0, 7).Draw(t, "ignore-commas") == 7
	}
	return c
}
