package c03

import (
	"fmt"
	"math"
	"math/big"
	"reflect"
	"regexp"
	"strconv"
	"strings"
	"time"

	"github.com/elastic/go-ucfg/parse"
)

const prec = 512

// num is the mathematical value of a numeric setting.
type num struct {
	x     *big.Float // exact value; nil if the value is not finite
	nf    float64    // NaN, +Inf or -Inf if x == nil
	exact bool       // the setting is of an integer type (no float rounding when it is scaled to nanoseconds)
}

func numInt(i int64) num   { return num{x: new(big.Float).SetPrec(prec).SetInt64(i), exact: true} }
func numUint(u uint64) num { return num{x: new(big.Float).SetPrec(prec).SetUint64(u), exact: true} }
func numFloat(f float64) num {
	if math.IsNaN(f) || math.IsInf(f, 0) {
		return num{nf: f}
	}
	return num{x: new(big.Float).SetPrec(prec).SetFloat64(f)}
}

func (n num) String() string {
	if n.x == nil {
		return fmt.Sprint(n.nf)
	}
	if n.x.IsInt() && n.x.MantExp(nil) <= 130 {
		i, _ := n.x.Int(nil)
		return i.String()
	}
	return n.x.Text('g', 40)
}

// eff is the effective value of the setting "v": what the configuration says
// once the delivery (literal, reference, resolver text, splice) is resolved.
type eff struct {
	kind string // num | bool | str | nil | cont | parse-error
	n    num
	b    bool
	s    string
}

func (e eff) String() string {
	switch e.kind {
	case "num":
		return "number " + e.n.String()
	case "bool":
		return fmt.Sprintf("bool %v", e.b)
	case "str":
		return fmt.Sprintf("string %q", e.s)
	}
	return e.kind
}

// numeralValue is the mathematical value of a text written in one of the
// number syntaxes strconv accepts, decided without the library's parser: an
// integer numeral (strconv.ParseUint / ParseInt, base prefix, explicit sign,
// underscores) is that integer exactly; a text only the float grammar accepts
// is the float64 strconv.ParseFloat assigns to it (numbers that are not 64 bit
// integers are float64 in the library's data model, DESIGN 6.5).
func numeralValue(t string) (num, bool) {
	if u, err := strconv.ParseUint(t, 0, 64); err == nil {
		return numUint(u), true
	}
	if i, err := strconv.ParseInt(t, 0, 64); err == nil {
		return numInt(i), true
	}
	if f, err := strconv.ParseFloat(t, 64); err == nil {
		return numFloat(f), true
	}
	return num{}, false
}

// structural are the characters with a meaning in the syntax of parse.Value
// (documentation of parse.Value: quotes and '[]{},:'); no strconv numeral
// contains one.
const structural = "[]{},:'\""

// effOfText is the value of a text that the library re-parses (resolver
// results, the process environment, default texts and splices are documented
// to go through parse.Value). A numeral means its mathematical value
// (numeralValue) - the statement quantifies over "strings in every syntax
// strconv accepts ... whether the value is literal or produced by variable
// expansion" - and a text free of structural characters that is no numeral is
// not a number, whatever the parser says. Only the structure of any other
// text (null, bool words, quotes, lists, objects) is delegated to the real
// parser, which is the subject of C17, not of C03.
func effOfText(text string, cfg parse.Config) eff {
	t := strings.TrimSpace(text)
	if n, ok := numeralValue(t); ok {
		return eff{kind: "num", n: n}
	}
	v, err := parse.ValueWithConfig(text, cfg)
	if err != nil {
		return eff{kind: "parse-error"}
	}
	switch x := v.(type) {
	case nil:
		if t == "" {
			return eff{kind: "str", s: text} // empty text stays the empty string (DESIGN C02)
		}
		return eff{kind: "nil"}
	case bool:
		return eff{kind: "bool", b: x}
	case int64, uint64, float64:
		if !strings.ContainsAny(t, structural) {
			return eff{kind: "str", s: t} // no strconv grammar accepts the text: "a string that does not parse"
		}
		switch x := v.(type) {
		case int64:
			return eff{kind: "num", n: numInt(x)}
		case uint64:
			return eff{kind: "num", n: numUint(x)}
		case float64:
			return eff{kind: "num", n: numFloat(x)}
		}
	case string:
		return eff{kind: "str", s: x}
	}
	return eff{kind: "cont"}
}

// verdict is what the property demands for one (effective value, target).
type verdict struct {
	must  string                        // fail | succeed | either | none (not asserted)
	check func(got reflect.Value) error // applied to the stored value when the call succeeded; nil = nothing to check
	why   string                        // the clause the verdict comes from
	lax   string                        // non-empty: a success/failure obligation was relaxed for this documented reason
}

func mustFail(why string) verdict { return verdict{must: "fail", why: why} }

// ---------------------------------------------------------------------------
// numbers

func gotBig(got reflect.Value) *big.Int {
	switch got.Kind() {
	case reflect.Int, reflect.Int8, reflect.Int16, reflect.Int32, reflect.Int64:
		return big.NewInt(got.Int())
	case reflect.Uint, reflect.Uint8, reflect.Uint16, reflect.Uint32, reflect.Uint64:
		return new(big.Int).SetUint64(got.Uint())
	}
	return nil
}

func intVerdict(n num, t *tgtDesc) verdict {
	if n.x == nil {
		return mustFail("NaN/infinite for an integer target")
	}
	tr, _ := n.x.Int(nil) // truncates toward zero, exactly
	lo, hi := t.intRange()
	if t.kind == "uint" && n.x.Sign() < 0 {
		return mustFail("negative for an unsigned target")
	}
	if tr.Cmp(lo) < 0 || tr.Cmp(hi) > 0 {
		return mustFail(fmt.Sprintf("outside the range [%v, %v] of the target type", lo, hi))
	}
	return verdict{must: "succeed", why: "in-range number into an integer target (Unpack doc: any number type convertible to int)",
		check: func(got reflect.Value) error {
			g := gotBig(got)
			if g == nil || g.Cmp(tr) != 0 {
				return fmt.Errorf("stored %v, the value truncated toward zero is %v", got.Interface(), tr)
			}
			return nil
		}}
}

func sameFloat(a, b float64) bool {
	if math.IsNaN(a) || math.IsNaN(b) {
		return math.IsNaN(a) && math.IsNaN(b)
	}
	return a == b
}

// floatVerdict: alt, if not nil, is a second admissible exact reading (a
// string parsed with 32 bit precision directly).
func floatVerdict(n num, t *tgtDesc, alt *float32) verdict {
	if n.x == nil {
		want := n.nf
		return verdict{must: "either", why: "non-finite number into a float target: the statement does not say whether it is an error",
			check: func(got reflect.Value) error {
				if got.Kind() != reflect.Float32 && got.Kind() != reflect.Float64 || !sameFloat(got.Float(), want) {
					return fmt.Errorf("stored %v, the setting is %v", got.Interface(), want)
				}
				return nil
			}}
	}
	if t.bits == 64 {
		r, _ := n.x.Float64() // correctly rounded (nearest even)
		return verdict{must: "succeed", why: "finite number into float64 (Unpack doc: any number type convertible to float)",
			check: func(got reflect.Value) error {
				if got.Kind() != reflect.Float64 || got.Float() != r {
					return fmt.Errorf("stored %v, the correctly rounded float64 is %v", got.Interface(), r)
				}
				return nil
			}}
	}
	// float32: the correctly rounded neighbour, directly or through the float64 the library holds numbers in
	r32, _ := n.x.Float32()
	r64, _ := n.x.Float64()
	cands := []float32{r32, float32(r64)}
	if alt != nil {
		cands = append(cands, *alt)
	}
	finite := cands[:0:0]
	for _, c := range cands {
		if !math.IsInf(float64(c), 0) {
			finite = append(finite, c)
		}
	}
	if len(finite) == 0 {
		return mustFail("outside the range of float32 (beyond the rounding midpoint above MaxFloat32)")
	}
	check := func(got reflect.Value) error {
		if got.Kind() == reflect.Float32 {
			for _, c := range finite {
				if float32(got.Float()) == c {
					return nil
				}
			}
		}
		return fmt.Errorf("stored %v, the correctly rounded float32 is %v", got.Interface(), finite)
	}
	if new(big.Float).Abs(n.x).Cmp(big.NewFloat(math.MaxFloat32)) > 0 {
		return verdict{must: "either", why: "band between MaxFloat32 and its rounding midpoint", lax: "MaxFloat32 band", check: check}
	}
	return verdict{must: "succeed", why: "number within the float32 range (Unpack doc: any number type convertible to float)", check: check}
}

var (
	bigE9     = new(big.Float).SetPrec(prec).SetInt64(1e9)
	bigTwo63  = new(big.Float).SetPrec(prec).SetMantExp(big.NewFloat(1), 63)
	bigMaxI64 = new(big.Float).SetPrec(prec).SetInt64(math.MaxInt64)
	bigMinI64 = new(big.Float).SetPrec(prec).SetInt64(math.MinInt64)
	bigEps    = new(big.Float).SetPrec(prec).SetMantExp(big.NewFloat(1), -52)
	bigOne    = new(big.Float).SetPrec(prec).SetInt64(1)
)

func bf() *big.Float { return new(big.Float).SetPrec(prec) }

// durationVerdict: a number means seconds. dyn: the number arrives through a
// dynamic value (reference, resolver, splice).
func durationVerdict(n num, dyn bool) verdict {
	if n.x == nil {
		return mustFail("NaN/infinite for a Duration target")
	}
	ns := bf().Mul(n.x, bigE9)
	succeed := verdict{must: "succeed", why: "number of seconds within the Duration range (Unpack doc: a number setting converted to seconds)"}
	// (a number that arrives through a reference, a resolver or a splice means seconds like a literal one: D75)
	_ = dyn
	if n.exact {
		if ns.Cmp(bigMaxI64) > 0 || ns.Cmp(bigMinI64) < 0 {
			return mustFail("second count outside +-2^63 ns")
		}
		want, _ := ns.Int(nil)
		succeed.check = func(got reflect.Value) error {
			if g := gotBig(got); g == nil || g.Cmp(want) != 0 {
				return fmt.Errorf("stored %v ns, the setting means %v ns", got.Int(), want)
			}
			return nil
		}
		return succeed
	}
	// float seconds: one float64 multiplication plus truncation, |d| <= 2^-52*|ns| + 1ns
	abs := bf().Abs(ns)
	tol := bf().Add(bf().Mul(abs, bigEps), bigOne)
	check := func(got reflect.Value) error {
		g := gotBig(got)
		if g == nil {
			return fmt.Errorf("stored %v", got.Interface())
		}
		d := bf().Sub(bf().SetInt(g), ns)
		if d.Abs(d).Cmp(tol) > 0 {
			return fmt.Errorf("stored %v ns, the setting means %s ns (tolerance %s ns)", g, ns.Text('f', 3), tol.Text('f', 3))
		}
		return nil
	}
	if abs.Cmp(bf().Add(bigTwo63, tol)) > 0 {
		return mustFail("second count outside +-2^63 ns")
	}
	if abs.Cmp(bf().Sub(bigTwo63, tol)) >= 0 {
		return verdict{must: "either", why: "within the stated float tolerance of +-2^63 ns", lax: "Duration boundary within float tolerance", check: check}
	}
	succeed.check = check
	return succeed
}

// textIsNum reports whether s is a spelling of n that strconv reads back exactly.
func textIsNum(s string, n num) bool {
	if n.x == nil {
		f, err := strconv.ParseFloat(s, 64)
		return err == nil && sameFloat(f, n.nf)
	}
	if i, err := strconv.ParseInt(s, 0, 64); err == nil && numInt(i).x.Cmp(n.x) == 0 {
		return true
	}
	if u, err := strconv.ParseUint(s, 0, 64); err == nil && numUint(u).x.Cmp(n.x) == 0 {
		return true
	}
	if f, err := strconv.ParseFloat(s, 64); err == nil && !math.IsInf(f, 0) && !math.IsNaN(f) && numFloat(f).x.Cmp(n.x) == 0 {
		return true
	}
	return false
}

func numVerdict(n num, t *tgtDesc, dyn bool) verdict {
	switch t.kind {
	case "int", "uint":
		return intVerdict(n, t)
	case "float":
		return floatVerdict(n, t, nil)
	case "duration":
		return durationVerdict(n, dyn)
	case "string":
		return verdict{must: "succeed", why: "number into string (Unpack doc: any primitive value which is serialized into a string)",
			check: func(got reflect.Value) error {
				if got.Kind() != reflect.String || !textIsNum(got.String(), n) {
					return fmt.Errorf("stored %q, which strconv does not read back as %v", got.Interface(), n)
				}
				return nil
			}}
	}
	// bool targets fed with numbers are not asserted either way (DESIGN 6.6)
	return verdict{must: "none", why: "number into bool is not asserted (DESIGN 6.6)"}
}

// ---------------------------------------------------------------------------
// bools

func boolVerdict(b bool, t *tgtDesc) verdict {
	switch t.kind {
	case "bool":
		return verdict{must: "succeed", why: "bool into bool (Unpack doc: setting of type bool)",
			check: func(got reflect.Value) error {
				if got.Kind() != reflect.Bool || got.Bool() != b {
					return fmt.Errorf("stored %v, the setting is %v", got.Interface(), b)
				}
				return nil
			}}
	case "string":
		return verdict{must: "succeed", why: "bool into string (Unpack doc: any primitive value which is serialized into a string)",
			check: func(got reflect.Value) error {
				if got.Kind() == reflect.String {
					if p, err := strconv.ParseBool(got.String()); err == nil && p == b {
						return nil
					}
				}
				return fmt.Errorf("stored %q, which does not read back as %v", got.Interface(), b)
			}}
	}
	return verdict{must: "none", why: "bool into a numeric target: the statement is silent"}
}

// ---------------------------------------------------------------------------
// strings

var onOff = map[string]bool{"on": true, "ON": true, "off": false, "OFF": false}

func strVerdict(s string, t *tgtDesc, dyn bool) verdict {
	switch t.kind {
	case "string":
		return verdict{must: "succeed", why: "string into string",
			check: func(got reflect.Value) error {
				if got.Kind() != reflect.String || got.String() != s {
					return fmt.Errorf("stored %q, the setting is %q", got.Interface(), s)
				}
				return nil
			}}
	case "bool":
		eq := func(want bool) func(reflect.Value) error {
			return func(got reflect.Value) error {
				if got.Kind() != reflect.Bool || got.Bool() != want {
					return fmt.Errorf("stored %v, %q means %v", got.Interface(), s, want)
				}
				return nil
			}
		}
		b, err := strconv.ParseBool(s)
		switch {
		case s == "true" || s == "false":
			return verdict{must: "succeed", why: "Unpack doc: string which parses into a boolean value (true, false, ...)", check: eq(b)}
		case err == nil:
			return verdict{must: "either", why: "strconv.ParseBool accepts the word, the documentation does not list it", check: eq(b)}
		}
		if v, ok := onOff[s]; ok {
			return verdict{must: "either", why: "on/off are documented, strconv.ParseBool rejects them", lax: "on/off string into bool", check: eq(v)}
		}
		return mustFail("a string that does not parse as a boolean")
	case "duration":
		d, err := time.ParseDuration(s)
		if err != nil {
			return mustFail("a string time.ParseDuration rejects (Unpack doc: a string parsed into time.Duration via time.ParseDuration)")
		}
		return verdict{must: "succeed", why: "Unpack doc: a string parsed into time.Duration via time.ParseDuration",
			check: func(got reflect.Value) error {
				if g := gotBig(got); g == nil || g.Int64() != int64(d) {
					return fmt.Errorf("stored %v ns, time.ParseDuration(%q) is %v ns", got.Interface(), s, int64(d))
				}
				return nil
			}}
	}
	// numeric targets: the grammar is strconv's for the target kind
	i, ierr := strconv.ParseInt(s, 0, 64)
	u, uerr := strconv.ParseUint(s, 0, 64)
	f, ferr := strconv.ParseFloat(s, 64)
	switch {
	case t.kind == "int" && ierr == nil:
		return intVerdict(numInt(i), t)
	case t.kind == "uint" && uerr == nil:
		return intVerdict(numUint(u), t)
	case t.kind == "float" && ferr == nil:
		var alt *float32
		if t.bits == 32 {
			if f32, err := strconv.ParseFloat(s, 32); err == nil {
				a := float32(f32)
				alt = &a
			}
		}
		return floatVerdict(numFloat(f), t, alt)
	}
	// The grammar of the target kind rejects the string. If another strconv number grammar accepts it
	// ("1.5" or "1e3" into an int, "+5" into a uint, "0x10" into a float) the statement does not say
	// that the call fails; if it succeeds, the stored value must be that reading, converted soundly.
	var cands []verdict
	if ierr == nil {
		cands = append(cands, numVerdict(numInt(i), t, dyn))
	}
	if uerr == nil {
		cands = append(cands, numVerdict(numUint(u), t, dyn))
	}
	if ferr == nil {
		cands = append(cands, numVerdict(numFloat(f), t, dyn))
	}
	live := cands[:0:0]
	for _, c := range cands {
		if c.must != "fail" {
			live = append(live, c)
		}
	}
	if len(cands) == 0 {
		return mustFail("a string no strconv number grammar accepts")
	}
	if len(live) == 0 {
		return mustFail("a string whose every numeric reading is negative for / outside the range of the target: " + cands[0].why)
	}
	return verdict{must: "either", why: "string accepted by another strconv grammar than the target kind's", lax: "string in another number grammar",
		check: func(got reflect.Value) error {
			var first error
			for _, c := range live {
				err := c.check(got)
				if err == nil {
					return nil
				}
				if first == nil {
					first = err
				}
			}
			return first
		}}
}

func oracle(e eff, t *tgtDesc, dyn bool) verdict {
	switch e.kind {
	case "num":
		return numVerdict(e.n, t, dyn)
	case "bool":
		return boolVerdict(e.b, t)
	case "str":
		return strVerdict(e.s, t, dyn)
	}
	return verdict{must: "none", why: "not a primitive setting"}
}

// ---------------------------------------------------------------------------
// the non-trivial rule: the value lies within 2 ulp / +-2 of a boundary of
// the target type, or is not finite, or is spelled in a non-decimal syntax.

var plainDecimal = regexp.MustCompile(`^[+-]?(0|[1-9][0-9]*)(\.[0-9]+)?$`)

func ulp(f float64) float64 {
	f = math.Abs(f)
	return math.Nextafter(f, math.Inf(1)) - f
}

func nearBoundary(n num, t *tgtDesc) bool {
	if n.x == nil {
		return true
	}
	near := func(b *big.Float, slack float64) bool {
		d := bf().Sub(n.x, b)
		return d.Abs(d).Cmp(big.NewFloat(slack)) <= 0
	}
	switch t.kind {
	case "int", "uint":
		lo, hi := t.intRange()
		for _, b := range []*big.Int{lo, hi} {
			bfl := bf().SetInt(b)
			f, _ := bfl.Float64()
			if near(bfl, math.Max(2, 2*ulp(f))) {
				return true
			}
		}
	case "float":
		m := math.MaxFloat64
		slack := 2 * math.Ldexp(1, 971) // ulp of MaxFloat64
		if t.bits == 32 {
			m = math.MaxFloat32
			slack = 2 * math.Ldexp(1, 104) // ulp of MaxFloat32
		}
		return near(big.NewFloat(m), slack) || near(big.NewFloat(-m), slack)
	case "duration":
		// in seconds: +-2 for integer settings, 2 ulp for float settings
		b := new(big.Float).SetPrec(prec).Quo(bigTwo63, bigE9)
		slack := 2.0
		if !n.exact {
			slack = 2 * ulp(9223372036.854775807)
		}
		return near(b, slack) || near(bf().Neg(b), slack)
	}
	return false
}

func nonDecimalSpelling(s string) bool {
	s = strings.TrimSpace(s)
	if plainDecimal.MatchString(s) {
		return false
	}
	if _, err := strconv.ParseInt(s, 0, 64); err == nil {
		return true
	}
	if _, err := strconv.ParseUint(s, 0, 64); err == nil {
		return true
	}
	if _, err := strconv.ParseFloat(s, 64); err == nil {
		return true
	}
	return false
}
