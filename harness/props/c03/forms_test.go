package c03

// Further dimensions of the cross product:
//
//   - the Go type the setting's value has when it is handed over (every sized
//     integer and float kind and named variants of them: Src.G) and the way the
//     Go value is packaged (interface value, pointer, typed map, struct field,
//     slice / array element, merged in a second step: Case.Wrap),
//   - the typed setters SetInt/SetUint/SetFloat/SetString/SetBool with and
//     without an index (delivery "set"),
//   - settings that are lists of one element (Go lists, setter with index 0,
//     `[text]` from a resolver, the environment, a default, an alternative or a
//     splice: Case.L),
//   - targets that are elements: of a slice, an array, a map in a struct field,
//     of a map Unpack is called with (Case.Shape), zero or pre-filled, with the
//     documented list merge options (Case.Merge),
//   - getters called with index 0.

import (
	"fmt"
	"math"
	"math/big"
	"reflect"
	"strconv"
	"strings"
	"sync"
	"testing"

	ucfg "github.com/elastic/go-ucfg"
	"github.com/elastic/go-ucfg/parse"
	"pgregory.net/rapid"

	"verif/harness/internal/runlog"
)

// ---------------------------------------------------------------------------
// Go kinds of a source

type goKind struct {
	name string
	typ  reflect.Type
	k    string // the Src.K it converts from
}

var goKindList = []goKind{
	{"int8", reflect.TypeOf(int8(0)), "i"}, {"uint8", reflect.TypeOf(uint8(0)), "u"}, {"float32", reflect.TypeOf(float32(0)), "f"},
	{"int16", reflect.TypeOf(int16(0)), "i"}, {"uint16", reflect.TypeOf(uint16(0)), "u"}, {"nfloat32", reflect.TypeOf(NFloat32(0)), "f"},
	{"int32", reflect.TypeOf(int32(0)), "i"}, {"uint32", reflect.TypeOf(uint32(0)), "u"}, {"float64", reflect.TypeOf(float64(0)), "f"},
	{"int", reflect.TypeOf(int(0)), "i"}, {"uint", reflect.TypeOf(uint(0)), "u"}, {"nfloat64", reflect.TypeOf(NFloat64(0)), "f"},
	{"int64", reflect.TypeOf(int64(0)), "i"}, {"uint64", reflect.TypeOf(uint64(0)), "u"},
	{"nint8", reflect.TypeOf(NInt8(0)), "i"}, {"nuint8", reflect.TypeOf(NUint8(0)), "u"},
	{"nint16", reflect.TypeOf(NInt16(0)), "i"}, {"nuint16", reflect.TypeOf(NUint16(0)), "u"},
	{"nint32", reflect.TypeOf(NInt32(0)), "i"}, {"nuint32", reflect.TypeOf(NUint32(0)), "u"},
	{"nint", reflect.TypeOf(NInt(0)), "i"}, {"nuint", reflect.TypeOf(NUint(0)), "u"},
	{"nint64", reflect.TypeOf(NInt64(0)), "i"}, {"nuint64", reflect.TypeOf(NUint64(0)), "u"},
	{"nstring", reflect.TypeOf(NString("")), "s"}, {"nbool", reflect.TypeOf(NBool(false)), "b"},
}

var goKinds = map[string]*goKind{}

func init() {
	for i := range goKindList {
		goKinds[goKindList[i].name] = &goKindList[i]
	}
}

func kindClass(k reflect.Kind) string {
	switch k {
	case reflect.Int, reflect.Int8, reflect.Int16, reflect.Int32, reflect.Int64:
		return "i"
	case reflect.Uint, reflect.Uint8, reflect.Uint16, reflect.Uint32, reflect.Uint64:
		return "u"
	case reflect.Float32, reflect.Float64:
		return "f"
	case reflect.String:
		return "s"
	case reflect.Bool:
		return "b"
	}
	return "?"
}

func convertTo(v interface{}, g string) (interface{}, error) {
	gk := goKinds[g]
	rv := reflect.ValueOf(v)
	if gk == nil || kindClass(rv.Kind()) != gk.k {
		return nil, fmt.Errorf("harness: a %T cannot be handed over as %q", v, g)
	}
	return rv.Convert(gk.typ).Interface(), nil
}

// effOfGo: the mathematical value a Go value holds.
func effOfGo(v interface{}) eff {
	rv := reflect.ValueOf(v)
	switch kindClass(rv.Kind()) {
	case "i":
		return eff{kind: "num", n: numInt(rv.Int())}
	case "u":
		return eff{kind: "num", n: numUint(rv.Uint())}
	case "f":
		return eff{kind: "num", n: numFloat(rv.Float())} // every float32 is a float64: Float() is exact
	case "b":
		return eff{kind: "bool", b: rv.Bool()}
	}
	return eff{kind: "str", s: rv.String()}
}

func textOfGo(v interface{}) string {
	rv := reflect.ValueOf(v)
	switch kindClass(rv.Kind()) {
	case "i":
		return strconv.FormatInt(rv.Int(), 10)
	case "u":
		return strconv.FormatUint(rv.Uint(), 10)
	case "f":
		return strconv.FormatFloat(rv.Float(), 'g', -1, 64)
	case "b":
		return strconv.FormatBool(rv.Bool())
	}
	return rv.String()
}

// ---------------------------------------------------------------------------
// packaging of the Go value

// wraps: how the Go value x of type T is handed over under the key K.
//
//	""            map[string]interface{}{K: x} (with the other settings, one NewFrom)
//	ptr, pptr     {K: &x}, {K: &&x}
//	merge         NewFrom(the other settings), then Merge(map[string]interface{}{K: x})
//	tmap          ... Merge(map[string]T{K: x})
//	field         ... Merge(struct{F T `config:"K"`}{x})
//	ptr-field     ... Merge(&struct{F *T `config:"K"`}{&x})
//	iface-field   ... Merge(struct{F interface{} `config:"K"`}{x})
//	slice, array, islice      {K: []T{x}}, {K: [1]T{x}}, {K: []interface{}{x}}: the setting is a list of one element
//	slice-field, tmap-slice   struct{F []T}, map[string][]T merged: likewise
var wrapList = []string{"", "ptr", "field", "slice", "tmap", "merge", "islice", "ptr-field", "array", "iface-field", "slice-field", "tmap-slice", "pptr"}

var listWraps = map[string]bool{"slice": true, "array": true, "islice": true, "slice-field": true, "tmap-slice": true}

// topmapDeliveries build a configuration with the single setting "v".
var topmapDeliveries = map[string]bool{"lit": true, "set": true, "resolver": true, "resolve-env": true, "default": true, "envcfg": true}

var (
	structMu    sync.Mutex
	structCache = map[string]reflect.Type{}
)

func structOf(ft reflect.Type, tag string) reflect.Type {
	structMu.Lock()
	defer structMu.Unlock()
	key := ft.String() + "|" + tag
	if t, ok := structCache[key]; ok {
		return t
	}
	t := reflect.StructOf([]reflect.StructField{{Name: "V", Type: ft, Tag: reflect.StructTag(`config:"` + tag + `"`)}})
	structCache[key] = t
	return t
}

var tIface = reflect.TypeOf((*interface{})(nil)).Elem()

// pack returns either an element to store under the key in a generic map, or
// a container holding the key that is merged in a second step.
func pack(wrap, key string, val interface{}) (elem interface{}, container interface{}, err error) {
	rv := reflect.ValueOf(val)
	T := rv.Type()
	ptr := func(v reflect.Value) reflect.Value {
		p := reflect.New(v.Type())
		p.Elem().Set(v)
		return p
	}
	sliceOf := func() reflect.Value {
		s := reflect.MakeSlice(reflect.SliceOf(T), 1, 1)
		s.Index(0).Set(rv)
		return s
	}
	oneField := func(ft reflect.Type, v reflect.Value) reflect.Value {
		s := reflect.New(structOf(ft, key)).Elem()
		s.Field(0).Set(v)
		return s
	}
	switch wrap {
	case "":
		return val, nil, nil
	case "ptr":
		return ptr(rv).Interface(), nil, nil
	case "pptr":
		return ptr(ptr(rv)).Interface(), nil, nil
	case "slice":
		return sliceOf().Interface(), nil, nil
	case "array":
		a := reflect.New(reflect.ArrayOf(1, T)).Elem()
		a.Index(0).Set(rv)
		return a.Interface(), nil, nil
	case "islice":
		return []interface{}{val}, nil, nil
	case "merge":
		return nil, map[string]interface{}{key: val}, nil
	case "tmap":
		m := reflect.MakeMap(reflect.MapOf(reflect.TypeOf(""), T))
		m.SetMapIndex(reflect.ValueOf(key), rv)
		return nil, m.Interface(), nil
	case "tmap-slice":
		m := reflect.MakeMap(reflect.MapOf(reflect.TypeOf(""), reflect.SliceOf(T)))
		m.SetMapIndex(reflect.ValueOf(key), sliceOf())
		return nil, m.Interface(), nil
	case "field":
		return nil, oneField(T, rv).Interface(), nil
	case "ptr-field":
		return nil, ptr(oneField(reflect.PointerTo(T), ptr(rv))).Interface(), nil
	case "iface-field":
		return nil, oneField(tIface, rv).Interface(), nil
	case "slice-field":
		return nil, oneField(reflect.SliceOf(T), sliceOf()).Interface(), nil
	}
	return nil, nil, fmt.Errorf("harness: unknown wrap %q", wrap)
}

// build makes the configuration: base holds the settings that are plain
// text, val (if key != "") is the Go value, packaged as c.Wrap says. For the
// map shape the setting "v" moves to "v.k".
func (c Case) build(base map[string]interface{}, key string, val interface{}, opts ...ucfg.Option) (*ucfg.Config, error) {
	nest := c.Read == "unpack" && nestShapes[c.Shape]
	nested := func(x interface{}) interface{} {
		if c.Shape == "slice-struct" { // named entries are not unpacked into a slice: the object is the element 0
			return []interface{}{x}
		}
		return x
	}
	if nest && key != "v" {
		base["v"] = nested(map[string]interface{}{"k": base["v"]})
	}
	if key == "" {
		return ucfg.NewFrom(base, opts...)
	}
	k := key
	if nest && key == "v" {
		k = "k"
	}
	elem, container, err := pack(c.Wrap, k, val)
	if err != nil {
		return nil, err
	}
	if container == nil {
		if nest && key == "v" {
			base["v"] = nested(map[string]interface{}{"k": elem})
		} else {
			base[k] = elem
		}
		return ucfg.NewFrom(base, opts...)
	}
	cfg, err := ucfg.NewFrom(base, opts...)
	if err != nil {
		return nil, err
	}
	if nest && key == "v" {
		container = map[string]interface{}{"v": nested(container)}
	}
	return cfg, cfg.Merge(container, opts...)
}

// buildSet writes the setting with the typed setter of the source kind.
func (c Case) buildSet(s Src) (*ucfg.Config, error) {
	cfg := ucfg.New()
	name, idx := "v", -1
	var opts []ucfg.Option
	if c.Read == "unpack" && nestShapes[c.Shape] {
		name, opts = "v.k", []ucfg.Option{ucfg.PathSep(".")}
		if c.Shape == "slice-struct" {
			name = "v.0.k"
		}
	}
	if c.L {
		idx = 0
	}
	switch s.K {
	case "i":
		return cfg, cfg.SetInt(name, idx, s.I, opts...)
	case "u":
		return cfg, cfg.SetUint(name, idx, s.U, opts...)
	case "f":
		f, err := s.float()
		if err != nil {
			return nil, err
		}
		return cfg, cfg.SetFloat(name, idx, f, opts...)
	case "b":
		return cfg, cfg.SetBool(name, idx, s.B, opts...)
	}
	return cfg, cfg.SetString(name, idx, s.S, opts...)
}

// effOfListText: the value of the only element of `[text]`. Only texts
// without structural characters are written this way, so the element is the
// text: a numeral means its mathematical value (numeralValue), anything else is
// classified like effOfText does, with the list structure taken from the parser.
func effOfListText(text string, pc parse.Config) eff {
	t := strings.TrimSpace(text)
	if !pc.Array || t == "" || strings.ContainsAny(text, structural) {
		return eff{kind: "undeliverable"}
	}
	v, err := parse.ValueWithConfig("["+text+"]", pc)
	if err != nil {
		return eff{kind: "parse-error"}
	}
	l, ok := v.([]interface{})
	if !ok || len(l) != 1 {
		return eff{kind: "cont"}
	}
	if n, ok := numeralValue(t); ok {
		return eff{kind: "num", n: n}
	}
	switch x := l[0].(type) {
	case nil:
		return eff{kind: "nil"}
	case bool:
		return eff{kind: "bool", b: x}
	case int64, uint64, float64:
		return eff{kind: "str", s: t} // no strconv grammar accepts the text
	case string:
		return eff{kind: "str", s: x}
	}
	return eff{kind: "cont"}
}

// ---------------------------------------------------------------------------
// element targets

// nestShapes read the setting at v.k; listShapes can take a list of one element.
var (
	nestShapes = map[string]bool{"map": true, "struct": true, "ptr-struct": true, "slice-struct": true, "map-slice": true}
	listShapes = map[string]bool{"slice": true, "array": true, "slice2": true, "map-slice": true}
	shapeList  = []string{"slice", "", "array", "map", "struct", "iface", "slice2", "map-slice", "slice-struct", "ptr-struct", "topmap", "slice"}
)

// errReplaced: the interface target does not hold a value of the typed kind
// any more (the library stored a generic value): nothing to assert.
var errReplaced = fmt.Errorf("interface target: the held type was replaced")

// readUnpack unpacks the setting into a target of the given type, variant and
// shape and returns the stored value with pointers removed.
//
//	""            V E                      slice         V []E                 array   V [1]E
//	map           V map[string]E (v.k)     topmap        Unpack(map[string]E)  struct  V struct{K E} (v.k)
//	ptr-struct    V *struct{K E} (v.k)     slice-struct  V []struct{K E} (v.0.k)
//	slice2        V [][]E                  map-slice     V map[string][]E (v.k)
//	iface         V interface{} holding an E (a sentinel): asserted only if it still holds that type afterwards
func readUnpack(cfg *ucfg.Config, t *tgtDesc, c Case, opts []ucfg.Option) (reflect.Value, error, error) {
	E, ok := t.fieldType(c.Var)
	if !ok {
		return reflect.Value{}, nil, fmt.Errorf("harness: no variant %q of target %s", c.Var, t.name)
	}
	prefill := c.Var == "set" || c.Var == "ptr-set" || c.Shape == "iface"
	mkElem := func() reflect.Value {
		e := reflect.New(E).Elem()
		if E.Kind() == reflect.Ptr {
			p := reflect.New(E.Elem())
			sentinel(p.Elem())
			e.Set(p)
		} else {
			sentinel(e)
		}
		return e
	}
	tag := "v"
	switch c.Merge {
	case "":
	case "append":
		opts = append(opts[:len(opts):len(opts)], ucfg.AppendValues)
	case "prepend":
		opts = append(opts[:len(opts):len(opts)], ucfg.PrependValues)
	case "replace":
		opts = append(opts[:len(opts):len(opts)], ucfg.ReplaceValues)
	case "tag-append", "tag-prepend", "tag-replace":
		tag += "," + strings.TrimPrefix(c.Merge, "tag-")
	default:
		return reflect.Value{}, nil, fmt.Errorf("harness: unknown merge %q", c.Merge)
	}
	tStr := reflect.TypeOf("")
	S := func() reflect.Type { return structOf(E, "k") }
	one := func(st reflect.Type, e reflect.Value) reflect.Value { // a slice with the single element e
		return reflect.Append(reflect.MakeSlice(st, 0, 1), e)
	}
	inS := func(e reflect.Value) reflect.Value {
		v := reflect.New(S()).Elem()
		v.Field(0).Set(e)
		return v
	}
	// the type of the field V, the value it holds before the call, and the way to the element afterwards
	var ft reflect.Type
	var pre func() reflect.Value
	type step struct {
		op  string // idx | key | field | deref
		idx int
		key string
		n   int // idx: the length the list must have
	}
	var path []step
	switch c.Shape {
	case "":
		ft, pre = E, mkElem
	case "slice":
		ft = reflect.SliceOf(E)
		pre = func() reflect.Value { return one(ft, mkElem()) }
		want, at := 1, 0
		if prefill && strings.HasSuffix(c.Merge, "append") {
			want, at = 2, 1
		} else if prefill && strings.HasSuffix(c.Merge, "prepend") {
			want = 2
		}
		path = []step{{op: "idx", idx: at, n: want}}
	case "array":
		ft = reflect.ArrayOf(1, E)
		pre = func() reflect.Value {
			a := reflect.New(ft).Elem()
			a.Index(0).Set(mkElem())
			return a
		}
		path = []step{{op: "idx", n: 1}}
	case "map", "topmap":
		ft = reflect.MapOf(tStr, E)
		key := "k"
		if c.Shape == "topmap" {
			key = "v"
		}
		pre = func() reflect.Value {
			m := reflect.MakeMap(ft)
			m.SetMapIndex(reflect.ValueOf(key), mkElem())
			return m
		}
		path = []step{{op: "key", key: key}}
	case "struct":
		ft = S()
		pre = func() reflect.Value { return inS(mkElem()) }
		path = []step{{op: "field"}}
	case "ptr-struct":
		ft = reflect.PointerTo(S())
		pre = func() reflect.Value {
			p := reflect.New(S())
			p.Elem().Field(0).Set(mkElem())
			return p
		}
		path = []step{{op: "deref"}, {op: "field"}}
	case "slice-struct":
		ft = reflect.SliceOf(S())
		pre = func() reflect.Value { return one(ft, inS(mkElem())) }
		path = []step{{op: "idx", n: 1}, {op: "field"}}
	case "slice2":
		ft = reflect.SliceOf(reflect.SliceOf(E))
		pre = func() reflect.Value { return one(ft, one(reflect.SliceOf(E), mkElem())) }
		path = []step{{op: "idx", n: 1}, {op: "idx", n: 1}}
	case "map-slice":
		ft = reflect.MapOf(tStr, reflect.SliceOf(E))
		pre = func() reflect.Value {
			m := reflect.MakeMap(ft)
			m.SetMapIndex(reflect.ValueOf("k"), one(reflect.SliceOf(E), mkElem()))
			return m
		}
		path = []step{{op: "key", key: "k"}, {op: "idx", n: 1}}
	case "iface":
		ft, pre = tIface, mkElem
		path = []step{{op: "deref"}}
	default:
		return reflect.Value{}, nil, fmt.Errorf("harness: unknown shape %q", c.Shape)
	}

	var f reflect.Value
	var err error
	if c.Shape == "topmap" {
		h := reflect.New(ft)
		f = h.Elem()
		f.Set(reflect.MakeMap(ft))
		if prefill {
			f.Set(pre())
		}
		if c.Var == "ptr" || c.Var == "named" { // Unpack accepts the map itself as well as a pointer to it
			err = cfg.Unpack(f.Interface(), opts...)
		} else {
			err = cfg.Unpack(h.Interface(), opts...)
		}
	} else {
		h := reflect.New(structOf(ft, tag))
		f = h.Elem().Field(0)
		if prefill {
			f.Set(pre())
		}
		err = cfg.Unpack(h.Interface(), opts...)
	}
	if err != nil {
		return reflect.Value{}, err, nil
	}
	for _, st := range path {
		switch st.op {
		case "idx":
			if f.Len() != st.n {
				return reflect.Value{}, nil, fmt.Errorf("Unpack returned nil but the list has %d elements (a list of one element with merge %q gives %d)", f.Len(), c.Merge, st.n)
			}
			f = f.Index(st.idx)
		case "key":
			if f.IsNil() || !f.MapIndex(reflect.ValueOf(st.key)).IsValid() {
				return reflect.Value{}, nil, fmt.Errorf("Unpack returned nil but the map has no entry %q", st.key)
			}
			f = f.MapIndex(reflect.ValueOf(st.key))
		case "field":
			f = f.Field(0)
		case "deref":
			if f.IsNil() {
				return reflect.Value{}, nil, fmt.Errorf("Unpack returned nil but left the target nil")
			}
			f = f.Elem()
		}
	}
	for f.Kind() == reflect.Ptr {
		if f.IsNil() {
			return reflect.Value{}, nil, fmt.Errorf("Unpack returned nil but left the pointer target nil")
		}
		f = f.Elem()
	}
	if base := E; c.Shape == "iface" {
		for base.Kind() == reflect.Ptr {
			base = base.Elem()
		}
		if f.Type() != base {
			return reflect.Value{}, nil, errReplaced
		}
	}
	return f, nil, nil
}

// shortFloat32 reports whether the float32 is also the float64 its shortest
// decimal form means (0.5 is, 0.1 is not).
func shortFloat32(f float32) bool {
	g, err := strconv.ParseFloat(strconv.FormatFloat(float64(f), 'g', -1, 32), 64)
	return err == nil && g == float64(f)
}

func formClasses(c Case, t *tgtDesc, e eff, v verdict, r *runlog.R) {
	goDeliv := c.Deliv == "lit" || c.Deliv == "ref" || c.Deliv == "envcfg" || c.Deliv == "splice-val"
	if goDeliv {
		g := c.Src.G
		if g == "" {
			g = "(default)"
		}
		r.Class("go kind=" + g)
		r.Class("wrap=" + c.Wrap)
		if c.Src.K == "f" && (c.Src.G == "float32" || c.Src.G == "nfloat32") && e.kind == "num" && e.n.x != nil {
			if val, err := c.Src.goValue(); err == nil {
				f32 := float32(reflect.ValueOf(val).Float())
				if !shortFloat32(f32) {
					r.Class("float32 source that is not the float64 of its shortest decimal form")
					r.Class("float32 source (not short) into " + t.kind)
				}
				r.ClassIf(math.Abs(float64(f32)) == math.MaxFloat32, "float32 source +-MaxFloat32")
				r.ClassIf(math.Abs(float64(f32)) == math.SmallestNonzeroFloat32, "float32 source +-SmallestNonzeroFloat32")
			}
		}
		if c.Src.G != "" && e.kind == "num" && e.n.exact {
			if gk := goKinds[c.Src.G]; gk != nil && (gk.k == "i" || gk.k == "u") {
				d := tgtDesc{kind: map[string]string{"i": "int", "u": "uint"}[gk.k], bits: gk.typ.Bits()}
				lo, hi := d.intRange()
				x, _ := e.n.x.Int(nil)
				r.ClassIf(x.Cmp(lo) == 0 || x.Cmp(hi) == 0, "sized Go integer source at the boundary of its own type")
			}
		}
	}
	r.ClassIf(c.Deliv == "set" && !c.L, "setter with index -1")
	r.ClassIf(c.Deliv == "set" && c.L, "setter with index 0")
	isList := listWraps[c.Wrap] || c.L
	r.ClassIf(isList, "setting is a list of one element")
	r.ClassIf(isList && c.Deliv != "set" && !listWraps[c.Wrap], "list of one element from text")
	if c.Read == "getter" {
		r.ClassIf(c.GIdx, "getter with index 0")
		return
	}
	r.Class("shape=" + c.Shape)
	if c.Shape == "" {
		return
	}
	r.ClassIf(!isList && listShapes[c.Shape], "single value into a list target")
	r.ClassIf(c.Merge != "", "merge="+c.Merge)
	r.Class("element target " + t.kind + fmt.Sprint(t.bits) + ": oblige=" + v.must)
	if e.kind == "num" && e.n.exact && e.n.x != nil {
		r.ClassIf(e.n.x.Sign() <= 0 || c.Deliv == "set" && c.Src.K == "i", "element target: integer setting held as signed")
	}
}

// ---------------------------------------------------------------------------
// the generator of the forms part

func fitsKind(n *big.Int, gk *goKind) bool {
	d := tgtDesc{kind: map[string]string{"i": "int", "u": "uint"}[gk.k], bits: gk.typ.Bits()}
	lo, hi := d.intRange()
	return n.Cmp(lo) >= 0 && n.Cmp(hi) <= 0
}

var float32Values = []float32{0.1, 2.7, 16777216.0 / 3, math.MaxFloat32, math.SmallestNonzeroFloat32, 0.3, 1e-3, 1e10, 3.3e38, 1.1754944e-38,
	127.9, 255.1, 32767.7, 65535.9, 2147483648, 4294967296, 9223372036854775807, 18446744073709551615, 9223372036.854775807, 1e-9, 123456.789, 0.5, 1, 0, 16777216}

// genFloat32 draws a float32 (as the float64 that holds it exactly).
func genFloat32(t *rapid.T, tg *tgtDesc) float64 {
	var f float32
	switch rapid.IntRange(0, 5).Draw(t, "f32class") {
	case 0:
		f = math.Float32frombits(rapid.Uint32().Draw(t, "bits"))
	case 1: // next to a boundary of the target
		f = float32(nearestFloat(genBig(t, tg)))
	case 2: // a decimal fraction, not dyadic
		f = float32(rapid.IntRange(-100000, 100000).Draw(t, "n")) / float32(rapid.SampledFrom([]int{10, 3, 1000, 7, 100}).Draw(t, "d"))
	case 3:
		f = float32(math.Ldexp(1+float64(rapid.Uint32Range(0, 1<<23-1).Draw(t, "mant"))/(1<<23), rapid.IntRange(-40, 70).Draw(t, "exp")))
	default:
		f = rapid.SampledFrom(float32Values).Draw(t, "value")
	}
	for k := rapid.IntRange(-2, 2).Draw(t, "ulps32"); k != 0; {
		if k > 0 {
			f = math.Nextafter32(f, float32(math.Inf(1)))
			k--
		} else {
			f = math.Nextafter32(f, float32(math.Inf(-1)))
			k++
		}
	}
	if rapid.Bool().Draw(t, "neg") {
		f = -f
	}
	return float64(f)
}

// genForKind draws a value the Go kind can hold.
func genForKind(t *rapid.T, gk *goKind, tg *tgtDesc) Src {
	var s Src
	switch gk.k {
	case "f":
		if gk.typ.Kind() == reflect.Float32 {
			s = srcF(genFloat32(t, tg))
		} else {
			s = srcF(0.1)
			for i := 0; i < 6; i++ {
				if n := genNumber(t, tg); n.K == "f" {
					s = n
					break
				}
			}
		}
	case "s":
		s = genString(t, tg)
	case "b":
		s = srcB(rapid.Bool().Draw(t, "b"))
	default:
		d := tgtDesc{kind: map[string]string{"i": "int", "u": "uint"}[gk.k], bits: gk.typ.Bits()}
		lo, hi := d.intRange()
		var n *big.Int
		switch rapid.IntRange(0, 3).Draw(t, "intclass") {
		case 0: // next to a boundary of the target, if the kind can hold it
			n = genBig(t, tg)
		case 1: // at the boundary of the kind itself
			n = new(big.Int).Add(lo, big.NewInt(int64(rapid.IntRange(0, 2).Draw(t, "offset"))))
			if rapid.Bool().Draw(t, "hi") {
				n = new(big.Int).Sub(hi, big.NewInt(int64(rapid.IntRange(0, 2).Draw(t, "offset"))))
			}
		case 2:
			n = big.NewInt(int64(rapid.IntRange(-300, 300).Draw(t, "small")))
		}
		if n == nil || !fitsKind(n, gk) { // random bits of the width of the kind
			bits := rapid.Uint64().Draw(t, "bits")
			if gk.k == "i" {
				n = big.NewInt(int64(bits) >> uint(64-d.bits))
			} else {
				n = new(big.Int).SetUint64(bits >> uint(64-d.bits))
			}
		}
		if gk.k == "i" {
			s = srcI(n.Int64())
		} else {
			s = srcU(n.Uint64())
		}
	}
	s.G = gk.name
	return s
}

var formDeliveries = []string{"lit", "set", "ref", "resolver", "lit", "envcfg", "splice-val", "default", "resolve-env", "alt", "splice", "set", "lit"}

func genForm(t *rapid.T) Case {
	var c Case
	if rapid.IntRange(0, 5).Draw(t, "getter") == 5 {
		c.Read = "getter"
		c.Tgt = rapid.SampledFrom(getterTargets).Draw(t, "tgt")
		c.GIdx = rapid.Bool().Draw(t, "gidx")
	} else {
		c.Read = "unpack"
		c.Tgt = rapid.SampledFrom(randTargets).Draw(t, "tgt")
		c.Var = rapid.SampledFrom(targets[c.Tgt].variants()).Draw(t, "variant")
		c.Shape = rapid.SampledFrom(shapeList).Draw(t, "shape")
	}
	tg := targets[c.Tgt]
	c.Deliv = rapid.SampledFrom(formDeliveries).Draw(t, "deliv")
	goDeliv := c.Deliv == "lit" || c.Deliv == "ref" || c.Deliv == "envcfg" || c.Deliv == "splice-val"
	if c.Shape == "topmap" && !topmapDeliveries[c.Deliv] {
		c.Shape = "map"
	}

	// the source: a value of a Go kind (kept as text / plain value by the deliveries that do not hand a Go value over)
	kinds := goKindList
	if tg.kind == "bool" {
		kinds = goKindList[len(goKindList)-2:] // numbers into bool are not asserted
	}
	gk := &kinds[rapid.IntRange(0, len(kinds)-1).Draw(t, "gokind")]
	c.Src = genForKind(t, gk, tg)
	if !goDeliv || rapid.IntRange(0, 5).Draw(t, "plain-kind") == 5 {
		c.Src.G = ""
	}
	if goDeliv {
		c.Wrap = rapid.SampledFrom(wrapList).Draw(t, "wrap")
	}
	listOK := c.Read == "getter" && c.GIdx || c.Read == "unpack" && listShapes[c.Shape]
	if listWraps[c.Wrap] && (!listOK || c.Deliv == "splice-val") {
		c.Wrap = strings.NewReplacer("tmap-slice", "tmap", "slice-field", "field", "islice", "", "slice", "ptr", "array", "merge").Replace(c.Wrap)
	}
	switch c.Deliv {
	case "set":
		c.L = listOK && rapid.Bool().Draw(t, "idx0")
	case "resolver":
		c.PC = rapid.SampledFrom(parseConfigNames).Draw(t, "pc")
		c.L = listOK && parseConfigs[c.PC].Array && rapid.Bool().Draw(t, "list")
	case "splice":
		c.Cut = rapid.IntRange(0, len(c.Src.text())).Draw(t, "cut")
		c.L = listOK && rapid.Bool().Draw(t, "list")
	case "resolve-env", "default", "alt":
		c.L = listOK && rapid.Bool().Draw(t, "list")
	}
	if c.Shape == "slice" && (c.Var == "set" || c.Var == "ptr-set") {
		c.Merge = rapid.SampledFrom([]string{"", "append", "prepend", "replace", "tag-append", "tag-prepend", "tag-replace"}).Draw(t, "merge")
	}
	if !goDeliv && c.Deliv != "set" {
		c.IC = rapid.IntRange(0, 7).Draw(t, "ignore-commas") == 7
	}
	return c
}

// ---------------------------------------------------------------------------
// the exhaustive part

// kindValues: the values of a Go kind the grid hands over.
func kindValues(gk *goKind) []Src {
	var out []Src
	switch gk.k {
	case "f":
		if gk.typ.Kind() == reflect.Float64 {
			for _, f := range []float64{0.1, -2.5, math.MaxFloat64, math.MaxFloat32, 9223372036.854775807, 1 << 63, -1 << 63, math.NaN()} {
				out = append(out, srcF(f))
			}
			break
		}
		vals := float32Values
		if gk.typ.PkgPath() != "" {
			vals = vals[:6]
		}
		for _, f := range vals {
			out = append(out, srcF(float64(f)), srcF(float64(-f)))
		}
		for _, f := range []float32{float32(math.NaN()), float32(math.Inf(1)), float32(math.Inf(-1)), math.Nextafter32(math.MaxFloat32, 0), math.Nextafter32(1, 2), math.Nextafter32(128, 0), -128.5} {
			out = append(out, srcF(float64(f)))
		}
	case "s":
		for _, s := range []string{"", "12", "-129", "0x80", "1.5", "true", "abc", "1s"} {
			out = append(out, srcS(s))
		}
	case "b":
		out = append(out, srcB(true), srcB(false))
	default:
		d := tgtDesc{kind: map[string]string{"i": "int", "u": "uint"}[gk.k], bits: gk.typ.Bits()}
		lo, hi := d.intRange()
		seen := map[string]bool{}
		add := func(n *big.Int) {
			if !fitsKind(n, gk) || seen[n.String()] {
				return
			}
			seen[n.String()] = true
			if gk.k == "i" {
				out = append(out, srcI(n.Int64()))
			} else {
				out = append(out, srcU(n.Uint64()))
			}
		}
		named := gk.typ.PkgPath() != ""
		for _, b := range []*big.Int{lo, hi, big.NewInt(0)} {
			for d := int64(-1); d <= 1; d++ {
				if !named || d == 0 {
					add(new(big.Int).Add(b, big.NewInt(d)))
				}
			}
		}
		if !named {
			for _, b := range typeBoundaries() {
				add(b)
				add(new(big.Int).Add(b, big.NewInt(1)))
			}
			add(big.NewInt(maxSeconds))
			add(big.NewInt(maxSeconds + 1))
			add(big.NewInt(-maxSeconds - 1))
		}
	}
	for i := range out {
		out[i].G = gk.name
	}
	return out
}

// elementSources: the sources read into element targets of t.
func elementSources(t *tgtDesc) []Src {
	seen := map[string]bool{}
	var out []Src
	add := func(ss ...Src) {
		for _, s := range ss {
			if k := string(mustJSON(s)); !seen[k] {
				seen[k] = true
				out = append(out, s)
			}
		}
	}
	var bs []*big.Int
	switch t.kind {
	case "int", "uint":
		lo, hi := t.intRange()
		bs = []*big.Int{lo, hi}
	case "duration":
		bs = []*big.Int{big.NewInt(maxSeconds), big.NewInt(-maxSeconds)}
	case "float":
		bs = []*big.Int{pow2(24), pow2(53)}
	}
	for _, b := range bs {
		for d := int64(-1); d <= 1; d++ {
			n := new(big.Int).Add(b, big.NewInt(d))
			add(intSources(n)...)
			add(srcF(nearestFloat(n)), srcS(n.String()))
		}
	}
	for _, n := range []int64{0, -1, 1, -300, 70000, math.MinInt64, math.MaxInt64, 1 << 32, -1 << 31} {
		add(intSources(big.NewInt(n))...)
	}
	add(srcU(math.MaxUint64), srcF(-0.5), srcF(1.5), srcF(math.NaN()), srcF(1e300), srcF(-1e19), srcF(float64(float32(math.MaxFloat32))),
		srcS("0x7f"), srcS("-0x81"), srcS("1e3"), srcS("abc"), srcS("true"), srcS("1s"), srcB(true))
	return out
}

var formsFewTargets = map[string]bool{"int64": true, "int8": true, "uint64": true, "float32": true, "float64": true, "string": true, "duration": true}

func enumForms(yield func(Case) bool) {
	emit := func(c Case) bool {
		if c.Read == "getter" {
			c.Var, c.Shape, c.Merge = "", "", ""
		}
		return yield(c)
	}
	// part A: every Go kind x its values x every packaging x lit / ref / envcfg / splice-val,
	// read into a plain field (a slice for list packagings) of every target and through the getters
	for i := range goKindList {
		gk := &goKindList[i]
		for _, s := range kindValues(gk) {
			for _, w := range wrapList {
				for _, d := range []string{"lit", "ref", "envcfg", "splice-val"} {
					few := w == "" || w == "field" || w == "tmap"
					if d == "splice-val" && !few || d == "envcfg" && !few && w != "slice" || d == "ref" && !few && w != "slice" && w != "ptr" {
						continue
					}
					c := Case{Src: s, Deliv: d, Wrap: w, Read: "unpack"}
					if listWraps[w] {
						c.Shape = "slice"
					}
					for j := range targetList {
						c.Tgt = targetList[j].name
						if !few && !formsFewTargets[c.Tgt] {
							continue // the packaging -> setting step does not depend on the target: one target of every kind
						}
						if !emit(c) {
							return
						}
					}
					c.Read, c.GIdx = "getter", listWraps[w]
					for _, g := range getterTargets {
						c.Tgt = g
						if !few && g != "float64" && g != "string" && g != "int64" {
							continue
						}
						if !emit(c) {
							return
						}
					}
				}
			}
		}
	}
	// part B: element targets of every kind and variant x the ways a number / a list of one number is written
	type way struct {
		deliv, wrap, pc string
		l               bool
	}
	ways := []way{
		{"lit", "", "", false}, {"lit", "islice", "", false}, {"lit", "slice", "", false},
		{"set", "", "", false}, {"set", "", "", true},
		{"ref", "", "", false}, {"ref", "islice", "", false},
		{"resolver", "", "", false}, {"resolver", "", "", true}, {"resolver", "", "array", true},
		{"default", "", "", true}, {"splice", "", "", true}, {"resolve-env", "", "", true}, {"alt", "", "", true},
	}
	commonShapes := map[string]bool{"slice": true, "array": true, "map": true, "struct": true}
	for j := range targetList {
		t := &targetList[j]
		for _, s := range elementSources(t) {
			for wi, w := range ways {
				isList := w.l || listWraps[w.wrap]
				main := wi == 0 || wi == 1 || wi == 3 || wi == 4 || wi == 8  // literal single / list, setter -1 / 0, resolver list: every shape
				textList := w.l && w.deliv != "set" && w.deliv != "resolver" // default, splice, environment, alternative: slices only
				for _, shape := range []string{"slice", "array", "map", "topmap", "struct", "ptr-struct", "slice-struct", "slice2", "map-slice", "iface"} {
					if isList && !listShapes[shape] || shape == "topmap" && !topmapDeliveries[w.deliv] {
						continue
					}
					if !main && !commonShapes[shape] || textList && shape != "slice" {
						continue
					}
					for _, v := range t.variants() {
						if (v == "set" || v == "ptr-set" || v == "ptr-named") && (textList || shape != "slice" && shape != "array" && shape != "map") {
							continue // pre-filled elements: slices, arrays and maps
						}
						merges := []string{""}
						if shape == "slice" && (v == "set" || v == "ptr-set") && (wi == 0 || wi == 1 || wi == 4) {
							merges = []string{"", "append", "prepend", "replace", "tag-append", "tag-prepend", "tag-replace"}
						}
						for _, m := range merges {
							c := Case{Src: s, Deliv: w.deliv, Wrap: w.wrap, PC: w.pc, L: w.l, Tgt: t.name, Var: v, Read: "unpack", Shape: shape, Merge: m}
							if w.deliv == "splice" {
								c.Cut = len(s.text()) / 2
							}
							if !emit(c) {
								return
							}
						}
					}
				}
				// the same settings through the getters, with index 0
				if t.name == "int8" {
					for _, g := range getterTargets {
						c := Case{Src: s, Deliv: w.deliv, Wrap: w.wrap, PC: w.pc, L: w.l, Tgt: g, Read: "getter", GIdx: true}
						if !emit(c) {
							return
						}
					}
				}
			}
		}
	}
}

const ruleForms = "Dimensions added to the cross product of the other sub-checks (same oracle, same run function). (1) Go type of the value handed over: int8..int64, int, uint8..uint64, uint, float32, float64, named variants of all of them, named string and bool; the mathematical value of the setting is the exact value the Go value holds (float32 widened exactly). (2) Packaging of the Go value (deliveries lit, ref, envcfg, splice-val): interface value, pointer, pointer to pointer, typed map map[string]T, struct field T / *T / interface{}, generic map merged in a second step, and as the only element of []T, [1]T, []interface{}, a []T struct field, map[string][]T. (3) The typed setters SetInt/SetUint/SetFloat/SetString/SetBool with index -1 and index 0 (delivery set). (4) Settings that are a list of one element: the Go lists of (2), setter index 0, and the text written as `[text]` by a resolver (parse.Config with arrays), the environment, a default, an alternative, a splice. (5) Element targets: V []T, V [1]T, V map[string]T (setting at v.k), Unpack into map[string]T itself (by value and by pointer), for T = the 15 target types as plain / pointer / named / pointer-to-named elements, empty or pre-filled with a sentinel element; a single value read into a list target (documented: primitive values are handled like arrays of length 1); pre-filled slices with AppendValues / PrependValues / ReplaceValues and the append / prepend / replace tag options (documented), where the element is looked up at the position the documented merge puts it (a wrong list length is a violation). (6) Getters called with index 0 (of a list of one element and of a single value). Discarded: a list of one element read into a non-list target, texts with structural characters written as a list, helper settings that would be unpacked into a typed map. "

var subFormsGrid = runlog.Register(&runlog.Sub[Case]{
	Name: "forms-grid",
	Rule: "Exhaustive, every run. Part A: every Go kind x (integers: min/max of the kind and of every other sized kind that fits, +-1 around them, 0, second counts at the Duration limit; float32: +-{0.1, 2.7, 2^24/3, MaxFloat32 and its lower neighbour, SmallestNonzeroFloat32, smallest normal, values next to integer boundaries, 2^63, 2^64, 0.5, 1, 0}, NaN, +-Inf; float64 samples; strings; bools) x 13 packagings x lit/ref/envcfg/splice-val (ref: 5, envcfg: 4, splice-val: 3 packagings) x 15 unpack targets (plain field; []T for list packagings) + 5 getters (index 0 for lists); packagings other than interface value / struct field / typed map are read through int64, int8, uint64, float32, float64, string, Duration and the Int/Float/String getters only. Part B: for every target type the integers at and +-1 around its own boundaries as int64, uint64, float64 and decimal string, and 0, +-1, -300, 70000, +-2^63, 2^64-1, 2^32, -2^31, -0.5, 1.5, NaN, 1e300, -1e19, MaxFloat32, hex / exponent / non-numeric strings, a bool x 14 ways of writing (literal single / []interface{} / []T, setter index -1 / 0, reference to a single value / a list, resolver text single / list / list under the array-only parse.Config, default, splice, environment, alternative as list) x element shapes (literal single / list, setter, resolver list: all ten shapes []T, [1]T, map[string]T, top-level map, struct{K T}, *struct{K T}, []struct{K T}, [][]T, map[string][]T, interface{} holding a T; the other ways: []T, [1]T, map, struct; default / splice / environment / alternative lists: []T) x variants (pre-filled and pointer-to-named elements for slices, arrays and maps only) x (pre-filled slices with a literal or setter-written value: the 7 merge settings). " + ruleForms + ruleCommon + " Distinct: by construction.",
	Enum: enumForms,
	Run:  runCase,
})

func TestFormsGrid(t *testing.T) { subFormsGrid.Enumerate(t, true) }

var subForms = runlog.Register(&runlog.Sub[Case]{
	Name: "forms",
	Rule: "Random part over the added dimensions: target (unpack 5/6 with a shape drawn from slice, plain field, array, map, top-level map; getter 1/6, index 0 or -1), delivery (lit, set, ref, resolver, envcfg, splice-val, default, resolve-env, alt, splice), a Go kind and a value it can hold (integers: next to a boundary of the target, at the boundary of the kind, small, or random bits of the kind's width; float32: random bit patterns, neighbours of the target's boundaries, decimal fractions n/10 n/3 n/7 n/100 n/1000, random mantissa x exponent, MaxFloat32 / SmallestNonzeroFloat32 / other fixed values, each moved by up to 2 float32 ulps), the packaging, list-of-one forms where the target can take a list, merge settings for pre-filled slices. " + ruleForms + ruleCommon + " Distinct: hash of the whole case.",
	Gen:  genForm,
	Run:  runCase,
})

func TestForms(t *testing.T) { subForms.Check(t, 50000, 6000000) }
