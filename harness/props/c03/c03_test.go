// Package c03 decides property C03: typed unpacking preserves the value or
// fails - it never wraps around.
//
// A case is one point of the cross product
//
//	source value x delivery x target type (and variant) x read path
//
// (forms_test.go adds: the Go type and packaging of the source, the typed
// setters, lists of one element, element targets of lists / maps / structs /
// interfaces, getters with index 0) and run(case) builds a one-setting configuration, reads the setting and
// compares the outcome with exact arithmetic (math/big, oracle_test.go).
package c03

import (
	"fmt"
	"math"
	"math/big"
	"os"
	"reflect"
	"sort"
	"strconv"
	"strings"
	"testing"

	ucfg "github.com/elastic/go-ucfg"
	"github.com/elastic/go-ucfg/parse"

	"verif/harness/internal/runlog"
)

// Src is a primitive setting value.
type Src struct {
	K string `json:"k"`           // i int64 | u uint64 | f float64 | s string | b bool
	I int64  `json:"i,omitempty"` // K == "i"
	U uint64 `json:"u,omitempty"` // K == "u"
	F string `json:"f,omitempty"` // K == "f": strconv 'g' form with the shortest exact digits; "NaN", "+Inf", "-Inf", "-0"
	S string `json:"s,omitempty"` // K == "s"
	B bool   `json:"b,omitempty"` // K == "b"
	// G: the Go type the value has when it is handed to the library (forms_test.go: goKinds). "" = int64 /
	// uint64 / float64 / string / bool. The mathematical value of the setting is the value the converted Go
	// value holds (for a value the type cannot hold, the case means the converted value).
	G string `json:"g,omitempty"`
}

func srcI(i int64) Src   { return Src{K: "i", I: i} }
func srcU(u uint64) Src  { return Src{K: "u", U: u} }
func srcS(s string) Src  { return Src{K: "s", S: s} }
func srcB(b bool) Src    { return Src{K: "b", B: b} }
func srcF(f float64) Src { return Src{K: "f", F: strconv.FormatFloat(f, 'g', -1, 64)} }

func (s Src) float() (float64, error) {
	f, err := strconv.ParseFloat(s.F, 64)
	if err != nil {
		return 0, fmt.Errorf("harness: bad float in case: %q", s.F)
	}
	return f, nil
}

// goValue is the Go value that is put into the configuration.
func (s Src) goValue() (interface{}, error) {
	v, err := s.goValue0()
	if err != nil || s.G == "" {
		return v, err
	}
	return convertTo(v, s.G)
}

func (s Src) goValue0() (interface{}, error) {
	switch s.K {
	case "i":
		return s.I, nil
	case "u":
		return s.U, nil
	case "f":
		return s.float()
	case "s":
		return s.S, nil
	case "b":
		return s.B, nil
	}
	return nil, fmt.Errorf("harness: unknown source kind %q", s.K)
}

// eff is the value of the source taken as a literal setting.
func (s Src) eff() eff {
	if s.G != "" {
		if v, err := s.goValue(); err == nil {
			return effOfGo(v)
		}
	}
	switch s.K {
	case "i":
		return eff{kind: "num", n: numInt(s.I)}
	case "u":
		return eff{kind: "num", n: numUint(s.U)}
	case "f":
		f, _ := s.float()
		return eff{kind: "num", n: numFloat(f)}
	case "b":
		return eff{kind: "bool", b: s.B}
	}
	return eff{kind: "str", s: s.S}
}

// text is the source written as text, for the deliveries that hand text to
// the library (resolver result, splice pieces).
func (s Src) text() string {
	if s.G != "" {
		if v, err := s.goValue(); err == nil {
			return textOfGo(v)
		}
	}
	switch s.K {
	case "i":
		return strconv.FormatInt(s.I, 10)
	case "u":
		return strconv.FormatUint(s.U, 10)
	case "f":
		return s.F
	case "b":
		return strconv.FormatBool(s.B)
	}
	return s.S
}

func (s Src) String() string {
	if s.G != "" {
		p := s
		p.G = ""
		if v, err := s.goValue(); err == nil {
			return fmt.Sprintf("%s(%s) [case: %v]", s.G, textOfGo(v), p)
		}
		return s.G + "(" + p.String() + ")"
	}
	switch s.K {
	case "i":
		return fmt.Sprintf("int64(%d)", s.I)
	case "u":
		return fmt.Sprintf("uint64(%d)", s.U)
	case "f":
		return fmt.Sprintf("float64(%s)", s.F)
	case "b":
		return fmt.Sprintf("bool(%v)", s.B)
	}
	return fmt.Sprintf("string(%q)", s.S)
}

// Case is one point of the cross product.
type Case struct {
	Src Src `json:"src"`
	// Deliv: how the value reaches the setting "v".
	//   lit         v: <value>
	//   ref         v: "${x}", x: <value>                       (VarExp)
	//   resolver    v: "${x}", x answered by a Resolve callback with the value written as text
	//   splice      v: text[:cut] + "${x}${e}", x: text[cut:], e: ""   (spliced text, re-parsed)
	//   splice-val  v: "${x}${e}", x: <value>, e: ""              (the value itself is turned into text)
	//   resolve-env text in the process environment, `${C03_X}` answered by ucfg.ResolveEnv (parse.EnvConfig)
	//   envcfg      v: "${x}", x: <value> in a second configuration passed with ucfg.Env at the read
	//   default     v: "${nope:<text>}"                           (the default text of an expansion, re-parsed)
	//   alt         v: "${one:+<text>}", one: 1                    (the alternative text of an expansion, re-parsed)
	//   pieces      v: the text cut at Cuts into pieces, piece i delivered as Kinds[i], + "${e}" (see buildPieces)
	Deliv string `json:"deliv"`
	Cut   int    `json:"cut,omitempty"`
	Noop  bool   `json:"noop,omitempty"`  // resolver: the callback returns parse.NoopConfig instead of parse.DefaultConfig
	PC    string `json:"pc,omitempty"`    // resolver: name of the parse.Config the callback returns (parseConfigs); "" = default (or Noop)
	Cuts  []int  `json:"cuts,omitempty"`  // pieces: cut positions in the text (clamped, sorted by the generator)
	Kinds string `json:"kinds,omitempty"` // pieces: one letter per piece: l literal text in v | s `${pI}` to a string | n `${pI}` to a number (if the piece is a canonical decimal, else s) | r `${rI}` answered by a Resolve callback (if not empty, else s)
	IC    bool   `json:"ic,omitempty"`    // text deliveries: the ucfg.IgnoreCommas option is passed to the read
	Tgt   string `json:"tgt"`             // bool int int8 ... float64 string duration
	Var   string `json:"var,omitempty"`   // Unpack only: "" | set | ptr | ptr-set | named | ptr-named
	Read  string `json:"read"`            // unpack (struct field) | getter (Bool/Int/Uint/Float/String)
	// the dimensions of forms_test.go
	Wrap  string `json:"wrap,omitempty"`  // deliveries that hand the Go value over (lit, ref, envcfg, splice-val): how it is packaged (wraps)
	L     bool   `json:"l,omitempty"`     // set: the setter is called with index 0; text deliveries: the text is written as `[text]`: the setting is a list of one element
	Shape string `json:"shape,omitempty"` // unpack: "" struct field V T | slice V []T | array V [1]T | map V map[string]T (setting at v.k) | topmap Unpack into map[string]T
	Merge string `json:"merge,omitempty"` // slice shape, pre-filled variants: "" | append | prepend | replace (options) | tag-append | tag-prepend | tag-replace (struct tag)
	GIdx  bool   `json:"gidx,omitempty"`  // getter: called with index 0 instead of -1
}

func (c Case) String() string {
	t := c.Tgt
	if c.Var != "" {
		t += "/" + c.Var
	}
	d := c.Deliv
	switch c.Deliv {
	case "resolver":
		d += "(" + c.pcName() + ")"
	case "splice":
		d += fmt.Sprintf("(cut %d)", c.Cut)
	case "pieces":
		d += fmt.Sprintf("(cuts %v as %q)", c.Cuts, c.Kinds)
	}
	if c.IC {
		d += "+IgnoreCommas"
	}
	if c.Wrap != "" {
		d += " packaged as " + c.Wrap
	}
	if c.L {
		d += " as a list of one element (index 0)"
	}
	if c.Read == "unpack" && c.Shape != "" {
		t += " element of shape " + c.Shape
		if c.Merge != "" {
			t += " merge " + c.Merge
		}
	}
	if c.Read == "getter" && c.GIdx {
		t += " with index 0"
	}
	return fmt.Sprintf("%v delivered as %s, read by %s into %s", c.Src, d, c.Read, t)
}

// parseConfigs are the parse.Config values a resolver callback can return
// (every combination parse.ValueWithConfig accepts is valid; these differ in
// the features that are on).
var parseConfigs = map[string]parse.Config{
	"default": parse.DefaultConfig,
	"env":     parse.EnvConfig,
	"noop":    parse.NoopConfig,
	"array":   {Array: true},
	"quotes":  {StringDQuote: true, StringSQuote: true, IgnoreCommas: true},
	"commas":  {Array: true, Object: true, StringDQuote: true, StringSQuote: true, IgnoreCommas: true},
}

var parseConfigNames = []string{"default", "env", "noop", "array", "quotes", "commas"}

func (c Case) pcName() string {
	if c.PC != "" {
		return c.PC
	}
	if c.Noop {
		return "noop"
	}
	return "default"
}

const envVar = "C03_X"

// canonicalNumber returns the piece as a Go number if writing that number as
// text gives the piece back (so `${n}` splices exactly these characters).
func canonicalNumber(piece string) (interface{}, bool) {
	if u, err := strconv.ParseUint(piece, 10, 64); err == nil && strconv.FormatUint(u, 10) == piece {
		return u, true
	}
	if i, err := strconv.ParseInt(piece, 10, 64); err == nil && strconv.FormatInt(i, 10) == piece {
		return i, true
	}
	return nil, false
}

// buildPieces cuts text at the cut positions and delivers every piece in the
// way its kind letter says. The setting always ends in "${e}" (e = ""), so it
// is a splice whose text is re-parsed even if a single piece remains.
func buildPieces(text string, cuts []int, kinds string) (map[string]interface{}, map[string]string, string) {
	var pos []int
	for _, c := range cuts {
		if c < 0 {
			c = 0
		}
		if c > len(text) {
			c = len(text)
		}
		pos = append(pos, c)
	}
	sort.Ints(pos)
	pos = append(pos, len(text))
	m := map[string]interface{}{"e": ""}
	res := map[string]string{}
	var v strings.Builder
	shape := ""
	start := 0
	for i, end := range pos {
		piece := text[start:end]
		start = end
		k := byte('s')
		if i < len(kinds) {
			k = kinds[i]
		}
		if k == 'n' {
			if n, ok := canonicalNumber(piece); ok {
				m[fmt.Sprintf("p%d", i)] = n
				fmt.Fprintf(&v, "${p%d}", i)
				shape += "n"
				continue
			}
			k = 's'
		}
		if k == 'r' && piece != "" {
			res[fmt.Sprintf("r%d", i)] = piece
			fmt.Fprintf(&v, "${r%d}", i)
			shape += "r"
			continue
		}
		if k == 'l' {
			v.WriteString(piece)
			shape += "l"
			continue
		}
		m[fmt.Sprintf("p%d", i)] = piece
		fmt.Fprintf(&v, "${p%d}", i)
		shape += "s"
	}
	v.WriteString("${e}")
	m["v"] = v.String()
	return m, res, shape
}

// deliver builds the configuration and returns the options the read needs
// and the effective value of the setting.
func (c Case) effText(text string, pc parse.Config) eff {
	if c.IC {
		pc.IgnoreCommas = true // the option switches the top-level comma syntax off for every re-parsed text; a numeral has no comma
	}
	return effOfText(text, pc)
}

func deliver(c Case) (*ucfg.Config, []ucfg.Option, eff, error) {
	cfg, opts, e, err := deliver0(c)
	if c.IC {
		opts = append(opts, ucfg.IgnoreCommas)
	}
	return cfg, opts, e, err
}

func deliver0(c Case) (*ucfg.Config, []ucfg.Option, eff, error) {
	val, err := c.Src.goValue()
	if err != nil {
		return nil, nil, eff{}, err
	}
	und := eff{kind: "undeliverable"}
	if c.Wrap != "" && c.Deliv != "lit" && c.Deliv != "ref" && c.Deliv != "envcfg" && c.Deliv != "splice-val" {
		return nil, nil, und, nil // only these deliveries hand the Go value to the library
	}
	if listWraps[c.Wrap] && c.Deliv == "splice-val" {
		return nil, nil, und, nil // a list spliced into a text is not a primitive setting
	}
	// listText writes a text as a list of one element (c.L).
	listText := func(text string, pc parse.Config) (string, eff) {
		if !c.L {
			return text, c.effText(text, pc)
		}
		if c.IC {
			pc.IgnoreCommas = true
		}
		return "[" + text + "]", effOfListText(text, pc)
	}
	switch c.Deliv {
	case "lit":
		cfg, err := c.build(map[string]interface{}{}, "v", val)
		return cfg, nil, c.Src.eff(), err
	case "set":
		// the typed setters; the value is the plain int64 / uint64 / float64 / string / bool
		plain := c.Src
		plain.G = ""
		cfg, err := c.buildSet(plain)
		return cfg, nil, plain.eff(), err
	case "ref":
		cfg, err := c.build(map[string]interface{}{"v": "${x}"}, "x", val, ucfg.VarExp)
		return cfg, nil, c.Src.eff(), err
	case "resolver":
		pc, ok := parseConfigs[c.pcName()]
		if !ok {
			return nil, nil, eff{}, fmt.Errorf("harness: unknown parse config %q", c.PC)
		}
		text, e := listText(c.Src.text(), pc)
		cfg, err := c.build(map[string]interface{}{"v": "${x}"}, "", nil, ucfg.VarExp)
		res := ucfg.Resolve(func(name string) (string, parse.Config, error) {
			if name == "x" {
				return text, pc, nil
			}
			return "", parse.Config{}, fmt.Errorf("no such variable %q", name)
		})
		return cfg, []ucfg.Option{res}, e, err
	case "splice":
		text := c.Src.text()
		cut := c.Cut
		if cut < 0 {
			cut = 0
		}
		if cut > len(text) {
			cut = len(text)
		}
		_, e := listText(text, parse.DefaultConfig)
		m := map[string]interface{}{"v": text[:cut] + "${x}${e}", "x": text[cut:], "e": ""}
		if c.L {
			m["v"] = "[" + text[:cut] + "${x}]${e}"
		}
		cfg, err := c.build(m, "", nil, ucfg.VarExp)
		return cfg, nil, e, err
	case "splice-val":
		cfg, err := c.build(map[string]interface{}{"v": "${x}${e}", "e": ""}, "x", val, ucfg.VarExp)
		e := c.Src.eff()
		if c.Src.K == "s" {
			e = c.effText(c.Src.S, parse.DefaultConfig)
		}
		return cfg, nil, e, err
	case "resolve-env":
		text, e := listText(c.Src.text(), parse.EnvConfig)
		if c.Src.text() == "" || strings.ContainsRune(text, 0) {
			return nil, nil, und, nil // an empty variable counts as unset; NUL cannot be stored
		}
		if err := os.Setenv(envVar, text); err != nil {
			return nil, nil, und, nil
		}
		cfg, err := c.build(map[string]interface{}{"v": "${" + envVar + "}"}, "", nil, ucfg.VarExp)
		return cfg, []ucfg.Option{ucfg.ResolveEnv}, e, err
	case "envcfg":
		sub := c
		sub.Shape = "" // the second configuration holds x at its top level
		env, err := sub.build(map[string]interface{}{}, "x", val)
		if err != nil {
			return nil, nil, eff{}, err
		}
		cfg, err := c.build(map[string]interface{}{"v": "${x}"}, "", nil, ucfg.VarExp)
		return cfg, []ucfg.Option{ucfg.Env(env)}, c.Src.eff(), err
	case "default":
		text := c.Src.text()
		if strings.ContainsAny(text, "${}:\\") {
			return nil, nil, und, nil // syntax of the expansion itself
		}
		if strings.HasPrefix(text, "+") || strings.HasPrefix(text, "?") {
			if !c.L {
				return nil, nil, und, nil // `:+` and `:?` are other operators
			}
		}
		text, e := listText(text, parse.DefaultConfig)
		cfg, err := c.build(map[string]interface{}{"v": "${nope:" + text + "}"}, "", nil, ucfg.VarExp)
		return cfg, nil, e, err
	case "alt":
		text := c.Src.text()
		if strings.ContainsAny(text, "${}:\\") {
			return nil, nil, und, nil
		}
		text, e := listText(text, parse.DefaultConfig)
		cfg, err := c.build(map[string]interface{}{"v": "${one:+" + text + "}", "one": 1}, "", nil, ucfg.VarExp)
		return cfg, nil, e, err
	case "pieces":
		if c.L {
			return nil, nil, und, nil
		}
		text := c.Src.text()
		m, res, _ := buildPieces(text, c.Cuts, c.Kinds)
		cfg, err := c.build(m, "", nil, ucfg.VarExp)
		var opts []ucfg.Option
		if len(res) > 0 {
			opts = append(opts, ucfg.Resolve(func(name string) (string, parse.Config, error) {
				if s, ok := res[name]; ok {
					return s, parse.NoopConfig, nil
				}
				return "", parse.Config{}, fmt.Errorf("no such variable %q", name)
			}))
		}
		return cfg, opts, c.effText(text, parse.DefaultConfig), err
	}
	return nil, nil, eff{}, fmt.Errorf("harness: unknown delivery %q", c.Deliv)
}

// reading returns the number a string means in the grammar of the target
// kind (used by the non-trivial rule only).
func reading(s string, t *tgtDesc) (num, bool) {
	switch t.kind {
	case "int":
		if i, err := strconv.ParseInt(s, 0, 64); err == nil {
			return numInt(i), true
		}
		if u, err := strconv.ParseUint(s, 0, 64); err == nil {
			return numUint(u), true
		}
	case "uint":
		if u, err := strconv.ParseUint(s, 0, 64); err == nil {
			return numUint(u), true
		}
		if i, err := strconv.ParseInt(s, 0, 64); err == nil {
			return numInt(i), true
		}
	case "float":
		if f, err := strconv.ParseFloat(s, 64); err == nil {
			return numFloat(f), true
		}
	}
	return num{}, false
}

func runCase(c Case, r *runlog.R) error {
	t := targets[c.Tgt]
	if t == nil {
		return fmt.Errorf("harness: unknown target %q", c.Tgt)
	}
	if c.Src.K == "s" && strings.Contains(c.Src.S, "$") {
		r.Discard() // "$" is the expansion syntax (C02), not a value
		return nil
	}
	cfg, opts, e, err := deliver(c)
	if err != nil {
		return fmt.Errorf("%v: building the configuration failed: %v", c, err)
	}
	if e.kind != "num" && e.kind != "bool" && e.kind != "str" {
		r.Discard() // the text is null, a list/object or unparsable (or cannot be delivered this way): not a primitive setting
		return nil
	}
	if cfg == nil {
		return fmt.Errorf("harness: %v: no configuration", c)
	}
	isList := listWraps[c.Wrap] || c.L
	switch {
	case c.Read == "unpack" && isList && !listShapes[c.Shape],
		c.Read == "getter" && isList && !c.GIdx:
		r.Discard() // a list of one element read as a single value: not a primitive setting
		return nil
	case c.Read == "unpack" && c.Shape == "topmap" && !topmapDeliveries[c.Deliv]:
		r.Discard() // the helper settings of the delivery would be unpacked into the typed map as well
		return nil
	}
	dyn := c.Deliv != "lit" && c.Deliv != "set"
	v := oracle(e, t, dyn)

	var got reflect.Value
	var rerr, herr error
	switch c.Read {
	case "unpack":
		got, rerr, herr = readUnpack(cfg, t, c, opts)
	case "getter":
		got, rerr, herr = readGetter(cfg, t, c.GIdx, opts)
	default:
		herr = fmt.Errorf("harness: unknown read path %q", c.Read)
	}
	if herr == errReplaced {
		r.Class("interface target: the held typed value was replaced by a generic one (not asserted)")
		return nil
	}
	if herr != nil {
		return fmt.Errorf("%v (setting = %v): %v", c, e, herr)
	}

	// evidence
	nt := false
	switch e.kind {
	case "num":
		nt = nearBoundary(e.n, t)
	case "str":
		if n, ok := reading(e.s, t); ok {
			nt = nearBoundary(n, t)
		}
		nt = nt || nonDecimalSpelling(e.s)
	}
	if c.Src.K == "s" && nonDecimalSpelling(c.Src.S) {
		nt = true
	}
	r.NonTrivialIf(nt)
	r.Class("src=" + c.Src.K)
	r.Class("setting=" + e.kind)
	r.Class("deliv=" + c.Deliv)
	switch c.Deliv {
	case "resolver":
		r.Class("resolver parse.Config=" + c.pcName())
	case "pieces":
		_, _, shape := buildPieces(c.Src.text(), c.Cuts, c.Kinds)
		r.Class(fmt.Sprintf("pieces: %d", len(shape)))
		for _, k := range []struct{ l, name string }{{"l", "literal"}, {"s", "string"}, {"n", "number"}, {"r", "resolver"}} {
			r.ClassIf(strings.Contains(shape, k.l), "pieces with a "+k.name+" piece")
		}
	}
	r.ClassIf(c.IC, "IgnoreCommas option")
	formClasses(c, t, e, v, r)
	if c.Deliv != "lit" && c.Deliv != "ref" && c.Deliv != "envcfg" && c.Deliv != "set" && e.kind == "num" {
		txt := strings.TrimSpace(c.Src.text())
		r.Class("number from text")
		r.ClassIf(strings.HasPrefix(txt, "+"), "number from text: explicit +")
		r.ClassIf(e.n.exact && e.n.x != nil && new(big.Float).Abs(e.n.x).Cmp(big.NewFloat(1<<53)) > 0, "number from text: integer beyond 2^53")
		r.ClassIf(e.n.exact && e.n.x != nil && new(big.Float).Abs(e.n.x).Cmp(big.NewFloat(1<<53)) > 0 && strings.HasPrefix(txt, "+"), "number from text: integer beyond 2^53 with explicit +")
		r.ClassIf(nonDecimalSpelling(txt), "number from text: non-decimal spelling")
	}
	if c.Read == "getter" {
		r.Class("read=getter:" + t.name)
	} else {
		r.Class("read=unpack:" + t.name)
		r.Class("variant=" + c.Var)
	}
	r.Class("oblige=" + v.must)
	if rerr == nil {
		r.Class("outcome=stored")
	} else {
		r.Class("outcome=error")
	}
	r.ClassIf(v.lax != "", "relaxed: "+v.lax)
	r.ClassIf(e.kind == "num" && e.n.x == nil, "non-finite")
	r.ClassIf(nt && v.must == "fail", "nontrivial must-fail")
	r.ClassIf(nt && v.must == "succeed", "nontrivial must-succeed")

	switch {
	case rerr == nil && v.must == "fail":
		return fmt.Errorf("%v: the setting is %v, which is %s; the call must fail but returned nil and stored %v",
			c, e, v.why, got.Interface())
	case rerr != nil && v.must == "succeed":
		return fmt.Errorf("%v: the setting is %v (%s); the call must succeed but failed: %v", c, e, v.why, rerr)
	case rerr == nil && v.check != nil:
		if err := v.check(got); err != nil {
			return fmt.Errorf("%v: the setting is %v (%s); the call returned nil but %v", c, e, v.why, err)
		}
	}
	return nil
}

const ruleCommon = "A case is one point (source value, delivery, target, variant, read path). Deliveries: literal Go value; `${x}` to the literal in the same configuration or in a second one passed with ucfg.Env; `${x}` answered by a Resolve callback with the value written as text under one of six parse.Config values (default, env, noop, array only, quotes only, all + IgnoreCommas); the text in the process environment read by ucfg.ResolveEnv; the text as default (`${nope:T}`) or alternative (`${one:+T}`) of an expansion; spliced text (`text[:cut]${x}${e}` with string pieces); the value itself spliced (`${x}${e}`); the text cut at 1-3 positions (random, or behind the sign / base prefix / exponent marker / point / underscore / before the last digit) into pieces that are each literal text, a reference to a string, a reference to a NUMBER whose digits are the piece, or a reference answered by a Resolve callback (so `+${n}`, `0x${h}`, `${m}e${k}`, `${a}_${b}` build the numeral); text deliveries optionally with the IgnoreCommas option. Targets: the 14 primitive kinds and time.Duration as struct field (zero, pre-filled, nil pointer, pre-filled pointer, named type, pointer to named type) read by Unpack, and Bool/Int/Uint/Float/String getters. Oracle: exact arithmetic (math/big) on the effective value. For text deliveries the value of a text in any number syntax strconv accepts (explicit sign, base prefixes, leading zeros, underscores, exponents, hex floats, inf/nan) is computed by the check itself, not by the library's parser: an integer numeral (strconv.ParseUint/ParseInt base 0) is that integer exactly, a text only strconv.ParseFloat accepts is that float64; a text without quote/list/object characters that no strconv grammar accepts is a string (never a number); only null, bool words, quoting and list/object structure are taken from parse.ValueWithConfig. Must fail if negative for unsigned, outside the target range (Duration: outside +-2^63 ns), NaN/Inf for an integer or Duration target, or a string that strconv (time.ParseDuration for Duration, documented) rejects; must succeed (Unpack doc comment) for in-range numbers and strings valid in the target kind's strconv grammar, storing the exact value (float->int truncated toward zero; seconds for Duration; float targets correctly rounded; float->Duration within 2^-52*|ns|+1ns). Both outcomes accepted: MaxFloat32 rounding band, Duration boundary within the float tolerance, numbers reaching a Duration through a dynamic value, strings only another strconv grammar accepts, non-finite into float targets; numbers into bool and bools into numeric targets are not asserted. Non-trivial: the value lies within 2 ulp / +-2 of a boundary of the target type, or is not finite, or is a number in a non-decimal spelling."

var subGrid = runlog.Register(&runlog.Sub[Case]{
	Name: "grid",
	Rule: "Exhaustive grid, every run. Sources: min/max of the 10 integer kinds and +-1 around them, 0, +-1, +-2, +-2^53(+-1), +-2^63(+-1), 2^64(+-1), second counts around +-2^63/10^9, each as int64, uint64 and float64 (with nextafter neighbours and +-0.5 offsets), +-0, NaN, +-Inf, subnormal, MaxFloat32 / its rounding midpoint / MaxFloat64 with neighbours; every boundary integer in decimal, signed, 0x/0X/0o/0/0b, underscore, exponent, fraction, hex-float spellings, inf/nan spellings, blanks, empty, bool words, overflowing literals, time.ParseDuration strings at the Duration limits; every non-negative boundary integer additionally with an explicit + in front of each syntax, exponent forms keeping every digit (Ne0, Ne+0, N0e-1) and leading zeros behind a base prefix (these, and the deliveries beyond lit/ref/resolver(default)/splice of every integer and string source - numerals built from pieces at every natural cut - are crossed with 13 unpack targets + 4 getters instead of all 89). " + ruleCommon + " Distinct: cases are distinct by construction.",
	Enum: enumGrid,
	Run:  runCase,
})

func TestGrid(t *testing.T) { subGrid.Enumerate(t, true) }

var subRandom = runlog.Register(&runlog.Sub[Case]{
	Name: "random",
	Rule: "Random part over the same cross product: uniformly random 64-bit patterns read as int64, uint64 and float64; integers at a random offset (+-3) from a boundary (preferably of the drawn target); floats a few ulp or a fraction away from a boundary, from +-2^63/10^9 seconds, from MaxFloat32, its midpoint and MaxFloat64; any of these spelled as a string in a random strconv syntax (decimal, signed, hex, octal, binary, underscores, e/E/f/g/hex-float formats, blanks) and sometimes damaged by one edit; integer numerals of every magnitude (random 64 bit patterns shifted right by 0-56 bits, or next to a boundary) with sign +, - or none x base syntax (decimal, 0x 0X 0o 0O 0 00 0b 0B, zeros or underscore behind the prefix) x digit-group underscores; bool words; duration strings near the int64 nanosecond limit. " + ruleCommon + " Distinct: hash of the whole case.",
	Gen:  genCase,
	Run:  runCase,
})

func TestRandom(t *testing.T) { subRandom.Check(t, 160000, 20000000) }

func TestReplay(t *testing.T) { runlog.ReplayMain(t) }

var _ = math.Pi
