// Package c10 decides property C10: Merge copies; source and destination stay
// independent, the source is untouched.
package c10

import (
	"fmt"
	"sort"
	"strings"
	"testing"

	ucfg "github.com/elastic/go-ucfg"
	"github.com/elastic/go-ucfg/cfgutil"
	"pgregory.net/rapid"

	"verif/harness/internal/canon"
	"verif/harness/internal/gen"
	"verif/harness/internal/model"
	"verif/harness/internal/runlog"
	"verif/harness/internal/uc"
)

// Op is a later write on one of the two sides.
type Op struct {
	OnSrc bool   `json:"onsrc,omitempty"`
	Kind  int    `json:"kind"` // 0 SetInt 1 Remove 2 Merge(append) 3 SetString idx 4 SetChild 5 Merge(replace) 6 write through a Child handle 7 merge of an object at Name 8 merge from the other side 9 read
	Name  string `json:"name"`
	Idx   int    `json:"idx"`
	Read  int    `json:"read,omitempty"` // kind 9: the read (see doRead); kind 6: the write applied to the handle
}

const nOpKinds = 10

type Case struct {
	Src     *gen.Tree    `json:"src"`
	Refs    bool         `json:"refs,omitempty"`    // the source has references to its own settings
	AsChild bool         `json:"aschild,omitempty"` // the source is a child of a larger config
	Embed   int          `json:"embed"`
	Dst     *gen.Tree    `json:"dst"`
	Policy  model.Policy `json:"policy"`
	ViaNew  bool         `json:"vianew,omitempty"` // destination created by NewFrom(in) instead of Merge into an existing one
	NoSep   bool         `json:"nosep,omitempty"`  // no path separator given
	// provenance: the source was loaded with MetaData{Source: "src.yml"} / the merge call passes MetaData{Source: "merge.yml"}
	SrcMeta   bool `json:"srcmeta,omitempty"`
	MergeMeta bool `json:"mergemeta,omitempty"`
	// ViaCollector: the destination is the configuration of a cfgutil.Collector created without one, to which the
	// source is added first and the destination data afterwards (a merge entry point of the helper package)
	ViaCollector bool `json:"viacollector,omitempty"`
	// Adopted: a section that belongs to another configuration (where it is called "orig") is also stored inside
	// the source's object "sub" under the name "alias" (SetChild of a config that has a parent already)
	Adopted bool `json:"adopted,omitempty"`
	// Pre: reads applied to the source (or to the destination, where it exists before the merge) BEFORE the merge
	Pre []Read `json:"pre,omitempty"`
	// PreOps: writes (and reads) applied to the source / to the destination BEFORE the merge: the source is not
	// fresh from NewFrom but has a history
	PreOps []Op `json:"preops,omitempty"`
	// KeepHandles: before the merge (after the history above) a Child handle is taken for every top-level setting
	// of the source and of the destination that can be had as one; later writes may go through them
	KeepHandles bool `json:"keephandles,omitempty"`
	Ops         []Op `json:"ops"`
}

var keys = []string{"a", "b", "sub", "l", "c", "a", "b", "0", "1"} // numeric names: nodes with named and indexed settings
var opNames = []string{"a", "b", "sub.a", "l.1.a", "a.b", "0.a", "sub", "l", "l.0", "c", "sub.l.1", "w.a", "w.sub.a", "r1"}

const nEmbed = 19

// rebranded is a type of its own with the layout of ucfg.Config (a legal representation of a configuration)
type rebranded ucfg.Config

func genCase(t *rapid.T) Case {
	cfg := &gen.TreeCfg{Depth: 3, Width: 4, Keys: keys, NoFloat: true}
	c := Case{
		Src: gen.GenObj(t, cfg, 3), Refs: rapid.Bool().Draw(t, "refs"), AsChild: rapid.Bool().Draw(t, "aschild"),
		Embed: rapid.IntRange(0, nEmbed-1).Draw(t, "embed"), Dst: gen.GenObj(t, cfg, 3),
		Policy: model.Policy(rapid.IntRange(0, int(model.NPolicies)-1).Draw(t, "policy")),
		ViaNew: rapid.IntRange(0, 5).Draw(t, "vianew") == 0,
		NoSep:  rapid.IntRange(0, 3).Draw(t, "nosep") == 0,
	}
	c.ViaCollector = rapid.IntRange(0, 7).Draw(t, "viacollector") == 0
	c.Adopted = rapid.IntRange(0, 3).Draw(t, "adopted") == 0
	c.SrcMeta = rapid.IntRange(0, 2).Draw(t, "srcmeta") == 0
	c.MergeMeta = rapid.IntRange(0, 2).Draw(t, "mergemeta") == 0
	// the source as the library sees it (the reference settings are added by run)
	srcTree := c.Src
	if c.Refs {
		srcTree = c.Src.Clone()
		srcTree.Put("r1", gen.Str("${a}"))
		srcTree.Put("r3", gen.Str("${sub}"))
	}
	for i, np := 0, rapid.IntRange(0, 3).Draw(t, "npreops"); i < np; i++ {
		op := Op{OnSrc: rapid.IntRange(0, 3).Draw(t, "preoponsrc") != 0, Kind: rapid.SampledFrom([]int{0, 1, 2, 3, 4, 5, 6, 7, 9}).Draw(t, "preopkind")}
		tr := c.Dst
		if op.OnSrc {
			tr = srcTree
		}
		op.Name, op.Idx = genPath(t, tr, "preop")
		op.Read = rapid.IntRange(0, 59).Draw(t, "preopread")
		c.PreOps = append(c.PreOps, op)
	}
	for i, np := 0, rapid.IntRange(0, 4).Draw(t, "npre"); i < np; i++ {
		rd := Read{OnSrc: rapid.IntRange(0, 3).Draw(t, "preonsrc") != 0, Kind: rapid.IntRange(0, nReadKinds-1).Draw(t, "prekind")}
		tr := c.Dst
		if rd.OnSrc {
			tr = srcTree
		}
		rd.Name, rd.Idx = genPath(t, tr, "pre")
		c.Pre = append(c.Pre, rd)
	}
	c.KeepHandles = rapid.IntRange(0, 2).Draw(t, "keephandles") == 0
	n := rapid.IntRange(1, 6).Draw(t, "nops")
	for i := 0; i < n; i++ {
		op := Op{OnSrc: rapid.Bool().Draw(t, "onsrc"), Kind: rapid.IntRange(0, nOpKinds-1).Draw(t, "kind")}
		// names: settings of the source tree (they exist on both sides after the merge), of the destination tree,
		// or the fixed list
		tr := srcTree
		if rapid.IntRange(0, 3).Draw(t, "dstname") == 0 {
			tr = c.Dst
		}
		op.Name, op.Idx = genPath(t, tr, "op")
		if op.Kind == 6 || op.Kind == 9 {
			op.Read = rapid.IntRange(0, 59).Draw(t, "opread")
		}
		c.Ops = append(c.Ops, op)
	}
	return c
}

type overlapHolder struct {
	C *ucfg.Config           `config:"sub"`
	M map[string]interface{} `config:",inline"`
}

type inlineStruct struct {
	Sub map[string]interface{} `config:"sub"`
}

type overlapHolder2 struct {
	M  map[string]*ucfg.Config `config:",inline"`
	In inlineStruct            `config:",inline"`
}

type inlineHolder struct {
	C *ucfg.Config `config:",inline"`
}

func embed(kind int, s *ucfg.Config) (interface{}, bool) {
	switch kind {
	case 0:
		return s, false
	case 1:
		return map[string]interface{}{"sub": s}, true
	case 2:
		return map[string]interface{}{"l": []interface{}{1, s, s}}, true
	case 3:
		return struct {
			A *ucfg.Config `config:"a"`
			B []*ucfg.Config
		}{s, []*ucfg.Config{s}}, true
	case 4:
		return map[string]interface{}{"a": map[string]interface{}{"b": &s}}, true
	case 5:
		return []interface{}{s}, true
	case 6:
		return inlineHolder{s}, true
	case 7:
		return map[string]interface{}{"sub": map[string]*ucfg.Config{"a": s, "b": s}}, true
	case 8:
		return map[interface{}]interface{}{"w": []interface{}{map[string]interface{}{"sub": s}}, "l": [2]*ucfg.Config{s, s}}, true
	case 9:
		// the same input defines a setting below the embedded config with a dotted key
		return map[string]interface{}{"sub": s, "sub.zz": 1}, true
	case 10:
		return map[string]interface{}{"w": map[string]interface{}{"sub": s}, "w.sub.zz.q": true, "w.sub.l.5": "x"}, true
	case 11:
		// ... or an object that overlaps it
		return map[string]interface{}{"sub": s, "sub.zz": map[string]interface{}{"n": 1}, "sub.a.zz": []int{1}}, true
	case 12:
		// two fields of a struct that land under the same name: the config and an inlined map
		return overlapHolder{C: s, M: map[string]interface{}{"sub": map[string]interface{}{"zz": 1, "l": []interface{}{nil, nil, "x"}}}}, true
	case 13:
		return overlapHolder2{M: map[string]*ucfg.Config{"sub": s}, In: inlineStruct{Sub: map[string]interface{}{"zz": true}}}, true
	case 14:
		return map[string]interface{}{"l": []interface{}{s}, "l.0.zz": 1, "l.0": map[string]interface{}{"q": 2}}, true
	case 15:
		// unusual but legal representations of the configuration itself, at the top level
		return &s, false
	case 16:
		var i interface{} = s
		return &i, false
	case 17:
		return (*rebranded)(s), false
	default:
		r := (*rebranded)(s)
		var i interface{} = &r
		return map[string]interface{}{"sub": i, "l": []interface{}{(*rebranded)(s)}}, true
	}
}

type side struct {
	name     string
	c        *ucfg.Config
	fp       string
	dump     string
	view     string // publicView: every setting entered as an object through the public API
	deep     uint64 // deepHash: everything reachable, all fields; taken by mark immediately before a step on the other side
	deepText string
}

// mark remembers the complete reachable state of this side; untouched compares with it. Nothing but the step under
// test may come between the two (reads through the public API are this side's own history).
func (s *side) mark() {
	s.deep = deepHash(s.c)
	if runlog.Env().Replay != "" {
		s.deepText = ucfg.VerifDeepHash(s.c)
	}
}

func (s *side) untouched(after string) error {
	if deepHash(s.c) == s.deep {
		return nil
	}
	detail := "(replay the case for the place of the difference)"
	if s.deepText != "" {
		detail = diffAt(s.deepText, ucfg.VerifDeepHash(s.c))
	}
	return fmt.Errorf("state reachable from the %s (every field of every object, by reflection) was written to %s\n%s\n--- stored tree now\n%s", s.name, after, detail, ucfg.VerifFingerprint(s.c, true))
}

func (s *side) snap(opts []ucfg.Option) error {
	s.fp = ucfg.VerifFingerprint(s.c, true)
	d, err := uc.Dump(s.c, opts...)
	s.dump = canon.Show(d)
	if err != nil {
		s.dump = "error: " + err.Error()
	}
	s.view = publicView(s.c, opts)
	return nil
}

// diffAt shows where two renderings part.
func diffAt(a, b string) string {
	i := 0
	for i < len(a) && i < len(b) && a[i] == b[i] {
		i++
	}
	lo := i - 120
	if lo < 0 {
		lo = 0
	}
	cut := func(s string) string {
		hi := i + 200
		if hi > len(s) {
			hi = len(s)
		}
		return s[lo:hi]
	}
	return fmt.Sprintf("first difference at byte %d:\n before ...%s\n after  ...%s", i, cut(a), cut(b))
}

// parentLinks checks the stored tree of c: every value names the config that actually contains it as its parent
// (a value copied into a tree must not keep pointing into the tree it was copied from).
func parentLinks(c *ucfg.Config, what string, skip ...string) error {
	var walk func(n ucfg.VerifNode, path string) error
	walk = func(n ucfg.VerifNode, path string) error {
		check := func(ch ucfg.VerifNode, seg string) error {
			if ch.Kind == "<nil interface>" {
				return nil
			}
			for _, s := range skip {
				if strings.HasSuffix(path+seg, s) {
					return nil // a section adopted from another configuration keeps its place there (finding D14)
				}
			}
			if ch.Parent != n.Self {
				return fmt.Errorf("%s: the value stored at %q names config %x as its parent, the config that contains it is %x", what, path+seg, ch.Parent, n.Self)
			}
			if ch.Kind == "sub" {
				return walk(ch, path+seg+".")
			}
			return nil
		}
		for i, name := range n.Names {
			if err := check(n.Dict[i], name); err != nil {
				return err
			}
		}
		for i, e := range n.Arr {
			if err := check(e, fmt.Sprint(i)); err != nil {
				return err
			}
		}
		return nil
	}
	return walk(ucfg.VerifSnapshot(c), "")
}

func (s *side) unchanged(opts []ucfg.Option, after string) error {
	if fp := ucfg.VerifFingerprint(s.c, true); fp != s.fp {
		return fmt.Errorf("the %s changed %s:\n--- stored tree before\n%s--- after\n%s", s.name, after, s.fp, fp)
	}
	// before any read through the public API: nothing reachable from this side was written to since mark
	if err := s.untouched(after); err != nil {
		return err
	}
	if v := publicView(s.c, opts); v != s.view {
		return fmt.Errorf("the %s shows different settings through GetFields/Child/String %s:\n before %s\n after  %s", s.name, after, s.view, v)
	}
	d, err := uc.Dump(s.c, opts...)
	now := canon.Show(d)
	if err != nil {
		now = "error: " + err.Error()
	}
	if now != s.dump {
		return fmt.Errorf("the %s unpacks differently %s:\n before %s\n after  %s", s.name, after, s.dump, now)
	}
	return nil
}

func runCase(c Case, r *runlog.R) error {
	// class labels once per case
	labelled := map[string]bool{}
	class := func(l string) {
		if !labelled[l] {
			labelled[l] = true
			r.Class(l)
		}
	}
	opts := []ucfg.Option{ucfg.PathSep("."), ucfg.VarExp}
	if c.NoSep {
		opts = []ucfg.Option{ucfg.VarExp}
	}
	srcData := c.Src.Go().(map[string]interface{})
	if c.Refs {
		srcData["r1"] = "${a}"
		srcData["r2"] = "x${b:d}y"
		srcData["r3"] = "${sub}"
	}
	var S *ucfg.Config
	var err error
	srcOpts := opts
	if c.SrcMeta {
		srcOpts = append(append([]ucfg.Option{}, opts...), ucfg.MetaData(ucfg.Meta{Source: "src.yml"}))
	}
	if c.AsChild {
		root, e := ucfg.NewFrom(map[string]interface{}{"wrap": srcData, "other": 1, "a": "outer"}, srcOpts...)
		if e != nil {
			return fmt.Errorf("building the source failed: %v", e)
		}
		if S, err = root.Child("wrap", -1); err != nil {
			return fmt.Errorf("Child(wrap): %v", err)
		}
	} else if S, err = ucfg.NewFrom(srcData, srcOpts...); err != nil {
		return fmt.Errorf("building the source failed: %v", err)
	}
	var owner *side
	if c.Adopted {
		if sub, err := S.Child("sub", -1, opts...); err == nil {
			section, _ := ucfg.NewFrom(map[string]interface{}{"n": 1, "deep": map[string]interface{}{"m": []int{1}}}, opts...)
			oc := ucfg.New()
			if oc.SetChild("orig", -1, section) == nil && sub.SetChild("alias", -1, section) == nil {
				owner = &side{name: "configuration the source adopted a section from", c: oc}
				owner.snap(opts)
				class("source holds a section adopted from another configuration")
			}
		}
	}
	// the history of the source before the merge: writes, then reads
	handles := map[bool][]*ucfg.Config{}
	for _, op := range c.PreOps {
		if op.OnSrc {
			applyOp(op, S, nil, nil, opts, nil, class)
			class("write/read on the source before the merge")
		}
	}
	nullObj := false
	for _, rd := range c.Pre {
		if !rd.OnSrc {
			continue
		}
		var hs []*ucfg.Config
		what, err := doRead(S, rd, opts, &hs)
		handles[true] = append(handles[true], hs...)
		if err != nil {
			return fmt.Errorf("read on the source before the merge: %s: %v", what, err)
		}
		class("read on the source before the merge")
		if k := rd.Kind % nReadKinds; (k == 0 || k == 2 || k == 3 || k == 8 || k == 9 || k == 10) && pathMeetsNull(srcTreeOf(c), rd.Name, rd.Idx, c.NoSep) {
			nullObj = true
		}
	}
	if c.KeepHandles {
		handles[true] = append(handles[true], topHandles(S, opts)...)
		class("Child handles of all top-level settings taken before the merge")
	}
	r.ClassIf(nullObj, "a null of the source (per the generated tree) was read as an object before the merge")
	if owner != nil {
		owner.snap(opts) // the history above may have written into the adopted section, which the two share (finding D14)
	}
	src := &side{name: "source", c: S}
	src.snap(opts)
	pathBefore, parentBefore := S.Path("."), S.Parent()
	refBefore := readRefs(S, opts)
	src.mark()
	if owner != nil {
		owner.mark()
	}

	in, nested := embed(c.Embed, S)
	mopts := append(append([]ucfg.Option{}, opts...), uc.PolicyOpts(c.Policy)...)
	if c.MergeMeta {
		mopts = append(mopts, ucfg.MetaData(ucfg.Meta{Source: "merge.yml"}))
	}
	r.ClassIf(c.SrcMeta, "source carries metadata")
	r.ClassIf(c.MergeMeta, "merge call passes MetaData")
	var D *ucfg.Config
	if inCfg, isCfg := in.(*ucfg.Config); c.ViaCollector && isCfg {
		col := cfgutil.NewCollector(nil, mopts...)
		if err := uc.Safe("Collector.Add", func() error { return col.Add(inCfg, nil) }); err != nil {
			return fmt.Errorf("Collector.Add(source) failed: %v", err)
		}
		second, err := ucfg.NewFrom(c.Dst.Go(), opts...)
		if err != nil {
			return fmt.Errorf("building the destination failed: %v", err)
		}
		preReadDst(c, second, opts, class, nil)
		uc.Safe("Collector.Add", func() error { return col.Add(second, nil) })
		D = col.Config()
		class("destination collected by a cfgutil.Collector")
	} else if c.ViaNew {
		if err := uc.Safe("NewFrom", func() (e error) { D, e = ucfg.NewFrom(in, mopts...); return }); err != nil {
			if c.Embed >= 9 && !strings.Contains(err.Error(), "panicked") {
				if e := src.unchanged(opts, "by a rejected NewFrom that embeds it"); e != nil {
					return e
				}
				class("merge rejected")
				return nil
			}
			return fmt.Errorf("NewFrom(value embedding the source) failed: %v", err)
		}
	} else {
		if D, err = ucfg.NewFrom(c.Dst.Go(), opts...); err != nil {
			return fmt.Errorf("building the destination failed: %v", err)
		}
		var hs []*ucfg.Config
		if err := preReadDst(c, D, opts, class, &hs); err != nil {
			return err
		}
		handles[false] = hs
		if c.KeepHandles {
			handles[false] = append(handles[false], topHandles(D, opts)...)
		}
		if err := uc.Safe("Merge", func() error { return D.Merge(in, mopts...) }); err != nil {
			if c.Embed >= 9 && !strings.Contains(err.Error(), "panicked") {
				// the sibling may collide with a setting of the source: the input is rejected, the source
				// must be untouched all the same
				if e := src.unchanged(opts, "by a rejected merge that embeds it"); e != nil {
					return e
				}
				class("merge rejected")
				return nil
			}
			return fmt.Errorf("Merge failed: %v", err)
		}
	}
	// (1) the source is untouched
	if err := src.unchanged(opts, "by being merged from"); err != nil {
		return err
	}
	if owner != nil {
		if err := owner.unchanged(opts, "by a merge from the source that adopted its section"); err != nil {
			return err
		}
	}
	if p := S.Path("."); p != pathBefore {
		return fmt.Errorf("the source's Path changed from %q to %q by being merged from", pathBefore, p)
	}
	if S.Parent() != parentBefore {
		return fmt.Errorf("the source's Parent changed by being merged from")
	}
	if now := readRefs(S, opts); now != refBefore {
		return fmt.Errorf("the source's own references resolve differently after being merged from:\n before %s\n after  %s", refBefore, now)
	}
	// (2) no shared state
	sa, da := ucfg.VerifAddrs(S), ucfg.VerifAddrs(D)
	for a, what := range sa {
		if w2, ok := da[a]; ok {
			return fmt.Errorf("source and destination share a %s/%s (address %x)", what, w2, a)
		}
	}
	if err := disjoint(S, D, "after the merge"); err != nil {
		return err
	}
	if err := parentLinks(D, "destination after the merge"); err != nil {
		return err
	}
	adoptedAt := []string{}
	if owner != nil {
		adoptedAt = append(adoptedAt, "sub.alias")
	}
	if err := parentLinks(S, "source after the merge", adoptedAt...); err != nil {
		return err
	}
	// (3) later writes on one side are invisible through the other
	dst := &side{name: "destination", c: D}
	dst.snap(opts)
	for i, op := range c.Ops {
		target, other := dst, src
		if op.OnSrc {
			target, other = src, dst
		}
		other.mark()
		what, remerged := applyOp(op, target.c, other.c, handles[op.OnSrc], opts, mopts, class)
		if remerged {
			class("later merge from the other side")
		}
		if remerged {
			if err := disjoint(S, D, fmt.Sprintf("after op %d on the %s: %s", i, target.name, what)); err != nil {
				return err
			}
			sa, da := ucfg.VerifAddrs(S), ucfg.VerifAddrs(D)
			for a, w := range sa {
				if w2, ok := da[a]; ok {
					return fmt.Errorf("source and destination share a %s/%s (address %x) after op %d on the %s: %s", w, w2, a, i, target.name, what)
				}
			}
		}
		if err := other.unchanged(opts, fmt.Sprintf("after op %d on the %s: %s", i, target.name, what)); err != nil {
			return err
		}
		target.snap(opts)
		skipAt := []string{}
		if target == src {
			skipAt = adoptedAt
		}
		if err := parentLinks(target.c, fmt.Sprintf("%s after op %d (%s)", target.name, i, what), skipAt...); err != nil {
			return err
		}
	}
	// (4) one read that evaluates references of BOTH trees (the destination read with the source as Env config,
	// and the other way round): each side's references still resolve in its own tree
	if c.Refs {
		for _, pair := range [][2]*side{{dst, src}, {src, dst}} {
			self, env := pair[0], pair[1]
			wantR1, e1 := self.c.String("r1", -1, opts...)
			envR1, e2 := env.c.String("r1", -1, opts...)
			if e1 != nil || e2 != nil {
				continue
			}
			if uc.Safe("Merge", func() error { return env.c.Merge(map[string]interface{}{"envonly": "${r1}"}, opts...) }) != nil {
				continue
			}
			if uc.Safe("Merge", func() error { return self.c.Merge(map[string]interface{}{"viaenv": "${envonly}"}, opts...) }) != nil {
				continue
			}
			self.c.Remove("envonly", -1, opts...)
			var to struct {
				Via string `config:"viaenv"`
				R1  string `config:"r1"`
			}
			lopts := append(append([]ucfg.Option{}, opts...), ucfg.Env(env.c))
			if err := uc.Safe("Unpack", func() error { return self.c.Unpack(&to, lopts...) }); err != nil {
				continue
			}
			if to.R1 != wantR1 || to.Via != envR1 {
				return fmt.Errorf("the %s read with the %s as Env config in one call: r1 = %q (alone %q), a reference provided by the Env config = %q (the Env config's own r1 is %q)", self.name, env.name, to.R1, wantR1, to.Via, envR1)
			}
			class("both trees evaluated in one read")
		}
	}
	overlap := false
	if !c.ViaNew {
		for _, k := range c.Dst.Keys {
			if c.Src.Get(k) != nil || k == "sub" || k == "l" || k == "a" {
				overlap = true
			}
		}
	}
	r.NonTrivialIf((nested || overlap) && len(c.Ops) > 0)
	r.Class(fmt.Sprintf("embedding %d", c.Embed))
	class("policy=" + c.Policy.String())
	r.ClassIf(c.AsChild, "source is a child")
	r.ClassIf(c.Refs, "source has references")
	r.ClassIf(c.ViaNew, "destination created by NewFrom")
	r.ClassIf(c.NoSep, "no path separator")
	return nil
}

// srcTreeOf: the data of the source incl. the reference settings run adds.
func srcTreeOf(c Case) *gen.Tree {
	if !c.Refs {
		return c.Src
	}
	t := c.Src.Clone()
	t.Put("r1", gen.Str("${a}"))
	t.Put("r3", gen.Str("${sub}"))
	return t
}

// topHandles: a Child handle for every top-level setting that can be had as one (in sorted order).
func topHandles(c *ucfg.Config, opts []ucfg.Option) (out []*ucfg.Config) {
	uc.Safe("Child", func() error {
		names := append([]string{}, c.GetFields()...)
		sort.Strings(names)
		for _, n := range names {
			if ch, err := c.Child(n, -1, ucfg.VarExp); err == nil && ch != nil {
				out = append(out, ch)
			}
		}
		return nil
	})
	return out
}

// preReadDst applies the reads of the history that come before the merge to the destination.
func preReadDst(c Case, d *ucfg.Config, opts []ucfg.Option, class func(string), keep *[]*ucfg.Config) error {
	for _, op := range c.PreOps {
		if !op.OnSrc {
			applyOp(op, d, nil, nil, opts, nil, class)
			class("write/read on the destination before the merge")
		}
	}
	for _, rd := range c.Pre {
		if rd.OnSrc {
			continue
		}
		var hs []*ucfg.Config
		what, err := doRead(d, rd, opts, &hs)
		if keep != nil {
			*keep = append(*keep, hs...)
		}
		if err != nil {
			return fmt.Errorf("read on the destination before the merge: %s: %v", what, err)
		}
		class("read on the destination before the merge")
	}
	return nil
}

// applyOp applies one step of a history to cfg. Outcomes (errors, panics) of the step itself are not this
// property's business. other: the opposite side (nil before the merge); old: handles obtained from cfg with Child
// before the merge.
func applyOp(op Op, cfg, other *ucfg.Config, old []*ucfg.Config, opts, mopts []ucfg.Option, class func(string)) (what string, remerged bool) {
	uc.Safe("op", func() error {
		switch op.Kind % nOpKinds {
		case 0:
			what = fmt.Sprintf("SetInt(%q, %d)", op.Name, op.Idx)
			cfg.SetInt(op.Name, op.Idx, 99, opts...)
		case 1:
			what = fmt.Sprintf("Remove(%q, %d)", op.Name, op.Idx)
			cfg.Remove(op.Name, op.Idx, opts...)
		case 2:
			what = "Merge(append)"
			cfg.Merge(map[string]interface{}{"a": map[string]interface{}{"zz": 1}, "sub": map[string]interface{}{"a": []int{7}}, "l": []interface{}{map[string]interface{}{"a": 5}}}, append([]ucfg.Option{ucfg.AppendValues}, opts...)...)
		case 3:
			what = fmt.Sprintf("SetString(%q, %d)", op.Name, op.Idx)
			cfg.SetString(op.Name, op.Idx, "w", opts...)
		case 4:
			what = fmt.Sprintf("SetChild(%q, %d)", op.Name, op.Idx)
			cfg.SetChild(op.Name, op.Idx, ucfg.MustNewFrom(map[string]interface{}{"n": 1}), opts...)
		case 5:
			what = "Merge(replace)"
			cfg.Merge(map[string]interface{}{"a": 1, "l": []int{9}, "sub": map[string]interface{}{"q": true}}, append([]ucfg.Option{ucfg.ReplaceValues}, opts...)...)
		case 6:
			// a write through a handle obtained with Child (a null or a missing index is handed out as an object):
			// obtained now, or one that was obtained before the merge
			var ch *ucfg.Config
			if (op.Read/5)%2 == 1 && len(old) > 0 {
				ch = old[(op.Read/10)%len(old)]
				what = fmt.Sprintf("a write (%d) through handle %d obtained with Child before the merge", op.Read%5, (op.Read/10)%len(old))
				class("write through a Child handle obtained before the merge")
			} else {
				what = fmt.Sprintf("Child(%q, %d) and a write (%d) through the handle", op.Name, op.Idx, op.Read%5)
				// the drawn path, or the longest prefix of it that Child hands out
				name, idx := op.Name, op.Idx
				for {
					var err error
					if ch, err = cfg.Child(name, idx, opts...); err == nil && ch != nil {
						break
					}
					ch = nil
					cut := strings.LastIndexByte(name, '.')
					if idx >= 0 {
						idx = -1
					} else if cut > 0 {
						name = name[:cut]
					} else {
						break
					}
				}
				if ch == nil {
					break
				}
				what = fmt.Sprintf("Child(%q, %d) and a write (%d) through the handle", name, idx, op.Read%5)
				class("write through a Child handle")
			}
			switch op.Read % 5 {
			case 0:
				ch.SetInt("zz", -1, 7, opts...)
			case 1:
				ch.SetString("", 2, "w", opts...)
			case 2:
				ch.Merge(map[string]interface{}{"en": map[string]interface{}{"x": true}, "a": 3}, opts...)
			case 3:
				ch.Remove("a", -1, opts...)
				ch.Remove("", 0, opts...)
			default:
				ch.SetChild("a", -1, ucfg.MustNewFrom(map[string]interface{}{"n": []int{1}}), opts...)
			}
		case 7:
			// an object merged over whatever the setting is (null, primitive, list, object, missing)
			var v interface{} = map[string]interface{}{"en": true, "a": map[string]interface{}{"x": 1}}
			if op.Idx >= 0 {
				l := make([]interface{}, op.Idx+1)
				l[op.Idx] = v
				v = l
			}
			what = fmt.Sprintf("Merge(object at %q, %d)", op.Name, op.Idx)
			cfg.Merge(map[string]interface{}{op.Name: v}, opts...)
			class("object merged at a drawn path")
		case 8:
			// the two sides meet again: the other side is merged into this one (same options as the first merge)
			if other == nil {
				what = "nothing"
				break
			}
			what = "Merge(the other side)"
			remerged = true
			cfg.Merge(other, mopts...)
		default:
			rd := Read{Kind: op.Read, Name: op.Name, Idx: op.Idx}
			what, _ = doRead(cfg, rd, opts)
			what = "read " + what
			class("read between the writes")
		}
		return nil
	})
	return what, remerged
}

func readRefs(s *ucfg.Config, opts []ucfg.Option) string {
	out := ""
	for _, k := range []string{"r1", "r2", "r3", "a"} {
		var v struct {
			V interface{} `config:"v"`
		}
		_ = v
		str, err := s.String(k, -1, opts...)
		out += fmt.Sprintf("%s=%q/%v ", k, str, err != nil)
	}
	return out
}

var subMerge = runlog.Register(&runlog.Sub[Case]{
	Name: "merge-independence",
	Rule: "a source config (optionally with references to its own settings, optionally a child of a larger config, optionally holding a section adopted from another configuration) is merged from directly or embedded in a map, list (twice), struct field and slice, pointer to pointer, top-level list, inline field, typed map of configs, interface-keyed map with arrays, next to dotted keys of the same input that define settings below or overlapping the embedded config, as a struct field next to an inlined map/struct that lands under the same name, and in unusual representations (**Config, *interface{}, rebranded type); with and without a path separator; with and without provenance metadata on either side; destination overlapping, created by NewFrom or collected by a cfgutil.Collector; all five policies. HISTORY BEFORE THE MERGE: 0-3 writes/reads (the ten step kinds below except the cross merge) and 0-4 reads (twelve kinds: Has, String, Child, Child+GetFields/Path/Parent/CountField, CountField, Unpack into a map / a typed struct with *Config, Config, map and pointer fields, FlattenedKeys, typed getters, Has/Unpack through a Child handle, PathOf/IsDict/IsArray/HasField) on the source (3 of 4) or the destination, at paths drawn from the generated trees (a walk to any node, optionally one segment further so that the node - null, primitive, list, object - is read as an object) or from a fixed list; Child handles obtained there are kept; in a third of the cases a Child handle of every top-level setting of both sides is taken as well. HISTORY AFTER THE MERGE: 1-6 steps on either side: SetInt, SetString with index, SetChild, Remove, append-merge, replace-merge, a write (SetInt, indexed SetString, Merge, Remove, SetChild) through a Child handle obtained now (at the drawn path or its longest prefix that is an object) or before the merge, an object merged at a drawn path, a merge from the OTHER side (the two meet again, either direction, same options), a read (the twelve kinds). Oracle: around the first merge and around every later step the side that is not operated on must be identical in (a) the stored tree incl. names, parent links and addresses (hook fingerprint), (b) a hash over everything reachable from it by reflection - every field of every object incl. addresses, so also state the hook does not know (taken immediately before and after the step, before any read), (c) Unpack, (d) the public walk GetFields/Child/String that enters every setting, nulls included, as an object and records Path and Parent of each handle; for the source also Path/Parent/own references. After the first merge and after every cross merge: hook address sets (configs, field tables, maps, list backings) disjoint, and the sets of ALL objects reachable by reflection disjoint except *Meta and parsed expression nodes (never written after construction). Every stored value of either tree names the config that contains it as its parent (after the merge and after every step). At the end each side is read with the other as Env config in one call. Non-trivial: source embedded below the top level or merged over an overlapping destination, and at least one later step. Distinct: hash of the case.",
	Gen:  genCase,
	Run:  runCase,
})

func TestMergeIndependence(t *testing.T) { subMerge.Check(t, 50000, 1500000) }

func TestReplay(t *testing.T) { runlog.ReplayMain(t) }
