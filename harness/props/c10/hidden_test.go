package c10

import (
	"fmt"
	"hash/maphash"
	"math"
	"reflect"
	"sort"
	"strconv"
	"strings"

	ucfg "github.com/elastic/go-ucfg"
	"pgregory.net/rapid"

	"verif/harness/internal/gen"
	"verif/harness/internal/uc"
)

// ---------------------------------------------------------------------------
// reads: the part of a history that does not write. A read before the merge may leave state behind inside the
// side it was applied to (caches, objects created on demand); the property quantifies over all histories, so the
// merge must copy (or drop) such state as well.

// Read is one read-only call.
type Read struct {
	OnSrc bool   `json:"onsrc,omitempty"`
	Kind  int    `json:"kind"`
	Name  string `json:"name"`
	Idx   int    `json:"idx"`
}

const nReadKinds = 12

var readNames = []string{"Has", "String", "Child", "Child+GetFields+Path", "CountField", "Unpack map", "Unpack struct", "FlattenedKeys", "Bool/Int/Uint/Float", "Child+Has below", "Child+Unpack", "PathOf/IsDict/IsArray/HasField"}

// doRead applies a read; every outcome (value, error) is legal and ignored, the call only has to return.
func doRead(c *ucfg.Config, rd Read, opts []ucfg.Option, keep ...*[]*ucfg.Config) (what string, err error) {
	kept := func(ch *ucfg.Config) {
		for _, k := range keep {
			*k = append(*k, ch)
		}
	}
	what = fmt.Sprintf("%s(%q, %d)", readNames[rd.Kind%nReadKinds], rd.Name, rd.Idx)
	err = uc.Safe(what, func() error {
		switch rd.Kind % nReadKinds {
		case 0:
			c.Has(rd.Name, rd.Idx, opts...)
		case 1:
			c.String(rd.Name, rd.Idx, opts...)
		case 2:
			if ch, err := c.Child(rd.Name, rd.Idx, opts...); err == nil && ch != nil {
				kept(ch)
			}
		case 3:
			if ch, err := c.Child(rd.Name, rd.Idx, opts...); err == nil && ch != nil {
				kept(ch)
				ch.GetFields()
				ch.Path(".")
				ch.Parent()
				ch.CountField("")
			}
		case 4:
			c.CountField(rd.Name, opts...)
		case 5:
			var m map[string]interface{}
			c.Unpack(&m, opts...)
		case 6:
			// typed targets: a setting that is null or an object read as a config, as a map and through a pointer
			var to struct {
				A   *ucfg.Config           `config:"a"`
				B   map[string]interface{} `config:"b"`
				Sub *struct {
					A  *ucfg.Config           `config:"a"`
					L  []*ucfg.Config         `config:"l"`
					In map[string]interface{} `config:",inline"`
				} `config:"sub"`
				C ucfg.Config    `config:"c"`
				L []*ucfg.Config `config:"l"`
			}
			c.Unpack(&to, opts...)
		case 7:
			c.FlattenedKeys(opts...)
		case 8:
			c.Bool(rd.Name, rd.Idx, opts...)
			c.Int(rd.Name, rd.Idx, opts...)
			c.Uint(rd.Name, rd.Idx, opts...)
			c.Float(rd.Name, rd.Idx, opts...)
		case 9:
			if ch, err := c.Child(rd.Name, rd.Idx, opts...); err == nil && ch != nil {
				kept(ch)
				ch.Has("zz", -1, opts...)
				ch.Has("a.b", -1, opts...)
				ch.Has("", 0, opts...)
			}
		case 10:
			if ch, err := c.Child(rd.Name, rd.Idx, opts...); err == nil && ch != nil {
				kept(ch)
				var m map[string]interface{}
				ch.Unpack(&m, opts...)
				var l []interface{}
				ch.Unpack(&l, opts...)
			}
		default:
			c.PathOf(rd.Name, ".")
			c.IsDict()
			c.IsArray()
			c.HasField(rd.Name)
		}
		return nil
	})
	return what, err
}

var belowSuffix = []string{"", "zz", "", "a", "0", "en.x", "", "l.1"}

// genPath draws the path of a setting of tr (a walk from the root that stops at a random node), optionally
// extended by a segment below it (so that the node itself, whatever it is, is read or written as an object), or
// one of the fixed names.
func genPath(t *rapid.T, tr *gen.Tree, label string) (string, int) {
	if tr == nil || rapid.IntRange(0, 3).Draw(t, label+"fixed") == 0 {
		return rapid.SampledFrom(opNames).Draw(t, label+"name"), rapid.SampledFrom([]int{-1, -1, 0, 1, 3}).Draw(t, label+"idx")
	}
	var segs []string
	n := tr
	idx := -1
	for depth := 0; depth < 4; depth++ {
		if len(n.Vals) == 0 || (depth > 0 && rapid.IntRange(0, 2).Draw(t, label+"stop") == 0) {
			break
		}
		i := rapid.IntRange(0, len(n.Vals)-1).Draw(t, label+"child")
		if n.K == "obj" {
			segs = append(segs, n.Keys[i])
		} else if rapid.Bool().Draw(t, label+"asidx") && len(segs) > 0 {
			// the element of a named list addressed with the index parameter: the walk ends here
			idx = i
			break
		} else {
			segs = append(segs, strconv.Itoa(i))
		}
		n = n.Vals[i]
	}
	if idx < 0 {
		if s := rapid.SampledFrom(belowSuffix).Draw(t, label+"below"); s != "" {
			segs = append(segs, s)
		}
	}
	if len(segs) == 0 {
		return rapid.SampledFrom(opNames).Draw(t, label+"name"), -1
	}
	return strings.Join(segs, "."), idx
}

// pathMeetsNull reports whether the path names a null of tr or continues below one (per the generated tree: a
// history before the merge may have changed the configuration).
func pathMeetsNull(tr *gen.Tree, name string, idx int, noSep bool) bool {
	segs := strings.Split(name, ".")
	if noSep {
		segs = []string{name}
	}
	if idx >= 0 {
		segs = append(segs, strconv.Itoa(idx))
	}
	n := tr
	for _, s := range segs {
		if n == nil {
			return false
		}
		switch n.K {
		case "nil":
			return true
		case "obj":
			n = n.Get(s)
		case "list":
			i, err := strconv.Atoi(s)
			if err != nil || i < 0 || i >= len(n.Vals) {
				return false
			}
			n = n.Vals[i]
		default:
			return false
		}
	}
	return n != nil && n.K == "nil"
}

// ---------------------------------------------------------------------------
// publicView renders what the public API shows of a config when every setting is entered as an object: the names
// GetFields reports, the children Child hands out (a null is handed out as an empty object), their Path and whether
// their Parent is the handle they were obtained from, the number of elements and the string form of everything
// else. Settings that exist on one side only because they were written to the other show up here even when they
// hang below a value that Unpack renders as nil.
func publicView(c *ucfg.Config, opts []ucfg.Option) string {
	var b strings.Builder
	err := uc.Safe("public walk", func() error {
		viewNode(&b, c, opts, 0)
		return nil
	})
	if err != nil {
		return "error: " + firstLine(err.Error())
	}
	return b.String()
}

func firstLine(s string) string {
	if i := strings.IndexByte(s, '\n'); i >= 0 {
		return s[:i]
	}
	return s
}

func viewNode(b *strings.Builder, c *ucfg.Config, opts []ucfg.Option, depth int) {
	if depth > 6 {
		b.WriteString("...")
		return
	}
	names := append([]string{}, c.GetFields()...)
	sort.Strings(names)
	b.WriteString("{")
	entry := func(name string, idx int) {
		// stored names are used as they are (no path separator: a name with dots in it is one name); plain values
		// are rendered by String; what has no string form, and a null, is entered as an object
		s, serr := c.String(name, idx, ucfg.VarExp)
		if serr == nil && s != "null" {
			b.WriteString(strconv.Quote(s))
			return
		}
		ch, err := c.Child(name, idx, ucfg.VarExp)
		if err == nil && ch != nil {
			b.WriteString("path=")
			b.WriteString(strconv.Quote(ch.Path(".")))
			if ch.Parent() == c {
				b.WriteString(" parent=handle ")
			} else {
				b.WriteString(" parent=other ")
			}
			viewNode(b, ch, opts, depth+1)
			return
		}
		if serr == nil {
			b.WriteString(strconv.Quote(s))
			return
		}
		b.WriteString("error(" + firstLine(serr.Error()) + ")")
	}
	for _, name := range names {
		b.WriteString(strconv.Quote(name))
		b.WriteString(":")
		entry(name, -1)
		b.WriteString(";")
	}
	if c.IsArray() {
		total, _ := c.CountField("")
		n := total - len(names)
		fmt.Fprintf(b, "list#%d[", n)
		for i := 0; i < n && i < 8; i++ {
			entry("", i)
			b.WriteString(",")
		}
		b.WriteString("]")
	}
	b.WriteString("}")
}

// ---------------------------------------------------------------------------
// reach collects the addresses of everything reachable from a config through pointers, maps and slices, by
// reflection over all fields (exported or not, independent of the names used inside the library), with the type
// found there. Two configurations that "share no state" have disjoint sets, up to objects that are never written
// after their construction (see sharedImmutable).
func reach(c *ucfg.Config) map[uintptr]string {
	out := map[uintptr]string{}
	reachWalk(reflect.ValueOf(c), out, 0)
	return out
}

func reachWalk(v reflect.Value, out map[uintptr]string, depth int) {
	if depth > 400 {
		return
	}
	switch v.Kind() {
	case reflect.Ptr:
		if v.IsNil() {
			return
		}
		et := v.Type().Elem()
		if et.Size() == 0 || et.PkgPath() == "reflect" || et.PkgPath() == "internal/abi" {
			return // all zero-size values live at one address; run time type descriptors are shared by design
		}
		p := v.Pointer()
		if _, seen := out[p]; seen {
			return
		}
		out[p] = v.Type().String()
		reachWalk(v.Elem(), out, depth+1)
	case reflect.Interface:
		if !v.IsNil() {
			reachWalk(v.Elem(), out, depth+1)
		}
	case reflect.Struct:
		for i := 0; i < v.NumField(); i++ {
			reachWalk(v.Field(i), out, depth+1)
		}
	case reflect.Map:
		if v.IsNil() {
			return
		}
		p := v.Pointer()
		if _, seen := out[p]; seen {
			return
		}
		out[p] = v.Type().String()
		iter := v.MapRange()
		for iter.Next() {
			reachWalk(iter.Key(), out, depth+1)
			reachWalk(iter.Value(), out, depth+1)
		}
	case reflect.Slice:
		if v.IsNil() || v.Cap() == 0 {
			return
		}
		p := v.Pointer()
		if _, seen := out[p]; !seen {
			out[p] = v.Type().String()
		}
		for i := 0; i < v.Len(); i++ {
			reachWalk(v.Index(i), out, depth+1)
		}
	case reflect.Array:
		for i := 0; i < v.Len(); i++ {
			reachWalk(v.Index(i), out, depth+1)
		}
	}
}

// sharedImmutable: types whose values may be shared between a source and its copy because nothing writes to them
// once they exist (DESIGN.md section 4, C10 (2): "shared immutable *Meta excepted"; the parsed form of an
// expression text is built by the parser and only read afterwards).
func sharedImmutable(typ string) bool {
	for _, ok := range immutableTypes {
		if typ == ok {
			return true
		}
	}
	return false
}

var immutableTypes = []string{"*ucfg.Meta",
	// the parsed form of "${...}" texts: a reference and its copies point to the same parse result
	"*ucfg.refDynValue", "*ucfg.spliceDynValue", "*ucfg.reference", "*ucfg.expansion", "*ucfg.expansionSingle",
	"*ucfg.expansionDefault", "*ucfg.expansionAlt", "*ucfg.expansionErr", "*ucfg.splice", "*ucfg.constExp",
	"*ucfg.cfgPath", "*ucfg.namedField", "*ucfg.idxField", "[]ucfg.field", "[]ucfg.varEvaler"}

func disjoint(s, d *ucfg.Config, when string) error {
	rs, rd := reach(s), reach(d)
	var shared []string
	for a, t := range rs {
		if t2, ok := rd[a]; ok && !(sharedImmutable(t) && sharedImmutable(t2)) {
			shared = append(shared, fmt.Sprintf("%s/%s", t, t2))
		}
	}
	if len(shared) == 0 {
		return nil
	}
	sort.Strings(shared)
	if len(shared) > 6 {
		shared = append(shared[:6], fmt.Sprintf("... %d in total", len(shared)))
	}
	return fmt.Errorf("source and destination reach the same objects %s (walk over all fields by reflection): %s", when, strings.Join(shared, ", "))
}

// ---------------------------------------------------------------------------
// deepHash: a hash over everything reachable from a config (every field of every struct, exported or not, found by
// reflection and therefore independent of the names used inside the library), including the addresses of the
// objects. Any write to state reachable from c - also to state the fingerprint hook of the library does not know
// about - changes it. Same idea as ucfg.VerifDeepHash (which is used for the message when a replay fails), but
// without rendering text, so that it can be taken before and after every step of a history.
type deepWalker struct {
	h    uint64
	seen map[uintptr]struct{}
}

var deepSeed = maphash.MakeSeed()

func (w *deepWalker) u(x uint64) {
	w.h ^= x
	w.h *= 0x100000001b3
	w.h ^= w.h >> 29
}

func deepHash(c *ucfg.Config) uint64 {
	w := &deepWalker{h: 0xcbf29ce484222325, seen: map[uintptr]struct{}{}}
	w.walk(reflect.ValueOf(c), 0)
	return w.h
}

func (w *deepWalker) walk(v reflect.Value, depth int) {
	if depth > 400 {
		return
	}
	switch v.Kind() {
	case reflect.Invalid:
		w.u(1)
	case reflect.Ptr:
		if v.IsNil() {
			w.u(2)
			return
		}
		p := v.Pointer()
		w.u(uint64(p))
		et := v.Type().Elem()
		if et.PkgPath() == "reflect" || et.PkgPath() == "internal/abi" {
			return
		}
		if _, ok := w.seen[p]; ok && et.Size() > 0 {
			return
		}
		w.seen[p] = struct{}{}
		w.walk(v.Elem(), depth+1)
	case reflect.Interface:
		if v.IsNil() {
			w.u(3)
			return
		}
		w.u(typeID(v.Elem().Type()))
		w.walk(v.Elem(), depth+1)
	case reflect.Struct:
		w.u(4)
		for i := 0; i < v.NumField(); i++ {
			w.walk(v.Field(i), depth+1)
		}
	case reflect.Map:
		if v.IsNil() {
			w.u(5)
			return
		}
		p := v.Pointer()
		w.u(uint64(p))
		w.u(uint64(v.Len()))
		if _, ok := w.seen[p]; ok {
			return
		}
		w.seen[p] = struct{}{}
		// deterministic order: what is reached first decides where an object is rendered in full
		keys := v.MapKeys()
		if v.Type().Key().Kind() == reflect.String {
			sort.Slice(keys, func(i, j int) bool { return keys[i].String() < keys[j].String() })
		} else {
			sort.Slice(keys, func(i, j int) bool { return fmt.Sprint(keys[i]) < fmt.Sprint(keys[j]) })
		}
		for _, k := range keys {
			w.walk(k, depth+1)
			w.walk(v.MapIndex(k), depth+1)
		}
	case reflect.Slice:
		if v.IsNil() {
			w.u(6)
			return
		}
		w.u(uint64(v.Pointer()))
		w.u(uint64(v.Len()))
		w.u(uint64(v.Cap()))
		for i := 0; i < v.Len(); i++ {
			w.walk(v.Index(i), depth+1)
		}
	case reflect.Array:
		for i := 0; i < v.Len(); i++ {
			w.walk(v.Index(i), depth+1)
		}
	case reflect.Bool:
		if v.Bool() {
			w.u(8)
		} else {
			w.u(7)
		}
	case reflect.Int, reflect.Int8, reflect.Int16, reflect.Int32, reflect.Int64:
		w.u(uint64(v.Int()))
	case reflect.Uint, reflect.Uint8, reflect.Uint16, reflect.Uint32, reflect.Uint64, reflect.Uintptr:
		w.u(v.Uint())
	case reflect.Float32, reflect.Float64:
		w.u(math.Float64bits(v.Float()))
	case reflect.Complex64, reflect.Complex128:
		w.u(math.Float64bits(real(v.Complex())))
		w.u(math.Float64bits(imag(v.Complex())))
	case reflect.String:
		s := v.String()
		w.u(uint64(len(s)))
		w.u(maphash.String(deepSeed, s))
	case reflect.Func, reflect.Chan, reflect.UnsafePointer:
		w.u(uint64(v.Pointer()))
	}
}

var typeIDs = map[reflect.Type]uint64{}

func typeID(t reflect.Type) uint64 {
	id, ok := typeIDs[t]
	if !ok {
		id = uint64(len(typeIDs)) + 100
		typeIDs[t] = id
	}
	return id
}
