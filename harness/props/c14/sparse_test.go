package c14

import (
	"fmt"
	"strconv"
	"strings"
	"testing"

	ucfg "github.com/elastic/go-ucfg"
	"pgregory.net/rapid"

	"verif/harness/internal/runlog"
	"verif/harness/internal/uc"
)

// Sub-check "sparse-lists": lists that are filled SPARSELY. A value stored
// behind the end of a list (Set*/SetChild with an index, a dotted name or key
// with a numeric segment, through the root, a Child handle, a Merge or NewFrom
// of dotted keys) pads the gap with null entries. Each padded entry is a
// setting of its own with its own position: a failure caused by it (a getter
// that finds no number there, a required field missing in it on Unpack) must
// name exactly that position, whatever the size of the gap, whichever entries
// of the gap were given values later, and wherever the list lies (below other
// padded lists).

// SStore stores one element behind the end of the list.
type SStore struct {
	Gap   int    `json:"gap"`   // free positions left between the end of the list and the element (0-4)
	Route string `json:"route"` // setidx (name, idx) | setname (name.idx, -1) | handle (Child of the list, "", idx) | merge (Merge of a dotted key) | load (NewFrom of dotted keys: first stores only)
	Bad   bool   `json:"bad,omitempty"`
}

// SFill gives one of the padded entries a value later.
type SFill struct {
	Which int    `json:"which"` // which of the null entries (modulo their number)
	Route string `json:"route"`
}

type SCase struct {
	Prefix []string `json:"prefix"` // path of the list; numeric segments are positions in outer lists (padded as well)
	Obj    bool     `json:"obj,omitempty"`
	Init   int      `json:"init,omitempty"` // elements the list is loaded with (nested data), if no segment of the prefix is numeric
	Meta   string   `json:"meta,omitempty"`
	Stores []SStore `json:"stores"`
	Fills  []SFill  `json:"fills,omitempty"`
	Copy   bool     `json:"copy,omitempty"` // the configuration is merged into a fresh one before it is read
	Salt   int      `json:"salt"`
}

var sparsePrefixes = [][]string{
	{"ports"}, {"hosts"}, {"out", "es", "hosts"}, {"srv", "1", "ports"}, {"srv", "2", "l"}, {"a", "3", "b", "2", "l"},
	{"used%"}, {"it's", "l"}, {"l"}, {"out", "0", "hosts"},
}

func genSCase(t *rapid.T) SCase {
	c := SCase{
		Prefix: append([]string{}, rapid.SampledFrom(sparsePrefixes).Draw(t, "prefix")...),
		Obj:    rapid.Bool().Draw(t, "obj"),
		Init:   rapid.IntRange(0, 2).Draw(t, "init"),
		Meta:   rapid.SampledFrom(metaPool).Draw(t, "meta"),
		Copy:   rapid.IntRange(0, 3).Draw(t, "copy") == 0,
		Salt:   rapid.IntRange(0, 63).Draw(t, "salt"),
	}
	n := rapid.IntRange(1, 3).Draw(t, "nstores")
	for i := 0; i < n; i++ {
		st := SStore{
			Gap:   rapid.SampledFrom([]int{2, 3, 1, 0, 4, 2}).Draw(t, "gap"),
			Route: rapid.SampledFrom([]string{"setidx", "setname", "handle", "merge", "load"}).Draw(t, "route"),
			Bad:   rapid.IntRange(0, 3).Draw(t, "bad") == 0,
		}
		c.Stores = append(c.Stores, st)
	}
	for i, n := 0, rapid.IntRange(0, 3).Draw(t, "nfills"); i < n; i++ {
		c.Fills = append(c.Fills, SFill{Which: rapid.IntRange(0, 7).Draw(t, "which"),
			Route: rapid.SampledFrom([]string{"setidx", "setname", "handle", "merge"}).Draw(t, "fillroute")})
	}
	return c
}

func isNum(s string) bool { _, err := strconv.Atoi(s); return err == nil }

func runSCase(c SCase, r *runlog.R) error {
	if len(c.Prefix) == 0 || len(c.Stores) == 0 {
		r.Discard()
		return nil
	}
	sep := ucfg.PathSep(".")
	opts := []ucfg.Option{sep}
	if c.Meta != "" {
		opts = append(opts, ucfg.MetaData(ucfg.Meta{Source: c.Meta}))
	}
	listPath := strings.Join(c.Prefix, ".")
	outer := false
	for _, s := range c.Prefix {
		outer = outer || isNum(s)
	}
	elemData := func(bad bool) interface{} {
		switch {
		case c.Obj:
			return map[string]interface{}{"name": "x"}
		case bad:
			return "zz"
		}
		return 7
	}
	elemKind := func(bad bool) string {
		switch {
		case c.Obj:
			return "obj"
		case bad:
			return "str"
		}
		return "int"
	}

	// initial configuration
	var elems []string // the model of the list: nil | int | str | obj per position
	init := map[string]interface{}{}
	if c.Init > 0 && !outer {
		var l []interface{}
		for i := 0; i < c.Init; i++ {
			l = append(l, elemData(false))
			elems = append(elems, elemKind(false))
		}
		var d interface{} = l
		for x := len(c.Prefix) - 1; x >= 1; x-- {
			d = map[string]interface{}{c.Prefix[x]: d}
		}
		init[c.Prefix[0]] = d
	}
	// stores by route "load" that come first are dotted keys of the data NewFrom is given
	k := 0
	dottedKey := func(idx int) string {
		key := listPath + "." + strconv.Itoa(idx)
		if c.Obj {
			key += ".name"
		}
		return key
	}
	dottedVal := func(bad bool) interface{} {
		if c.Obj {
			return "x"
		}
		return elemData(bad)
	}
	place := func(idx int, kind string) (gap int) {
		for len(elems) < idx {
			elems = append(elems, "nil")
			gap++
		}
		if idx == len(elems) {
			elems = append(elems, kind)
		} else {
			elems[idx] = kind
		}
		return gap
	}
	maxGap := 0
	note := func(g int) {
		if g > maxGap {
			maxGap = g
		}
	}
	if len(elems) == 0 {
		for ; k < len(c.Stores) && c.Stores[k].Route == "load"; k++ {
			idx := len(elems) + c.Stores[k].Gap
			init[dottedKey(idx)] = dottedVal(c.Stores[k].Bad)
			note(place(idx, elemKind(c.Stores[k].Bad)))
			r.Class("store: dotted key of the data given to NewFrom")
		}
	}
	var cfg *ucfg.Config
	if err := uc.Safe("NewFrom", func() (e error) { cfg, e = ucfg.NewFrom(init, opts...); return }); err != nil {
		return fmt.Errorf("NewFrom(%v): %v", init, err)
	}
	var steps []string
	store := func(idx int, route string, bad bool, what string) error {
		if route == "load" {
			route = "setidx"
		}
		if route == "handle" && len(elems) == 0 {
			route = "setidx" // no list yet
		}
		if route == "merge" && !c.Obj && len(elems) > 0 {
			// what the nulls a dotted key implies do to the primitives already there is C01's: objects are merged into
			route = "setname"
		}
		var err error
		switch route {
		case "merge":
			err = cfg.Merge(map[string]interface{}{dottedKey(idx): dottedVal(bad)}, opts...)
		default:
			on, name, i := cfg, listPath, idx
			switch route {
			case "setname":
				name, i = listPath+"."+strconv.Itoa(idx), -1
			case "handle":
				if on, err = cfg.Child(listPath, -1, sep); err != nil {
					return fmt.Errorf("%s: Child(%q): %v", what, listPath, err)
				}
				name = ""
			}
			err = uc.Safe(what, func() error { return setAny(on, name, i, elemData(bad), opts) })
		}
		steps = append(steps, fmt.Sprintf("%s idx=%d via %s", what, idx, route))
		if err != nil {
			return fmt.Errorf("%s (index %d, %s): %v", what, idx, route, err)
		}
		r.Class(what + ": " + route)
		return nil
	}
	for ; k < len(c.Stores); k++ {
		st := c.Stores[k]
		idx := len(elems) + st.Gap
		if err := store(idx, st.Route, st.Bad, "store"); err != nil {
			return err
		}
		note(place(idx, elemKind(st.Bad)))
	}
	filled := 0
	for _, f := range c.Fills {
		var nils []int
		for i, e := range elems {
			if e == "nil" {
				nils = append(nils, i)
			}
		}
		if len(nils) <= 1 {
			break // one null entry stays
		}
		idx := nils[mod(f.Which, len(nils))]
		if err := store(idx, f.Route, false, "fill"); err != nil {
			return err
		}
		place(idx, elemKind(false))
		filled++
	}
	srcDemanded := c.Meta != "" && !c.Copy
	if c.Copy {
		n := ucfg.New()
		if err := n.Merge(cfg, sep); err != nil {
			return fmt.Errorf("Merge into a fresh configuration: %v", err)
		}
		cfg = n
	}
	trace := func() string {
		return fmt.Sprintf("\n list '%s', model %v\n initial data %v\n steps %v copy=%v", listPath, elems, init, steps, c.Copy)
	}

	// reads: every position of the list, and the padded positions of the outer lists
	asserted, assertedNil, assertedLateNil := 0, 0, 0
	read := func(op string, segs []string, salt int, tails []string) (bool, error) {
		name, idx := strings.Join(segs, "."), -1
		if last := segs[len(segs)-1]; salt%2 == 0 && isNum(last) {
			name, idx = strings.Join(segs[:len(segs)-1], "."), 0
			idx, _ = strconv.Atoi(last)
		}
		var err error
		if perr := uc.Safe(op, func() error { err = callGetter(cfg, op, name, idx, []ucfg.Option{sep}); return nil }); perr != nil {
			return false, perr
		}
		if err == nil {
			return false, nil
		}
		if e := checkNamed(err, []expect{{strings.Join(segs, "."), tails}}); e != nil {
			return false, fmt.Errorf("%s(%q, %d): %v%s", op, name, idx, e, trace())
		}
		asserted++
		return true, nil
	}
	numGetters := []string{"int", "bool", "uint", "float"}
	firstNil := -1
	for i, e := range elems {
		segs := append(append([]string{}, c.Prefix...), strconv.Itoa(i))
		salt := c.Salt + i
		switch e {
		case "nil":
			// a null entry holds no number: the getter fails, and the entry it fails on is this one. The entry
			// was not loaded from anywhere: the source is accepted, not demanded.
			ok, err := read(numGetters[salt%4], segs, salt/4, tailsFor(c.Meta, false))
			if err != nil {
				return err
			}
			if ok {
				assertedNil++
				if firstNil >= 0 {
					assertedLateNil++
				}
			}
			if firstNil < 0 {
				firstNil = i
			}
		case "int":
			if _, err := read([]string{"child", "bool"}[salt%2], segs, salt/2, tailsFor(c.Meta, srcDemanded)); err != nil {
				return err
			}
		case "str":
			if _, err := read([]string{"int", "child", "float"}[salt%3], segs, salt/3, tailsFor(c.Meta, srcDemanded)); err != nil {
				return err
			}
		case "obj":
			if _, err := read(numGetters[salt%4], segs, salt/4, tailsFor(c.Meta, false)); err != nil {
				return err
			}
			if _, err := read([]string{"bool", "int", "child"}[salt%3], append(segs, "name"), 1, tailsFor(c.Meta, false)); err != nil {
				return err
			}
		}
	}
	outerNil := 0
	for p, s := range c.Prefix {
		if n, err := strconv.Atoi(s); err == nil {
			for j := 0; j < n; j++ {
				segs := append(append([]string{}, c.Prefix[:p]...), strconv.Itoa(j))
				ok, err := read(numGetters[(c.Salt+j)%4], segs, c.Salt+p+j, tailsFor(c.Meta, false))
				if err != nil {
					return err
				}
				if ok {
					outerNil++
				}
			}
		}
	}
	// Unpack: every element needs a name. The elements are processed in order: the first null entry is the
	// one that is reported, by the name of the field that is missing in it.
	unpacked := false
	if c.Obj && !outer && firstNil >= 0 {
		hostile := false
		for _, s := range c.Prefix {
			hostile = hostile || strings.ContainsAny(s, "%'\"`, ")
		}
		if !hostile {
			var uerr error
			if perr := uc.Safe("Unpack", func() error { uerr = unpackSparse(cfg, len(c.Prefix)); return nil }); perr != nil {
				return fmt.Errorf("%v%s", perr, trace())
			}
			if uerr == nil {
				return fmt.Errorf("Unpack into elements with a required field succeeded although element %d is null%s", firstNil, trace())
			}
			want := listPath + "." + strconv.Itoa(firstNil) + ".name"
			if e := checkNamed(uerr, []expect{{want, tailsFor(c.Meta, false)}}); e != nil {
				return fmt.Errorf("Unpack: %v%s", e, trace())
			}
			unpacked = true
		}
	}
	r.NonTrivialIf(maxGap >= 2 && (assertedLateNil > 0 || outerNil > 1 || (unpacked && filled > 0)))
	r.Class("largest gap: " + strconv.Itoa(maxGap))
	r.ClassIf(assertedNil > 0, "getter failure at a padded entry asserted")
	r.ClassIf(assertedLateNil > 0, "getter failure at a padded entry that is not the first null of the list asserted")
	r.ClassIf(outerNil > 0, "getter failure at a padded entry of an outer list asserted")
	r.ClassIf(unpacked, "Unpack: required field of the first null entry asserted")
	r.ClassIf(unpacked && firstNil > 0 && filled > 0, "Unpack: ... after earlier padded entries were given values")
	r.ClassIf(filled > 0, "padded entries given values later")
	r.ClassIf(c.Copy, "configuration copied by a Merge before the reads")
	r.ClassIf(c.Obj, "list of objects")
	r.ClassIf(!c.Obj, "list of primitives")
	r.ClassIf(c.Meta != "", "with metadata")
	r.ClassIf(asserted > 0, "path of a failing element asserted")
	return nil
}

// unpackSparse unpacks the configuration (whose only top-level setting is the first segment of the path of
// the list) into nested maps that end in a list of elements with a required field.
func unpackSparse(cfg *ucfg.Config, depth int) error {
	type elem struct {
		Name string `config:"name" validate:"required"`
	}
	sep := ucfg.PathSep(".")
	switch depth {
	case 1:
		to := map[string][]elem{}
		return cfg.Unpack(&to, sep)
	case 2:
		to := map[string]map[string][]elem{}
		return cfg.Unpack(&to, sep)
	case 3:
		to := map[string]map[string]map[string][]elem{}
		return cfg.Unpack(&to, sep)
	}
	return fmt.Errorf("harness: path too long")
}

var subSparse = runlog.Register(&runlog.Sub[SCase]{
	Name: "sparse-lists",
	Rule: "a list (of integers with 1 in 4 unparsable strings, or of objects {name}) at a path of 1-5 segments (plain and hostile names; 4 in 10 paths run through positions 0-3 of outer lists, which are padded as well) that is filled SPARSELY: 0-2 elements loaded nested, then 1-3 elements stored 0-4 positions behind the end of the list (gaps of 2 and 3 most often) by Set*/SetChild with (name, idx), with the index as last segment of the name, through the Child handle of the list (\"\", idx), by a Merge of a dotted key, or as dotted keys of the data given to NewFrom; then 0-3 of the null entries are given valid values the same ways (one null entry always stays); 1 in 4 configurations is merged into a fresh one before it is read; with and without MetaData (hostile source names). " +
		"Then EVERY position of the list is read: a null entry through Int/Bool/Uint/Float (rotating; (name, idx) and dotted name alternating), an integer through Child/Bool, a string through Int/Child/Float, an object through a number getter and its name through Bool/Int/Child; every padded position of the outer lists likewise. Every error must be a typed error that ends in accessing|in field '<path of exactly the position that was read>' (a source is accepted for null entries and after the copy, demanded for stored values loaded with MetaData). " +
		"Lists of objects at paths without outer lists are also unpacked into elements whose field name is required: Unpack must fail with '<list>.<first null position>.name'. " +
		"Non-trivial: a gap of >= 2 and a failure asserted at a padded entry other than the first null of the list (or two in an outer list, or Unpack after earlier entries were filled). Distinct: hash of the case.",
	Gen: genSCase,
	Run: runSCase,
})

func TestSparseLists(t *testing.T) { subSparse.Check(t, 8000, 400000) }
