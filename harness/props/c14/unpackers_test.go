package c14

// Self-unpacking target types (unpack.go): the dimension "target type" of the
// quantifier also ranges over types that implement one of the Unpacker
// interfaces. A setting unpacked into such a type can fail in the conversion
// that precedes the call of Unpack (toBool/toInt/.../toConfig/reify, incl.
// the evaluation of a reference) or in the Unpack method itself, which may
// return any error: a plain one, or a ucfg.Error it got from using the library
// on its own data (whose path and source describe THAT data, not the
// setting). Whatever is returned, the failure is caused by the setting that
// is unpacked: its path and source are demanded.

import (
	"errors"
	"fmt"
	"reflect"
	"strings"

	ucfg "github.com/elastic/go-ucfg"
	"pgregory.net/rapid"

	"verif/harness/internal/gen"
)

// UBool implements ucfg.BoolUnpacker. It accepts every bool.
type UBool bool

func (u *UBool) Unpack(b bool) error { *u = UBool(b); return nil }

// UInt implements ucfg.IntUnpacker; 13 is rejected with a plain error.
type UInt int64

func (u *UInt) Unpack(i int64) error {
	if i == 13 {
		return errors.New("c14: 13 is unlucky (100% 'sure', %d)")
	}
	*u = UInt(i)
	return nil
}

// UUint implements ucfg.UintUnpacker; 13 is rejected with a ucfg.Error that
// the method got from the library for data of its own (it names a setting of
// that data and no source).
type UUint uint64

func (u *UUint) Unpack(n uint64) error {
	if n == 13 {
		own := ucfg.MustNewFrom(map[string]interface{}{"own": map[string]interface{}{"limit": "zz"}}, ucfg.PathSep("."))
		_, err := own.Int("own.limit", -1, ucfg.PathSep("."))
		if err == nil {
			err = errors.New("c14: 13 rejected")
		}
		return err
	}
	*u = UUint(n)
	return nil
}

// UFloat implements ucfg.FloatUnpacker; 13.5 is rejected with a plain error.
type UFloat float64

func (u *UFloat) Unpack(f float64) error {
	if f == 13.5 {
		return fmt.Errorf("c14: %v rejected (accessing 'elsewhere')", f)
	}
	*u = UFloat(f)
	return nil
}

// UStr implements ucfg.StringUnpacker; texts starting with "reject" are
// rejected with a plain error.
type UStr string

const rejectText = "reject 100% 'this'"

func (u *UStr) Unpack(s string) error {
	if strings.HasPrefix(s, "reject") {
		return errors.New("c14: unknown level " + s)
	}
	*u = UStr(s)
	return nil
}

type uShape struct {
	N int `config:"n"`
}

// UAny implements ucfg.Unpacker: it receives the generic form of its section
// and uses the library once more to interpret it (errors of that use are
// relative to the temporary configuration and have no source).
type UAny struct {
	N int `config:"n"`
}

func (u *UAny) Unpack(v interface{}) error {
	sub, err := ucfg.NewFrom(v, ucfg.PathSep("."))
	if err != nil {
		return err
	}
	var tmp uShape
	if err := sub.Unpack(&tmp, ucfg.PathSep(".")); err != nil {
		return err
	}
	if tmp.N == 13 {
		return errors.New("c14: section rejected: n is 13 (%s)")
	}
	u.N = tmp.N
	return nil
}

// UCfg implements ucfg.ConfigUnpacker: it unpacks the *Config of its section
// (errors of that call carry the full path and source already).
type UCfg struct {
	N int `config:"n"`
}

func (u *UCfg) Unpack(c *ucfg.Config) error {
	var tmp uShape
	if err := c.Unpack(&tmp, ucfg.PathSep(".")); err != nil {
		return err
	}
	if tmp.N == 13 {
		return errors.New("c14: section rejected: n is 13 ('n')")
	}
	u.N = tmp.N
	return nil
}

// URCfg is a type convertible from ucfg.Config: URefl is an unpacker by the
// reflective rule (an Unpack method taking a pointer to such a type).
type URCfg ucfg.Config

// URefl rejects n == 13 with a ucfg.Error of the library about another name
// of its section.
type URefl struct {
	N int `config:"n"`
}

func (u *URefl) Unpack(rc *URCfg) error {
	c := (*ucfg.Config)(rc)
	var tmp uShape
	if err := c.Unpack(&tmp, ucfg.PathSep(".")); err != nil {
		return err
	}
	if tmp.N == 13 {
		_, err := c.String("no such name", -1, ucfg.PathSep("."))
		if err == nil {
			err = errors.New("c14: section rejected")
		}
		return err
	}
	u.N = tmp.N
	return nil
}

// unpacker catalogue kinds -> the interface they implement (class labels)
var unpackerIface = map[string]string{
	"cat:c14_ub": "BoolUnpacker", "cat:c14_ui": "IntUnpacker", "cat:c14_uu": "UintUnpacker", "cat:c14_uf": "FloatUnpacker",
	"cat:c14_us": "StringUnpacker", "cat:c14_ua": "Unpacker", "cat:c14_uc": "ConfigUnpacker", "cat:c14_ur": "reflective Unpack(*T)",
}

var structUnpackers = []string{"cat:c14_ua", "cat:c14_uc", "cat:c14_ur"}

func init() {
	shape := func() *gen.TD {
		return &gen.TD{Kind: "struct", Fields: []gen.FD{{Name: "N", Tag: "n", T: &gen.TD{Kind: "int"}}}}
	}
	gen.RegisterCat("c14_ub", reflect.TypeOf(UBool(false)), &gen.TD{Kind: "bool"})
	gen.RegisterCat("c14_ui", reflect.TypeOf(UInt(0)), &gen.TD{Kind: "int64"})
	gen.RegisterCat("c14_uu", reflect.TypeOf(UUint(0)), &gen.TD{Kind: "uint64"})
	gen.RegisterCat("c14_uf", reflect.TypeOf(UFloat(0)), &gen.TD{Kind: "float64"})
	gen.RegisterCat("c14_us", reflect.TypeOf(UStr("")), &gen.TD{Kind: "string"})
	gen.RegisterCat("c14_ua", reflect.TypeOf(UAny{}), shape())
	gen.RegisterCat("c14_uc", reflect.TypeOf(UCfg{}), shape())
	gen.RegisterCat("c14_ur", reflect.TypeOf(URefl{}), shape())
}

// isUnpacker: the catalogue kind is a self-unpacking type.
func isUnpacker(td *gen.TD) bool { return unpackerIface[td.Kind] != "" }

// leafUnpackerFor names the self-unpacking catalogue kind that takes the
// place of a primitive kind ("" if there is none).
func leafUnpackerFor(kind string) string {
	switch {
	case kind == "bool":
		return "cat:c14_ub"
	case isIntBase(kind):
		return "cat:c14_ui"
	case isUintBase(kind):
		return "cat:c14_uu"
	case isFloatBase(kind):
		return "cat:c14_uf"
	case kind == "string":
		return "cat:c14_us"
	}
	return ""
}

// rejectPayloads: values the Unpack method of a leaf unpacker rejects (in the
// representations the preceding conversion accepts).
func rejectPayloads(unp string) []*gen.Tree {
	switch unp {
	case "cat:c14_ui":
		return []*gen.Tree{gen.Int(13), gen.Uint(13), gen.Str("13")}
	case "cat:c14_uu":
		return []*gen.Tree{gen.Uint(13), gen.Int(13), gen.Str("13")}
	case "cat:c14_uf":
		return []*gen.Tree{gen.Float(13.5), gen.Str("13.5")}
	case "cat:c14_us":
		return []*gen.Tree{gen.Str(rejectText), gen.Str("rejected")}
	}
	return nil
}

// plantUnpackers replaces, before the value is drawn, about a fifth of the
// primitive leaves of the type by the self-unpacking type of the same family
// and a third of the catalogue structs by a self-unpacking struct.
func plantUnpackers(t *rapid.T, td *gen.TD) {
	if td == nil {
		return
	}
	switch {
	case td.Kind == "cat:c14_v" || td.Kind == "cat:c14_vp":
		if rapid.IntRange(0, 2).Draw(t, "unpstruct") == 0 {
			td.Kind = rapid.SampledFrom(structUnpackers).Draw(t, "unpkind")
		}
	case td.IsLeaf():
		if u := leafUnpackerFor(td.Kind); u != "" && rapid.IntRange(0, 4).Draw(t, "unpleaf") == 0 {
			td.Kind = u
		}
	}
	plantUnpackers(t, td.Elem)
	for i := range td.Fields {
		plantUnpackers(t, td.Fields[i].T)
	}
}
