package c14

// Option values as a dimension of the histories before the fault is read.
//
// An Option is a value: applications build their common options once and
// pass the same values to every load, merge and Set* call, and a loader and
// its caller may both add a MetaData option to the same call. None of that
// changes where a setting was loaded from: the source demanded for every
// setting stays the one of the call that loaded it; for a call that is given
// several MetaData options it is the last one (options are applied in the
// order given - what the library does; checked on the bystander
// configurations below).

import (
	"fmt"
	"strings"

	ucfg "github.com/elastic/go-ucfg"
	"pgregory.net/rapid"
)

const (
	decoySource = "decoy's %s.yml"
)

// OptUse says how the calls of a case come by their MetaData options.
type OptUse struct {
	// Reuse: one MetaData Option value per source name is created for the
	// whole case and passed to every call that names that source (both
	// builds - valid and faulted configuration -, Set*, merges, history
	// edits, relocation, bystanders) instead of a fresh one per call.
	Reuse bool `json:"reuse,omitempty"`
	// Dup: every call of the case that names a source S is given two MetaData
	// options: "" (one) | decoy-first: [MetaData{decoy}, MetaData{S}] |
	// empty-first: [MetaData{}, MetaData{S}]. The last one counts.
	Dup string `json:"dup,omitempty"`
	// By: unrelated configurations loaded with the same Option values at
	// some point of the case; each has one out-of-range setting and is read
	// after the fault of the case has been read.
	By []Bystander `json:"by,omitempty"`
}

// Bystander is one unrelated load.
type Bystander struct {
	When string `json:"when"` // first: before anything else | between: after the valid pair, before the faulted configuration is built | last: after the faulted configuration got its final shape, before it is read
	Call string `json:"call"` // newfrom | merge | set: the API the option list is passed to
	// Opts: the MetaData options of the call, in order. "$meta": the option
	// of the case's own source (c.Meta, also if that is ""), "$set" "$outer"
	// "$hist" "$reloc" "$decoy": the options of the other sources a case
	// uses (all of them the reused values under Reuse), "=name": a fresh
	// MetaData{name}, "=": a fresh empty MetaData{}.
	Opts []string `json:"opts"`
}

var bystanderNamed = []string{"$meta", "$decoy", "$set", "$outer", "$hist", "$reloc"}

func genOptUse(t *rapid.T) *OptUse {
	u := &OptUse{Reuse: rapid.IntRange(0, 4).Draw(t, "reuse") > 0}
	u.Dup = rapid.SampledFrom([]string{"", "", "decoy-first", "empty-first"}).Draw(t, "dup")
	n := rapid.IntRange(0, 3).Draw(t, "bystanders")
	if u.Dup == "" && n == 0 {
		n = 1
	}
	for i := 0; i < n; i++ {
		b := Bystander{
			When: rapid.SampledFrom([]string{"last", "first", "between", "last"}).Draw(t, "when"),
			Call: rapid.SampledFrom([]string{"newfrom", "merge", "set", "newfrom"}).Draw(t, "call"),
		}
		one := func(label string) string {
			switch rapid.IntRange(0, 5).Draw(t, label) {
			case 0:
				return "=" + rapid.SampledFrom([]string{"site.yml", "100%.yml", "it's.yml"}).Draw(t, label+"-name")
			case 1:
				return "="
			case 2, 3:
				return "$meta"
			}
			return rapid.SampledFrom(bystanderNamed).Draw(t, label+"-named")
		}
		k := rapid.SampledFrom([]int{2, 1, 2, 3}).Draw(t, "nopts")
		for j := 0; j < k; j++ {
			b.Opts = append(b.Opts, one(fmt.Sprintf("opt%d", j)))
		}
		u.By = append(u.By, b)
	}
	return u
}

func (c *Case) sourceOf(name string) string {
	switch name {
	case "$meta":
		return c.Meta
	case "$decoy":
		return decoySource
	case "$set":
		return setSource
	case "$outer":
		return outerSource
	case "$hist":
		return histSource
	case "$reloc":
		return relocSource
	}
	return strings.TrimPrefix(name, "=")
}

// pooled returns the MetaData option for a source: the one value of the
// case under Reuse, a fresh one otherwise.
func (c *Case) pooled(source string) ucfg.Option {
	if c.Opts == nil || !c.Opts.Reuse || c.pool == nil {
		return ucfg.MetaData(ucfg.Meta{Source: source})
	}
	if o, ok := c.pool[source]; ok {
		return o
	}
	o := ucfg.MetaData(ucfg.Meta{Source: source})
	c.pool[source] = o
	return o
}

// metaOpts returns the MetaData option(s) of a call of the case that names
// the source.
func (c *Case) metaOpts(source string) []ucfg.Option {
	if c.Opts == nil {
		return []ucfg.Option{ucfg.MetaData(ucfg.Meta{Source: source})}
	}
	var out []ucfg.Option
	switch c.Opts.Dup {
	case "decoy-first":
		out = append(out, c.pooled(decoySource))
	case "empty-first":
		out = append(out, ucfg.MetaData(ucfg.Meta{}))
	}
	return append(out, c.pooled(source))
}

type bystander struct {
	b      Bystander
	cfg    *ucfg.Config
	source string
}

type byTarget struct {
	B uint8         `config:"b"`
	L []interface{} `config:"l"`
}

// bystanders makes the unrelated loads of one point of the case.
func (c *Case) bystanders(when string, made *[]bystander) error {
	if c.Opts == nil {
		return nil
	}
	for i, b := range c.Opts.By {
		if b.When != when {
			continue
		}
		opts := []ucfg.Option{ucfg.PathSep(".")}
		source := ""
		for _, name := range b.Opts {
			source = c.sourceOf(name)
			if strings.HasPrefix(name, "=") {
				opts = append(opts, ucfg.MetaData(ucfg.Meta{Source: source}))
			} else {
				opts = append(opts, c.pooled(source))
			}
		}
		var cfg *ucfg.Config
		var err error
		data := map[string]interface{}{"b": 70000 + i, "l": []interface{}{map[string]interface{}{"b": i}}}
		switch b.Call {
		case "newfrom":
			cfg, err = ucfg.NewFrom(data, opts...)
		case "merge":
			cfg = ucfg.New()
			err = cfg.Merge(data, opts...)
		case "set":
			cfg = ucfg.New()
			err = cfg.SetInt("b", -1, int64(70000+i), opts...)
		default:
			return fmt.Errorf("harness: unknown bystander call %q", b.Call)
		}
		if err != nil {
			return fmt.Errorf("bystander %d (%+v): %v", i, b, err)
		}
		*made = append(*made, bystander{b, cfg, source})
	}
	return nil
}

// checkBystanders reads the out-of-range setting of every bystander: the
// source named is the one of the last MetaData option of the call that
// loaded it - whatever has been loaded with the same Option values since.
func checkBystanders(made []bystander) error {
	for _, m := range made {
		var to byTarget
		err := m.cfg.Unpack(&to, ucfg.PathSep("."))
		if err == nil {
			return fmt.Errorf("bystander %+v: out-of-range setting 'b' not reported", m.b)
		}
		if nerr := checkNamed(err, []expect{{"b", tailsFor(m.source, true)}}); nerr != nil {
			return fmt.Errorf("bystander configuration loaded by %s with the MetaData options %q (the last one, %q, counts): %v", m.b.Call, m.b.Opts, m.source, nerr)
		}
	}
	return nil
}
