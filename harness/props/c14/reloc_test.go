package c14

// Relocation histories: before the fault is read, the loaded section that
// holds it (or that IS the faulted collection) is moved around by reference
// or by copy - obtained with Child or captured into a *ucfg.Config field,
// attached with SetChild (with and without a MetaData option) in place of the
// valid section of a second configuration loaded the same way (from the same
// source, another one or none), attached to an unrelated configuration, or
// merged in as a child. Moving a section does not change where its settings
// were loaded from: the fault is still reported with its path and with the
// source of the call that loaded it, through the configuration it was put
// into and through the one it was taken from.
//
// The section is always put back at the path it was taken from, so the
// expected path is the one computed from the type descriptor (what Path() of
// a child that is attached at ANOTHER place should be is finding D14 of C15
// and not this property's business).

import (
	"fmt"
	"reflect"
	"regexp"
	"strconv"
	"strings"

	ucfg "github.com/elastic/go-ucfg"
	"pgregory.net/rapid"
)

// Reloc describes how the section around the fault is moved before reading.
type Reloc struct {
	Up     int    `json:"up"`               // the section: the node Up levels above the faulted setting (0: the faulted collection itself)
	Via    string `json:"via,omitempty"`    // how it is obtained: "" Child | captured: a *ucfg.Config field of a struct its parent is unpacked into
	How    string `json:"how"`              // setchild | setchild-meta (the SetChild call names another source) | merge (removed from the second configuration, then merged in below its path)
	Where  string `json:"where,omitempty"`  // "" in place of the valid section of a second configuration of the same shape, which is read (then the first again) | elsewhere: attached to an unrelated configuration; the configuration it was taken from is read
	Target string `json:"target,omitempty"` // source of the second configuration: "" the same | other | none
	Pre    bool   `json:"pre,omitempty"`    // the section is attached to an unrelated configuration first (SetChild without MetaData)
	Idx    bool   `json:"idx,omitempty"`    // a section that is a list element is addressed as (name of the list, idx) by Child and SetChild instead of by a numeric last segment
}

const (
	relocSource       = "reloc'd %s.yml"
	relocTargetSource = "second%d.yml"
)

// collection-level faults: the error is raised for a collection (list, struct
// section), not for a value in it.
func collectionFault(kind string) bool {
	return kind == kArrayLen || kind == kEmptyList || kind == kStructVal
}

// minUp: the lowest node that can be moved as a section (it has to be a
// container in the faulted configuration).
func minUp(kind string) int {
	switch kind {
	case kWrongCont, kArrayLen, kEmptyList, kStructVal:
		return 0
	}
	return 1
}

func relPath(c *Case) []string {
	if c.Wrap && c.Move == "key" {
		return append(append([]string{}, staticPrefix(c.Move)...), c.Path...) // build returns the outer configuration
	}
	return c.Path
}

func genReloc(t *rapid.T, c *Case) *Reloc {
	lo, hi := minUp(c.Kind), len(relPath(c))-1
	if lo > hi {
		return nil
	}
	r := &Reloc{Up: lo}
	if rapid.Bool().Draw(t, "relocup") {
		r.Up = rapid.IntRange(lo, hi).Draw(t, "relocupn")
	}
	r.Via = rapid.SampledFrom([]string{"", "", "captured"}).Draw(t, "relocvia")
	r.How = rapid.SampledFrom([]string{"setchild", "setchild", "setchild-meta", "merge"}).Draw(t, "relochow")
	r.Where = rapid.SampledFrom([]string{"", "", "", "elsewhere"}).Draw(t, "relocwhere")
	if r.Where == "elsewhere" && r.How == "merge" {
		r.How = "setchild"
	}
	r.Target = rapid.SampledFrom([]string{"", "other", "other", "none"}).Draw(t, "reloctarget")
	r.Pre = rapid.IntRange(0, 3).Draw(t, "relocpre") == 0
	r.Idx = rapid.Bool().Draw(t, "relocidx")
	return r
}

var simpleSeg = regexp.MustCompile(`^[A-Za-z_][A-Za-z0-9_]*$`)

func isIndexSeg(s string) bool {
	_, err := strconv.ParseUint(s, 0, 64)
	return err == nil
}

// relocate moves the section of the faulted configuration donor as c.Reloc
// says and returns the configurations to read the fault through.
func relocate(c *Case, s *site, donor *ucfg.Config, classes map[string]bool) (read []*ucfg.Config, err error) {
	rl := c.Reloc
	rel := relPath(c)
	k := len(rel) - rl.Up
	if rl.Up < minUp(c.Kind) || k < 1 {
		return nil, errDiscard{"relocation: no such section"}
	}
	sec := rel[:k]
	name, idx := strings.Join(sec, "."), -1
	if n, err := strconv.Atoi(sec[k-1]); rl.Idx && k > 1 && err == nil && n >= 0 && strconv.Itoa(n) == sec[k-1] {
		if p, perr := donor.Child(strings.Join(sec[:k-1], "."), -1, ucfg.PathSep(".")); perr == nil && p.IsArray() && !p.IsDict() {
			name, idx = strings.Join(sec[:k-1], "."), n // an element of a list: (name of the list, idx)
			classes["relocation: section addressed by name and idx"] = true
		}
	}
	opts := []ucfg.Option{ucfg.PathSep(".")}

	// the section, as a user gets hold of it
	var section *ucfg.Config
	if last := sec[k-1]; rl.Via == "captured" && simpleSeg.MatchString(last) {
		parent := donor
		if k > 1 {
			if parent, err = donor.Child(strings.Join(sec[:k-1], "."), -1, opts...); err != nil {
				return nil, fmt.Errorf("relocation: Child(%q) of the loaded configuration: %v", strings.Join(sec[:k-1], "."), err)
			}
		}
		typ := reflect.StructOf([]reflect.StructField{{Name: "X", Type: reflect.TypeOf((*ucfg.Config)(nil)), Tag: reflect.StructTag(`config:"` + last + `"`)}})
		out := reflect.New(typ)
		if err := parent.Unpack(out.Interface(), opts...); err != nil {
			return nil, fmt.Errorf("relocation: capturing the section %q in a *ucfg.Config field: %v", name, err)
		}
		section, _ = out.Elem().Field(0).Interface().(*ucfg.Config)
		if section == nil {
			return nil, errDiscard{"relocation: nothing captured"}
		}
		classes["relocation: section captured in a *ucfg.Config field"] = true
	} else {
		if section, err = donor.Child(name, idx, opts...); err != nil {
			return nil, fmt.Errorf("relocation: Child(%q, %d) of the loaded configuration: %v", name, idx, err)
		}
		classes["relocation: section obtained with Child"] = true
	}

	if rl.Pre {
		if err := ucfg.New().SetChild("y", 0, section, opts...); err != nil {
			return nil, fmt.Errorf("relocation: SetChild into an unrelated configuration: %v", err)
		}
		classes["relocation: attached to an unrelated configuration first"] = true
	}
	attach := opts
	if rl.How == "setchild-meta" {
		attach = append(append([]ucfg.Option{}, opts...), c.metaOpts(relocSource)...)
	}
	if rl.Where == "elsewhere" {
		if err := ucfg.New().SetChild("x", -1, section, attach...); err != nil {
			return nil, fmt.Errorf("relocation: SetChild into an unrelated configuration: %v", err)
		}
		classes["relocation: attached elsewhere with "+rl.How+", the configuration it was taken from is read"] = true
		return []*ucfg.Config{donor}, nil
	}

	// a second configuration of the same shape without the fault
	c2 := *c
	c2.Reloc = nil
	switch rl.Target {
	case "other":
		c2.Meta = relocTargetSource
	case "none":
		c2.Meta = ""
	}
	target, _, _, err := build(&c2, s, false)
	if err != nil {
		return nil, err
	}
	how := rl.How
	if how == "merge" {
		for _, seg := range sec {
			if isIndexSeg(seg) {
				how = "setchild" // the path runs through a list: merging below it would pad the list
			}
		}
	}
	switch how {
	case "setchild", "setchild-meta":
		if err := target.SetChild(name, idx, section, attach...); err != nil {
			return nil, fmt.Errorf("relocation: SetChild(%q, %d): %v", name, idx, err)
		}
	case "merge":
		if ok, err := target.Remove(name, idx, opts...); err != nil || !ok {
			return nil, errDiscard{"relocation: section to replace not found"}
		}
		var data interface{} = section
		for i := len(sec) - 1; i >= 0; i-- {
			data = map[string]interface{}{sec[i]: data}
		}
		// no PathSep: every segment is one key
		if err := target.Merge(data); err != nil {
			return nil, fmt.Errorf("relocation: Merge of the section below %q: %v", name, err)
		}
	default:
		return nil, fmt.Errorf("harness: unknown relocation %q", rl.How)
	}
	classes["relocation: put in place in a second configuration with "+how] = true
	classes["relocation: second configuration loaded from: "+map[string]string{"": "the same source", "other": "another source", "none": "no source"}[rl.Target]] = true
	return []*ucfg.Config{target, donor}, nil
}

// relocTails widens what may follow the path after a relocation. A SetChild
// call that names a source of its own re-labels the section it attaches (the
// library does; the statement does not say whether "the source it came from"
// is then the file or the call), so for a fault that is reported for that very
// section either source is accepted; everything inside keeps its source. For
// a missing setting nothing is demanded (it was not loaded from anywhere): the
// library reports the source of the struct section it is missing from, which
// may be the moved section, a node inside it or (dotted names) a node of the
// second configuration above it - any of the sources involved is accepted.
func relocTails(c *Case, alts []expect, demand bool) {
	rl := c.Reloc
	if rl == nil {
		return
	}
	tail := func(src string) string { return " (source:'" + src + "')" }
	if !demand {
		if rl.Where != "elsewhere" && rl.Target == "other" {
			alts[0].tails = append(alts[0].tails, tail(relocTargetSource))
		}
		if rl.How == "setchild-meta" {
			alts[0].tails = append(alts[0].tails, tail(relocSource))
		}
		return
	}
	if rl.How == "setchild-meta" && rl.Up == 0 {
		alts[0].tails = append(alts[0].tails, tail(relocSource))
	}
}
