package c14

import (
	"fmt"
	"strconv"
	"strings"
	"testing"

	ucfg "github.com/elastic/go-ucfg"
	"pgregory.net/rapid"

	"verif/harness/internal/gen"
	"verif/harness/internal/runlog"
	"verif/harness/internal/uc"
)

// Sub-check "lowlevel": a configuration built from a data tree and a sequence
// of path-addressed operations, many of which must fail: getters on missing,
// wrong-typed or unresolvable settings, Has/Remove/Set* through a primitive,
// Child on a primitive, CountField on a dynamic value. Every non-nil error
// must be a typed error; where the failure is caused by the one setting that
// was addressed (it exists and cannot be converted), the message must name
// its full path.

// LOp is one API call.
type LOp struct {
	Op   string    `json:"op"` // bool int uint float string child has remove count set setchild unpack
	Path []string  `json:"path,omitempty"`
	Idx  int       `json:"idx"`
	Val  *gen.Tree `json:"val,omitempty"` // value for set / setchild
}

// LRef is an unresolvable reference planted in the tree.
type LRef struct {
	Path  []string `json:"path"`
	Shape string   `json:"shape"` // missing | index | self | cycle2 | cycle3 | rho | through-prim | chain | errmsg
}

// LCase is a data tree, the options and the calls.
type LCase struct {
	Tree     *gen.Tree `json:"tree"`
	VarExp   bool      `json:"varexp,omitempty"`
	Resolver bool      `json:"resolver,omitempty"` // pass a resolver that knows no variable (else none)
	Meta     string    `json:"meta,omitempty"`
	Refs     []LRef    `json:"refs,omitempty"`   // planted reference faults (VarExp only)
	Spell    []int     `json:"spell,omitempty"`  // how the data is spelled (nested, dotted keys, mixed: hist_test.go); empty: nested
	Layers   int       `json:"layers,omitempty"` // != 0: the data is loaded as two inputs one after the other (hist_test.go)
	Ops      []LOp     `json:"ops"`
}

var (
	getterOps  = []string{"bool", "int", "uint", "float", "string", "child"}
	lowOps     = []string{"bool", "int", "uint", "float", "string", "child", "has", "remove", "count", "set", "setchild", "unpack", "has", "remove", "count", "int", "child"}
	plainStrs  = []string{"zz", "x y", "12", "true", "s", "", "-3", "1.5", "90%", "%d's"}
	dynStrs    = []string{"${nope}", "${nope}", "${a}", "${b.c}", "x${nope}", "${a.0}", "${d}", "${c}", "${nope:dflt}", "$${a}"}
	badNumStrs = map[string]bool{"zz": true, "x y": true, "90%": true, "%d's": true}
)

func genLCase(t *rapid.T) LCase {
	c := LCase{
		VarExp:   rapid.IntRange(0, 2).Draw(t, "varexp") > 0,
		Resolver: rapid.IntRange(0, 3).Draw(t, "resolver") > 0,
		Meta:     rapid.SampledFrom(metaPool).Draw(t, "meta"),
	}
	strs := append([]string{}, plainStrs...)
	if c.VarExp {
		strs = append(strs, dynStrs...)
	} else {
		strs = append(strs, "${nope}", "$", "a.b")
	}
	tc := &gen.TreeCfg{Depth: runlog.Pick(3, 4), Width: runlog.Pick(4, 5), Strings: strs}
	if rapid.IntRange(0, 2).Draw(t, "hostilekeys") > 0 {
		// names with format verbs, quotes, braces, blanks, non-ASCII next to a-d
		tc.Keys = lowKeys
	}
	c.Tree = gen.GenObj(t, tc, tc.Depth)
	// more strings than the shared generator draws: references and unparsable text
	var sprinkle func(n *gen.Tree)
	sprinkle = func(n *gen.Tree) {
		for i, v := range n.Vals {
			if v.IsCont() {
				sprinkle(v)
			} else if rapid.IntRange(0, 3).Draw(t, "sprinkle") == 0 {
				n.Vals[i] = gen.Str(rapid.SampledFrom(strs).Draw(t, "str"))
			}
		}
	}
	sprinkle(c.Tree)

	if c.VarExp {
		plantRefs(t, &c)
	}
	if rapid.IntRange(0, 9).Draw(t, "spelled") < 4 {
		c.Spell = genSpell(t)
	}
	if rapid.IntRange(0, 4).Draw(t, "layered") == 0 {
		c.Layers = rapid.IntRange(1, 1<<16-1).Draw(t, "layers")
	}
	// histories: in a third of the cases removals (which move the following elements of a list) and
	// replacements come first and are frequent
	editFirst := rapid.IntRange(0, 2).Draw(t, "editfirst") == 0

	var paths [][]string
	c.Tree.Walk(nil, func(p []string, n *gen.Tree) {
		if len(p) > 0 {
			paths = append(paths, append([]string{}, p...))
		}
	})
	for _, ref := range c.Refs {
		// read the planted references often
		for i := 0; i < 3; i++ {
			paths = append(paths, append([]string{}, ref.Path...))
		}
	}
	// elements of lists that are followed by further elements: removing one moves the others
	var notLast, movedPaths [][]string
	c.Tree.Walk(nil, func(p []string, n *gen.Tree) {
		if n.K == "list" && len(p) > 0 {
			for i := 0; i+1 < len(n.Vals); i++ {
				notLast = append(notLast, appendPath(p, strconv.Itoa(i)))
			}
		}
	})
	nops := rapid.IntRange(1, runlog.Pick(6, 10)).Draw(t, "nops")
	for i := 0; i < nops; i++ {
		if editFirst && i == 0 && len(notLast) > 0 && rapid.IntRange(0, 3).Draw(t, "shift") > 0 {
			// a focused history: an element that is not the last one is removed, then what has moved is read
			target := rapid.SampledFrom(notLast).Draw(t, "shiftat")
			list, j := target[:len(target)-1], 0
			j, _ = strconv.Atoi(target[len(target)-1])
			op := LOp{Op: "remove", Path: target, Idx: -1}
			if rapid.Bool().Draw(t, "shiftidx") {
				op.Path, op.Idx = list, j
			}
			for _, q := range paths {
				if len(q) > len(list) && samePath(q[:len(list)], list) {
					if m, err := strconv.Atoi(q[len(list)]); err == nil && m > j {
						nq := append([]string{}, q...)
						nq[len(list)] = strconv.Itoa(m - 1)
						movedPaths = append(movedPaths, nq)
					}
				}
			}
			c.Ops = append(c.Ops, op)
			continue
		}
		if len(movedPaths) > 0 && rapid.IntRange(0, 2).Draw(t, "readmoved") > 0 {
			op := LOp{Op: rapid.SampledFrom([]string{"int", "bool", "child", "uint", "float", "string", "count"}).Draw(t, "movedop"), Idx: -1}
			op.Path = append([]string{}, rapid.SampledFrom(movedPaths).Draw(t, "movedpath")...)
			if n, err := strconv.Atoi(op.Path[len(op.Path)-1]); err == nil && op.Op != "count" && rapid.Bool().Draw(t, "movedidx") {
				op.Path, op.Idx = op.Path[:len(op.Path)-1], n
			}
			c.Ops = append(c.Ops, op)
			continue
		}
		op := LOp{Op: rapid.SampledFrom(lowOps).Draw(t, "op"), Idx: -1}
		if editFirst && i < 2 && rapid.IntRange(0, 3).Draw(t, "edit") > 0 {
			op.Op = rapid.SampledFrom([]string{"remove", "remove", "remove", "set", "setchild"}).Draw(t, "editop")
		}
		var p []string
		if len(paths) > 0 && rapid.IntRange(0, 9).Draw(t, "real") > 0 {
			p = append([]string{}, rapid.SampledFrom(paths).Draw(t, "path")...)
		}
		switch rapid.IntRange(0, 6).Draw(t, "mut") {
		case 0:
			p = append(p, rapid.SampledFrom([]string{"a", "b", "zz"}).Draw(t, "ext"))
		case 1:
			p = append(p, rapid.SampledFrom([]string{"0", "1", "5"}).Draw(t, "exti"))
		case 2:
			if len(p) > 0 {
				p[len(p)-1] = rapid.SampledFrom([]string{"zz", "a", "3"}).Draw(t, "repl")
			}
		case 3:
			if len(p) > 1 {
				p = p[:len(p)-1]
			}
		}
		if rapid.IntRange(0, 3).Draw(t, "useidx") == 0 {
			op.Idx = rapid.IntRange(0, 3).Draw(t, "idx")
		}
		if len(p) == 0 && op.Idx < 0 {
			op.Idx = 0 // an empty name needs an index
		}
		op.Path = p
		switch op.Op {
		case "set":
			op.Val = rapid.SampledFrom(primPayloads).Draw(t, "val").Clone()
		case "setchild":
			op.Val = rapid.SampledFrom(contPayloads).Draw(t, "cval").Clone()
		}
		c.Ops = append(c.Ops, op)
	}
	return c
}

var lowKeys = []string{"a", "b", "c", "d", "a", "b", "used%", "%d", "100%s", "it's", `"q"`, "{x}", "a b", "é☃", "x%20y", "[k]"}

var lowShapes = []string{"missing", "index", "self", "cycle2", "cycle3", "rho", "through-prim", "chain", "errmsg"}

// plantRefs adds up to three unresolvable references of a known shape (with
// their auxiliary settings) to objects of the tree.
func plantRefs(t *rapid.T, c *LCase) {
	type host struct {
		path []string
		node *gen.Tree
	}
	var hosts []host
	var prims, lists [][]string
	c.Tree.Walk(nil, func(p []string, n *gen.Tree) {
		if !refSafe(p) {
			return
		}
		switch {
		case n.K == "obj":
			hosts = append(hosts, host{append([]string{}, p...), n})
		case n.K == "list":
			lists = append(lists, append([]string{}, p...))
		case n.IsPrim() && len(p) > 0 && !(n.K == "str" && strings.Contains(n.S, "$")):
			prims = append(prims, append([]string{}, p...))
		}
	})
	ref := func(p []string, more ...string) string {
		return "${" + strings.Join(append(append([]string{}, p...), more...), ".") + "}"
	}
	n := rapid.IntRange(0, 3).Draw(t, "nrefs")
	for i := 0; i < n; i++ {
		h := rapid.SampledFrom(hosts).Draw(t, "host")
		h2 := rapid.SampledFrom(hosts).Draw(t, "host2")
		h3 := rapid.SampledFrom(hosts).Draw(t, "host3")
		g, gx, gy := fmt.Sprintf("g%d", i), fmt.Sprintf("g%dx", i), fmt.Sprintf("g%dy", i)
		if rapid.IntRange(0, 3).Draw(t, "gname") == 0 {
			g = fmt.Sprintf("g%d%%'s", i) // the setting that is read has a hostile name itself
		}
		shape := rapid.SampledFrom(lowShapes).Draw(t, "shape")
		var expr string
		switch shape {
		case "missing":
			expr = rapid.SampledFrom([]string{"${nope}", ref(h2.path, "nope"), ref(h2.path, "nope", "x")}).Draw(t, "missing")
		case "index":
			if len(lists) == 0 {
				shape, expr = "missing", "${nope}"
				break
			}
			expr = ref(rapid.SampledFrom(lists).Draw(t, "list"), "99")
		case "self":
			expr = ref(h.path, g)
		case "cycle2":
			expr = ref(h2.path, gx)
			h2.node.Put(gx, gen.Str(ref(h.path, g)))
		case "cycle3":
			expr = ref(h2.path, gx)
			h2.node.Put(gx, gen.Str(ref(h3.path, gy)))
			h3.node.Put(gy, gen.Str(ref(h.path, g)))
		case "rho":
			expr = ref(h2.path, gx)
			h2.node.Put(gx, gen.Str(ref(h3.path, gy)))
			h3.node.Put(gy, gen.Str(ref(h2.path, gx)))
		case "through-prim":
			if len(prims) == 0 {
				h2.node.Put(gx, gen.Uint(5))
				expr = ref(h2.path, gx, "x")
				break
			}
			expr = ref(rapid.SampledFrom(prims).Draw(t, "prim"), rapid.SampledFrom([]string{"x", "x.y", "a", "y%.0"}).Draw(t, "below"))
		case "chain":
			expr = ref(h2.path, gx)
			h2.node.Put(gx, gen.Str("${nope}"))
		case "errmsg":
			expr = "${nope:?no value: 100% 'sure'}"
		}
		if rapid.IntRange(0, 3).Draw(t, "gsplice") == 0 {
			expr = "pre " + expr + " post"
		}
		h.node.Put(g, gen.Str(expr))
		c.Refs = append(c.Refs, LRef{Path: append(append([]string{}, h.path...), g), Shape: shape})
	}
}

// planted returns the shape of the reference fault planted at addr ("" if none).
func planted(c *LCase, addr []string) string {
	for _, r := range c.Refs {
		if samePath(r.Path, addr) {
			return r.Shape
		}
	}
	return ""
}

// parentOf returns the container holding the node at segs (strict walk) and
// the position of the node in it (-1: no such node).
func parentOf(t *gen.Tree, segs []string) (*gen.Tree, int) {
	if len(segs) == 0 {
		return nil, -1
	}
	p, known := lookup(t, segs[:len(segs)-1])
	if !known || p == nil {
		return nil, -1
	}
	last := segs[len(segs)-1]
	switch p.K {
	case "obj":
		for i, k := range p.Keys {
			if k == last {
				return p, i
			}
		}
	case "list":
		if i, err := strconv.Atoi(last); err == nil && i >= 0 && i < len(p.Vals) && strconv.Itoa(i) == last {
			return p, i
		}
	}
	return nil, -1
}

// modelRemove deletes the node at segs: the following elements of a list move down.
func modelRemove(t *gen.Tree, segs []string) bool {
	p, i := parentOf(t, segs)
	if p == nil || i < 0 {
		return false
	}
	if p.K == "obj" {
		p.Keys = append(p.Keys[:i:i], p.Keys[i+1:]...)
	}
	p.Vals = append(p.Vals[:i:i], p.Vals[i+1:]...)
	return true
}

// modelReplace puts v in place of the node at segs.
func modelReplace(t *gen.Tree, segs []string, v *gen.Tree) bool {
	p, i := parentOf(t, segs)
	if p == nil || i < 0 {
		return false
	}
	p.Vals[i] = v
	return true
}

// lookup walks the data tree strictly: keys in objects, in-range indices in
// lists. known=false: the address uses a rule this model does not cover (a
// numeric segment on a non-list, a name on a list, anything below a
// primitive); node=nil with known=true: the setting does not exist.
func lookup(t *gen.Tree, segs []string) (node *gen.Tree, known bool) {
	cur := t
	for _, s := range segs {
		idx, err := strconv.Atoi(s)
		numeric := err == nil && idx >= 0 && strconv.Itoa(idx) == s
		switch {
		case cur.K == "obj" && !numeric:
			cur = cur.Get(s)
			if cur == nil {
				return nil, true
			}
		case cur.K == "list" && numeric:
			if idx >= len(cur.Vals) {
				return nil, true
			}
			cur = cur.Vals[idx]
		default:
			return nil, false
		}
	}
	return cur, true
}

// mustFail: the getter applied to the existing node cannot succeed under any
// reading of the documentation.
func mustFail(c *LCase, op string, n *gen.Tree) bool {
	dyn := c.VarExp && n.K == "str" && strings.Contains(n.S, "$")
	if dyn {
		// only the reference nothing can resolve
		return n.S == "${nope}" && c.Resolver
	}
	switch n.K {
	case "obj", "list":
		return op != "child" && len(n.Vals) > 0
	case "nil":
		return false
	}
	switch op {
	case "child":
		return true
	case "bool":
		return n.K == "int" || n.K == "uint" || n.K == "float" || (n.K == "str" && badNumStrs[n.S])
	case "int", "float":
		return n.K == "bool" || (n.K == "str" && badNumStrs[n.S])
	case "uint":
		return n.K == "bool" || (n.K == "str" && badNumStrs[n.S]) || (n.K == "int" && n.I < 0)
	}
	return false
}

func runLCase(c LCase, r *runlog.R) error {
	if c.Tree == nil || c.Tree.K != "obj" {
		r.Discard()
		return nil
	}
	nopts := []ucfg.Option{ucfg.PathSep(".")}
	if c.Meta != "" {
		nopts = append(nopts, ucfg.MetaData(ucfg.Meta{Source: c.Meta}))
	}
	sopts := append([]ucfg.Option{}, nopts...) // Set*, Remove
	if c.VarExp {
		nopts = append(nopts, ucfg.VarExp)
	}
	gopts := []ucfg.Option{ucfg.PathSep(".")} // getters, Has, CountField, Unpack
	if c.Resolver {
		gopts = append(gopts, ucfg.Resolve(failingResolver))
	}

	typed := func(what string, err error) error {
		if err == nil {
			return nil
		}
		if e := checkError(err, "", ""); e != nil {
			return fmt.Errorf("%s: %v", what, e)
		}
		return nil
	}

	var cfg *ucfg.Config
	data, sp := respell(c.Tree.Go(), c.Spell)
	layered := false
	err := uc.Safe("NewFrom", func() (e error) { cfg, layered, e = loadLayered(data, c.Layers, nopts); return })
	if err != nil {
		if strings.Contains(err.Error(), "panicked") && !isTyped(err) {
			return err
		}
		r.Class("NewFrom rejected the tree")
		return typed("NewFrom", err)
	}

	// the model of the configuration: the tree, edited by the removals and replacements whose effect is
	// certain (strict addresses); lost: an edit the model does not cover has happened
	model := c.Tree.Clone()
	mutated, lost := false, false
	type shift struct {
		list []string
		j    int
	}
	var shifts []shift // removals that moved the elements from index j on of a list
	movedKinds := map[string]bool{}
	errs, deepErr, asserted, assertedLate, assertedMoved := 0, false, 0, 0, 0
	for i, op := range c.Ops {
		name := strings.Join(op.Path, ".")
		addr := append([]string{}, op.Path...)
		if op.Idx >= 0 {
			addr = append(addr, strconv.Itoa(op.Idx))
		}
		what := fmt.Sprintf("op %d %s(%q, %d)", i, op.Op, name, op.Idx)
		var opErr error
		perr := uc.Safe(what, func() error {
			switch op.Op {
			case "bool":
				_, opErr = cfg.Bool(name, op.Idx, gopts...)
			case "int":
				_, opErr = cfg.Int(name, op.Idx, gopts...)
			case "uint":
				_, opErr = cfg.Uint(name, op.Idx, gopts...)
			case "float":
				_, opErr = cfg.Float(name, op.Idx, gopts...)
			case "string":
				_, opErr = cfg.String(name, op.Idx, gopts...)
			case "child":
				_, opErr = cfg.Child(name, op.Idx, gopts...)
			case "has":
				_, opErr = cfg.Has(name, op.Idx, gopts...)
			case "remove":
				var ok bool
				ok, opErr = cfg.Remove(name, op.Idx, sopts...)
				mutated = mutated || ok
				if ok {
					if p, i := parentOf(model, addr); p != nil && p.K == "list" && i < len(p.Vals)-1 {
						shifts = append(shifts, shift{append([]string{}, addr[:len(addr)-1]...), i}) // the following elements have moved down
					}
					lost = lost || !modelRemove(model, addr)
				}
			case "count":
				// CountField takes a single name: go to the parent first
				parent := cfg
				if len(op.Path) > 1 {
					parent, opErr = cfg.Child(strings.Join(op.Path[:len(op.Path)-1], "."), -1, gopts...)
				}
				if opErr == nil && len(op.Path) > 0 {
					_, opErr = parent.CountField(op.Path[len(op.Path)-1], gopts...)
				}
			case "set":
				opErr = setPrim(cfg, name, op.Idx, op.Val, sopts)
				mutated = mutated || opErr == nil
				if opErr == nil {
					lost = lost || !modelReplace(model, addr, op.Val.Clone())
				}
			case "setchild":
				child, e := ucfg.NewFrom(op.Val.Go(), sopts...)
				if e != nil {
					return fmt.Errorf("harness: %v", e)
				}
				opErr = cfg.SetChild(name, op.Idx, child, sopts...)
				mutated = mutated || opErr == nil
				if opErr == nil {
					lost = lost || !modelReplace(model, addr, op.Val.Clone())
				}
			case "unpack":
				var m map[string]interface{}
				opErr = cfg.Unpack(&m, gopts...)
			default:
				return fmt.Errorf("harness: unknown op %q", op.Op)
			}
			return nil
		})
		if perr != nil {
			return perr
		}
		if e := typed(what, opErr); e != nil {
			// classes of findings that are constructed away while they are open
			if op.Op == "remove" && !isTyped(opErr) && avoid("D20") {
				r.Excluded("D20")
				continue
			}
			if op.Op == "count" && !isTyped(opErr) && avoid("D34") {
				r.Excluded("D34")
				continue
			}
			return fmt.Errorf("%v\n tree %s", e, show(c.Tree))
		}
		if opErr != nil {
			errs++
			r.Class("error from " + op.Op)
			if len(addr) >= 2 {
				deepErr = true
			}
		} else {
			r.Class("success of " + op.Op)
		}

		// failures caused by the addressed setting itself name its path
		isGetter := false
		for _, g := range getterOps {
			isGetter = isGetter || g == op.Op
		}
		if !(isGetter || op.Op == "count") || lost {
			continue
		}
		if op.Op == "count" {
			addr = op.Path // CountField takes no index
		}
		n, known := lookup(model, addr)
		if !known || n == nil {
			continue
		}
		// the setting that was addressed exists: whatever makes reading it
		// fail (wrong type, failed conversion, unresolvable reference) is a
		// failure caused by this setting
		// (after an edit the planted references may mean something else: nothing is demanded to fail then)
		shape := ""
		if c.VarExp && !mutated {
			shape = planted(&c, addr)
		}
		must := isGetter && !mutated && mustFail(&c, op.Op, n)
		if isGetter && shape != "" {
			// a cycle or a path through a primitive can not be resolved by
			// anything; a missing variable can not by a resolver that knows none
			must = c.Resolver || !(shape == "missing" || shape == "chain" || shape == "index")
		}
		if opErr == nil {
			if must {
				return fmt.Errorf("%s succeeded on a %s setting (planted reference fault: %q)\n tree %s", what, n.K, shape, show(c.Tree))
			}
			continue
		}
		asserted++
		if mutated {
			assertedLate++
		}
		for _, sh := range shifts {
			if len(addr) > len(sh.list) && samePath(addr[:len(sh.list)], sh.list) {
				if m, err := strconv.Atoi(addr[len(sh.list)]); err == nil && m >= sh.j {
					assertedMoved++
					if e, _ := lookup(model, addr[:len(sh.list)+1]); e != nil {
						movedKinds[map[bool]string{true: e.K, false: "primitive"}[e.IsCont()]] = true
					}
					break
				}
			}
		}
		// A nil element of a list that other entries of the input also contribute to by numeric segments
		// ("l.1": x next to l: [nil]) may be the PADDING nil of such an entry after the index-wise merge of the
		// entries, not the nil that was written: padding is implied, not loaded, and carries no source (only
		// loaded values do). The path is demanded, the source is optional there. Nothing is relaxed for values.
		paddedNil := false
		if p, _ := parentOf(model, addr); n.K == "nil" && p != nil && p.K == "list" && ((sp != nil && sp.listNodes > 0) || layered) {
			paddedNil = true
		}
		check := func() error {
			if paddedNil {
				return checkNamed(opErr, []expect{{strings.Join(addr, "."), tailsFor(c.Meta, false)}})
			}
			return checkError(opErr, strings.Join(addr, "."), c.Meta)
		}
		r.ClassIf(paddedNil, "nil element of a list whose elements are (also) written by numeric segments or in two inputs: source optional")
		if e := check(); e != nil {
			// D58: when the resolution of a dynamic setting fails with an
			// error that is typed already, CountField handed it out as it was
			// ("cyclic reference detected for key: '<other member>'",
			// "required 'object', but found 'string' in field '<the primitive
			// passed through>'": another setting, no source) where the getters
			// wrap it. The class (count on an unresolvable expression) is
			// constructed away only while that finding is open.
			if dyn := c.VarExp && n.K == "str" && strings.Contains(n.S, "$"); dyn && op.Op == "count" && avoid("D58") {
				r.Excluded("D58")
				continue
			}
			return fmt.Errorf("%s: %v\n tree %s", what, e, show(c.Tree))
		}
		r.ClassIf(must, "must-fail read asserted")
		pct, quote, other := hostileClasses(addr)
		r.ClassIf(pct, "failing setting has % in its name")
		r.ClassIf(pct && c.Meta != "", "failing setting has % in its name, with metadata")
		r.ClassIf(quote || other, "failing setting has other special characters in its name")
		if shape != "" {
			r.Class("read of planted reference fault=" + shape)
			r.Class("read of planted reference fault through " + op.Op)
			deepErr = true
		} else if c.VarExp && n.K == "str" && strings.Contains(n.S, "$") {
			r.Class("getter on unresolvable reference")
			deepErr = true
		}
	}
	r.NonTrivialIf(errs > 0 && deepErr)
	r.ClassIf(asserted > 0, "path of the failing setting asserted")
	r.ClassIf(c.VarExp, "with VarExp")
	r.ClassIf(c.Resolver, "with resolver")
	r.ClassIf(c.Meta != "", "with metadata")
	r.ClassIf(strings.ContainsAny(c.Meta, "%'\"{}$"), "source name with special characters")
	r.ClassIf(len(c.Refs) > 0, "with planted reference faults")
	r.ClassIf(mutated, "config mutated by an op")
	r.ClassIf(lost, "config mutated in a way the model does not follow (no path asserted afterwards)")
	r.ClassIf(assertedLate > 0, "path of the failing setting asserted after an edit (Remove, Set*, SetChild)")
	r.ClassIf(assertedMoved > 0, "path of a failing setting asserted that lies in a list element moved down by a removal")
	for k := range movedKinds {
		r.Class("... the moved element is a(n) " + k)
	}
	r.ClassIf(layered, "layers: the data is loaded as two inputs one after the other")
	r.ClassIf(layered && asserted > 0, "layers: two inputs, path of a failing setting asserted")
	if len(c.Spell) > 0 {
		r.Class("spelling: data re-spelled")
		r.ClassIf(sp.dotted > 0, "spelling: dotted keys")
		r.ClassIf(sp.implied > 0, "spelling: objects/lists implied by dotted keys only")
		r.ClassIf(sp.listNodes > 0, "spelling: list elements written by numeric segments")
		r.ClassIf(sp.piecewise > 0, "spelling: a container defined piecewise (nested and dotted mixed)")
		r.ClassIf(sp.dotted > 0 && asserted > 0, "spelling: dotted keys, path of a failing setting asserted")
	}
	return nil
}

var subLow = runlog.Register(&runlog.Sub[LCase]{
	Name: "lowlevel",
	Rule: "random data tree (keys a-d, in 2/3 of the cases also names with %, %d, quotes, braces, blanks, non-ASCII; depth <= 3; strings incl. texts with % and ${...} references that resolve, do not resolve or are cyclic when VarExp is on) normalised with PathSep/MetaData (source names incl. %, quotes, braces)/VarExp; in 40% of the cases the data is re-spelled first (every object/list nested, with its children under dotted keys of the parent - list elements by numeric segments -, or piecewise; composed over all levels), in 20% it is loaded as two inputs one after the other (NewFrom + Merge; entries contributing to the same list stay together). With VarExp 0-3 unresolvable references of a known shape are planted in random objects, with auxiliary settings in other objects: missing variable or missing key below an existing object, index out of range of an existing list, self cycle, cycle of length 2 and 3, reference into a cycle, path through an existing primitive, chain ending in a missing variable, ${x:?message}; plain or inside a splice; a quarter of them under a name with % and a quote. Then 1-6 calls of Bool/Int/Uint/Float/String/Child/Has/Remove/CountField/Set*/SetChild/Unpack on real paths of the tree (planted references three times as often) and on paths extended through primitives, to missing keys and out-of-range indices, with and without idx, with and without a resolver that knows no variable; in a third of the cases edits come first (Remove/Set*/SetChild), mostly the removal of a list element that is not the last one followed by reads of the settings in and below the elements that moved down. Every non-nil error must be a ucfg.Error with Reason and Class. A getter addressing an existing setting it can not convert (container, wrong primitive kind, unparsable string, ${nope} with the resolver, a planted cycle / path through a primitive / error expansion with or without resolver, a planted missing variable with the resolver) must fail; EVERY error of a getter or of CountField that addresses an existing setting (strict walk of the tree: keys of objects, in-range indices of lists) must end in accessing|in field '<full path of the setting that was read>' (source:'<name>') - the source demanded whenever MetaData was given (optional for a nil element of a list when the data was re-spelled with list elements written by numeric segments or loaded as two inputs: after the index-wise merge of the entries the element may be the padding nil of another entry, which was implied, not loaded). The tree is a model that follows the edits: a successful Remove of a strictly addressed node deletes it (the following elements of a list move down, so the path demanded is their CURRENT position), a successful Set*/SetChild over a strictly addressed existing node replaces it (stored with the same MetaData); the first successful edit of another kind (creating, padding, through a primitive) ends the path assertions, and after any edit nothing is demanded to fail any more (planted references may mean something else). Non-trivial: at least one error on an address of >= 2 segments or on an unresolvable reference. Distinct: hash of the case.",
	Gen:  genLCase,
	Run:  runLCase,
})

func TestLowLevel(t *testing.T) { subLow.Check(t, 80000, 2000000) }
