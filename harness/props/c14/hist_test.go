package c14

// Two further dimensions of the quantifier:
//
// SPELLING. The same content can be written in many ways when a path
// separator is configured: nested objects and lists, fully dotted keys
// ("queue.workers.0": 1), partly dotted keys, both mixed in one input (an
// object defined piecewise by a nested object and by dotted keys, a list
// defined by a list literal and by numeric segments). Objects and lists that
// are implied by a dotted key come from the same input as everything else:
// whatever is reported for them (path and source) must not depend on the
// spelling. The re-spelling is applied to the generic data the configuration
// is normalised from; the expected path and source stay those computed from
// the type descriptor, and the naming of the fault is compared with what the
// nested spelling of the same case reports.
//
// HISTORY. Before the fault is read the configuration is edited in ways that
// move the faulted setting to another position of a list it lies in (or
// leave it where it is while its neighbours change): elements before/behind
// it are removed, elements are prepended or appended by a Merge with the
// corresponding policy, appended or padded by Set*/SetChild, replaced. The
// path named by the message is the CURRENT position of the setting; its
// source is still the one it was loaded from, whatever source the editing
// calls name.

import (
	"fmt"
	"sort"
	"strconv"
	"strings"

	ucfg "github.com/elastic/go-ucfg"
	"pgregory.net/rapid"

	"verif/harness/internal/uc"
)

// ---------------------------------------------------------------------------
// spelling

type speller struct {
	bits []int
	n    int
	// what the spelling consists of
	dotted    int // keys written with at least one separator
	implied   int // objects implied by dotted keys only
	listNodes int // list elements written by numeric segments
	piecewise int // containers defined by more than one key of the input
}

func (s *speller) next() int {
	if len(s.bits) == 0 {
		return 0
	}
	v := s.bits[s.n%len(s.bits)]
	s.n++
	if v < 0 {
		v = -v
	}
	return v
}

type kv struct {
	k string
	v interface{}
}

func sortedKeys(m map[string]interface{}) []string {
	keys := make([]string, 0, len(m))
	for k := range m {
		keys = append(keys, k)
	}
	sort.Strings(keys)
	return keys
}

// obj spells the children of an object.
func (s *speller) obj(m map[string]interface{}) map[string]interface{} {
	out := make(map[string]interface{}, len(m))
	for _, k := range sortedKeys(m) {
		for _, e := range s.entries(k, m[k]) {
			out[e.k] = e.v
		}
	}
	return out
}

func (s *speller) inPlace(v interface{}) interface{} {
	switch x := v.(type) {
	case map[string]interface{}:
		return s.obj(x)
	case []interface{}:
		out := make([]interface{}, len(x))
		for i, e := range x {
			out[i] = s.inPlace(e)
		}
		return out
	}
	return v
}

// entries returns the keys (relative to the object that holds k) under which
// the value v of k is written: {k: v} itself, or keys that lead into v.
func (s *speller) entries(k string, v interface{}) []kv {
	switch x := v.(type) {
	case map[string]interface{}:
		if len(x) == 0 {
			break
		}
		mode := s.next() % 4
		if mode == 0 {
			return []kv{{k, s.obj(x)}} // nested
		}
		// the entries of the children, relative to x; each of them is written below k with a dotted key
		// (modes 1, 3) or the entries are distributed between a nested object and dotted keys (mode 2)
		var out []kv
		rest := map[string]interface{}{}
		for _, k2 := range sortedKeys(x) {
			for _, e := range s.entries(k2, x[k2]) {
				if mode == 2 && s.next()%2 == 0 {
					rest[e.k] = e.v
					continue
				}
				out = append(out, kv{k + "." + e.k, e.v})
				s.dotted++
			}
		}
		switch {
		case len(rest) == 0:
			s.implied++
		case len(out) > 0:
			s.piecewise++
		}
		if len(rest) > 0 {
			out = append(out, kv{k, rest})
		}
		return out
	case []interface{}:
		if len(x) == 0 {
			break
		}
		mode := s.next() % 4
		if mode == 0 {
			return []kv{{k, s.inPlace(x)}}
		}
		// elements written by numeric segments; in mode 2 some elements stay in a list literal (the places of
		// the others are nil there, or missing at the end)
		var out []kv
		var lit []interface{}
		for i, e := range x {
			if mode == 2 && s.next()%2 == 0 {
				for len(lit) < i {
					lit = append(lit, nil)
				}
				lit = append(lit, s.inPlace(e))
				continue
			}
			for _, ee := range s.entries(strconv.Itoa(i), e) {
				out = append(out, kv{k + "." + ee.k, ee.v})
				s.dotted++
			}
			s.listNodes++
		}
		switch {
		case len(lit) == 0:
			s.implied++
		case len(out) > 0:
			s.piecewise++
		}
		if len(lit) > 0 {
			out = append(out, kv{k, lit})
		}
		return out
	}
	return []kv{{k, v}}
}

// respell writes the data with the spelling decisions bits. The result
// normalises (with PathSep(".")) into the same configuration.
func respell(data interface{}, bits []int) (interface{}, *speller) {
	s := &speller{bits: bits}
	root, ok := data.(map[string]interface{})
	if !ok || len(bits) == 0 {
		return data, s
	}
	return s.obj(root), s
}

func genSpell(t *rapid.T) []int {
	return rapid.SliceOfN(rapid.IntRange(0, 3), 1, 10).Draw(t, "spell")
}

// ---------------------------------------------------------------------------
// history

// Edit is one call that changes a list the faulted setting lies in.
type Edit struct {
	Op     string `json:"op"`               // remove | prepend | append (Merge with that policy) | setappend | pad | replace (Set*/SetChild) | mergeover (Merge, default policy, of a list that covers the elements before the fault)
	At     int    `json:"at"`               // which of the lists on the way to the fault, outermost first (modulo their number; fixed-size arrays do not count)
	J      int    `json:"j"`                // remove, replace: which of the other elements (modulo the candidates)
	Behind bool   `json:"behind,omitempty"` // remove, replace: prefer an element behind the one the fault is in (default: before it)
	Idx    bool   `json:"idx,omitempty"`    // the element is addressed as (name of the list, idx) instead of by a numeric last segment
	Handle bool   `json:"handle,omitempty"` // the call is made through the Child handle of the list ("" and idx; Merge of a list) instead of through the configuration that is read
	Src    int    `json:"src"`              // prepend..replace: which element of the valid list is copied (modulo its length)
	Meta   string `json:"meta,omitempty"`   // the source the call names: "" the one the configuration was loaded from | other | none
}

// Hist is what happens to the configuration before the fault is read.
type Hist struct {
	Edits []Edit `json:"edits,omitempty"`
	Outer bool   `json:"outer,omitempty"` // Move list/append/prepend: the element before the moved configuration is removed from the outer list after the handle of the moved configuration was obtained
}

const histSource = "edit's %d.yml"

var editOps = []string{"remove", "remove", "remove", "prepend", "prepend", "append", "setappend", "replace", "pad", "mergeover"}

func listMove(move string) bool { return move == "list" || move == "append" || move == "prepend" }

// addsCopies: the edit stores a copy of a valid element.
func addsCopies(op string) bool { return op != "remove" }

// copiesFail: the fault is a tag, which applies to every copy of the element as well.
func copiesFail(kind string, s *site) bool {
	return kind == kValidator || (kind == kRequired && s.absent)
}

func editableLists(s *site) []listPos {
	var out []listPos
	for _, lp := range s.ft.lists {
		if !lp.array {
			out = append(out, lp)
		}
	}
	return out
}

func genHist(t *rapid.T, c *Case, s *site) *Hist {
	h := &Hist{}
	if listMove(c.Move) {
		h.Outer = rapid.Bool().Draw(t, "histouter")
	}
	if lists := editableLists(s); len(lists) > 0 {
		n := rapid.IntRange(1, 3).Draw(t, "nedits")
		for i := 0; i < n; i++ {
			e := Edit{
				Op:     rapid.SampledFrom(editOps).Draw(t, "editop"),
				At:     rapid.IntRange(0, len(lists)-1).Draw(t, "editat"),
				J:      rapid.IntRange(0, 3).Draw(t, "editj"),
				Behind: rapid.IntRange(0, 3).Draw(t, "editbehind") == 0,
				Idx:    rapid.Bool().Draw(t, "editidx"),
				Handle: rapid.IntRange(0, 2).Draw(t, "edithandle") == 0,
				Src:    rapid.IntRange(0, 3).Draw(t, "editsrc"),
				Meta:   rapid.SampledFrom([]string{"", "", "other", "none"}).Draw(t, "editmeta"),
			}
			if addsCopies(e.Op) && copiesFail(c.Kind, s) {
				e.Op = "remove"
			}
			h.Edits = append(h.Edits, e)
		}
	}
	if !h.Outer && len(h.Edits) == 0 {
		return nil
	}
	return h
}

func mod(a, n int) int {
	if n <= 0 {
		return 0
	}
	a %= n
	if a < 0 {
		a += n
	}
	return a
}

// pickOther selects an element other than i of a list of n elements (-1: none).
func pickOther(e *Edit, i, n int) int {
	before, behind := i, n-1-i
	switch {
	case !e.Behind && before > 0, e.Behind && behind <= 0 && before > 0:
		return mod(e.J, before)
	case behind > 0:
		return i + 1 + mod(e.J, behind)
	}
	return -1
}

func dataKind(v interface{}) string {
	switch v.(type) {
	case map[string]interface{}:
		return "object"
	case []interface{}:
		return "list"
	case nil:
		return "nil"
	}
	return "primitive"
}

// setAny stores generic data at (name, idx).
func setAny(cfg *ucfg.Config, name string, idx int, v interface{}, opts []ucfg.Option) error {
	switch x := v.(type) {
	case bool:
		return cfg.SetBool(name, idx, x, opts...)
	case int:
		return cfg.SetInt(name, idx, int64(x), opts...)
	case int64:
		return cfg.SetInt(name, idx, x, opts...)
	case uint64:
		return cfg.SetUint(name, idx, x, opts...)
	case float64:
		return cfg.SetFloat(name, idx, x, opts...)
	case string:
		return cfg.SetString(name, idx, x, opts...)
	case map[string]interface{}, []interface{}:
		child, err := ucfg.NewFrom(x, opts...)
		if err != nil {
			return fmt.Errorf("NewFrom(copy): %v", err)
		}
		return cfg.SetChild(name, idx, child, opts...)
	}
	return fmt.Errorf("harness: can not store %T", v)
}

// applyHist edits cfg (the configuration the fault is read through) as
// c.Hist says and returns the path of the faulted setting, relative to cfg,
// after the edits. baseData is the generic view of the valid configuration
// (before any edit): the elements that are added are copies of its elements.
func applyHist(c *Case, s *site, cfg *ucfg.Config, baseData interface{}, classes map[string]bool) ([]string, error) {
	rel := relPath(c)
	cur := append([]string{}, rel...)
	if c.Hist == nil || len(c.Hist.Edits) == 0 {
		return cur, nil
	}
	off := len(rel) - len(c.Path)
	lists := editableLists(s)
	if len(lists) == 0 {
		classes["history: no list on the way to the fault"] = true
		return cur, nil
	}
	lens := map[int]int{}
	baseLists := map[int][]interface{}{}
	for _, lp := range lists {
		k := lp.k + off
		v, _ := getData(baseData, rel[:k])
		l, ok := v.([]interface{})
		i, err := strconv.Atoi(rel[k])
		if !ok || err != nil || i < 0 || i >= len(l) {
			return nil, errDiscard{"history: list not found in the valid configuration"}
		}
		lens[k], baseLists[k] = len(l), l
	}
	sep := ucfg.PathSep(".")
	shifted := false
	for n, e := range c.Hist.Edits {
		e := e
		k := lists[mod(e.At, len(lists))].k + off
		i, _ := strconv.Atoi(cur[k])
		ln := lens[k]
		listSegs := cur[:k]
		name := strings.Join(listSegs, ".")
		base := baseLists[k]
		orig, _ := strconv.Atoi(rel[k])
		elemKind := dataKind(base[orig])
		what := fmt.Sprintf("history: edit %d (%s) of list '%s' (%d elements, the fault in element %d)", n, e.Op, name, ln, i)

		opts := []ucfg.Option{sep}
		switch e.Meta {
		case "":
			if c.Meta != "" {
				opts = append(opts, c.metaOpts(c.Meta)...)
			}
		case "other":
			opts = append(opts, c.metaOpts(histSource)...)
			classes["history: an editing call names another source"] = true
		}
		handle := func() (*ucfg.Config, error) {
			h, err := cfg.Child(name, -1, sep)
			if err != nil {
				return nil, fmt.Errorf("%s: Child(%q): %v", what, name, err)
			}
			classes["history: edit through the Child handle of the list"] = true
			return h, nil
		}
		// (configuration, name, idx) addressing element j of the list
		address := func(j int) (*ucfg.Config, string, int, error) {
			if e.Handle {
				h, err := handle()
				return h, "", j, err
			}
			if e.Idx {
				return cfg, name, j, nil
			}
			return cfg, name + "." + strconv.Itoa(j), -1, nil
		}
		var copyOf interface{}
		if addsCopies(e.Op) {
			if copiesFail(c.Kind, s) {
				classes["history: edit skipped (the fault is a tag that copies of the element fail as well)"] = true
				continue
			}
			copyOf = copyData(base[mod(e.Src, len(base))])
			if copyOf == nil {
				classes["history: edit skipped (nil element to copy)"] = true
				continue
			}
		}

		switch e.Op {
		case "remove":
			j := pickOther(&e, i, ln)
			if j < 0 {
				classes["history: edit skipped (no other element)"] = true
				continue
			}
			on, nm, idx, err := address(j)
			if err != nil {
				return nil, err
			}
			ok, err := on.Remove(nm, idx, opts...)
			if err != nil || !ok {
				return nil, fmt.Errorf("%s: Remove(%q, %d) = %v, %v", what, nm, idx, ok, err)
			}
			lens[k] = ln - 1
			if j < i {
				cur[k] = strconv.Itoa(i - 1)
				shifted = true
				classes["history: an element before the fault is removed (the fault moves down)"] = true
				classes["history: ... the element that moves down is a(n) "+elemKind] = true
			} else {
				classes["history: an element behind the fault is removed"] = true
			}
		case "prepend", "append", "mergeover":
			var policy ucfg.Option = ucfg.PrependValues
			list := []interface{}{copyOf}
			switch e.Op {
			case "append":
				policy = ucfg.AppendValues
			case "mergeover":
				// elements 0..m (m before the fault) are merged, index by index, with copies of valid elements
				if i == 0 {
					classes["history: edit skipped (no other element)"] = true
					continue
				}
				policy = ucfg.PathSep(".") // the default policy
				for m := mod(e.J, i); m > 0; m-- {
					list = append(list, copyData(base[mod(e.Src+m, len(base))]))
				}
			}
			above := false
			for _, seg := range listSegs {
				above = above || isIndexSeg(seg)
			}
			if e.Handle || above {
				// a nested map merged at the root would prepend to the lists above as well
				h, err := handle()
				if err != nil {
					return nil, err
				}
				if err := h.Merge(list, append(opts, policy)...); err != nil {
					return nil, fmt.Errorf("%s: Merge of a list into the handle: %v", what, err)
				}
			} else {
				var data interface{} = list
				for x := len(listSegs) - 1; x >= 0; x-- {
					data = map[string]interface{}{listSegs[x]: data}
				}
				// no PathSep: every segment is one key
				mopts := opts[1:len(opts):len(opts)]
				if e.Op != "mergeover" {
					mopts = append(mopts, policy)
				}
				if err := cfg.Merge(data, mopts...); err != nil {
					return nil, fmt.Errorf("%s: Merge below '%s': %v", what, name, err)
				}
				classes["history: edit by a Merge at the root of the configuration that is read"] = true
			}
			switch e.Op {
			case "prepend":
				lens[k] = ln + 1
				cur[k] = strconv.Itoa(i + 1)
				shifted = true
				classes["history: an element is prepended by a Merge (the fault moves up)"] = true
				classes["history: ... the element that moves up is a(n) "+elemKind] = true
			case "append":
				lens[k] = ln + 1
				classes["history: an element is appended by a Merge"] = true
			default:
				classes["history: the elements before the fault are merged over (index by index) by a Merge"] = true
			}
		case "setappend", "pad":
			at := ln
			if e.Op == "pad" {
				at = ln + 1
			}
			on, nm, idx, err := address(at)
			if err != nil {
				return nil, err
			}
			if err := setAny(on, nm, idx, copyOf, opts); err != nil {
				return nil, fmt.Errorf("%s: Set(%q, %d): %v", what, nm, idx, err)
			}
			lens[k] = at + 1
			classes["history: an element is stored behind the end of the list by Set*/SetChild"+map[bool]string{true: " (padding the list)", false: ""}[e.Op == "pad"]] = true
		case "replace":
			j := pickOther(&e, i, ln)
			if j < 0 {
				classes["history: edit skipped (no other element)"] = true
				continue
			}
			on, nm, idx, err := address(j)
			if err != nil {
				return nil, err
			}
			if err := setAny(on, nm, idx, copyOf, opts); err != nil {
				return nil, fmt.Errorf("%s: Set(%q, %d): %v", what, nm, idx, err)
			}
			classes["history: another element of the list is replaced by Set*/SetChild"] = true
		default:
			return nil, fmt.Errorf("harness: unknown edit %q", e.Op)
		}
		if k < len(cur)-1 {
			classes["history: the edited list lies above the faulted setting"] = true
		} else {
			classes["history: the faulted setting is itself an element of the edited list"] = true
		}
		if lists[mod(e.At, len(lists))].k != lists[len(lists)-1].k {
			classes["history: the edited list contains further lists on the way to the fault"] = true
		}
	}
	if shifted && !samePath(cur, rel) {
		classes["history: the fault is read at another position than it was loaded at"] = true
	}
	if shifted && samePath(cur, rel) {
		classes["history: the fault moved and came back to the position it was loaded at"] = true
	}
	return cur, nil
}

// dumpValid is the generic view of the valid configuration.
func dumpValid(cfg *ucfg.Config) (interface{}, error) {
	data, err := uc.Dump(cfg, ucfg.PathSep("."))
	if err != nil {
		return nil, errDiscard{"history: the valid configuration can not be dumped"}
	}
	return data, nil
}

// ---------------------------------------------------------------------------
// layers

// listPathsOf returns the paths of the lists an entry (key: value) of the
// top-level input defines or contributes to.
func listPathsOf(key string, v interface{}) []string {
	var out []string
	under := func(p string, k string) {
		segs := strings.Split(k, ".")
		for i, sg := range segs {
			if isIndexSeg(sg) {
				out = append(out, strings.Join(append(append([]string{}, p), segs[:i]...), "."))
			}
		}
	}
	under("", key)
	var walk func(p string, v interface{})
	walk = func(p string, v interface{}) {
		switch x := v.(type) {
		case map[string]interface{}:
			for k, e := range x {
				under(p, k)
				walk(p+"."+k, e)
			}
		case []interface{}:
			out = append(out, "."+strings.TrimPrefix(p, "."))
			for i, e := range x {
				walk(p+"."+strconv.Itoa(i), e)
			}
		}
	}
	walk("."+key, v)
	for i := range out {
		out[i] = "." + strings.TrimPrefix(out[i], ".")
	}
	return out
}

// splitLayers distributes the entries of the input between two inputs that
// are loaded one after the other (NewFrom, then Merge with the same
// options). Entries that contribute to the same list stay together (a list
// merged index by index with a list that leaves a position open would lose
// the primitive at that position); objects may be defined by both layers.
func splitLayers(m map[string]interface{}, seed int) (first, second map[string]interface{}) {
	keys := sortedKeys(m)
	group := make([]int, len(keys))
	for i := range group {
		group[i] = i
	}
	var find func(i int) int
	find = func(i int) int {
		if group[i] != i {
			group[i] = find(group[i])
		}
		return group[i]
	}
	owner := map[string]int{}
	for i, k := range keys {
		for _, lp := range listPathsOf(k, m[k]) {
			if o, ok := owner[lp]; ok {
				group[find(i)] = find(o)
			} else {
				owner[lp] = i
			}
		}
	}
	first, second = map[string]interface{}{}, map[string]interface{}{}
	number := map[int]int{}
	for i, k := range keys {
		g := find(i)
		if _, ok := number[g]; !ok {
			number[g] = len(number)
		}
		if seed>>(uint(number[g])%16)&1 == 0 {
			first[k] = m[k]
		} else {
			second[k] = m[k]
		}
	}
	return first, second
}

// loadLayered normalises data: at once, or (layers != 0, both parts not
// empty) as two inputs loaded one after the other.
func loadLayered(data interface{}, layers int, opts []ucfg.Option) (*ucfg.Config, bool, error) {
	m, ok := data.(map[string]interface{})
	if layers == 0 || !ok {
		cfg, err := ucfg.NewFrom(data, opts...)
		return cfg, false, err
	}
	first, second := splitLayers(m, layers)
	if len(first) == 0 || len(second) == 0 {
		cfg, err := ucfg.NewFrom(data, opts...)
		return cfg, false, err
	}
	cfg, err := ucfg.NewFrom(first, opts...)
	if err != nil {
		return nil, true, err
	}
	if err := cfg.Merge(second, opts...); err != nil {
		return nil, true, err // as returned by the API: callers check its type
	}
	return cfg, true, nil
}
