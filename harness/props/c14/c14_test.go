// Package c14 decides property C14: every failure is a typed error that names
// the offending setting.
//
// Sub-check "unpack-fault": a valid (configuration, type) pair with exactly one
// fault injected at a known path; Unpack (and the typed getter of the
// setting's kind) must fail with a ucfg.Error whose message ends in exactly
// that path (and the source, if the value was loaded with metadata). The
// faulted value is a literal or is delivered through variable expansion
// (deliver_test.go), names and sources use hostile characters; the loaded
// section around a literal fault may be moved (Child / captured *Config +
// SetChild with and without MetaData / Merge) before the fault is read
// (reloc_test.go), or the lists the faulted setting lies in are edited (Remove,
// prepending/appending Merge, Set*/SetChild) so that the setting is read at
// another position than it was loaded at; the data the configuration is
// normalised from is spelled nested, with dotted keys or mixed, at once or in
// two layers (hist_test.go).
// Target types include self-unpacking types (the Unpacker interfaces,
// unpackers_test.go); references to literals may be chains of references
// through the configuration and its Env configuration (deliver_test.go).
// Sub-check "lowlevel" (lowlevel_test.go): faults hit through the getters,
// Has, Remove, CountField, Set*, Child, incl. planted reference faults of
// every shape.
package c14

import (
	"errors"
	"fmt"
	"math"
	"os"
	"reflect"
	"regexp"
	"strconv"
	"strings"
	"testing"
	"time"

	ucfg "github.com/elastic/go-ucfg"
	"github.com/elastic/go-ucfg/parse"
	"pgregory.net/rapid"

	"verif/harness/internal/gen"
	"verif/harness/internal/runlog"
	"verif/harness/internal/uc"
)

// ---------------------------------------------------------------------------
// catalogue types: structs whose zero value does not validate (finding D44)

// VStruct validates through a value receiver.
type VStruct struct {
	N int `config:"n"`
}

// Validate rejects the zero value.
func (v VStruct) Validate() error {
	if v.N == 0 {
		return errors.New("c14: n must not be zero (0%, 'n')")
	}
	return nil
}

// VPtr validates through a pointer receiver.
type VPtr struct {
	N int `config:"n"`
}

// Validate rejects the zero value.
func (v *VPtr) Validate() error {
	if v.N == 0 {
		return errors.New("c14: n must not be zero (ptr, 0%d)")
	}
	return nil
}

var catKinds = []string{"cat:c14_v", "cat:c14_vp"}

func init() {
	shape := func() *gen.TD {
		return &gen.TD{Kind: "struct", Fields: []gen.FD{{Name: "N", Tag: "n", T: &gen.TD{Kind: "int"}}}}
	}
	gen.RegisterCat("c14_v", reflect.TypeOf(VStruct{}), shape())
	gen.RegisterCat("c14_vp", reflect.TypeOf(VPtr{}), shape())
}

func isCat(td *gen.TD) bool { return strings.HasPrefix(td.Kind, "cat:") }

// avoid reports whether the class of a finding has to be constructed away:
// it is open in known_findings.json, or named in VERIF_AVOID (comma separated;
// used for runs against trees that still have a defect whose finding is
// recorded as fixed, e.g. VERIF_AVOID=D45 on the pinned tree, where a named
// string field makes Unpack hang).
func avoid(id string) bool {
	if runlog.IsOpen(id) {
		return true
	}
	if id == "D45" && strings.HasSuffix(strings.TrimRight(os.Getenv("VERIF_REPO"), "/"), "ucfg-pinned") {
		return true // the unrepaired reference tree: Unpack into a named string type never returns
	}
	for _, f := range strings.Split(os.Getenv("VERIF_AVOID"), ",") {
		if strings.TrimSpace(f) == id {
			return true
		}
	}
	return false
}

// ---------------------------------------------------------------------------
// the case

// Fault kinds.
const (
	kUnparsable = "unparsable"      // string that does not parse into the number/bool/duration/regexp expected
	kRange      = "range"           // number outside the range of the target
	kWrongCont  = "wrong-type"      // object or list where a primitive is expected
	kWrongPrim  = "wrong-type-obj"  // primitive where an object (struct, map, list of objects) is expected
	kRef        = "reference"       // ${name} that does not resolve (VarExp)
	kValidator  = "validator"       // a validate tag the (unchanged) setting fails
	kRequired   = "required"        // a `required` tag on a setting that is removed (or nil)
	kArrayLen   = "array-length"    // list whose length differs from the fixed array length
	kDefault    = "default"         // setting removed whose struct default fails Validate()
	kEmptyList  = "empty-list"      // a nonzero/required tag on a list of objects that loses all its elements (the list is still there)
	kStructVal  = "validate-struct" // a present struct section one setting of which makes its Validate() fail
	kReject     = "unpack-rejects"  // a value the Unpack method of a self-unpacking leaf type rejects (unpackers_test.go)
	kNone       = "none"            // the type offers no place for a fault (discarded)
)

var allKinds = []string{kUnparsable, kRange, kWrongCont, kWrongPrim, kRef, kValidator, kRequired, kArrayLen, kDefault, kEmptyList, kStructVal, kReject}

// Case is a valid (type, value) pair plus one fault.
type Case struct {
	T       *gen.TD   `json:"t"`
	V       *gen.TV   `json:"v"`
	Kind    string    `json:"kind"`
	Path    []string  `json:"path"`              // config path of the faulted setting, relative to the struct; computed from the type descriptor
	Payload *gen.Tree `json:"payload,omitempty"` // the data put at Path
	Tag     string    `json:"tag,omitempty"`     // validate tag put on the field
	Shrink  bool      `json:"shrink,omitempty"`  // array-length: drop the last element instead of adding one
	Inject  string    `json:"inject"`            // set: through Set*/SetChild/Remove; data: generic dump of the config edited and normalised again
	Move    string    `json:"move,omitempty"`    // "" | key | list | append | prepend: how the config is merged into another one first
	Wrap    bool      `json:"wrap,omitempty"`    // Move=key: unpack the outer config into struct{Pre T} instead of the child into T
	After   bool      `json:"after,omitempty"`   // Inject=set and Move!="": inject into the moved child (else the fault is injected first and moved by the merge)
	Meta    string    `json:"meta,omitempty"`    // MetaData source name ("" = none)
	Deliver *Delivery `json:"deliver,omitempty"` // how the faulted value reaches its place (nil: it is a literal of the configuration)
	Ref     *RefFault `json:"ref,omitempty"`     // kind reference: the shape of the unresolvable reference
	Getter  bool      `json:"getter,omitempty"`  // also read the faulted setting through the typed getter of its kind (Child for objects)
	NoRes   bool      `json:"nores,omitempty"`   // read without a resolver (unless the delivery needs one)
	GIdx    bool      `json:"gidx,omitempty"`    // getter: address a list element as (name of the list, idx) instead of by a numeric last segment
	SetMeta string    `json:"setmeta,omitempty"` // Inject=set, fault kinds that store a value: "" the Set* call names the same source as the configuration | other: another source | none: no MetaData
	Outer   bool      `json:"outer,omitempty"`   // Move != "": the configuration merged into was loaded from another source
	Reloc   *Reloc    `json:"reloc,omitempty"`   // the loaded section around the fault is moved (Child/captured + SetChild/Merge) before the fault is read (reloc_test.go)
	Spell   []int     `json:"spell,omitempty"`   // how the generic data the configuration is normalised from is spelled: decisions nested / dotted keys / mixed, consumed in a fixed traversal order (empty: nested; hist_test.go)
	Layers  int       `json:"layers,omitempty"`  // != 0: the (spelled) data is split into two inputs that are loaded one after the other (NewFrom, then Merge with the same options); bit n decides where the n-th group of entries goes (entries that contribute to the same list stay together)
	Hist    *Hist     `json:"hist,omitempty"`    // edits of the lists the faulted setting lies in, made before the fault is read (hist_test.go)
	Opts    *OptUse   `json:"opts,omitempty"`    // how the calls come by their MetaData options: values reused across calls, two per call, unrelated loads with the same values (optuse_test.go)

	pool map[string]ucfg.Option // the reused MetaData Option values of this run of the case, by source
}

const (
	setSource   = "set's 100%.yml"
	outerSource = "outer%v.yml"
)

// storesValue: the fault is a value put at the fault path (its source is
// that of the call that stored it).
func storesValue(kind string) bool {
	return kind == kUnparsable || kind == kRange || kind == kWrongPrim || kind == kWrongCont || kind == kReject
}

// setsValue: injecting the fault through Set* stores a value (at the fault
// path, or below it for a struct whose Validate() is made to fail).
func setsValue(kind string) bool { return storesValue(kind) || kind == kStructVal }

// ---------------------------------------------------------------------------
// fault sites, computed from the type descriptor and the value

type feat struct {
	list, mapk, ptr, inline, dotted, emptyTag, cat bool
	unp                                            string    // the place is (or lies inside) a value of this self-unpacking catalogue kind
	unpLen                                         int       // length of the path of the enclosing self-unpacking struct section (0: none)
	lists                                          []listPos // the lists the place is an element of (or lies below), outermost first
}

// listPos is one list on the way to a fault site: path[k] is the index of the
// element the site is (or lies in).
type listPos struct {
	k     int  // position of the index segment in the site's path
	n     int  // number of elements the list has in the value
	array bool // fixed-size array (its length must not change)
}

type site struct {
	path   []string
	node   string  // leaf struct map slice array cat
	td     *gen.TD // type of the node (pointers followed)
	tv     *gen.TV // its value; nil if absent
	absent bool    // reached through a nil pointer (or nil regexp): the config holds nil at path
	fd     *gen.FD // the struct field whose value the node is (through pointers); nil for elements of lists and maps
	direct bool    // fd != nil and no pointer in between
	tagOK  bool    // fd is a field of a generated struct type: its tag can be edited
	single bool    // fd has no other instance in the value (the struct is not replicated by a list or map)
	ft     feat
}

func nodeOf(td *gen.TD) string {
	switch {
	case isCat(td):
		return "cat"
	case td.IsLeaf():
		return "leaf"
	}
	return td.Kind
}

func appendPath(path []string, segs ...string) []string {
	return append(append([]string{}, path...), segs...)
}

func collect(td *gen.TD, tv *gen.TV, path []string, fd *gen.FD, direct, tagOK bool, ft feat, out *[]site) {
	switch {
	case td.Kind == "ptr":
		ft.ptr = true
		if tv == nil || tv.Nil {
			e := td
			for e.Kind == "ptr" {
				e = e.Elem
			}
			if isCat(e) && e.Shape().IsLeaf() {
				sh := *e.Shape()
				ft.unp = e.Kind
				e = &sh
			} else if isUnpacker(e) {
				ft.unp = e.Kind
			}
			*out = append(*out, site{path: path, node: nodeOf(e), td: e, absent: true, fd: fd, tagOK: tagOK, ft: ft})
			return
		}
		collect(td.Elem, tv.Elems[0], path, fd, false, tagOK, ft, out)
	case td.IsLeaf():
		*out = append(*out, site{path: path, node: "leaf", td: td, tv: tv, absent: td.Kind == "regexp" && tv.Nil, fd: fd, direct: direct, tagOK: tagOK, ft: ft})
	case isCat(td) && td.Shape().IsLeaf():
		// a self-unpacking type of primitive kind: a leaf described by its shape
		sh := *td.Shape()
		ft.unp = td.Kind
		*out = append(*out, site{path: path, node: "leaf", td: &sh, tv: tv, fd: fd, direct: direct, tagOK: tagOK, ft: ft})
	case isCat(td):
		if isUnpacker(td) {
			ft.unp = td.Kind
		}
		*out = append(*out, site{path: path, node: "cat", td: td, tv: tv, fd: fd, direct: direct, tagOK: tagOK, ft: ft})
		ft.cat = true
		if isUnpacker(td) {
			ft.unpLen = len(path)
		}
		collectFields(td.Shape(), tv, path, false, ft, out)
	case td.Kind == "struct":
		if len(path) > 0 {
			*out = append(*out, site{path: path, node: "struct", td: td, tv: tv, fd: fd, direct: direct, tagOK: tagOK, ft: ft})
		}
		collectFields(td, tv, path, true, ft, out)
	case td.Kind == "slice", td.Kind == "array":
		*out = append(*out, site{path: path, node: td.Kind, td: td, tv: tv, fd: fd, direct: direct, tagOK: tagOK, ft: ft})
		ft.list = true
		ft.lists = append(append([]listPos{}, ft.lists...), listPos{k: len(path), n: len(tv.Elems), array: td.Kind == "array"})
		for i, e := range tv.Elems {
			collect(td.Elem, e, appendPath(path, strconv.Itoa(i)), nil, false, false, ft, out)
		}
	case td.Kind == "map":
		*out = append(*out, site{path: path, node: "map", td: td, tv: tv, fd: fd, direct: direct, tagOK: tagOK, ft: ft})
		ft.mapk = true
		for i, e := range tv.Elems {
			collect(td.Elem, e, appendPath(path, tv.Keys[i]), nil, false, false, ft, out)
		}
	}
}

func collectFields(st *gen.TD, tv *gen.TV, path []string, tagOK bool, ft feat, out *[]site) {
	for i := range st.Fields {
		f := &st.Fields[i]
		if f.Ignore || f.Unexp {
			continue
		}
		var fv *gen.TV
		if tv != nil && i < len(tv.Elems) {
			fv = tv.Elems[i]
		}
		if f.Inline {
			ift := ft
			ift.inline = true
			collectFields(f.T, fv, path, tagOK, ift, out)
			continue
		}
		fft := ft
		segs := strings.Split(cfgName(f), ".")
		if len(segs) > 1 {
			fft.dotted = true
		}
		if f.Tag == "" {
			fft.emptyTag = true
		}
		collect(f.T, fv, appendPath(path, segs...), f, true, tagOK, fft, out)
	}
}

func sitesOf(td *gen.TD, tv *gen.TV) []site {
	var out []site
	collect(td, tv, nil, nil, false, false, feat{}, &out)
	// a struct type below a list or map has one instance of each field per
	// element: a tag put on the field applies to all of them
	inst := map[*gen.FD]int{}
	for i := range out {
		if out[i].fd != nil {
			inst[out[i].fd]++
		}
	}
	for i := range out {
		out[i].single = out[i].fd != nil && inst[out[i].fd] == 1
	}
	return out
}

// passesRequired: the documented meaning of `required` for a present leaf.
func passesRequired(td *gen.TD, tv *gen.TV) bool {
	switch b := td.Base(); {
	case isIntBase(b), b == "dur":
		return tv.I != 0
	case isUintBase(b):
		return tv.U != 0
	case isFloatBase(b):
		return floatOf(tv.F) != 0
	case b == "string", b == "regexp":
		return tv.S != ""
	}
	return true
}

func throughPtr(td *gen.TD) *gen.TD {
	for td.Kind == "ptr" {
		td = td.Elem
	}
	return td
}

func floatOf(s string) float64 {
	if s == "" {
		return 0
	}
	f, err := strconv.ParseFloat(s, 64)
	if err != nil {
		panic("c14: bad float in case: " + s)
	}
	return f
}

func intBits(base string) int {
	switch base {
	case "int8", "uint8":
		return 8
	case "int16", "uint16":
		return 16
	case "int32", "uint32":
		return 32
	}
	return 64
}

func isIntBase(b string) bool {
	return b == "int" || b == "int8" || b == "int16" || b == "int32" || b == "int64"
}
func isUintBase(b string) bool {
	return b == "uint" || b == "uint8" || b == "uint16" || b == "uint32" || b == "uint64"
}
func isFloatBase(b string) bool { return b == "float32" || b == "float64" }

// tagsFor lists validate tags the present value of a leaf fails, following the
// documented meaning of the tags only (nonzero: numbers, durations, strings;
// positive: signed numbers and durations; min/max: numbers and durations;
// required: numbers, strings, regular expressions).
func tagsFor(td *gen.TD, tv *gen.TV) []string {
	var tags []string
	switch b := td.Base(); {
	case isIntBase(b):
		v := tv.I
		if v < math.MaxInt64 {
			tags = append(tags, fmt.Sprintf("min=%d", v+1))
		}
		if v > math.MinInt64 {
			tags = append(tags, fmt.Sprintf("max=%d", v-1))
		}
		if v < 0 {
			tags = append(tags, "positive")
		}
		if v == 0 {
			tags = append(tags, "nonzero", "required")
		}
	case isUintBase(b):
		v := tv.U
		if v < math.MaxUint64 {
			tags = append(tags, fmt.Sprintf("min=%d", v+1))
		}
		if v > 0 {
			tags = append(tags, fmt.Sprintf("max=%d", v-1))
		}
		if v == 0 {
			tags = append(tags, "nonzero", "required")
		}
	case isFloatBase(b):
		f := floatOf(tv.F)
		if math.IsNaN(f) {
			return nil // every comparison with NaN is false; the documentation does not say what that means
		}
		if f < 1e300 {
			tags = append(tags, "min=1e301")
		}
		if f > -1e300 {
			tags = append(tags, "max=-1e301")
		}
		if f < 0 {
			tags = append(tags, "positive")
		}
		if f == 0 {
			tags = append(tags, "nonzero", "required")
		}
	case b == "dur":
		d := tv.I
		if d < math.MaxInt64 {
			tags = append(tags, "min="+time.Duration(d+1).String())
		}
		if d > math.MinInt64 {
			tags = append(tags, "max="+time.Duration(d-1).String())
		}
		if d < 0 {
			tags = append(tags, "positive")
		}
		if d == 0 {
			tags = append(tags, "nonzero")
		}
	case td.Kind == "string":
		if tv.S == "" {
			tags = append(tags, "nonzero", "required")
		}
	case b == "regexp":
		if tv.S == "" && !tv.Nil {
			tags = append(tags, "nonzero", "required")
		}
	}
	return tags
}

// kindsFor lists the fault kinds applicable at a site.
func kindsFor(s *site) []string {
	var ks []string
	switch s.node {
	case "leaf":
		b := s.td.Base()
		if b != "string" {
			ks = append(ks, kUnparsable)
		}
		if len(rangePayloads(b)) > 0 {
			ks = append(ks, kRange)
		}
		if b != "regexp" {
			// an object is unpacked into the (field-less) struct regexp.Regexp
			// without complaint; the documentation asks for a string but this is
			// not about the typing of errors
			ks = append(ks, kWrongCont)
		}
		ks = append(ks, kRef)
		if len(rejectPayloads(s.ft.unp)) > 0 && s.ft.unpLen == 0 {
			ks = append(ks, kReject)
		}
		if s.fd != nil && s.tagOK {
			// the tag is the fault: no other instance of the field may exist
			if s.single && !s.absent && len(tagsFor(s.td, s.tv)) > 0 {
				ks = append(ks, kValidator)
			}
			if b != "bool" && s.td.Kind != "named:string" {
				switch {
				case s.absent && s.single:
					ks = append(ks, kRequired) // nil pointer: the tag is the fault
				case !s.absent && passesRequired(s.td, s.tv):
					ks = append(ks, kRequired) // the removal is the fault; run checks that the tag alone is harmless
				}
			}
		}
	case "struct", "map", "cat":
		ks = append(ks, kWrongPrim)
		if s.node == "cat" && s.direct && !isUnpacker(s.td) {
			ks = append(ks, kDefault)
		}
		if s.node == "cat" && !s.absent && s.tv != nil {
			ks = append(ks, kStructVal)
		}
	case "slice":
		switch e := throughPtr(s.td.Elem); {
		case e.Kind == "struct", e.Kind == "map", isCat(e) && !e.Shape().IsLeaf():
			ks = append(ks, kWrongPrim)
			// nonzero/required are documented for slices ("not empty"); the code applies a field's tags to the
			// elements read from the configuration as well (reading decision 18), so only lists of objects
			if s.fd != nil && s.tagOK && s.direct && s.single && !s.absent && s.tv != nil && !s.tv.Nil && len(s.tv.Elems) > 0 {
				ks = append(ks, kEmptyList)
			}
		}
	case "array":
		if !s.absent {
			ks = append(ks, kArrayLen)
		}
	}
	return ks
}

func rangePayloads(base string) []*gen.Tree {
	bits := intBits(base)
	switch {
	case isIntBase(base):
		if bits < 64 {
			max := int64(1)<<(bits-1) - 1
			return []*gen.Tree{gen.Uint(uint64(max) + 1), gen.Int(-max - 2), gen.Float(1e30), gen.Str(strconv.FormatInt(max+1, 10))}
		}
		return []*gen.Tree{gen.Uint(1 << 63), gen.Float(1e30), gen.Float(-1e30), gen.Str("9223372036854775808")}
	case isUintBase(base):
		if bits < 64 {
			max := uint64(1)<<bits - 1
			return []*gen.Tree{gen.Uint(max + 1), gen.Int(-1), gen.Float(-2.5), gen.Str(strconv.FormatUint(max+1, 10))}
		}
		return []*gen.Tree{gen.Int(-1), gen.Float(1e30), gen.Float(-2.5), gen.Str("18446744073709551616")}
	case base == "float32":
		return []*gen.Tree{gen.Float(1e300), gen.Float(-1e300), gen.Str("1e300")}
	case base == "dur":
		// a number is a number of seconds: more than a time.Duration holds (9223372036 s)
		return []*gen.Tree{gen.Uint(1 << 62), gen.Int(-(1 << 62)), gen.Uint(9223372037), gen.Int(-9223372037), gen.Float(1e30), gen.Float(-1e30)}
	}
	return nil
}

func unparsablePayloads(base string) []string {
	switch {
	case isIntBase(base), isUintBase(base):
		return []string{"zz!", "1.5", "", "12a", "90%", "%d"}
	case isFloatBase(base):
		return []string{"zz!", "", "1.5.2", "99.9%", "%!f(x)"}
	case base == "bool":
		return []string{"zz!", "", "2", "%t", "it's"}
	case base == "dur":
		return []string{"1 parsec", "", "abc", "5", "90%", "5%s", "1 'h'", "90 seconds", "9223372037s"}
	case base == "regexp":
		return []string{"(", "[a", "(%", "[%d", "%v)"}
	}
	return nil
}

var (
	contPayloads = []*gen.Tree{
		gen.Obj().Put("x", gen.Uint(1)),
		gen.Obj().Put("a", gen.Obj().Put("b", gen.Str("s"))),
		gen.List(gen.Uint(1), gen.Uint(2)),
		gen.List(gen.Str("a"), gen.Str("b")),
		gen.List(gen.Obj().Put("x", gen.Uint(1)), gen.Uint(2)),
	}
	primPayloads = []*gen.Tree{gen.Uint(7), gen.Str("str"), gen.Bool(true), gen.Float(1.5), gen.Int(-3)}
	refPayloads  = []string{"${nope}", "${zz.yy}", "${nope.0}", "a${nope}b"}
)

// ---------------------------------------------------------------------------
// generator

func replaceKind(td *gen.TD, from, to string) {
	if td == nil {
		return
	}
	if td.Kind == from {
		td.Kind = to
	}
	replaceKind(td.Elem, from, to)
	for i := range td.Fields {
		replaceKind(td.Fields[i].T, from, to)
	}
}

// fixValues makes the drawn value valid for the catalogue types (their zero
// value does not validate) and, if noDollar is set, removes '$' from all
// strings (the configuration is then built with VarExp).
func fixValues(td *gen.TD, tv *gen.TV, noDollar bool) {
	if tv == nil {
		return
	}
	if noDollar {
		tv.S = strings.ReplaceAll(tv.S, "$", "S")
	}
	sh := td.Shape()
	if isCat(td) && len(tv.Elems) > 0 && tv.Elems[0].I == 0 {
		tv.Elems[0].I = 3
	}
	switch sh.Kind {
	case "ptr":
		if !tv.Nil && len(tv.Elems) > 0 {
			fixValues(sh.Elem, tv.Elems[0], noDollar)
		}
	case "slice", "array", "map":
		for _, e := range tv.Elems {
			fixValues(sh.Elem, e, noDollar)
		}
	case "struct":
		for i := range sh.Fields {
			if i < len(tv.Elems) {
				fixValues(sh.Fields[i].T, tv.Elems[i], noDollar)
			}
		}
	}
}

func genCase(t *rapid.T) Case {
	cfg := &gen.TDCfg{
		MaxFields: runlog.Pick(4, 5), Named: true, Inline: true, Ignore: true, EmptyTag: true, Dotted: true,
		PtrToArray: !avoid("D26"), Cats: catKinds,
	}
	c := Case{}
	c.T = gen.GenStructTD(t, cfg, runlog.Pick(3, 4))
	hasSite := false
	for i := range c.T.Fields {
		hasSite = hasSite || !(c.T.Fields[i].Ignore || c.T.Fields[i].Unexp)
	}
	if !hasSite {
		// every field is ignored or unexported: the configuration would be empty
		c.T.Fields = append(c.T.Fields, gen.FD{Name: "Fx", Tag: "fx", T: &gen.TD{Kind: gen.GenLeafKind(t, cfg)}})
	}
	if avoid("D45") {
		replaceKind(c.T, "named:string", "string")
	}
	plantUnpackers(t, c.T)
	c.V = gen.GenTV(t, cfg, c.T, false)
	// the shared generator draws mostly flat types: put the struct below a
	// named field, list, map, pointer, array or inline field of a new root
	// (a third of the cases is meant to get a history of list edits: most of them get a list around the struct)
	wantHist := rapid.IntRange(0, 2).Draw(t, "wanthist") == 0
	w := rapid.IntRange(0, 9).Draw(t, "nest")
	if wantHist && rapid.IntRange(0, 3).Draw(t, "histnest") > 0 {
		w = 5
	}
	if w >= 4 {
		inner, innerV := c.T, c.V
		more := func() *gen.TV { return gen.GenTV(t, cfg, inner, true) }
		f := gen.FD{Name: "W", Tag: "w", T: inner}
		fv := innerV
		switch w {
		case 5:
			// a list of 1-4 objects (the drawn value at any position), in 1 of 4 cases a list of such lists
			f.T = &gen.TD{Kind: "slice", Elem: inner}
			fv = &gen.TV{Elems: []*gen.TV{innerV}}
			if rapid.Bool().Draw(t, "two") {
				fv.Elems = append(fv.Elems, more())
			}
			for n := rapid.IntRange(0, 2).Draw(t, "before"); n > 0; n-- {
				fv.Elems = append([]*gen.TV{more()}, fv.Elems...)
			}
			if rapid.IntRange(0, 3).Draw(t, "lol") == 0 {
				f.T = &gen.TD{Kind: "slice", Elem: f.T}
				fv = &gen.TV{Elems: []*gen.TV{fv}}
				if rapid.Bool().Draw(t, "lolbefore") {
					fv.Elems = append([]*gen.TV{{Elems: []*gen.TV{more()}}}, fv.Elems...)
				}
			}
		case 6:
			f.T = &gen.TD{Kind: "map", Elem: inner}
			fv = &gen.TV{Keys: []string{rapid.SampledFrom([]string{"k", "a b", "$", "x,y", "é"}).Draw(t, "wkey")}, Elems: []*gen.TV{innerV}}
			if rapid.Bool().Draw(t, "two") {
				fv.Keys = append(fv.Keys, "j")
				fv.Elems = append(fv.Elems, more())
			}
		case 7:
			f.T = &gen.TD{Kind: "ptr", Elem: inner}
			fv = &gen.TV{Elems: []*gen.TV{innerV}}
		case 8:
			f.T = &gen.TD{Kind: "array", N: 2, Elem: inner}
			fv = &gen.TV{Elems: []*gen.TV{more(), innerV}}
		case 9:
			f.Inline, f.Tag = true, ""
		}
		c.T = &gen.TD{Kind: "struct", Fields: []gen.FD{{Name: "V", Tag: "v", T: &gen.TD{Kind: "int"}}, f}}
		c.V = &gen.TV{Elems: []*gen.TV{{I: 1}, fv}}
	}
	if rapid.IntRange(0, 2).Draw(t, "hostile") > 0 {
		counter := 100
		hostileNames(t, c.T, c.V, &counter)
	}
	fixValues(c.T, c.V, false)

	sites := sitesOf(c.T, c.V)
	byKind := map[string][]int{}
	for i := range sites {
		for _, k := range kindsFor(&sites[i]) {
			byKind[k] = append(byKind[k], i)
		}
	}
	var avail []string
	for _, k := range allKinds {
		if k == kDefault && avoid("D44") {
			continue // class of finding D44, constructed away while it is open
		}
		if len(byKind[k]) > 0 {
			avail = append(avail, k)
		}
	}
	c.Meta = rapid.SampledFrom(metaPool).Draw(t, "meta")
	c.NoRes = rapid.IntRange(0, 3).Draw(t, "nores") == 0
	c.Move = rapid.SampledFrom([]string{"", "", "key", "list", "append", "prepend"}).Draw(t, "move")
	if c.Move == "key" {
		c.Wrap = rapid.Bool().Draw(t, "wrap")
	}
	c.Inject = rapid.SampledFrom([]string{"set", "data"}).Draw(t, "inject")
	if c.Inject == "set" && c.Move != "" {
		c.After = rapid.IntRange(0, 2).Draw(t, "after") == 0
	}
	if len(avail) == 0 {
		c.Kind = kNone
		return c
	}
	c.Kind = rapid.SampledFrom(avail).Draw(t, "kind")
	// faults that are reported for a collection as a whole are possible at few places of a type: prefer them
	var coll []string
	for _, k := range avail {
		if collectionFault(k) {
			coll = append(coll, k)
		}
	}
	if len(coll) > 0 && rapid.IntRange(0, 3).Draw(t, "collkind") == 0 {
		c.Kind = rapid.SampledFrom(coll).Draw(t, "ckind")
	}
	// prefer places the non-trivial rule is about: deep, or below a list, map or pointer
	cands := byKind[c.Kind]
	var deep []int
	for _, i := range cands {
		if ft := sites[i].ft; len(sites[i].path) >= 2 || ft.list || ft.mapk || ft.ptr {
			deep = append(deep, i)
		}
	}
	if len(deep) > 0 && rapid.IntRange(0, 3).Draw(t, "deep") > 0 {
		cands = deep
	}
	// kinds of targets that are converted by code of their own (durations, regular expressions, self-unpacking
	// types) are rare among the leaves of a type: prefer them in a quarter of the cases
	var special []int
	for _, i := range cands {
		if b := sites[i].td.Base(); sites[i].node == "leaf" && (b == "dur" || b == "regexp" || sites[i].ft.unp != "") || sites[i].node == "cat" && sites[i].ft.unp != "" {
			special = append(special, i)
		}
	}
	if len(special) > 0 && rapid.IntRange(0, 3).Draw(t, "special") == 0 {
		cands = special
	}
	// histories edit the lists the faulted setting lies in: in a third of the cases prefer places below a list
	wantHist = wantHist && c.Kind != kRef
	if wantHist {
		var inList []int
		for _, i := range cands {
			if len(editableLists(&sites[i])) > 0 {
				inList = append(inList, i)
			}
		}
		if len(inList) > 0 {
			cands = inList
		}
	}
	s := &sites[rapid.SampledFrom(cands).Draw(t, "site")]
	c.Path = s.path
	base := s.td.Base()
	switch c.Kind {
	case kUnparsable:
		c.Payload = gen.Str(rapid.SampledFrom(unparsablePayloads(base)).Draw(t, "bad"))
	case kRange:
		c.Payload = rapid.SampledFrom(rangePayloads(base)).Draw(t, "big").Clone()
	case kWrongCont:
		c.Payload = rapid.SampledFrom(contPayloads).Draw(t, "cont").Clone()
	case kWrongPrim:
		c.Payload = rapid.SampledFrom(primPayloads).Draw(t, "prim").Clone()
	case kRef:
		c.Payload = gen.Str(rapid.SampledFrom(refPayloads).Draw(t, "ref"))
		c.Ref = &RefFault{Shape: rapid.SampledFrom(refShapes).Draw(t, "refshape"), Splice: rapid.IntRange(0, 3).Draw(t, "refsplice") == 0}
		c.Inject = "data" // Set* does not parse variable expressions
		c.After = false
		fixValues(c.T, c.V, true)
	case kValidator:
		c.Tag = rapid.SampledFrom(tagsFor(s.td, s.tv)).Draw(t, "tag")
	case kRequired:
		c.Tag = "required"
	case kArrayLen:
		c.Shrink = s.td.N > 0 && rapid.Bool().Draw(t, "shrink")
		c.Payload = gen.Uint(1)
	case kEmptyList:
		c.Tag = rapid.SampledFrom([]string{"nonzero", "required"}).Draw(t, "emptytag")
	case kStructVal:
		c.Payload = rapid.SampledFrom(structValPayloads(s.td)).Draw(t, "zero").Clone()
	case kReject:
		c.Payload = rapid.SampledFrom(rejectPayloads(s.ft.unp)).Draw(t, "rejected").Clone()
	}
	// delivery through variable expansion: the faulted value, or a collection
	// around it, is the result of evaluating a ${...} expression
	if c.Kind != kRef && rapid.IntRange(0, 9).Draw(t, "deliver") < 4 {
		d := genDelivery(t, len(c.Path))
		if (c.Kind == kRequired || c.Kind == kDefault || c.Kind == kEmptyList) && d.Up == 0 {
			d.Up = 1 // a removed setting can only be missing from a delivered collection (an emptied list is delivered inside one)
		}
		if d.Up < len(c.Path) {
			c.Deliver = d
			c.Inject = "data"
			c.After = false
			fixValues(c.T, c.V, true)
		}
	}
	c.Getter = rapid.Bool().Draw(t, "getter")
	c.GIdx = rapid.Bool().Draw(t, "gidx")
	if c.Inject == "set" && setsValue(c.Kind) {
		c.SetMeta = rapid.SampledFrom([]string{"", "other", "other", "none"}).Draw(t, "setmeta")
	}
	c.Outer = c.Move != "" && rapid.IntRange(0, 2).Draw(t, "outer") > 0
	// relocation histories: the loaded section around the fault is moved before the fault is read. A section
	// whose settings refer to other settings can not be moved to another configuration without changing
	// what they mean: literal faults only.
	// histories: the lists the faulted setting lies in are edited before the fault is read (literal faults only:
	// references name settings by their position)
	if c.Deliver == nil && wantHist {
		c.Hist = genHist(t, &c, s)
	}
	if c.Hist == nil && c.Deliver == nil && c.Kind != kRef && rapid.IntRange(0, 9).Draw(t, "reloc") < 4 {
		c.Reloc = genReloc(t, &c)
	}
	// spelling of the generic data the configuration is normalised from
	if rapid.IntRange(0, 9).Draw(t, "spelled") < 4 {
		c.Spell = genSpell(t)
	}
	if rapid.IntRange(0, 4).Draw(t, "layered") == 0 {
		c.Layers = rapid.IntRange(1, 1<<16-1).Draw(t, "layers")
	}
	// Option values as values: reused across calls, two MetaData options in one call, unrelated loads
	if rapid.IntRange(0, 9).Draw(t, "optuse") < 4 {
		c.Opts = genOptUse(t)
	}
	return c
}

var metaPool = []string{"", "file.yml", "my src", "file.yml", "100%.yml", "it's.yml", `c:\x "q".yml`, "é{}$%d.yml", "%v", "a (source:'b')"}

// ---------------------------------------------------------------------------
// building the faulted configuration

func cloneTD(td *gen.TD) *gen.TD {
	if td == nil {
		return nil
	}
	c := *td
	c.Elem = cloneTD(td.Elem)
	c.Fields = nil
	for _, f := range td.Fields {
		f.T = cloneTD(f.T)
		c.Fields = append(c.Fields, f)
	}
	return &c
}

func samePath(a, b []string) bool {
	if len(a) != len(b) {
		return false
	}
	for i := range a {
		if a[i] != b[i] {
			return false
		}
	}
	return true
}

func setPrim(cfg *ucfg.Config, name string, idx int, p *gen.Tree, opts []ucfg.Option) error {
	switch p.K {
	case "bool":
		return cfg.SetBool(name, idx, p.B, opts...)
	case "int":
		return cfg.SetInt(name, idx, p.I, opts...)
	case "uint":
		return cfg.SetUint(name, idx, p.U, opts...)
	case "float":
		return cfg.SetFloat(name, idx, p.FloatVal(), opts...)
	case "str":
		return cfg.SetString(name, idx, p.S, opts...)
	}
	return fmt.Errorf("harness: payload %q is no primitive", p.K)
}

// errDiscard marks cases outside the precondition (the harness could not
// build the faulted configuration as intended).
type errDiscard struct{ why string }

func (e errDiscard) Error() string { return e.why }

// injectSet applies the fault through the path-addressed API.
func injectSet(cfg *ucfg.Config, c *Case, s *site, opts []ucfg.Option) error {
	name := strings.Join(c.Path, ".")
	switch c.Kind {
	case kUnparsable, kRange, kWrongPrim, kReject:
		return setPrim(cfg, name, -1, c.Payload, opts)
	case kWrongCont:
		child, err := ucfg.NewFrom(c.Payload.Go(), opts...)
		if err != nil {
			return err
		}
		return cfg.SetChild(name, -1, child, opts...)
	case kArrayLen:
		if c.Shrink {
			ok, err := cfg.Remove(name, s.td.N-1, opts...)
			if err == nil && !ok {
				return errDiscard{"last array element not found"}
			}
			return err
		}
		return setPrim(cfg, name, s.td.N, c.Payload, opts)
	case kRequired, kDefault:
		if s.absent {
			return nil
		}
		ok, err := cfg.Remove(name, -1, opts...)
		if err == nil && !ok {
			return errDiscard{"setting to remove not found"}
		}
		return err
	case kValidator:
		return nil
	case kEmptyList:
		// the elements are removed one by one: what is left is a list with 0 elements
		for range s.tv.Elems {
			ok, err := cfg.Remove(name, 0, opts...)
			if err == nil && !ok {
				return errDiscard{"list element to remove not found"}
			}
			if err != nil {
				return err
			}
		}
		return nil
	case kStructVal:
		return setPrim(cfg, name+".n", -1, c.Payload, opts)
	}
	return fmt.Errorf("harness: fault kind %q can not be injected through Set*", c.Kind)
}

// editData applies f to the node at path of generic data and returns the new root.
func editData(node interface{}, path []string, f func(old interface{}, present bool) (v interface{}, del bool)) (interface{}, error) {
	if len(path) == 0 {
		v, _ := f(node, true)
		return v, nil
	}
	seg := path[0]
	switch n := node.(type) {
	case map[string]interface{}:
		old, present := n[seg]
		if len(path) == 1 {
			v, del := f(old, present)
			if del {
				delete(n, seg)
			} else {
				n[seg] = v
			}
			return n, nil
		}
		if !present {
			return nil, errDiscard{"data walk: key " + seg + " missing"}
		}
		v, err := editData(old, path[1:], f)
		if err != nil {
			return nil, err
		}
		n[seg] = v
		return n, nil
	case []interface{}:
		i, err := strconv.Atoi(seg)
		if err != nil || i < 0 || i >= len(n) {
			return nil, errDiscard{"data walk: index " + seg + " missing"}
		}
		if len(path) == 1 {
			v, del := f(n[i], true)
			if del {
				return nil, errDiscard{"data walk: can not delete list element"}
			}
			n[i] = v
			return n, nil
		}
		v, err := editData(n[i], path[1:], f)
		if err != nil {
			return nil, err
		}
		n[i] = v
		return n, nil
	}
	return nil, errDiscard{fmt.Sprintf("data walk: %T at %s", node, seg)}
}

// injectData applies the fault to the generic dump of the configuration.
func injectData(data interface{}, c *Case, s *site) (interface{}, error) {
	switch c.Kind {
	case kUnparsable, kRange, kWrongPrim, kWrongCont, kRef, kReject:
		return editData(data, c.Path, func(interface{}, bool) (interface{}, bool) { return c.Payload.Go(), false })
	case kArrayLen:
		var bad error
		out, err := editData(data, c.Path, func(old interface{}, _ bool) (interface{}, bool) {
			l, ok := old.([]interface{})
			if !ok && old != nil {
				bad = errDiscard{fmt.Sprintf("data walk: array is dumped as %T", old)}
				return old, false
			}
			if c.Shrink {
				if len(l) == 0 {
					bad = errDiscard{"data walk: empty array"}
					return old, false
				}
				return append([]interface{}{}, l[:len(l)-1]...), false
			}
			return append(append([]interface{}{}, l...), c.Payload.Go()), false
		})
		if bad != nil {
			return nil, bad
		}
		return out, err
	case kRequired, kDefault:
		if s.absent {
			return data, nil
		}
		return editData(data, c.Path, func(interface{}, bool) (interface{}, bool) { return nil, true })
	case kValidator:
		return data, nil
	case kEmptyList:
		var bad error
		out, err := editData(data, c.Path, func(old interface{}, _ bool) (interface{}, bool) {
			if _, ok := old.([]interface{}); !ok {
				bad = errDiscard{fmt.Sprintf("data walk: list is dumped as %T", old)}
				return old, false
			}
			return []interface{}{}, false
		})
		if bad != nil {
			return nil, bad
		}
		return out, err
	case kStructVal:
		return editData(data, appendPath(c.Path, "n"), func(interface{}, bool) (interface{}, bool) { return c.Payload.Go(), false })
	}
	return nil, fmt.Errorf("harness: unknown fault kind %q", c.Kind)
}

var errNoVar = errors.New("c14: no such variable")

// failingResolver makes unresolved references an error independently of
// finding D8 (no resolver configured: missing references become "").
func failingResolver(string) (string, parse.Config, error) { return "", parse.DefaultConfig, errNoVar }

func staticPrefix(move string) []string {
	switch move {
	case "":
		return nil
	case "key":
		return []string{"pre"}
	}
	return []string{"pre", "1"}
}

// build creates the configuration to unpack: the value normalised, optionally
// dumped and normalised again, the fault injected (if fault is set), the
// faulted value (or a collection around it) optionally replaced by a variable
// expression that evaluates to it, then moved into another configuration. It
// returns the config to unpack from, the path prefix the move added and what
// the reading call needs (resolver variables, Env configuration).
func build(c *Case, s *site, fault bool) (*ucfg.Config, []string, *artifacts, error) {
	art := newArtifacts()
	cfg, prefix, err := buildCfg(c, s, fault, art)
	return cfg, prefix, art, err
}

func buildCfg(c *Case, s *site, fault bool, art *artifacts) (*ucfg.Config, []string, error) {
	opts := []ucfg.Option{ucfg.PathSep(".")}
	if c.Meta != "" {
		opts = append(opts, c.metaOpts(c.Meta)...)
	}
	in := c.T.New(c.V)
	cfg, err := ucfg.NewFrom(in.Interface(), opts...)
	if err != nil {
		return nil, nil, fmt.Errorf("NewFrom(value): %v", err)
	}
	if c.Inject == "data" || len(c.Spell) > 0 || c.Layers != 0 {
		data, err := uc.Dump(cfg, opts...)
		if err != nil {
			return nil, nil, fmt.Errorf("dump: %v", err)
		}
		if data == nil {
			data = map[string]interface{}{}
		}
		fault := fault && c.Inject == "data" // a spelled configuration gets its fault through Set* later
		nopts := opts
		if fault {
			if c.Kind == kRef && c.Ref != nil {
				expr, aux, _ := refFaultExpr(c.Ref, c.Payload, staticPrefix(c.Move), c.Path)
				if data, err = editData(data, c.Path, func(interface{}, bool) (interface{}, bool) { return expr, false }); err != nil {
					return nil, nil, err
				}
				root, ok := data.(map[string]interface{})
				if !ok {
					return nil, nil, errDiscard{"data walk: root is no dictionary"}
				}
				for k, v := range aux {
					root[k] = v
				}
			} else if data, err = injectData(data, c, s); err != nil {
				return nil, nil, err
			}
		}
		if c.Deliver != nil {
			if data, err = applyDelivery(data, c, staticPrefix(c.Move), art); err != nil {
				return nil, nil, err
			}
		}
		if (fault && c.Kind == kRef) || c.Deliver != nil {
			nopts = append(append([]ucfg.Option{}, opts...), ucfg.VarExp)
		}
		data, art.spell = respell(data, c.Spell)
		if cfg, art.layered, err = loadLayered(data, c.Layers, nopts); err != nil {
			return nil, nil, fmt.Errorf("NewFrom(data): %v", err)
		}
	}
	// the Set* calls and the configuration merged into may name other sources
	sopts := opts
	if setsValue(c.Kind) {
		switch c.SetMeta {
		case "other":
			sopts = append([]ucfg.Option{ucfg.PathSep(".")}, c.metaOpts(setSource)...)
		case "none":
			sopts = []ucfg.Option{ucfg.PathSep(".")}
		}
	}
	if c.Outer {
		opts = append([]ucfg.Option{ucfg.PathSep(".")}, c.metaOpts(outerSource)...)
	}
	setFault := func(into *ucfg.Config) error {
		err := injectSet(into, c, s, sopts)
		if _, ok := err.(errDiscard); ok || err == nil {
			return err
		}
		return fmt.Errorf("inject: %v", err)
	}
	after := c.After && c.Inject == "set" && c.Move != ""
	if fault && c.Inject == "set" && !after {
		if err := setFault(cfg); err != nil {
			return nil, nil, err
		}
	}
	fault = fault && after // what is left to do once the config has been moved

	filler := map[string]interface{}{"x": 1}
	var prefix []string
	switch c.Move {
	case "":
		return cfg, nil, nil
	case "key":
		outer := ucfg.New()
		if err := outer.Merge(map[string]interface{}{"pre": cfg}, opts...); err != nil {
			return nil, nil, fmt.Errorf("move: %v", err)
		}
		ch, err := outer.Child("pre", -1, opts...)
		if err != nil {
			return nil, nil, fmt.Errorf("move: %v", err)
		}
		if fault {
			if err := setFault(ch); err != nil {
				return nil, nil, err
			}
		}
		if c.Wrap {
			return outer, []string{"pre"}, nil
		}
		return ch, []string{"pre"}, nil
	case "list":
		outer := ucfg.New()
		if err := outer.Merge(map[string]interface{}{"pre": []interface{}{1, cfg}}, opts...); err != nil {
			return nil, nil, fmt.Errorf("move: %v", err)
		}
		cfg, prefix = outer, []string{"pre", "1"}
	case "append":
		outer, err := ucfg.NewFrom(map[string]interface{}{"pre": []interface{}{filler}}, opts...)
		if err != nil {
			return nil, nil, fmt.Errorf("move: %v", err)
		}
		aopts := append(append([]ucfg.Option{}, opts...), ucfg.AppendValues)
		if err := outer.Merge(map[string]interface{}{"pre": []interface{}{cfg}}, aopts...); err != nil {
			return nil, nil, fmt.Errorf("move: %v", err)
		}
		cfg, prefix = outer, []string{"pre", "1"}
	case "prepend":
		outer, err := ucfg.NewFrom(map[string]interface{}{"pre": []interface{}{cfg}}, opts...)
		if err != nil {
			return nil, nil, fmt.Errorf("move: %v", err)
		}
		popts := append(append([]ucfg.Option{}, opts...), ucfg.PrependValues)
		if err := outer.Merge(map[string]interface{}{"pre": []interface{}{filler}}, popts...); err != nil {
			return nil, nil, fmt.Errorf("move: %v", err)
		}
		cfg, prefix = outer, []string{"pre", "1"}
	default:
		return nil, nil, fmt.Errorf("harness: unknown move %q", c.Move)
	}
	ch, err := cfg.Child("pre", 1, opts...)
	if err != nil {
		return nil, nil, fmt.Errorf("move: %v", err)
	}
	if fault {
		if err := setFault(ch); err != nil {
			return nil, nil, err
		}
	}
	if c.Hist != nil && c.Hist.Outer {
		// the element before the moved configuration is removed through the outer configuration: the handle
		// that is read is element 0 of the outer list now
		if ok, err := cfg.Remove("pre", 0, opts...); err != nil || !ok {
			return nil, nil, fmt.Errorf("history: Remove(\"pre\", 0) of the outer configuration = %v, %v", ok, err)
		}
		prefix = []string{"pre", "0"}
	}
	return ch, prefix, nil
}

// ---------------------------------------------------------------------------
// oracle

// the setting named by a message: "... accessing '<path>'" or "... in field
// '<path>'", optionally followed by the source (error.go). Used for
// diagnostics only: names may contain quotes, the assertion compares the end
// of the message with the expected text.
var namedRe = regexp.MustCompile(`(?s)(?: accessing| in field) '(.*?)'( \(source:'.*'\))?$`)

// expect is one acceptable naming of the setting at fault: its full dotted
// path and the acceptable endings after it ("" and/or " (source:'<name>')").
type expect struct {
	path  string
	tails []string
}

// tailsFor: what may follow the path. A value loaded with source metadata
// must be reported with its source if demanded; otherwise both are accepted.
func tailsFor(source string, demanded bool) []string {
	if source == "" {
		return []string{""}
	}
	t := " (source:'" + source + "')"
	if demanded {
		return []string{t}
	}
	return []string{t, ""}
}

// checkTyped verifies the first clause: a ucfg.Error with Reason and Class.
func checkTyped(err error) (ucfg.Error, error) {
	ue, ok := err.(ucfg.Error)
	if !ok {
		return nil, fmt.Errorf("error is no ucfg.Error but %T: %v", err, err)
	}
	if ue.Reason() == nil {
		return nil, fmt.Errorf("Reason() of the error is nil: %v", err)
	}
	if ue.Class() == nil {
		return nil, fmt.Errorf("Class() of the error is nil: %v", err)
	}
	return ue, nil
}

// checkNamed verifies that err is a typed error whose message ends in
// accessing|in field '<path>'<tail> for one of the acceptable namings.
func checkNamed(err error, alts []expect) error {
	_, nerr := matchNamed(err, alts)
	return nerr
}

// matchNamed is checkNamed that also returns the naming that was found
// (<path>'<tail>).
func matchNamed(err error, alts []expect) (string, error) {
	ue, terr := checkTyped(err)
	if terr != nil {
		return "", terr
	}
	msg := ue.Error()
	if i := strings.Index(msg, "\nTrace:"); i >= 0 {
		msg = msg[:i]
	}
	for _, a := range alts {
		for _, intro := range []string{" accessing '", " in field '"} {
			for _, tail := range a.tails {
				if strings.HasSuffix(msg, intro+a.path+"'"+tail) {
					if p := ue.Path(); p != "" && p != a.path {
						return "", fmt.Errorf("Path() of the error is %q, the fault is at %q: %q", p, a.path, msg)
					}
					return a.path + "'" + tail, nil
				}
			}
		}
	}
	want := alts[0]
	// explain: right path with the wrong ending, or another path
	for _, intro := range []string{" accessing '", " in field '"} {
		if i := strings.LastIndex(msg, intro+want.path+"'"); i >= 0 {
			return "", fmt.Errorf("the message names '%s' but ends in %q, want %q: %q", want.path, msg[i+len(intro)+len(want.path)+1:], want.tails, msg)
		}
	}
	if m := namedRe.FindStringSubmatch(msg); m != nil {
		return "", fmt.Errorf("the message names '%s', the fault is at '%s': %q", m[1], want.path, msg)
	}
	return "", fmt.Errorf("the message names no setting (want '%s'): %q", want.path, msg)
}

// checkError verifies that err is a typed error naming path (and source).
func checkError(err error, path string, source string) error {
	if path == "" {
		_, terr := checkTyped(err)
		return terr
	}
	return checkNamed(err, []expect{{path, tailsFor(source, true)}})
}

func targetType(td *gen.TD, wrap bool) reflect.Type {
	if !wrap {
		return td.Type()
	}
	return reflect.StructOf([]reflect.StructField{{Name: "Pre", Type: td.Type(), Tag: `config:"pre"`}})
}

// getterOp names the low-level getter that can not succeed on the faulted
// setting ("" if the fault is not visible to a getter).
func getterOp(s *site, kind string) string {
	switch kind {
	case kWrongPrim:
		return "child"
	case kUnparsable, kWrongCont, kRef:
		if s.node != "leaf" {
			return ""
		}
		switch b := s.td.Base(); {
		case b == "bool":
			return "bool"
		case isIntBase(b):
			return "int"
		case isUintBase(b):
			return "uint"
		case isFloatBase(b):
			return "float"
		case kind != kUnparsable:
			return "string" // strings, durations and regular expressions are read as strings
		}
	}
	return ""
}

func callGetter(cfg *ucfg.Config, op, name string, idx int, opts []ucfg.Option) (err error) {
	switch op {
	case "bool":
		_, err = cfg.Bool(name, idx, opts...)
	case "int":
		_, err = cfg.Int(name, idx, opts...)
	case "uint":
		_, err = cfg.Uint(name, idx, opts...)
	case "float":
		_, err = cfg.Float(name, idx, opts...)
	case "string":
		_, err = cfg.String(name, idx, opts...)
	case "child":
		_, err = cfg.Child(name, idx, opts...)
	default:
		err = fmt.Errorf("harness: unknown getter %q", op)
	}
	return err
}

func runCase(c Case, r *runlog.R) error {
	if c.Kind == kNone || c.T == nil {
		r.Class("no fault site")
		r.Discard()
		return nil
	}
	td := cloneTD(c.T)
	var s *site
	sites := sitesOf(td, c.V)
	for i := range sites {
		if !samePath(sites[i].path, c.Path) {
			continue
		}
		for _, k := range kindsFor(&sites[i]) {
			if k == c.Kind {
				s = &sites[i]
			}
		}
	}
	if s == nil {
		// the path stored in the case is not a place of the type where this
		// kind of fault applies (possible in hand-written cases only)
		r.Class("stale fault path")
		r.Discard()
		return nil
	}

	if c.Tag != "" {
		if s.fd == nil || !s.tagOK {
			r.Class("stale fault path")
			r.Discard()
			return nil
		}
		s.fd.Validate = c.Tag // s.fd points into td, the private copy
	}
	if c.Deliver != nil && c.Inject != "data" {
		r.Class("stale delivery")
		r.Discard()
		return nil
	}

	// precondition: without the fault the pair is valid, delivered the same
	// way. If the fault is the removal of a required setting, the tag is part
	// of the valid pair (it applies to every instance of the field).
	baseT := c.T
	if (c.Kind == kRequired && !s.absent) || c.Kind == kEmptyList {
		baseT = td // the tag is harmless as long as the setting (the elements) are there
	}
	discard := func(err error) bool {
		if d, ok := err.(errDiscard); ok {
			r.Class("discard: " + strings.SplitN(d.why, ":", 2)[0])
			r.Discard()
			return true
		}
		return false
	}
	c.pool = map[string]ucfg.Option{}
	var made []bystander
	if err := c.bystanders("first", &made); err != nil {
		return err
	}
	base, _, bart, err := build(&c, s, false)
	var validData interface{}
	if err == nil && c.Hist != nil && len(c.Hist.Edits) > 0 {
		// the same history applied to the valid configuration
		if validData, err = dumpValid(base); err == nil {
			if perr := uc.Safe("history", func() error { _, err = applyHist(&c, s, base, validData, map[string]bool{}); return nil }); perr != nil {
				return perr
			}
			if _, ok := err.(errDiscard); err != nil && !ok {
				return fmt.Errorf("on the valid configuration: %v", err)
			}
		}
	}
	if err == nil {
		var bopts []ucfg.Option
		if bopts, err = readOpts(bart, c.NoRes); err == nil {
			out := reflect.New(targetType(baseT, c.Wrap && c.Move == "key"))
			err = uc.Safe("Unpack", func() error { return base.Unpack(out.Interface(), bopts...) })
		}
	}
	if err != nil {
		if discard(err) {
			return nil
		}
		r.ClassIf(c.Deliver != nil, "discard: delivered pair invalid without the fault")
		r.Class("discard: pair invalid without the fault")
		r.Discard()
		return nil
	}

	if err := c.bystanders("between", &made); err != nil {
		return err
	}
	var cfg *ucfg.Config
	var prefix []string
	var art *artifacts
	err = uc.Safe("building the faulted configuration", func() (e error) { cfg, prefix, art, e = build(&c, s, true); return })
	if err != nil {
		if discard(err) {
			return nil
		}
		// the fault may be rejected while the configuration is built; that is
		// a failure reported by the API as well
		return fmt.Errorf("building the configuration with the fault failed: %v", err)
	}
	opts, err := readOpts(art, c.NoRes)
	if err != nil {
		return err
	}

	// the lists the faulted setting lies in are edited before the fault is read: rel is where the setting is now
	// (relative to the configuration that is read)
	histClasses := map[string]bool{}
	rel := relPath(&c)
	if c.Hist != nil {
		var herr error
		if perr := uc.Safe("history", func() error { rel, herr = applyHist(&c, s, cfg, validData, histClasses); return nil }); perr != nil {
			return perr
		}
		if herr != nil {
			if discard(herr) {
				return nil
			}
			return herr
		}
	}
	want := strings.Join(append(append([]string{}, prefix...), rel[len(rel)-len(c.Path):]...), ".")
	// The source is demanded for a setting that was loaded with metadata. A
	// setting that is missing was not loaded from anywhere, and the elements
	// of a collection parsed from delivered text were not loaded either (the
	// ${...} setting itself, Up == 0, was).
	demand := c.Kind != kRequired && c.Kind != kDefault
	alts := []expect{{want, tailsFor(c.Meta, demand)}}
	if !demand && c.Outer {
		alts[0].tails = append(alts[0].tails, tailsFor(outerSource, false)...) // nothing is demanded
	}
	if c.Inject == "set" && storesValue(c.Kind) {
		// the faulted value was stored by a Set* call: its source is the one
		// named by that call; stored without MetaData it has none (then
		// nothing is demanded)
		switch c.SetMeta {
		case "other":
			alts[0].tails = tailsFor(setSource, true)
		case "none":
			alts[0].tails = tailsFor(c.Meta, false)
		}
	}
	if c.Kind == kStructVal {
		// Validate is a method of the struct: the section as a whole is at fault (with the source the section
		// was loaded from); naming the one setting that was edited (with the source of the call that stored
		// it) would be as exact
		nt := tailsFor(c.Meta, demand && c.Deliver == nil)
		if c.Inject == "set" {
			switch c.SetMeta {
			case "other":
				nt = tailsFor(setSource, true)
			case "none":
				nt = tailsFor(c.Meta, false)
			}
		}
		alts = append(alts, expect{want + ".n", nt})
	}
	if d := c.Deliver; d != nil {
		switch d.Mode {
		case "resolver", "splice":
			alts[0].tails = tailsFor(c.Meta, demand && d.Up == 0)
		case "cfgref", "env":
			// two settings are involved: the one that was read and the one
			// holding the literal. For a fault INSIDE a referenced collection
			// (Up > 0) and for faults reported for a collection as a whole the
			// statement does not say which is "that setting": both (each with
			// its own source) are accepted. When the setting that is read is
			// itself the reference (Up == 0) and the fault is that its value
			// does not convert into / is out of range for / fails the validator
			// of / has the wrong type for the TARGET, the setting at fault is
			// the one the target belongs to - the one that is read (the
			// referenced setting has no target type; it is what it is) - however
			// many references lead to the literal and wherever it lives.
			if !(d.Up == 0 && readerAtFault(c.Kind)) {
				alts = append(alts, expect{strings.Join(art.alt, "."), tailsFor(art.altSrc, demand)})
			}
		}
	}
	// a fault below a self-unpacking struct section is reported by the Unpack method of the section: the library
	// names the section (with the source the section was loaded from) after whatever the method returned
	innerTrim := 0
	if s.ft.unpLen > 0 && len(c.Path) > s.ft.unpLen {
		innerTrim = len(c.Path) - s.ft.unpLen
		d := c.Deliver
		text := d != nil && (d.Mode == "resolver" || d.Mode == "splice")
		secTails := tailsFor(c.Meta, demand && !(text && d.Up > innerTrim))
		if rl := c.Reloc; rl != nil {
			if rl.How == "setchild-meta" && rl.Up == innerTrim {
				secTails = append(secTails, " (source:'"+relocSource+"')")
			}
			if rl.Up < innerTrim {
				// the moved node lies inside the section: the section that is read may be the one of the second configuration
				secTails = append(tailsFor(c.Meta, false), "", " (source:'"+relocTargetSource+"')")
			}
		}
		alts = append(alts, expect{trimPath(want, c.Path, innerTrim), secTails})
		if d != nil && (d.Mode == "cfgref" || d.Mode == "env") && d.Up >= innerTrim {
			alts = append(alts, expect{trimPath(strings.Join(art.alt, "."), c.Path, innerTrim), tailsFor(art.altSrc, demand)})
		}
	}
	describe := func() string {
		d := "literal"
		if c.Deliver != nil {
			d = fmt.Sprintf("%s up=%d text=%q", c.Deliver.Mode, c.Deliver.Up, art.text)
		}
		ref := ""
		if c.Ref != nil {
			ref = fmt.Sprintf(" ref=%s splice=%v", c.Ref.Shape, c.Ref.Splice)
		}
		reloc := ""
		if c.Hist != nil {
			reloc = fmt.Sprintf(" history: %+v (loaded at '%s')", *c.Hist, strings.Join(append(append([]string{}, staticPrefix(c.Move)...), c.Path...), "."))
		}
		if len(c.Spell) > 0 || c.Layers != 0 {
			reloc += fmt.Sprintf(" spelling: %v layers: %#x", c.Spell, c.Layers)
		}
		if rl := c.Reloc; rl != nil {
			reloc += fmt.Sprintf(" relocation: section %d level(s) above the fault, obtained via %q, how=%s where=%q second configuration from %q, attached elsewhere first=%v, list element by idx=%v", rl.Up, rl.Via, rl.How, rl.Where, rl.Target, rl.Pre, rl.Idx)
		}
		if c.Opts != nil {
			reloc += fmt.Sprintf(" options: MetaData values reused=%v, per call=%q, bystanders=%+v", c.Opts.Reuse, c.Opts.Dup, c.Opts.By)
		}
		return fmt.Sprintf("fault %s at '%s' (inject=%s move=%s wrap=%v after=%v meta=%q payload=%v tag=%q delivery=%s%s nores=%v setmeta=%q outer=%v)%s", c.Kind, want, c.Inject, c.Move, c.Wrap, c.After, c.Meta, show(c.Payload), c.Tag, d, ref, c.NoRes, c.SetMeta, c.Outer, reloc)
	}

	// the loaded section around the fault is moved before the fault is read
	readers := []*ucfg.Config{cfg}
	relocClasses := map[string]bool{}
	if c.Reloc != nil {
		var rerr error
		if perr := uc.Safe("moving the section", func() error { readers, rerr = relocate(&c, s, cfg, relocClasses); return nil }); perr != nil {
			return fmt.Errorf("%v\n %s", perr, describe())
		}
		if rerr != nil {
			if discard(rerr) {
				return nil
			}
			return fmt.Errorf("%v\n %s", rerr, describe())
		}
		relocTails(&c, alts, demand)
		cfg = readers[0]
	}

	if err := c.bystanders("last", &made); err != nil {
		return err
	}
	typ := targetType(td, c.Wrap && c.Move == "key")
	var uerr error
	var named string
	for i := len(readers) - 1; i >= 0; i-- {
		through := ""
		if i > 0 {
			through = " (through the configuration the section was taken from)"
		}
		out := reflect.New(typ)
		uerr = uc.Safe("Unpack", func() error { return readers[i].Unpack(out.Interface(), opts...) })
		if uerr == nil {
			return fmt.Errorf("fault not reported: Unpack%s returned nil\n %s\n type %v", through, describe(), typ)
		}
		if strings.Contains(uerr.Error(), "panicked") && !isTyped(uerr) {
			return uerr
		}
		if named, err = matchNamed(uerr, alts); err != nil {
			return fmt.Errorf("Unpack%s: %v\n %s\n type %v", through, err, describe(), typ)
		}
	}

	// the spelling of the input does not matter: the nested spelling of the same case names the same setting and
	// the same source
	if (len(c.Spell) > 0 || c.Layers != 0) && c.Reloc == nil {
		c2 := c
		c2.Spell, c2.Layers = nil, 0
		var tcfg *ucfg.Config
		var tart *artifacts
		var terr error
		perr := uc.Safe("the nested spelling of the case", func() error {
			if tcfg, _, tart, terr = build(&c2, s, true); terr != nil {
				return nil
			}
			if c2.Hist != nil {
				_, terr = applyHist(&c2, s, tcfg, validData, map[string]bool{})
			}
			return nil
		})
		if perr != nil {
			return perr
		}
		if terr != nil {
			if discard(terr) {
				return nil
			}
			return fmt.Errorf("building the nested spelling of the case failed: %v\n %s", terr, describe())
		}
		topts, err := readOpts(tart, c.NoRes)
		if err != nil {
			return err
		}
		out := reflect.New(typ)
		nerr := uc.Safe("Unpack", func() error { return tcfg.Unpack(out.Interface(), topts...) })
		if nerr == nil {
			return fmt.Errorf("fault not reported for the nested spelling: Unpack returned nil\n %s\n type %v", describe(), typ)
		}
		nested, err := matchNamed(nerr, alts)
		if err != nil {
			return fmt.Errorf("Unpack of the nested spelling: %v\n %s\n type %v", err, describe(), typ)
		}
		if nested != named {
			return fmt.Errorf("the naming of the fault depends on the spelling of the input: nested objects and lists give '%s, spelled with dotted keys '%s\n spelled: %q\n nested:  %q\n %s\n type %v", nested, named, uerr.Error(), nerr.Error(), describe(), typ)
		}
		r.Class("spelling: naming compared with the nested spelling (loaded at once) of the same case")
	}

	// the unrelated configurations loaded with the same Option values still name their own sources
	if err := checkBystanders(made); err != nil {
		return fmt.Errorf("%v\n %s", err, describe())
	}

	// the same fault read through the typed getter of the setting's kind
	if op := getterOp(s, c.Kind); c.Getter && op != "" {
		segs := rel // relative to the configuration build returned (the outer one if it is unpacked through a wrapping struct)
		idx := -1
		if n, err := strconv.Atoi(segs[len(segs)-1]); c.GIdx && err == nil && n >= 0 && len(segs) > 1 && s.ft.list {
			segs, idx = segs[:len(segs)-1], n // an element of a list: (name of the list, idx)
			r.Class("getter addressed by name and idx")
		}
		name := strings.Join(segs, ".")
		var gerr error
		if perr := uc.Safe("getter", func() error { gerr = callGetter(cfg, op, name, idx, opts); return nil }); perr != nil {
			return fmt.Errorf("%v\n %s", perr, describe())
		}
		if gerr == nil {
			r.Class("getter " + op + " accepts the faulted value")
		} else {
			if err := checkNamed(gerr, alts); err != nil {
				return fmt.Errorf("getter %s(%q): %v\n %s", op, name, err, describe())
			}
			r.Class("also read through getter " + op)
		}
	}

	moved := c.Move != ""
	r.NonTrivialIf(len(c.Path) >= 2 || s.ft.list || s.ft.mapk || s.ft.ptr || s.ft.inline || moved || c.Deliver != nil || c.Reloc != nil || c.Hist != nil)
	r.Class("kind=" + c.Kind)
	r.Class("node=" + s.node)
	r.Class("inject=" + c.Inject)
	r.Class("move=" + map[bool]string{true: c.Move, false: "none"}[moved])
	r.Class(fmt.Sprintf("depth=%d", len(c.Path)))
	r.ClassIf(c.Wrap, "unpacked through a wrapping struct")
	r.ClassIf(c.After && c.Inject == "set" && moved, "fault injected after the move")
	r.ClassIf(c.Meta != "", "with metadata")
	r.ClassIf(s.ft.list, "below list")
	r.ClassIf(s.ft.mapk, "below map")
	r.ClassIf(s.ft.ptr, "below pointer")
	r.ClassIf(s.ft.inline, "below inline field")
	r.ClassIf(s.ft.dotted, "dotted config name")
	r.ClassIf(s.ft.emptyTag, "derived config name")
	r.ClassIf(s.ft.cat, "inside catalogue type")
	r.ClassIf(s.absent, "nil in the valid config")
	if s.node == "leaf" {
		r.Class("leaf=" + s.td.Base())
	}
	if u := s.ft.unp; u != "" {
		r.Class("self-unpacking target: " + unpackerIface[u])
		r.ClassIf(innerTrim > 0, "self-unpacking target: fault below a self-unpacking section")
		r.ClassIf(c.Kind == kRef && c.Ref != nil, "self-unpacking target: reference fault")
		r.ClassIf(c.Kind == kReject || c.Kind == kStructVal, "self-unpacking target: the Unpack method rejects the value")
		r.ClassIf(c.Deliver != nil, "self-unpacking target: delivered through an expression")
		r.ClassIf(c.Meta != "", "self-unpacking target: with metadata")
	}
	if ue, ok := uerr.(ucfg.Error); ok && ue.Trace() != "" {
		r.Class("critical error (with trace)")
	}
	// names, texts, sources
	pct, quote, other := hostileClasses(c.Path)
	r.ClassIf(pct, "name with %")
	r.ClassIf(quote, "name with quote")
	r.ClassIf(other, "name with other special characters")
	r.ClassIf(pct && c.Meta != "", "name with % and metadata")
	reasonPct := false
	if ue, ok := uerr.(ucfg.Error); ok {
		if m := ue.Message(); !pct {
			if i := strings.LastIndex(m, "'"+want+"'"); i >= 0 {
				reasonPct = strings.Contains(m[:i], "%")
			}
		}
	}
	r.ClassIf(reasonPct && c.Meta != "", "% in the message text (not the name) and metadata")
	r.ClassIf(strings.ContainsAny(c.Meta, "%'\"{}$"), "source name with special characters")
	// delivery
	if d := c.Deliver; d != nil {
		r.Class("delivery=" + d.Mode)
		r.Class(fmt.Sprintf("delivery up=%d", d.Up))
		text := d.Mode == "resolver" || d.Mode == "splice"
		r.ClassIf(text && d.Up > 0, "fault inside a collection parsed from delivered text")
		r.ClassIf(text && d.Up > 0 && c.Meta != "", "fault inside a collection parsed from delivered text, with metadata")
		r.ClassIf(text && d.Up == 0, "faulted setting is itself parsed from delivered text")
		if d.Mode == "splice" {
			_, via := cutText(art.text, d.Pieces)
			for _, v := range via {
				r.Class("splice piece via " + v)
			}
		}
		if d.Mode == "cfgref" || d.Mode == "env" {
			which := "the setting that was read"
			if !strings.HasPrefix(named, want+"'") {
				which = "the setting holding the literal"
			}
			r.Class(fmt.Sprintf("delivery by reference (up=%d%s): the message names %s", min(d.Up, 1), map[bool]string{true: "+", false: ""}[d.Up > 0], which))
			demanded := d.Up == 0 && readerAtFault(c.Kind)
			r.ClassIf(demanded, "delivery by reference: the setting that is read is demanded (the reference is the faulted setting; value/target mismatch)")
			r.ClassIf(demanded && s.node == "leaf", "delivery by reference: the setting that is read is demanded, target kind "+s.td.Base())
			hops := d.HopsCfg
			if art.envExp {
				hops += d.HopsEnv
			}
			r.ClassIf(hops > 0, fmt.Sprintf("delivery by reference: chain of %d references", 1+hops))
			r.ClassIf(demanded && hops > 0, "delivery by reference: the setting that is read is demanded, chain of references")
			r.ClassIf(art.envExp, "delivery by reference: references inside the Env configuration")
			r.ClassIf(d.Nest != "", "delivery by reference: the literal is an element of a "+d.Nest)
		}
	} else {
		r.Class("delivery=literal")
	}
	if c.Kind == kRef && c.Ref != nil {
		_, _, shape := refFaultExpr(c.Ref, c.Payload, prefix, c.Path)
		r.Class("reference fault=" + shape)
		r.ClassIf(c.Ref.Splice, "reference fault inside a splice")
	}
	r.ClassIf(c.NoRes && len(art.res) == 0, "read without resolver")
	r.ClassIf(c.Outer, "merged into a configuration from another source")
	if rl := c.Reloc; rl != nil {
		for k := range relocClasses {
			r.Class(k)
		}
		r.Class(fmt.Sprintf("relocation: section %d level(s) above the fault", rl.Up))
		own := rl.Up == 0
		r.ClassIf(own, "relocation: the fault is reported for the moved section itself")
		r.ClassIf(own && c.Meta != "" && demand, "relocation: the fault is reported for the moved section itself, source demanded")
		r.ClassIf(own && c.Meta != "" && demand && rl.How != "setchild-meta" && rl.How != "merge", "relocation: ... attached by SetChild without MetaData")
		r.ClassIf(collectionFault(c.Kind), "relocation with a collection-level fault")
	}
	r.ClassIf(collectionFault(c.Kind), "collection-level fault")
	if c.Hist != nil {
		r.Class("history")
		for k := range histClasses {
			r.Class(k)
		}
		r.ClassIf(c.Hist.Outer, "history: the element before the moved configuration is removed from the outer list")
		r.ClassIf(collectionFault(c.Kind), "history with a collection-level fault")
	}
	if art.layered {
		r.Class("layers: the data is loaded as two inputs one after the other")
		r.ClassIf(art.spell != nil && art.spell.dotted > 0, "layers: two inputs with dotted keys")
		r.ClassIf(collectionFault(c.Kind), "layers with a collection-level fault")
	}
	if sp := art.spell; sp != nil && len(c.Spell) > 0 {
		r.Class("spelling: data re-spelled")
		r.ClassIf(sp.dotted > 0, "spelling: dotted keys")
		r.ClassIf(sp.implied > 0, "spelling: objects/lists implied by dotted keys only")
		r.ClassIf(sp.listNodes > 0, "spelling: list elements written by numeric segments")
		r.ClassIf(sp.piecewise > 0, "spelling: a container defined piecewise (nested and dotted mixed)")
		r.ClassIf(sp.dotted > 0 && collectionFault(c.Kind), "spelling: dotted keys with a collection-level fault")
		r.ClassIf(sp.dotted > 0 && collectionFault(c.Kind) && c.Meta != "", "spelling: dotted keys with a collection-level fault, with metadata")
		r.ClassIf(sp.dotted > 0 && c.Inject == "set", "spelling: dotted keys, then the fault through Set*/Remove")
		r.ClassIf(sp.dotted > 0 && c.Hist != nil, "spelling: dotted keys, then a history")
	}
	if c.Inject == "set" && storesValue(c.Kind) && c.SetMeta != "" {
		r.Class("value stored by Set* with source: " + c.SetMeta)
	}
	if u := c.Opts; u != nil {
		r.Class("options: varied")
		r.ClassIf(u.Reuse, "options: MetaData Option values reused across the calls of the case")
		r.ClassIf(u.Reuse && len(c.pool) > 1, "options: reused values for several sources")
		r.ClassIf(u.Dup != "", "options: two MetaData options per call ("+u.Dup+")")
		for _, m := range made {
			r.Class("options: bystander load (" + m.b.When + ", " + m.b.Call + ")")
			r.ClassIf(len(m.b.Opts) > 1, "options: bystander call with several MetaData options")
			reusedFirst := u.Reuse && len(m.b.Opts) > 1 && strings.HasPrefix(m.b.Opts[0], "$")
			r.ClassIf(reusedFirst, "options: bystander call with a reused MetaData option first and another after it")
			mine := reusedFirst && m.b.Opts[0] == "$meta" && c.Meta != "" && c.sourceOf(m.b.Opts[1]) != c.Meta && c.sourceOf(m.b.Opts[1]) != ""
			r.ClassIf(mine && demand, "options: ... the reused option of the faulted configuration's own source, followed by another source; source demanded")
			r.ClassIf(mine && demand && m.b.When != "last", "options: ... in a call made before the faulted configuration is loaded")
			r.ClassIf(m.source == "", "options: bystander whose last MetaData is empty")
		}
	}
	return nil
}

// readerAtFault: fault kinds that are a mismatch between a value and the target it is unpacked into.
func readerAtFault(kind string) bool {
	return kind == kUnparsable || kind == kRange || kind == kWrongCont || kind == kWrongPrim || kind == kValidator || kind == kReject
}

func isTyped(err error) bool { _, ok := err.(ucfg.Error); return ok }

// structValPayloads: values of the setting n that make the section fail as a whole: Validate() of the catalogue
// structs rejects 0, the Unpack method of the self-unpacking ones rejects 13.
func structValPayloads(td *gen.TD) []*gen.Tree {
	if isUnpacker(td) {
		return []*gen.Tree{gen.Int(13), gen.Uint(13), gen.Str("13")}
	}
	return []*gen.Tree{gen.Int(0), gen.Uint(0), gen.Str("0")}
}

func trimPath(path string, segs []string, n int) string {
	// path ends in the last n segments of segs: cut them off
	tail := "." + strings.Join(segs[len(segs)-n:], ".")
	return strings.TrimSuffix(path, tail)
}

func show(t *gen.Tree) string {
	if t == nil {
		return "-"
	}
	return fmt.Sprintf("%#v", t.Go())
}

var subFault = runlog.Register(&runlog.Sub[Case]{
	Name: "unpack-fault",
	Rule: "random struct type (reflect.StructOf: all primitive kinds, named variants, durations, regexps, pointers, slices, arrays, maps, nested/inline structs, dotted and derived config names, two catalogue structs with Validate; SELF-UNPACKING targets: before the value is drawn about a fifth of the bool/int*/uint*/float*/string leaves are replaced by a named type of that family implementing ucfg.BoolUnpacker/IntUnpacker/UintUnpacker/FloatUnpacker/StringUnpacker and a third of the catalogue structs by a struct {n} implementing ucfg.Unpacker (it interprets the generic data it receives with NewFrom+Unpack of its own: errors of that are relative to its temporary configuration and have no source), ucfg.ConfigUnpacker (Unpack of the *Config it receives) or the reflective rule (Unpack(*T) with T convertible from ucfg.Config); these occur at any depth, below pointers, lists, arrays and maps like every other kind) and a valid value of it; in 2/3 of the cases a third of the config names and map keys are replaced by names with format verbs (%, %d, %!v(x)), quotes, braces, blanks, tabs, backslashes, '$' and non-ASCII letters. value -> NewFrom gives a valid (config, type) pair (checked: the pair unpacks). ONE fault at a place chosen from the type descriptor: unparsable string (incl. texts with % that the reason echoes), out-of-range number (for durations: a number of seconds, integer or float, beyond what time.Duration holds), a value the Unpack method of a self-unpacking leaf type rejects (13 / 13.5 / 'reject...' as number or text; the method returns a plain error, or a ucfg.Error the library gave it for data of its own that names another setting and no source; for a self-unpacking struct the setting n = 13 makes Unpack reject the section - plain error or a library error about another name of the section), object/list for a primitive, primitive for an object, unresolvable reference (VarExp: missing variable, index out of range, self cycle, cycles of length 2 and 3 through auxiliary settings, reference into a cycle, path through a primitive, chain ending in a missing variable, ${x:?message}; plain or inside a splice; read with a resolver that knows nothing or without resolver), failing validate tag, required tag on a removed/nil setting, wrong fixed-array length, removed struct setting whose default fails Validate, a nonzero/required tag on a list of objects that loses all its elements (Remove one by one, or an empty list in the data), a present struct section one setting of which makes its Validate() fail (the section, or that setting, must be named); when a fault reported for a collection as a whole (array length, emptied list, struct Validate) is possible it is chosen in 1 of 4 cases; when places whose target is converted by code of its own (time.Duration, *regexp.Regexp, self-unpacking types) are candidates they are preferred in 1 of 4 cases. A fault below a self-unpacking struct section is reported through the section's Unpack method: the message must end in the path and source of the SECTION (the library names the setting that was unpacked after whatever the method returned) or of the faulted setting itself; faults at self-unpacking leaves are demanded like at any leaf - whether the conversion before Unpack fails (incl. every shape of unresolvable reference) or the method. Injected through Set*/SetChild/Remove (the Set* call naming the same source, another source or none) or by editing the generic dump and normalising again. DELIVERY (40% of the non-reference faults): the faulted value, or a collection 1..n levels above it with the fault inside, is replaced by a ${...} expression that evaluates to it at read time: reference to a literal elsewhere in the configuration, value of an Env configuration (for both: the literal is a top-level setting, element 1 of a list or a member of an object there; in half of the cases the reference does not lead to it directly but through 1-2 further settings of the configuration that are references themselves and/or, for Env, 1-2 settings of the Env configuration - loaded with VarExp - that refer to the next), text returned by a resolver (parse.DefaultConfig, EnvConfig or IgnoreCommas), text spliced from 1-4 pieces each of which is literal text, a resolver variable, an Env value, a ${missing:default} or a reference to a string literal; the text is rendered in JSON, single-quoted, bare-word or comma-list style and checked to parse back into the same data. Optionally merged below a key / into a list / appended / prepended first, into a configuration loaded from the same or another source; with and without MetaData (source names incl. %, quotes, braces). RELOCATION (40% of the literal faults): before the fault is read, the loaded section that holds it - the node 0..n levels above the faulted setting, level 0 (the faulted collection itself) in half of the cases where that is a container - is obtained with Child (a list element by numeric segment or by idx, and attached the same way) or captured in a *ucfg.Config field of a struct its parent is unpacked into, optionally attached to an unrelated configuration first (SetChild without MetaData), and then (a) put in place of the valid section of a second configuration of the same shape loaded from the same source, another source or none - by SetChild without MetaData, by SetChild naming a third source, or by removing the valid section and merging the child in below its path - after which the fault is read through the second configuration AND through the configuration the section was taken from, or (b) attached to an unrelated configuration (SetChild with or without MetaData) and read through the configuration it was taken from. Moving a section does not change where its settings were loaded from: path and source are demanded as without the move (for the section a SetChild call with MetaData attached, the source of that call is accepted as well; for missing settings any source involved). HISTORY (a third of the cases are meant to get one: three quarters of those put the struct inside a list of 1-4 objects or a list of such lists and the place of the fault is chosen below a list if there is one; it exists for literal faults whose place has a list on its path or whose configuration was merged into a list - about 10% of all cases; exclusive with RELOCATION): before the fault is read, 1-3 calls edit the lists the faulted setting lies in or is an element of (any list on its path but fixed-size arrays, outermost to innermost): Remove of an element before or behind it, Merge with PrependValues / AppendValues of one more element, Merge (default policy) of a list that covers the elements before it, Set*/SetChild behind the end of the list (also one position further, which pads the list), Set*/SetChild over another element; elements addressed by numeric segment, by (name, idx) or through the Child handle of the list (\"\", idx), merges made at the root of the configuration that is read or into the Child handle of the list; the editing calls name the source of the configuration, another source or none; added elements are copies of valid elements (none are added when the fault is a tag that copies would fail as well). For a configuration that was merged into a list (move=list/append/prepend) the element before it may also be removed from the outer list after its handle was obtained. The same history is applied to the valid pair first (it must stay valid). The path demanded is the CURRENT position of the setting (indices recomputed by a model of the edits), the source is still the one it was loaded from. SPELLING (40% of all cases): the generic data the configuration is normalised from (the dump of the valid configuration; for inject=set the fault is then applied through Set*/Remove) is re-written with PathSep in mind: every object and list is, by a decision stored in the case, written nested, or with all its children under dotted keys of the parent (\"a.b.c\", list elements by numeric segments \"l.0.x\"), or piecewise (some children in a nested literal, the others under dotted keys; list elements left out of a literal are nil there); decisions compose over all levels, so keys are fully or partly dotted and objects and lists on the way are implied by dotted keys only. LAYERS (20%): the entries of the (spelled) top-level input are distributed over two inputs that are loaded one after the other (NewFrom, then Merge with the same options; entries contributing to the same list stay together). OPTIONS (40% of all cases): Option values are treated as values. With reuse (4 of 5 of these) ONE MetaData Option value per source name is created for the case and passed to every call naming that source - the load of the valid pair, the load of the faulted configuration, Set*, merges, history edits, relocation and the bystanders - instead of a fresh one per call; in half of them every call naming a source S gets two MetaData options ([MetaData{decoy} (reused), MetaData{S}] or [MetaData{} , MetaData{S}]); and 0-3 BYSTANDER configurations (one out-of-range setting each) are loaded - before anything else, between the valid and the faulted build, or after the faulted configuration got its final shape - by NewFrom, Merge or SetInt with 1-3 MetaData options in any order drawn from the reused values (own source of the case, decoy, Set*/outer/history/relocation sources), fresh named ones and the empty MetaData{}. None of this changes where a setting was loaded from: the source demanded for the fault of the case is unchanged, and after it was read every bystander must still name its setting with the source of the LAST MetaData option of the call that loaded it (none if that one is empty; options apply in order - the behaviour of the library, asserted). Neither changes the content: path and source are demanded as computed from the type descriptor, and whenever the data was re-spelled or layered the naming found in the message (path and source) must be IDENTICAL to what the same case reports when its data is written nested and loaded at once. Unpack - and, for half of the cases where a typed getter can not succeed on the faulted setting (Bool/Int/Uint/Float/String by target kind, Child for objects; list elements addressed by numeric segment or by idx), that getter - must return a ucfg.Error with Reason and Class whose message ENDS in accessing|in field '<path>'<source> with the full dotted path computed from the descriptor and <source> = (source:'<name>') of the call that loaded the faulted value. The source is demanded for values loaded with MetaData (also after merges into a configuration from another source, and for the ${...} setting itself when it expands to the faulted value); it is optional for missing settings, for values stored by Set* without MetaData and for elements inside a collection parsed from delivered text. For a reference (or chain of references) to a literal / Env value: when the faulted setting IS the reference (the expression sits at the fault path) and the fault is a mismatch between the value and the target (unparsable, out of range, wrong type either way, validator, rejected by Unpack) the setting that is READ is demanded with its own source, whatever the target kind, however many references lead to the literal and wherever it lives (the target type belongs to the setting that is read; the referenced setting has none); for faults inside a referenced collection (expression above the fault path) and for collection-level faults both the setting that was read and the setting holding the literal (each with its own source) are accepted; intermediate references are never accepted. Non-trivial: path depth >= 2, or below list/map/pointer/inline field, or moved by a merge, or delivered through an expression, or read after a relocation of its section or after a history of list edits (option reuse alone does not make a case non-trivial). Distinct: hash of the case.",
	Gen:  genCase,
	Run:  runCase,
})

func TestUnpackFault(t *testing.T) { subFault.Check(t, 80000, 3000000) }

func TestReplay(t *testing.T) { runlog.ReplayMain(t) }
