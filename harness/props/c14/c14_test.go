// Package c14 decides property C14: every failure is a typed error that names
// the offending setting.
//
// Sub-check "unpack-fault": a valid (configuration, type) pair with exactly one
// fault injected at a known path; Unpack must fail with a ucfg.Error whose
// message quotes exactly that path (and the source, if the value was loaded
// with metadata).
// Sub-check "lowlevel" (lowlevel_test.go): faults hit through the getters,
// Has, Remove, CountField, Set*, Child.
package c14

import (
	"errors"
	"fmt"
	"math"
	"os"
	"reflect"
	"regexp"
	"strconv"
	"strings"
	"testing"
	"time"

	ucfg "github.com/elastic/go-ucfg"
	"github.com/elastic/go-ucfg/parse"
	"pgregory.net/rapid"

	"verif/harness/internal/gen"
	"verif/harness/internal/runlog"
	"verif/harness/internal/uc"
)

// ---------------------------------------------------------------------------
// catalogue types: structs whose zero value does not validate (finding D44)

// VStruct validates through a value receiver.
type VStruct struct {
	N int `config:"n"`
}

// Validate rejects the zero value.
func (v VStruct) Validate() error {
	if v.N == 0 {
		return errors.New("c14: n must not be zero")
	}
	return nil
}

// VPtr validates through a pointer receiver.
type VPtr struct {
	N int `config:"n"`
}

// Validate rejects the zero value.
func (v *VPtr) Validate() error {
	if v.N == 0 {
		return errors.New("c14: n must not be zero (ptr)")
	}
	return nil
}

var catKinds = []string{"cat:c14_v", "cat:c14_vp"}

func init() {
	shape := func() *gen.TD {
		return &gen.TD{Kind: "struct", Fields: []gen.FD{{Name: "N", Tag: "n", T: &gen.TD{Kind: "int"}}}}
	}
	gen.RegisterCat("c14_v", reflect.TypeOf(VStruct{}), shape())
	gen.RegisterCat("c14_vp", reflect.TypeOf(VPtr{}), shape())
}

func isCat(td *gen.TD) bool { return strings.HasPrefix(td.Kind, "cat:") }

// avoid reports whether the class of a finding has to be constructed away:
// it is open in known_findings.json, or named in VERIF_AVOID (comma separated;
// used for runs against trees that still have a defect whose finding is
// recorded as fixed, e.g. VERIF_AVOID=D45 on the pinned tree, where a named
// string field makes Unpack hang).
func avoid(id string) bool {
	if runlog.IsOpen(id) {
		return true
	}
	if id == "D45" && strings.HasSuffix(strings.TrimRight(os.Getenv("VERIF_REPO"), "/"), "ucfg-pinned") {
		return true // the unrepaired reference tree: Unpack into a named string type never returns
	}
	for _, f := range strings.Split(os.Getenv("VERIF_AVOID"), ",") {
		if strings.TrimSpace(f) == id {
			return true
		}
	}
	return false
}

// ---------------------------------------------------------------------------
// the case

// Fault kinds.
const (
	kUnparsable = "unparsable"     // string that does not parse into the number/bool/duration/regexp expected
	kRange      = "range"          // number outside the range of the target
	kWrongCont  = "wrong-type"     // object or list where a primitive is expected
	kWrongPrim  = "wrong-type-obj" // primitive where an object (struct, map, list of objects) is expected
	kRef        = "reference"      // ${name} that does not resolve (VarExp)
	kValidator  = "validator"      // a validate tag the (unchanged) setting fails
	kRequired   = "required"       // a `required` tag on a setting that is removed (or nil)
	kArrayLen   = "array-length"   // list whose length differs from the fixed array length
	kDefault    = "default"        // setting removed whose struct default fails Validate()
	kNone       = "none"           // the type offers no place for a fault (discarded)
)

var allKinds = []string{kUnparsable, kRange, kWrongCont, kWrongPrim, kRef, kValidator, kRequired, kArrayLen, kDefault}

// Case is a valid (type, value) pair plus one fault.
type Case struct {
	T       *gen.TD   `json:"t"`
	V       *gen.TV   `json:"v"`
	Kind    string    `json:"kind"`
	Path    []string  `json:"path"`              // config path of the faulted setting, relative to the struct; computed from the type descriptor
	Payload *gen.Tree `json:"payload,omitempty"` // the data put at Path
	Tag     string    `json:"tag,omitempty"`     // validate tag put on the field
	Shrink  bool      `json:"shrink,omitempty"`  // array-length: drop the last element instead of adding one
	Inject  string    `json:"inject"`            // set: through Set*/SetChild/Remove; data: generic dump of the config edited and normalised again
	Move    string    `json:"move,omitempty"`    // "" | key | list | append | prepend: how the config is merged into another one first
	Wrap    bool      `json:"wrap,omitempty"`    // Move=key: unpack the outer config into struct{Pre T} instead of the child into T
	After   bool      `json:"after,omitempty"`   // Inject=set and Move!="": inject into the moved child (else the fault is injected first and moved by the merge)
	Meta    string    `json:"meta,omitempty"`    // MetaData source name ("" = none)
}

// ---------------------------------------------------------------------------
// fault sites, computed from the type descriptor and the value

type feat struct {
	list, mapk, ptr, inline, dotted, emptyTag, cat bool
}

type site struct {
	path   []string
	node   string  // leaf struct map slice array cat
	td     *gen.TD // type of the node (pointers followed)
	tv     *gen.TV // its value; nil if absent
	absent bool    // reached through a nil pointer (or nil regexp): the config holds nil at path
	fd     *gen.FD // the struct field whose value the node is (through pointers); nil for elements of lists and maps
	direct bool    // fd != nil and no pointer in between
	tagOK  bool    // fd is a field of a generated struct type: its tag can be edited
	single bool    // fd has no other instance in the value (the struct is not replicated by a list or map)
	ft     feat
}

func nodeOf(td *gen.TD) string {
	switch {
	case isCat(td):
		return "cat"
	case td.IsLeaf():
		return "leaf"
	}
	return td.Kind
}

func appendPath(path []string, segs ...string) []string {
	return append(append([]string{}, path...), segs...)
}

func collect(td *gen.TD, tv *gen.TV, path []string, fd *gen.FD, direct, tagOK bool, ft feat, out *[]site) {
	switch {
	case td.Kind == "ptr":
		ft.ptr = true
		if tv == nil || tv.Nil {
			e := td
			for e.Kind == "ptr" {
				e = e.Elem
			}
			*out = append(*out, site{path: path, node: nodeOf(e), td: e, absent: true, fd: fd, tagOK: tagOK, ft: ft})
			return
		}
		collect(td.Elem, tv.Elems[0], path, fd, false, tagOK, ft, out)
	case td.IsLeaf():
		*out = append(*out, site{path: path, node: "leaf", td: td, tv: tv, absent: td.Kind == "regexp" && tv.Nil, fd: fd, direct: direct, tagOK: tagOK, ft: ft})
	case isCat(td):
		*out = append(*out, site{path: path, node: "cat", td: td, tv: tv, fd: fd, direct: direct, tagOK: tagOK, ft: ft})
		ft.cat = true
		collectFields(td.Shape(), tv, path, false, ft, out)
	case td.Kind == "struct":
		if len(path) > 0 {
			*out = append(*out, site{path: path, node: "struct", td: td, tv: tv, fd: fd, direct: direct, tagOK: tagOK, ft: ft})
		}
		collectFields(td, tv, path, true, ft, out)
	case td.Kind == "slice", td.Kind == "array":
		*out = append(*out, site{path: path, node: td.Kind, td: td, tv: tv, fd: fd, direct: direct, tagOK: tagOK, ft: ft})
		ft.list = true
		for i, e := range tv.Elems {
			collect(td.Elem, e, appendPath(path, strconv.Itoa(i)), nil, false, false, ft, out)
		}
	case td.Kind == "map":
		*out = append(*out, site{path: path, node: "map", td: td, tv: tv, fd: fd, direct: direct, tagOK: tagOK, ft: ft})
		ft.mapk = true
		for i, e := range tv.Elems {
			collect(td.Elem, e, appendPath(path, tv.Keys[i]), nil, false, false, ft, out)
		}
	}
}

func collectFields(st *gen.TD, tv *gen.TV, path []string, tagOK bool, ft feat, out *[]site) {
	for i := range st.Fields {
		f := &st.Fields[i]
		if f.Ignore || f.Unexp {
			continue
		}
		var fv *gen.TV
		if tv != nil && i < len(tv.Elems) {
			fv = tv.Elems[i]
		}
		if f.Inline {
			ift := ft
			ift.inline = true
			collectFields(f.T, fv, path, tagOK, ift, out)
			continue
		}
		fft := ft
		segs := strings.Split(f.ConfigName(), ".")
		if len(segs) > 1 {
			fft.dotted = true
		}
		if f.Tag == "" {
			fft.emptyTag = true
		}
		collect(f.T, fv, appendPath(path, segs...), f, true, tagOK, fft, out)
	}
}

func sitesOf(td *gen.TD, tv *gen.TV) []site {
	var out []site
	collect(td, tv, nil, nil, false, false, feat{}, &out)
	// a struct type below a list or map has one instance of each field per
	// element: a tag put on the field applies to all of them
	inst := map[*gen.FD]int{}
	for i := range out {
		if out[i].fd != nil {
			inst[out[i].fd]++
		}
	}
	for i := range out {
		out[i].single = out[i].fd != nil && inst[out[i].fd] == 1
	}
	return out
}

// passesRequired: the documented meaning of `required` for a present leaf.
func passesRequired(td *gen.TD, tv *gen.TV) bool {
	switch b := td.Base(); {
	case isIntBase(b), b == "dur":
		return tv.I != 0
	case isUintBase(b):
		return tv.U != 0
	case isFloatBase(b):
		return floatOf(tv.F) != 0
	case b == "string", b == "regexp":
		return tv.S != ""
	}
	return true
}

func throughPtr(td *gen.TD) *gen.TD {
	for td.Kind == "ptr" {
		td = td.Elem
	}
	return td
}

func floatOf(s string) float64 {
	if s == "" {
		return 0
	}
	f, err := strconv.ParseFloat(s, 64)
	if err != nil {
		panic("c14: bad float in case: " + s)
	}
	return f
}

func intBits(base string) int {
	switch base {
	case "int8", "uint8":
		return 8
	case "int16", "uint16":
		return 16
	case "int32", "uint32":
		return 32
	}
	return 64
}

func isIntBase(b string) bool {
	return b == "int" || b == "int8" || b == "int16" || b == "int32" || b == "int64"
}
func isUintBase(b string) bool {
	return b == "uint" || b == "uint8" || b == "uint16" || b == "uint32" || b == "uint64"
}
func isFloatBase(b string) bool { return b == "float32" || b == "float64" }

// tagsFor lists validate tags the present value of a leaf fails, following the
// documented meaning of the tags only (nonzero: numbers, durations, strings;
// positive: signed numbers and durations; min/max: numbers and durations;
// required: numbers, strings, regular expressions).
func tagsFor(td *gen.TD, tv *gen.TV) []string {
	var tags []string
	switch b := td.Base(); {
	case isIntBase(b):
		v := tv.I
		if v < math.MaxInt64 {
			tags = append(tags, fmt.Sprintf("min=%d", v+1))
		}
		if v > math.MinInt64 {
			tags = append(tags, fmt.Sprintf("max=%d", v-1))
		}
		if v < 0 {
			tags = append(tags, "positive")
		}
		if v == 0 {
			tags = append(tags, "nonzero", "required")
		}
	case isUintBase(b):
		v := tv.U
		if v < math.MaxUint64 {
			tags = append(tags, fmt.Sprintf("min=%d", v+1))
		}
		if v > 0 {
			tags = append(tags, fmt.Sprintf("max=%d", v-1))
		}
		if v == 0 {
			tags = append(tags, "nonzero", "required")
		}
	case isFloatBase(b):
		f := floatOf(tv.F)
		if math.IsNaN(f) {
			return nil // every comparison with NaN is false; the documentation does not say what that means
		}
		if f < 1e300 {
			tags = append(tags, "min=1e301")
		}
		if f > -1e300 {
			tags = append(tags, "max=-1e301")
		}
		if f < 0 {
			tags = append(tags, "positive")
		}
		if f == 0 {
			tags = append(tags, "nonzero", "required")
		}
	case b == "dur":
		d := tv.I
		if d < math.MaxInt64 {
			tags = append(tags, "min="+time.Duration(d+1).String())
		}
		if d > math.MinInt64 {
			tags = append(tags, "max="+time.Duration(d-1).String())
		}
		if d < 0 {
			tags = append(tags, "positive")
		}
		if d == 0 {
			tags = append(tags, "nonzero")
		}
	case td.Kind == "string":
		if tv.S == "" {
			tags = append(tags, "nonzero", "required")
		}
	case b == "regexp":
		if tv.S == "" && !tv.Nil {
			tags = append(tags, "nonzero", "required")
		}
	}
	return tags
}

// kindsFor lists the fault kinds applicable at a site.
func kindsFor(s *site) []string {
	var ks []string
	switch s.node {
	case "leaf":
		b := s.td.Base()
		if b != "string" {
			ks = append(ks, kUnparsable)
		}
		if len(rangePayloads(b)) > 0 {
			ks = append(ks, kRange)
		}
		if b != "regexp" {
			// an object is unpacked into the (field-less) struct regexp.Regexp
			// without complaint; the documentation asks for a string but this is
			// not about the typing of errors
			ks = append(ks, kWrongCont)
		}
		ks = append(ks, kRef)
		if s.fd != nil && s.tagOK {
			// the tag is the fault: no other instance of the field may exist
			if s.single && !s.absent && len(tagsFor(s.td, s.tv)) > 0 {
				ks = append(ks, kValidator)
			}
			if b != "bool" && s.td.Kind != "named:string" {
				switch {
				case s.absent && s.single:
					ks = append(ks, kRequired) // nil pointer: the tag is the fault
				case !s.absent && passesRequired(s.td, s.tv):
					ks = append(ks, kRequired) // the removal is the fault; run checks that the tag alone is harmless
				}
			}
		}
	case "struct", "map", "cat":
		ks = append(ks, kWrongPrim)
		if s.node == "cat" && s.direct {
			ks = append(ks, kDefault)
		}
	case "slice":
		switch e := throughPtr(s.td.Elem); {
		case e.Kind == "struct", e.Kind == "map", isCat(e):
			ks = append(ks, kWrongPrim)
		}
	case "array":
		if !s.absent {
			ks = append(ks, kArrayLen)
		}
	}
	return ks
}

func rangePayloads(base string) []*gen.Tree {
	bits := intBits(base)
	switch {
	case isIntBase(base):
		if bits < 64 {
			max := int64(1)<<(bits-1) - 1
			return []*gen.Tree{gen.Uint(uint64(max) + 1), gen.Int(-max - 2), gen.Float(1e30), gen.Str(strconv.FormatInt(max+1, 10))}
		}
		return []*gen.Tree{gen.Uint(1 << 63), gen.Float(1e30), gen.Float(-1e30), gen.Str("9223372036854775808")}
	case isUintBase(base):
		if bits < 64 {
			max := uint64(1)<<bits - 1
			return []*gen.Tree{gen.Uint(max + 1), gen.Int(-1), gen.Float(-2.5), gen.Str(strconv.FormatUint(max+1, 10))}
		}
		return []*gen.Tree{gen.Int(-1), gen.Float(1e30), gen.Float(-2.5), gen.Str("18446744073709551616")}
	case base == "float32":
		return []*gen.Tree{gen.Float(1e300), gen.Float(-1e300), gen.Str("1e300")}
	}
	return nil
}

func unparsablePayloads(base string) []string {
	switch {
	case isIntBase(base), isUintBase(base):
		return []string{"zz!", "1.5", "", "12a"}
	case isFloatBase(base):
		return []string{"zz!", "", "1.5.2"}
	case base == "bool":
		return []string{"zz!", "", "2"}
	case base == "dur":
		return []string{"1 parsec", "", "abc", "5"}
	case base == "regexp":
		return []string{"(", "[a"}
	}
	return nil
}

var (
	contPayloads = []*gen.Tree{
		gen.Obj().Put("x", gen.Uint(1)),
		gen.Obj().Put("a", gen.Obj().Put("b", gen.Str("s"))),
		gen.List(gen.Uint(1), gen.Uint(2)),
		gen.List(gen.Str("a"), gen.Str("b")),
		gen.List(gen.Obj().Put("x", gen.Uint(1)), gen.Uint(2)),
	}
	primPayloads = []*gen.Tree{gen.Uint(7), gen.Str("str"), gen.Bool(true), gen.Float(1.5), gen.Int(-3)}
	refPayloads  = []string{"${nope}", "${zz.yy}", "${nope.0}", "a${nope}b"}
)

// ---------------------------------------------------------------------------
// generator

func replaceKind(td *gen.TD, from, to string) {
	if td == nil {
		return
	}
	if td.Kind == from {
		td.Kind = to
	}
	replaceKind(td.Elem, from, to)
	for i := range td.Fields {
		replaceKind(td.Fields[i].T, from, to)
	}
}

// fixValues makes the drawn value valid for the catalogue types (their zero
// value does not validate) and, if noDollar is set, removes '$' from all
// strings (the configuration is then built with VarExp).
func fixValues(td *gen.TD, tv *gen.TV, noDollar bool) {
	if tv == nil {
		return
	}
	if noDollar {
		tv.S = strings.ReplaceAll(tv.S, "$", "S")
	}
	sh := td.Shape()
	if isCat(td) && len(tv.Elems) > 0 && tv.Elems[0].I == 0 {
		tv.Elems[0].I = 3
	}
	switch sh.Kind {
	case "ptr":
		if !tv.Nil && len(tv.Elems) > 0 {
			fixValues(sh.Elem, tv.Elems[0], noDollar)
		}
	case "slice", "array", "map":
		for _, e := range tv.Elems {
			fixValues(sh.Elem, e, noDollar)
		}
	case "struct":
		for i := range sh.Fields {
			if i < len(tv.Elems) {
				fixValues(sh.Fields[i].T, tv.Elems[i], noDollar)
			}
		}
	}
}

func genCase(t *rapid.T) Case {
	cfg := &gen.TDCfg{
		MaxFields: runlog.Pick(4, 5), Named: true, Inline: true, Ignore: true, EmptyTag: true, Dotted: true,
		PtrToArray: !avoid("D26"), Cats: catKinds,
	}
	c := Case{}
	c.T = gen.GenStructTD(t, cfg, runlog.Pick(3, 4))
	hasSite := false
	for i := range c.T.Fields {
		hasSite = hasSite || !(c.T.Fields[i].Ignore || c.T.Fields[i].Unexp)
	}
	if !hasSite {
		// every field is ignored or unexported: the configuration would be empty
		c.T.Fields = append(c.T.Fields, gen.FD{Name: "Fx", Tag: "fx", T: &gen.TD{Kind: gen.GenLeafKind(t, cfg)}})
	}
	if avoid("D45") {
		replaceKind(c.T, "named:string", "string")
	}
	c.V = gen.GenTV(t, cfg, c.T, false)
	// the shared generator draws mostly flat types: put the struct below a
	// named field, list, map, pointer, array or inline field of a new root
	if w := rapid.IntRange(0, 9).Draw(t, "nest"); w >= 4 {
		inner, innerV := c.T, c.V
		more := func() *gen.TV { return gen.GenTV(t, cfg, inner, true) }
		f := gen.FD{Name: "W", Tag: "w", T: inner}
		fv := innerV
		switch w {
		case 5:
			f.T = &gen.TD{Kind: "slice", Elem: inner}
			fv = &gen.TV{Elems: []*gen.TV{innerV}}
			if rapid.Bool().Draw(t, "two") {
				fv.Elems = append(fv.Elems, more())
			}
		case 6:
			f.T = &gen.TD{Kind: "map", Elem: inner}
			fv = &gen.TV{Keys: []string{rapid.SampledFrom([]string{"k", "a b", "$", "x,y", "é"}).Draw(t, "wkey")}, Elems: []*gen.TV{innerV}}
			if rapid.Bool().Draw(t, "two") {
				fv.Keys = append(fv.Keys, "j")
				fv.Elems = append(fv.Elems, more())
			}
		case 7:
			f.T = &gen.TD{Kind: "ptr", Elem: inner}
			fv = &gen.TV{Elems: []*gen.TV{innerV}}
		case 8:
			f.T = &gen.TD{Kind: "array", N: 2, Elem: inner}
			fv = &gen.TV{Elems: []*gen.TV{more(), innerV}}
		case 9:
			f.Inline, f.Tag = true, ""
		}
		c.T = &gen.TD{Kind: "struct", Fields: []gen.FD{{Name: "V", Tag: "v", T: &gen.TD{Kind: "int"}}, f}}
		c.V = &gen.TV{Elems: []*gen.TV{{I: 1}, fv}}
	}
	fixValues(c.T, c.V, false)

	sites := sitesOf(c.T, c.V)
	byKind := map[string][]int{}
	for i := range sites {
		for _, k := range kindsFor(&sites[i]) {
			byKind[k] = append(byKind[k], i)
		}
	}
	var avail []string
	for _, k := range allKinds {
		if k == kDefault && avoid("D44") {
			continue // class of finding D44, constructed away while it is open
		}
		if len(byKind[k]) > 0 {
			avail = append(avail, k)
		}
	}
	c.Meta = rapid.SampledFrom([]string{"", "file.yml", "my src"}).Draw(t, "meta")
	c.Move = rapid.SampledFrom([]string{"", "", "key", "list", "append", "prepend"}).Draw(t, "move")
	if c.Move == "key" {
		c.Wrap = rapid.Bool().Draw(t, "wrap")
	}
	c.Inject = rapid.SampledFrom([]string{"set", "data"}).Draw(t, "inject")
	if c.Inject == "set" && c.Move != "" {
		c.After = rapid.IntRange(0, 2).Draw(t, "after") == 0
	}
	if len(avail) == 0 {
		c.Kind = kNone
		return c
	}
	c.Kind = rapid.SampledFrom(avail).Draw(t, "kind")
	// prefer places the non-trivial rule is about: deep, or below a list, map or pointer
	cands := byKind[c.Kind]
	var deep []int
	for _, i := range cands {
		if ft := sites[i].ft; len(sites[i].path) >= 2 || ft.list || ft.mapk || ft.ptr {
			deep = append(deep, i)
		}
	}
	if len(deep) > 0 && rapid.IntRange(0, 3).Draw(t, "deep") > 0 {
		cands = deep
	}
	s := &sites[rapid.SampledFrom(cands).Draw(t, "site")]
	c.Path = s.path
	base := s.td.Base()
	switch c.Kind {
	case kUnparsable:
		c.Payload = gen.Str(rapid.SampledFrom(unparsablePayloads(base)).Draw(t, "bad"))
	case kRange:
		c.Payload = rapid.SampledFrom(rangePayloads(base)).Draw(t, "big").Clone()
	case kWrongCont:
		c.Payload = rapid.SampledFrom(contPayloads).Draw(t, "cont").Clone()
	case kWrongPrim:
		c.Payload = rapid.SampledFrom(primPayloads).Draw(t, "prim").Clone()
	case kRef:
		c.Payload = gen.Str(rapid.SampledFrom(refPayloads).Draw(t, "ref"))
		c.Inject = "data" // Set* does not parse variable expressions
		c.After = false
		fixValues(c.T, c.V, true)
	case kValidator:
		c.Tag = rapid.SampledFrom(tagsFor(s.td, s.tv)).Draw(t, "tag")
	case kRequired:
		c.Tag = "required"
	case kArrayLen:
		c.Shrink = s.td.N > 0 && rapid.Bool().Draw(t, "shrink")
		c.Payload = gen.Uint(1)
	}
	return c
}

// ---------------------------------------------------------------------------
// building the faulted configuration

func cloneTD(td *gen.TD) *gen.TD {
	if td == nil {
		return nil
	}
	c := *td
	c.Elem = cloneTD(td.Elem)
	c.Fields = nil
	for _, f := range td.Fields {
		f.T = cloneTD(f.T)
		c.Fields = append(c.Fields, f)
	}
	return &c
}

func samePath(a, b []string) bool {
	if len(a) != len(b) {
		return false
	}
	for i := range a {
		if a[i] != b[i] {
			return false
		}
	}
	return true
}

func setPrim(cfg *ucfg.Config, name string, idx int, p *gen.Tree, opts []ucfg.Option) error {
	switch p.K {
	case "bool":
		return cfg.SetBool(name, idx, p.B, opts...)
	case "int":
		return cfg.SetInt(name, idx, p.I, opts...)
	case "uint":
		return cfg.SetUint(name, idx, p.U, opts...)
	case "float":
		return cfg.SetFloat(name, idx, p.FloatVal(), opts...)
	case "str":
		return cfg.SetString(name, idx, p.S, opts...)
	}
	return fmt.Errorf("harness: payload %q is no primitive", p.K)
}

// errDiscard marks cases outside the precondition (the harness could not
// build the faulted configuration as intended).
type errDiscard struct{ why string }

func (e errDiscard) Error() string { return e.why }

// injectSet applies the fault through the path-addressed API.
func injectSet(cfg *ucfg.Config, c *Case, s *site, opts []ucfg.Option) error {
	name := strings.Join(c.Path, ".")
	switch c.Kind {
	case kUnparsable, kRange, kWrongPrim:
		return setPrim(cfg, name, -1, c.Payload, opts)
	case kWrongCont:
		child, err := ucfg.NewFrom(c.Payload.Go(), opts...)
		if err != nil {
			return err
		}
		return cfg.SetChild(name, -1, child, opts...)
	case kArrayLen:
		if c.Shrink {
			ok, err := cfg.Remove(name, s.td.N-1, opts...)
			if err == nil && !ok {
				return errDiscard{"last array element not found"}
			}
			return err
		}
		return setPrim(cfg, name, s.td.N, c.Payload, opts)
	case kRequired, kDefault:
		if s.absent {
			return nil
		}
		ok, err := cfg.Remove(name, -1, opts...)
		if err == nil && !ok {
			return errDiscard{"setting to remove not found"}
		}
		return err
	case kValidator:
		return nil
	}
	return fmt.Errorf("harness: fault kind %q can not be injected through Set*", c.Kind)
}

// editData applies f to the node at path of generic data and returns the new root.
func editData(node interface{}, path []string, f func(old interface{}, present bool) (v interface{}, del bool)) (interface{}, error) {
	if len(path) == 0 {
		v, _ := f(node, true)
		return v, nil
	}
	seg := path[0]
	switch n := node.(type) {
	case map[string]interface{}:
		old, present := n[seg]
		if len(path) == 1 {
			v, del := f(old, present)
			if del {
				delete(n, seg)
			} else {
				n[seg] = v
			}
			return n, nil
		}
		if !present {
			return nil, errDiscard{"data walk: key " + seg + " missing"}
		}
		v, err := editData(old, path[1:], f)
		if err != nil {
			return nil, err
		}
		n[seg] = v
		return n, nil
	case []interface{}:
		i, err := strconv.Atoi(seg)
		if err != nil || i < 0 || i >= len(n) {
			return nil, errDiscard{"data walk: index " + seg + " missing"}
		}
		if len(path) == 1 {
			v, del := f(n[i], true)
			if del {
				return nil, errDiscard{"data walk: can not delete list element"}
			}
			n[i] = v
			return n, nil
		}
		v, err := editData(n[i], path[1:], f)
		if err != nil {
			return nil, err
		}
		n[i] = v
		return n, nil
	}
	return nil, errDiscard{fmt.Sprintf("data walk: %T at %s", node, seg)}
}

// injectData applies the fault to the generic dump of the configuration.
func injectData(data interface{}, c *Case, s *site) (interface{}, error) {
	switch c.Kind {
	case kUnparsable, kRange, kWrongPrim, kWrongCont, kRef:
		return editData(data, c.Path, func(interface{}, bool) (interface{}, bool) { return c.Payload.Go(), false })
	case kArrayLen:
		var bad error
		out, err := editData(data, c.Path, func(old interface{}, _ bool) (interface{}, bool) {
			l, ok := old.([]interface{})
			if !ok && old != nil {
				bad = errDiscard{fmt.Sprintf("data walk: array is dumped as %T", old)}
				return old, false
			}
			if c.Shrink {
				if len(l) == 0 {
					bad = errDiscard{"data walk: empty array"}
					return old, false
				}
				return append([]interface{}{}, l[:len(l)-1]...), false
			}
			return append(append([]interface{}{}, l...), c.Payload.Go()), false
		})
		if bad != nil {
			return nil, bad
		}
		return out, err
	case kRequired, kDefault:
		if s.absent {
			return data, nil
		}
		return editData(data, c.Path, func(interface{}, bool) (interface{}, bool) { return nil, true })
	case kValidator:
		return data, nil
	}
	return nil, fmt.Errorf("harness: unknown fault kind %q", c.Kind)
}

var errNoVar = errors.New("c14: no such variable")

// failingResolver makes unresolved references an error independently of
// finding D8 (no resolver configured: missing references become "").
func failingResolver(string) (string, parse.Config, error) { return "", parse.DefaultConfig, errNoVar }

// build creates the configuration to unpack: the value normalised, optionally
// dumped and normalised again, the fault injected (if fault is set), then
// moved into another configuration. It returns the config to unpack from and
// the path prefix the move added.
func build(c *Case, s *site, fault bool) (*ucfg.Config, []string, error) {
	opts := []ucfg.Option{ucfg.PathSep(".")}
	if c.Meta != "" {
		opts = append(opts, ucfg.MetaData(ucfg.Meta{Source: c.Meta}))
	}
	in := c.T.New(c.V)
	cfg, err := ucfg.NewFrom(in.Interface(), opts...)
	if err != nil {
		return nil, nil, fmt.Errorf("NewFrom(value): %v", err)
	}
	if c.Inject == "data" {
		data, err := uc.Dump(cfg, opts...)
		if err != nil {
			return nil, nil, fmt.Errorf("dump: %v", err)
		}
		if data == nil {
			data = map[string]interface{}{}
		}
		nopts := opts
		if fault {
			if data, err = injectData(data, c, s); err != nil {
				return nil, nil, err
			}
			if c.Kind == kRef {
				nopts = append(append([]ucfg.Option{}, opts...), ucfg.VarExp)
			}
		}
		if cfg, err = ucfg.NewFrom(data, nopts...); err != nil {
			return nil, nil, fmt.Errorf("NewFrom(data): %v", err)
		}
	}
	setFault := func(into *ucfg.Config) error {
		err := injectSet(into, c, s, opts)
		if _, ok := err.(errDiscard); ok || err == nil {
			return err
		}
		return fmt.Errorf("inject: %v", err)
	}
	after := c.After && c.Inject == "set" && c.Move != ""
	if fault && c.Inject == "set" && !after {
		if err := setFault(cfg); err != nil {
			return nil, nil, err
		}
	}
	fault = fault && after // what is left to do once the config has been moved

	filler := map[string]interface{}{"x": 1}
	var prefix []string
	switch c.Move {
	case "":
		return cfg, nil, nil
	case "key":
		outer := ucfg.New()
		if err := outer.Merge(map[string]interface{}{"pre": cfg}, opts...); err != nil {
			return nil, nil, fmt.Errorf("move: %v", err)
		}
		ch, err := outer.Child("pre", -1, opts...)
		if err != nil {
			return nil, nil, fmt.Errorf("move: %v", err)
		}
		if fault {
			if err := setFault(ch); err != nil {
				return nil, nil, err
			}
		}
		if c.Wrap {
			return outer, []string{"pre"}, nil
		}
		return ch, []string{"pre"}, nil
	case "list":
		outer := ucfg.New()
		if err := outer.Merge(map[string]interface{}{"pre": []interface{}{1, cfg}}, opts...); err != nil {
			return nil, nil, fmt.Errorf("move: %v", err)
		}
		cfg, prefix = outer, []string{"pre", "1"}
	case "append":
		outer, err := ucfg.NewFrom(map[string]interface{}{"pre": []interface{}{filler}}, opts...)
		if err != nil {
			return nil, nil, fmt.Errorf("move: %v", err)
		}
		aopts := append(append([]ucfg.Option{}, opts...), ucfg.AppendValues)
		if err := outer.Merge(map[string]interface{}{"pre": []interface{}{cfg}}, aopts...); err != nil {
			return nil, nil, fmt.Errorf("move: %v", err)
		}
		cfg, prefix = outer, []string{"pre", "1"}
	case "prepend":
		outer, err := ucfg.NewFrom(map[string]interface{}{"pre": []interface{}{cfg}}, opts...)
		if err != nil {
			return nil, nil, fmt.Errorf("move: %v", err)
		}
		popts := append(append([]ucfg.Option{}, opts...), ucfg.PrependValues)
		if err := outer.Merge(map[string]interface{}{"pre": []interface{}{filler}}, popts...); err != nil {
			return nil, nil, fmt.Errorf("move: %v", err)
		}
		cfg, prefix = outer, []string{"pre", "1"}
	default:
		return nil, nil, fmt.Errorf("harness: unknown move %q", c.Move)
	}
	ch, err := cfg.Child("pre", 1, opts...)
	if err != nil {
		return nil, nil, fmt.Errorf("move: %v", err)
	}
	if fault {
		if err := setFault(ch); err != nil {
			return nil, nil, err
		}
	}
	return ch, prefix, nil
}

// ---------------------------------------------------------------------------
// oracle

// the setting named by a message: "... accessing '<path>'" or "... in field
// '<path>'", optionally followed by the source (error.go).
var namedRe = regexp.MustCompile(`(?s)(?: accessing| in field) '([^']*)'( \(source:'[^']*'\))?$`)

// checkError verifies that err is a typed error naming path (and source).
func checkError(err error, path string, source string) error {
	ue, ok := err.(ucfg.Error)
	if !ok {
		return fmt.Errorf("error is no ucfg.Error but %T: %v", err, err)
	}
	if ue.Reason() == nil {
		return fmt.Errorf("Reason() of the error is nil: %v", err)
	}
	if ue.Class() == nil {
		return fmt.Errorf("Class() of the error is nil: %v", err)
	}
	if path == "" {
		return nil
	}
	msg := ue.Error()
	if i := strings.Index(msg, "\nTrace:"); i >= 0 {
		msg = msg[:i]
	}
	m := namedRe.FindStringSubmatch(msg)
	if m == nil {
		return fmt.Errorf("the message names no setting (want '%s'): %q", path, msg)
	}
	if m[1] != path {
		return fmt.Errorf("the message names '%s', the fault is at '%s': %q", m[1], path, msg)
	}
	if p := ue.Path(); p != "" && p != path {
		return fmt.Errorf("Path() of the error is %q, the fault is at %q: %q", p, path, msg)
	}
	if source != "" && !strings.Contains(msg, "(source:'"+source+"')") {
		return fmt.Errorf("the message lacks the source (source:'%s'): %q", source, msg)
	}
	return nil
}

func unpackOpts() []ucfg.Option {
	return []ucfg.Option{ucfg.PathSep("."), ucfg.Resolve(failingResolver)}
}

func targetType(td *gen.TD, wrap bool) reflect.Type {
	if !wrap {
		return td.Type()
	}
	return reflect.StructOf([]reflect.StructField{{Name: "Pre", Type: td.Type(), Tag: `config:"pre"`}})
}

func runCase(c Case, r *runlog.R) error {
	if c.Kind == kNone || c.T == nil {
		r.Class("no fault site")
		r.Discard()
		return nil
	}
	td := cloneTD(c.T)
	var s *site
	sites := sitesOf(td, c.V)
	for i := range sites {
		if !samePath(sites[i].path, c.Path) {
			continue
		}
		for _, k := range kindsFor(&sites[i]) {
			if k == c.Kind {
				s = &sites[i]
			}
		}
	}
	if s == nil {
		// the path stored in the case is not a place of the type where this
		// kind of fault applies (possible in hand-written cases only)
		r.Class("stale fault path")
		r.Discard()
		return nil
	}

	if c.Tag != "" {
		if s.fd == nil || !s.tagOK {
			r.Class("stale fault path")
			r.Discard()
			return nil
		}
		s.fd.Validate = c.Tag // s.fd points into td, the private copy
	}

	// precondition: without the fault the pair is valid. If the fault is the
	// removal of a required setting, the tag is part of the valid pair (it
	// applies to every instance of the field).
	baseT := c.T
	if c.Kind == kRequired && !s.absent {
		baseT = td
	}
	base, _, err := build(&c, s, false)
	if err == nil {
		out := reflect.New(targetType(baseT, c.Wrap && c.Move == "key"))
		err = uc.Safe("Unpack", func() error { return base.Unpack(out.Interface(), unpackOpts()...) })
	}
	if err != nil {
		r.Class("discard: pair invalid without the fault")
		r.Discard()
		return nil
	}

	var cfg *ucfg.Config
	var prefix []string
	err = uc.Safe("building the faulted configuration", func() (e error) { cfg, prefix, e = build(&c, s, true); return })
	if err != nil {
		if d, ok := err.(errDiscard); ok {
			r.Class("discard: " + strings.SplitN(d.why, ":", 2)[0])
			r.Discard()
			return nil
		}
		// the fault may be rejected while the configuration is built; that is
		// a failure reported by the API as well
		return fmt.Errorf("building the configuration with the fault failed: %v", err)
	}

	want := strings.Join(append(append([]string{}, prefix...), c.Path...), ".")
	typ := targetType(td, c.Wrap && c.Move == "key")
	out := reflect.New(typ)
	uerr := uc.Safe("Unpack", func() error { return cfg.Unpack(out.Interface(), unpackOpts()...) })
	if uerr == nil {
		return fmt.Errorf("fault %s at '%s' not reported: Unpack returned nil\n type %v\n case kind=%s payload=%v tag=%q", c.Kind, want, typ, c.Kind, show(c.Payload), c.Tag)
	}
	if strings.Contains(uerr.Error(), "panicked") && !isTyped(uerr) {
		return uerr
	}
	// a setting that is missing was not loaded from anywhere: no source demanded
	source := c.Meta
	if c.Kind == kRequired || c.Kind == kDefault {
		source = ""
	}
	if err := checkError(uerr, want, source); err != nil {
		return fmt.Errorf("%v\n fault %s at '%s' (inject=%s move=%s wrap=%v after=%v meta=%q payload=%v tag=%q)\n type %v", err, c.Kind, want, c.Inject, c.Move, c.Wrap, c.After, c.Meta, show(c.Payload), c.Tag, typ)
	}

	moved := c.Move != ""
	r.NonTrivialIf(len(c.Path) >= 2 || s.ft.list || s.ft.mapk || s.ft.ptr || s.ft.inline || moved)
	r.Class("kind=" + c.Kind)
	r.Class("node=" + s.node)
	r.Class("inject=" + c.Inject)
	r.Class("move=" + map[bool]string{true: c.Move, false: "none"}[moved])
	r.Class(fmt.Sprintf("depth=%d", len(c.Path)))
	r.ClassIf(c.Wrap, "unpacked through a wrapping struct")
	r.ClassIf(c.After && c.Inject == "set" && moved, "fault injected after the move")
	r.ClassIf(c.Meta != "", "with metadata")
	r.ClassIf(s.ft.list, "below list")
	r.ClassIf(s.ft.mapk, "below map")
	r.ClassIf(s.ft.ptr, "below pointer")
	r.ClassIf(s.ft.inline, "below inline field")
	r.ClassIf(s.ft.dotted, "dotted config name")
	r.ClassIf(s.ft.emptyTag, "derived config name")
	r.ClassIf(s.ft.cat, "inside catalogue type")
	r.ClassIf(s.absent, "nil in the valid config")
	if s.node == "leaf" {
		r.Class("leaf=" + s.td.Base())
	}
	if ue, ok := uerr.(ucfg.Error); ok && ue.Trace() != "" {
		r.Class("critical error (with trace)")
	}
	return nil
}

func isTyped(err error) bool { _, ok := err.(ucfg.Error); return ok }

func show(t *gen.Tree) string {
	if t == nil {
		return "-"
	}
	return fmt.Sprintf("%#v", t.Go())
}

var subFault = runlog.Register(&runlog.Sub[Case]{
	Name: "unpack-fault",
	Rule: "random struct type (reflect.StructOf: all primitive kinds, named variants, durations, regexps, pointers, slices, arrays, maps, nested/inline structs, dotted and derived config names, two catalogue structs with Validate) and a valid value of it; value -> NewFrom gives a valid (config, type) pair (checked: the pair unpacks). ONE fault at a place chosen from the type descriptor: unparsable string, out-of-range number, object/list for a primitive, primitive for an object, unresolvable ${ref} (VarExp), failing validate tag, required tag on a removed/nil setting, wrong fixed-array length, removed struct setting whose default fails Validate. Injected through Set*/SetChild/Remove or by editing the generic dump and normalising again; optionally merged below a key / into a list / appended / prepended first; with and without MetaData. Unpack must return a ucfg.Error with Reason and Class whose message ends in accessing|in field '<path>' [(source:'<name>')] with the path computed from the descriptor. Non-trivial: path depth >= 2, or below list/map/pointer/inline field, or moved by a merge. Distinct: hash of the case.",
	Gen:  genCase,
	Run:  runCase,
})

func TestUnpackFault(t *testing.T) { subFault.Check(t, 120000, 3000000) }

func TestReplay(t *testing.T) { runlog.ReplayMain(t) }
