package c14

import (
	"fmt"
	"sort"
	"strconv"
	"strings"
	"unicode/utf8"

	ucfg "github.com/elastic/go-ucfg"
	"github.com/elastic/go-ucfg/parse"
	"pgregory.net/rapid"

	"verif/harness/internal/canon"
	"verif/harness/internal/gen"
)

// This file holds the dimensions of the quantifier that concern HOW a value
// reaches the place it is read from, and what names and texts consist of:
//
//   - hostile characters in setting names, map keys, source names (format
//     verbs, quotes, braces, blanks, non-ASCII);
//   - delivery of the faulted value (or of a collection around it) through
//     variable expansion: a ${reference} to a literal elsewhere in the
//     configuration, a value of an Env configuration, text returned by a
//     resolver, text spliced together from several such pieces - text that
//     is parsed into a primitive, list or object at the time it is read;
//   - reference faults of every shape (missing, out-of-range index, self
//     cycle, cycles of length 2 and 3, a reference into a cycle, through a
//     primitive, a chain ending in a missing variable, ${x:?message}).

// ---------------------------------------------------------------------------
// names

// hostileFrags are fragments of setting names. None contains the path
// separator or a comma (which ends the name in a struct tag).
var hostileFrags = []string{
	"used%", "%d", "%s%v", "100%", "%!v(x)", "%", "x%20y", "%[1]s", "%%",
	"it's", "'q'", "'", `"dq"`, `say "hi"`,
	"{b}", "}x{", "[x]", "a:b", "a b", " lead", "trail ", "tab\there",
	"é☃", "日本", `back\slash`, "$v", "${x}", "per%cent's",
}

// escTag renders a config name the way it has to be written inside the
// double quotes of a struct tag.
func escTag(name string) string {
	q := strconv.Quote(name)
	return q[1 : len(q)-1]
}

// cfgName is the name under which a field appears in a configuration: the
// tag (written in Go string syntax inside the struct tag, so undone here) or
// the lower-cased Go name.
func cfgName(f *gen.FD) string {
	if f.Tag == "" {
		return strings.ToLower(f.Name)
	}
	if s, err := strconv.Unquote(`"` + f.Tag + `"`); err == nil {
		return s
	}
	return f.Tag
}

// hostileNames renames some fields of the generated struct types and some
// map keys of the value. Names stay unique (a counter is part of each).
func hostileNames(t *rapid.T, td *gen.TD, tv *gen.TV, counter *int) {
	if td == nil {
		return
	}
	name := func() string {
		*counter++
		frag := rapid.SampledFrom(hostileFrags).Draw(t, "frag")
		if rapid.Bool().Draw(t, "fragfirst") {
			return frag + "n" + strconv.Itoa(*counter)
		}
		return "n" + strconv.Itoa(*counter) + frag
	}
	elem := func(i int) *gen.TV {
		if tv == nil || i >= len(tv.Elems) {
			return nil
		}
		return tv.Elems[i]
	}
	switch td.Kind {
	case "struct":
		for i := range td.Fields {
			f := &td.Fields[i]
			if !(f.Ignore || f.Unexp || f.Inline) && rapid.IntRange(0, 3).Draw(t, "rename") == 0 {
				n := name()
				if strings.Contains(f.Tag, ".") {
					n += "." + name() // stays a dotted name
				}
				f.Tag = escTag(n)
			}
			hostileNames(t, f.T, elem(i), counter)
		}
	case "ptr":
		if tv != nil && !tv.Nil {
			hostileNames(t, td.Elem, elem(0), counter)
		} else {
			hostileNames(t, td.Elem, nil, counter)
		}
	case "slice", "array":
		// one element type: rename on the type once, keys of every element
		hostileNames(t, td.Elem, elem(0), counter)
		if tv != nil {
			for i := 1; i < len(tv.Elems); i++ {
				hostileKeys(t, td.Elem, tv.Elems[i], counter)
			}
		}
	case "map":
		if tv != nil {
			for i := range tv.Keys {
				if rapid.IntRange(0, 2).Draw(t, "rekey") == 0 {
					tv.Keys[i] = name()
				}
			}
		}
		hostileNames(t, td.Elem, elem(0), counter)
		if tv != nil {
			for i := 1; i < len(tv.Elems); i++ {
				hostileKeys(t, td.Elem, tv.Elems[i], counter)
			}
		}
	}
}

// hostileKeys renames map keys only (the type has been visited already).
func hostileKeys(t *rapid.T, td *gen.TD, tv *gen.TV, counter *int) {
	if td == nil || tv == nil {
		return
	}
	switch td.Kind {
	case "struct":
		for i := range td.Fields {
			if i < len(tv.Elems) {
				hostileKeys(t, td.Fields[i].T, tv.Elems[i], counter)
			}
		}
	case "ptr":
		if !tv.Nil && len(tv.Elems) > 0 {
			hostileKeys(t, td.Elem, tv.Elems[0], counter)
		}
	case "slice", "array":
		for _, e := range tv.Elems {
			hostileKeys(t, td.Elem, e, counter)
		}
	case "map":
		for i := range tv.Keys {
			if rapid.IntRange(0, 2).Draw(t, "rekey") == 0 {
				*counter++
				tv.Keys[i] = rapid.SampledFrom(hostileFrags).Draw(t, "frag") + "k" + strconv.Itoa(*counter)
			}
			hostileKeys(t, td.Elem, tv.Elems[i], counter)
		}
	}
}

// hostile reports whether a path segment uses characters beyond letters,
// digits and underscore, and which of the classes that matter for messages.
func hostileClasses(path []string) (percent, quote, other bool) {
	for _, s := range path {
		for _, r := range s {
			switch {
			case r == '%':
				percent = true
			case r == '\'' || r == '"':
				quote = true
			case r == '_' || (r >= '0' && r <= '9') || (r >= 'a' && r <= 'z') || (r >= 'A' && r <= 'Z'):
			default:
				other = true
			}
		}
	}
	return
}

// refSafe: the path can be written inside ${...} (the expression syntax
// gives '$', ':' and '}' a meaning there).
func refSafe(path []string) bool {
	for _, s := range path {
		if strings.ContainsAny(s, "$:}") || s == "" {
			return false
		}
	}
	return true
}

// ---------------------------------------------------------------------------
// delivery

// Piece is one part of a spliced text.
type Piece struct {
	Cut int    `json:"cut"` // the piece ends at this permille of the text
	Via string `json:"via"` // lit: literal text | res: ${VAR} answered by the resolver | env: ${VAR} held by the Env configuration | dflt: ${missing:text} | cfg: ${path} of a string literal in the same configuration
}

// Delivery describes how the faulted value reaches its place.
type Delivery struct {
	Up     int     `json:"up"`             // the expansion sits this many path segments above the fault (0: the faulted setting itself is the ${...})
	Mode   string  `json:"mode"`           // cfgref | env | resolver | splice
	Style  int     `json:"style"`          // text rendering: bits 0-1 strings (0 double quoted, 1 single quoted, 2 bare), bit 2 top-level list without brackets, bit 3 blanks after separators
	PCfg   string  `json:"pcfg,omitempty"` // resolver: parse.Config returned with the text: "" default | env | nocomma
	Pieces []Piece `json:"pieces,omitempty"`
	// cfgref, env: the reference does not lead to the literal directly
	HopsCfg int    `json:"hopscfg,omitempty"` // this many settings of the configuration, each a reference to the next, lie between the expansion site and the literal (or the first Env setting)
	HopsEnv int    `json:"hopsenv,omitempty"` // env: this many settings of the Env configuration, each a reference to the next, precede the literal there
	Nest    string `json:"nest,omitempty"`    // the literal is "" a top-level setting | list: element 1 of a list | obj: a member of an object
}

const (
	envSource = "env%src"
	auxSrc    = "c14src"
	auxEnv    = "C14ENV"
	auxVar    = "C14VAR"
)

func genDelivery(t *rapid.T, depth int) *Delivery {
	d := &Delivery{}
	// where: mostly at or just above the fault
	if depth > 1 {
		switch w := rapid.IntRange(0, 9).Draw(t, "up"); {
		case w < 3:
			d.Up = 0
		case w < 7:
			d.Up = 1
		default:
			d.Up = rapid.IntRange(1, depth-1).Draw(t, "upn")
		}
	}
	d.Mode = rapid.SampledFrom([]string{"resolver", "resolver", "splice", "splice", "cfgref", "env"}).Draw(t, "mode")
	d.Style = rapid.IntRange(0, 15).Draw(t, "style")
	switch d.Mode {
	case "resolver":
		d.PCfg = rapid.SampledFrom([]string{"", "", "env", "nocomma"}).Draw(t, "pcfg")
	case "cfgref", "env":
		d.HopsCfg = rapid.SampledFrom([]int{0, 0, 0, 1, 1, 2}).Draw(t, "hopscfg")
		if d.Mode == "env" {
			d.HopsEnv = rapid.SampledFrom([]int{0, 0, 0, 1, 2}).Draw(t, "hopsenv")
		}
		d.Nest = rapid.SampledFrom([]string{"", "", "list", "obj"}).Draw(t, "nest")
	case "splice":
		n := rapid.IntRange(1, 4).Draw(t, "npieces")
		cut := 0
		for i := 0; i < n; i++ {
			if i == n-1 {
				cut = 1000
			} else {
				cut = rapid.IntRange(cut, 1000).Draw(t, "cut")
			}
			d.Pieces = append(d.Pieces, Piece{Cut: cut, Via: rapid.SampledFrom([]string{"lit", "res", "env", "dflt", "cfg"}).Draw(t, "via")})
		}
	}
	return d
}

func isEmptyData(v interface{}) bool {
	switch x := v.(type) {
	case nil:
		return true
	case map[string]interface{}:
		return len(x) == 0
	case []interface{}:
		return len(x) == 0
	}
	return false
}

func getData(node interface{}, path []string) (interface{}, bool) {
	for _, seg := range path {
		switch n := node.(type) {
		case map[string]interface{}:
			v, ok := n[seg]
			if !ok {
				return nil, false
			}
			node = v
		case []interface{}:
			i, err := strconv.Atoi(seg)
			if err != nil || i < 0 || i >= len(n) {
				return nil, false
			}
			node = n[i]
		default:
			return nil, false
		}
	}
	return node, true
}

func copyData(v interface{}) interface{} {
	switch x := v.(type) {
	case map[string]interface{}:
		m := make(map[string]interface{}, len(x))
		for k, e := range x {
			m[k] = copyData(e)
		}
		return m
	case []interface{}:
		l := make([]interface{}, len(x))
		for i, e := range x {
			l[i] = copyData(e)
		}
		return l
	}
	return v
}

// --- text rendering in the syntax of parse.Value

func bareKeyOK(k string) bool {
	return k != "" && strings.TrimSpace(k) == k && !strings.ContainsAny(k, `:"'{}[],`)
}

func bareStringOK(s string, pcfg parse.Config) bool {
	if s == "" || strings.ContainsAny(s, `:"'{}[],`) {
		return false
	}
	v, err := parse.ValueWithConfig(s, pcfg)
	if err != nil {
		return false
	}
	back, ok := v.(string)
	return ok && back == s
}

func renderString(b *strings.Builder, s string, style int, key bool, pcfg parse.Config) {
	switch style & 3 {
	case 1:
		if !strings.Contains(s, "'") {
			b.WriteString("'" + s + "'")
			return
		}
	case 2:
		if (key && bareKeyOK(s)) || (!key && bareStringOK(s, pcfg)) {
			b.WriteString(s)
			return
		}
	}
	b.WriteString(strconv.Quote(s))
}

func renderData(b *strings.Builder, v interface{}, style int, top bool, pcfg parse.Config) {
	sep := ","
	colon := ":"
	if style&8 != 0 {
		sep, colon = ", ", ": "
	}
	switch x := v.(type) {
	case nil:
		b.WriteString("null")
	case bool:
		b.WriteString(strconv.FormatBool(x))
	case int:
		b.WriteString(strconv.Itoa(x))
	case int64:
		b.WriteString(strconv.FormatInt(x, 10))
	case uint64:
		b.WriteString(strconv.FormatUint(x, 10))
	case float64:
		b.WriteString(strconv.FormatFloat(x, 'g', -1, 64))
	case string:
		renderString(b, x, style, false, pcfg)
	case []interface{}:
		bare := top && style&4 != 0 && len(x) >= 2
		if !bare {
			b.WriteString("[")
		}
		for i, e := range x {
			if i > 0 {
				b.WriteString(sep)
			}
			renderData(b, e, style, false, pcfg)
		}
		if !bare {
			b.WriteString("]")
		}
	case map[string]interface{}:
		keys := make([]string, 0, len(x))
		for k := range x {
			keys = append(keys, k)
		}
		sort.Strings(keys)
		b.WriteString("{")
		for i, k := range keys {
			if i > 0 {
				b.WriteString(sep)
			}
			renderString(b, k, style, true, pcfg)
			b.WriteString(colon)
			renderData(b, x[k], style, false, pcfg)
		}
		b.WriteString("}")
	default:
		b.WriteString(strconv.Quote(fmt.Sprint(x)))
	}
}

func pcfgOf(name string) parse.Config {
	switch name {
	case "env":
		return parse.EnvConfig
	case "nocomma":
		c := parse.DefaultConfig
		c.IgnoreCommas = true
		return c
	}
	return parse.DefaultConfig
}

// sameShape: equal as data and, at the top, of the same sort (a text that
// parses into nil is not a faithful rendering of an empty collection, and a
// one-element list is not its element).
func sameShape(a, b interface{}) bool {
	if !canon.EqualData(a, b) {
		return false
	}
	kind := func(v interface{}) int {
		switch v.(type) {
		case map[string]interface{}:
			return 1
		case []interface{}:
			return 2
		case nil:
			return 3
		}
		return 0
	}
	return kind(a) == kind(b)
}

// renderChecked renders v as text that the parser reads back as v. It tries
// the requested style and parser configuration first, then falls back to
// plain JSON with the default configuration.
func renderChecked(v interface{}, style int, pcfgName string) (string, string, bool) {
	try := func(style int, name string) (string, bool) {
		var b strings.Builder
		pc := pcfgOf(name)
		renderData(&b, v, style, true, pc)
		text := b.String()
		back, err := parse.ValueWithConfig(text, pc)
		return text, err == nil && sameShape(back, v)
	}
	if text, ok := try(style, pcfgName); ok {
		return text, pcfgName, true
	}
	if text, ok := try(style, ""); ok {
		return text, "", true
	}
	if text, ok := try(0, ""); ok {
		return text, "", true
	}
	return "", "", false
}

// cutText cuts text at the given permille marks (on rune boundaries) and
// drops empty pieces.
func cutText(text string, pieces []Piece) (out []string, via []string) {
	n := utf8.RuneCountInString(text)
	runes := []rune(text)
	prev := 0
	for i, p := range pieces {
		end := n * p.Cut / 1000
		if i == len(pieces)-1 || end > n {
			end = n
		}
		if end <= prev {
			continue
		}
		out = append(out, string(runes[prev:end]))
		via = append(via, p.Via)
		prev = end
	}
	return
}

type resText struct {
	text string
	pcfg parse.Config
}

// artifacts is what a delivery (or a reference fault) needs besides the
// configuration itself.
type artifacts struct {
	res     map[string]resText     // variables the resolver knows
	env     map[string]interface{} // content of the Env configuration
	alt     []string               // cfgref, env: where the literal lives (the other setting a message may name)
	altSrc  string                 // the source of that place
	text    string                 // the delivered text (for messages)
	spell   *speller               // how the data was spelled (nil: as dumped, nested)
	layered bool                   // the data was loaded as two inputs
	envExp  bool                   // the Env configuration holds references (it is loaded with VarExp)
}

func hasDollar(v interface{}) bool {
	switch x := v.(type) {
	case string:
		return strings.Contains(x, "$")
	case map[string]interface{}:
		for _, e := range x {
			if hasDollar(e) {
				return true
			}
		}
	case []interface{}:
		for _, e := range x {
			if hasDollar(e) {
				return true
			}
		}
	}
	return false
}

func newArtifacts() *artifacts {
	return &artifacts{res: map[string]resText{}, env: map[string]interface{}{}}
}

func escLit(s string) string  { return strings.ReplaceAll(s, "$", "$$") }
func escDflt(s string) string { return strings.ReplaceAll(escLit(s), "}", "$}") }

// applyDelivery replaces the subtree at the expansion site by a variable
// expression that evaluates to it and records what the reader needs.
func applyDelivery(data interface{}, c *Case, prefix []string, art *artifacts) (interface{}, error) {
	d := c.Deliver
	if d.Up < 0 || d.Up >= len(c.Path) {
		return nil, errDiscard{"delivery: expansion site outside the configuration"}
	}
	root, ok := data.(map[string]interface{})
	if !ok {
		return nil, errDiscard{"delivery: root is no dictionary"}
	}
	at := c.Path[:len(c.Path)-d.Up]
	rest := c.Path[len(c.Path)-d.Up:]
	sub, ok := getData(data, at)
	if !ok || sub == nil {
		return nil, errDiscard{"delivery: nothing at the expansion site"}
	}
	if isEmptyData(sub) {
		return nil, errDiscard{"delivery: empty collection"} // its text parses into nil, not into a collection
	}
	if d.Mode == "resolver" || d.Mode == "splice" {
		// an empty collection has no text: "[]" and "{}" parse into nil. Where
		// the fault leaves one on its path, the delivered text would not
		// contain the fault.
		node := sub
		for _, seg := range rest {
			next, ok := getData(node, []string{seg})
			if !ok {
				break
			}
			if isEmptyData(next) && next != nil {
				return nil, errDiscard{"delivery: empty collection"}
			}
			node = next
		}
	}
	sub = copyData(sub)
	join := func(p []string, more ...string) string {
		return strings.Join(append(append([]string{}, p...), more...), ".")
	}
	var expr string
	// the literal as a top-level setting, as element 1 of a list or as a member of an object
	nest := func(v interface{}) (interface{}, []string) {
		switch d.Nest {
		case "list":
			return []interface{}{map[string]interface{}{"x": 1}, v}, []string{"1"}
		case "obj":
			return map[string]interface{}{"o": 1, "in": v}, []string{"in"}
		}
		return v, nil
	}
	// n settings of the configuration, each a reference to the next, the last one to target
	cfgHops := func(target string) string {
		for i := d.HopsCfg; i > 0; i-- {
			name := fmt.Sprintf("c14h%d", i)
			root[name] = "${" + target + "}"
			target = join(prefix, name)
		}
		return target
	}
	switch d.Mode {
	case "cfgref":
		lit, seg := nest(sub)
		root[auxSrc] = lit
		expr = "${" + cfgHops(join(append(append([]string{}, prefix...), auxSrc), seg...)) + "}"
		art.alt = append(append(append(append([]string{}, prefix...), auxSrc), seg...), rest...)
		art.altSrc = c.Meta
	case "env":
		lit, seg := nest(sub)
		art.env[auxEnv] = lit
		target := join([]string{auxEnv}, seg...)
		if d.HopsEnv > 0 && !hasDollar(lit) {
			// settings of the Env configuration that refer to the next one (the Env configuration is then
			// loaded with VarExp: its literals must not contain '$')
			art.envExp = true
			for i := d.HopsEnv; i > 0; i-- {
				name := fmt.Sprintf("C14H%d", i)
				art.env[name] = "${" + target + "}"
				target = name
			}
		}
		expr = "${" + cfgHops(target) + "}"
		art.alt = append(append([]string{auxEnv}, seg...), rest...)
		art.altSrc = envSource
	case "resolver":
		text, pc, ok := renderChecked(sub, d.Style, d.PCfg)
		if !ok {
			return nil, errDiscard{"delivery: value has no faithful text"}
		}
		art.res[auxVar] = resText{text, pcfgOf(pc)}
		art.text = text
		expr = "${" + auxVar + "}"
	case "splice":
		text, _, ok := renderChecked(sub, d.Style, "")
		if !ok {
			return nil, errDiscard{"delivery: value has no faithful text"}
		}
		art.text = text
		pieces, via := cutText(text, d.Pieces)
		dynamic := false
		var b strings.Builder
		for i, p := range pieces {
			v := via[i]
			if v == "cfg" && strings.Contains(p, "$") {
				v = "env" // a literal of the configuration is itself subject to expansion
			}
			if v == "dflt" && (p[0] == '+' || p[0] == '?') {
				v = "res" // ${x:+...} and ${x:?...} are other operators
			}
			switch v {
			case "res":
				name := fmt.Sprintf("C14P%d", i)
				art.res[name] = resText{p, parse.DefaultConfig}
				b.WriteString("${" + name + "}")
			case "env":
				name := fmt.Sprintf("C14E%d", i)
				art.env[name] = p
				b.WriteString("${" + name + "}")
			case "cfg":
				name := fmt.Sprintf("c14s%d", i)
				root[name] = p
				b.WriteString("${" + join(prefix, name) + "}")
			case "dflt":
				b.WriteString(fmt.Sprintf("${c14nope%d:%s}", i, escDflt(p)))
			default:
				b.WriteString(escLit(p))
				continue
			}
			dynamic = true
		}
		// a single ${name} is a plain reference (its value is not parsed) and
		// text without any expression is a plain string: make it a splice
		if !dynamic || len(pieces) == 1 {
			b.WriteString("${c14nope9:}")
		}
		expr = b.String()
	default:
		return nil, fmt.Errorf("harness: unknown delivery mode %q", d.Mode)
	}
	return editData(data, at, func(interface{}, bool) (interface{}, bool) { return expr, false })
}

// ---------------------------------------------------------------------------
// reference faults

// RefFault describes an unresolvable reference put at the fault site.
type RefFault struct {
	Shape  string `json:"shape"`            // text (Payload) | index | self | cycle2 | cycle3 | rho | through-prim | through-prim2 | chain | errmsg
	Splice bool   `json:"splice,omitempty"` // surrounded by literal text (evaluated as a splice, not as a plain reference)
}

var refShapes = []string{"text", "text", "index", "self", "cycle2", "cycle3", "rho", "through-prim", "through-prim2", "chain", "errmsg"}

// refFaultExpr returns the expression to put at path and the auxiliary
// settings (placed at the root of the configuration holding the fault, at
// prefix in the final one).
func refFaultExpr(rf *RefFault, payload *gen.Tree, prefix, path []string) (string, map[string]interface{}, string) {
	full := append(append([]string{}, prefix...), path...)
	name := func(segs ...string) string {
		return strings.Join(append(append([]string{}, prefix...), segs...), ".")
	}
	ref := func(n string) string { return "${" + n + "}" }
	self := strings.Join(full, ".")
	aux := map[string]interface{}{}
	shape := rf.Shape
	if !refSafe(full) && (shape == "self" || shape == "cycle2" || shape == "cycle3") {
		shape = "rho" // the faulted setting can not be named inside ${...}
	}
	var expr string
	switch shape {
	case "index":
		aux["c14l"] = []interface{}{1, 2}
		expr = ref(name("c14l", "7"))
	case "self":
		expr = ref(self)
	case "cycle2":
		aux["c14r1"] = ref(self)
		expr = ref(name("c14r1"))
	case "cycle3":
		aux["c14r1"] = ref(name("c14r2"))
		aux["c14r2"] = ref(self)
		expr = ref(name("c14r1"))
	case "rho":
		aux["c14r1"] = ref(name("c14r2"))
		aux["c14r2"] = ref(name("c14r1"))
		expr = ref(name("c14r1"))
	case "through-prim":
		aux["c14p"] = 5
		expr = ref(name("c14p", "x"))
	case "through-prim2":
		aux["c14p"] = "str"
		expr = ref(name("c14p", "x", "y%"))
	case "chain":
		aux["c14r1"] = "${c14nope}"
		expr = ref(name("c14r1"))
	case "errmsg":
		expr = "${c14nope:?no value: 100% 'sure'}"
	default:
		shape = "text"
		if payload != nil {
			expr = payload.S
		}
		if !strings.Contains(expr, "${") {
			expr = "${nope}"
		}
	}
	if rf.Splice && shape != "text" {
		expr = "pre " + expr + " post"
	}
	return expr, aux, shape
}

// readOpts are the options of the reading call.
func readOpts(art *artifacts, noResolver bool) ([]ucfg.Option, error) {
	opts := []ucfg.Option{ucfg.PathSep(".")}
	if len(art.env) > 0 {
		eopts := []ucfg.Option{ucfg.PathSep("."), ucfg.MetaData(ucfg.Meta{Source: envSource})}
		if art.envExp {
			eopts = append(eopts, ucfg.VarExp)
		}
		env, err := ucfg.NewFrom(art.env, eopts...)
		if err != nil {
			return nil, fmt.Errorf("harness: Env configuration: %v", err)
		}
		opts = append(opts, ucfg.Env(env))
	}
	if len(art.res) > 0 || !noResolver {
		known := art.res
		opts = append(opts, ucfg.Resolve(func(name string) (string, parse.Config, error) {
			if r, ok := known[name]; ok {
				return r.text, r.pcfg, nil
			}
			return "", parse.DefaultConfig, errNoVar
		}))
	}
	return opts, nil
}
