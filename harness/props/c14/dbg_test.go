package c14

import (
	"fmt"
	"os"
	"sort"
	"testing"
)

var dbgReasons = map[string]int{}

func dbg(why string) {
	if os.Getenv("C14_DEBUG") != "" {
		dbgReasons[why]++
	}
}

func TestMain(m *testing.M) {
	code := m.Run()
	if len(dbgReasons) > 0 {
		var ks []string
		for k := range dbgReasons {
			ks = append(ks, k)
		}
		sort.Strings(ks)
		for _, k := range ks {
			fmt.Printf("DBG %6d %s\n", dbgReasons[k], k)
		}
	}
	os.Exit(code)
}
