// Package c17 decides property C17: parse.Value accepts every JSON value and
// reads it back faithfully, and the parse.Config flags do what they say.
//
// Sub-checks:
//
//	json-roundtrip  generated JSON values, three renderings (encoding/json compact, encoding/json
//	                indented, own RFC 8259 writer with free layout), round-trip oracle
//	config-flags    texts with exactly one syntax feature under all accepted parse.Config combinations
//	short-texts     all short texts over a small JSON alphabet that encoding/json accepts (differential)
//	seed-texts      the hostile constants that also seed the native fuzz target (differential)
//	repeated-calls  histories of calls on the same text / document / configuration with the caller
//	                changing earlier results in between: every call returns the data of its text,
//	                no two results share a map or a slice (repeat_test.go)
//	FuzzJSONRoundTrip  native fuzz target with the differential oracle inside (thorough tier only)
package c17

import (
	"bytes"
	"encoding/json"
	"fmt"
	"math"
	"strconv"
	"strings"
	"testing"
	"unicode/utf8"

	"github.com/elastic/go-ucfg/parse"
	"pgregory.net/rapid"

	"verif/harness/internal/canon"
	"verif/harness/internal/gen"
	"verif/harness/internal/runlog"
)

// Case is a JSON value together with everything that decides how it is
// spelled: the encoding/json indentation parameters and the list of layout
// choices the own writer consumes (one entry per choice point, in writing
// order; missing entries count as 0 = the plainest spelling).
type Case struct {
	V      *gen.Tree `json:"v"`
	Prefix string    `json:"prefix,omitempty"` // json.Indent prefix (whitespace only)
	Indent string    `json:"indent"`           // json.Indent indentation (whitespace only)
	NoHTML bool      `json:"nohtml,omitempty"` // encoding/json without <-style escaping of < > &
	Layout []int     `json:"layout,omitempty"`
}

// ---------------------------------------------------------------------------
// generator of JSON values

// weighted rune pool: JSON and parser metacharacters, characters that need an
// escape, characters with several legal spellings, non-ASCII and astral runes
var runePool = []rune("ab \"\"\\\\\\//',:{}[]\n\t\r\b\f\x00\x01\x1f\x7f$\u00e9\u20ac\u2028\ufffd\uffff\U0001F600\U0001D11E01-.eE+tfnu<>&")

var wholeStrings = append([]string{
	"true", "false", "null", "on", "off", "12", "-1", "1.5", "1e5", "0x10", "-", "", " ", "  a  ",
	"\\", "\\\\", "a\\", "a\\\\", "\\\"", "\"", "/", "a/b", "</script>", "\\u0041", "\\n", "'", "'a'", "\"a\"",
	"[", "]", "{", "}", "[]", "{}", "a,b", "a: b", "\U0001F600", "\U0010ffff", "\u0080", "\u07ff", "\u0800", "\ud7ff\ue000",
}, gen.HostileStrings...)

var keyPool = []string{"a", "b", "c", "d", "", " ", "a b", "a.b", "0", "1", "\"", "\\", "k\\", ":", ",", "a:", "{", "}", "[", "é", "😀", "/", "'", "\n", "true", "null"}

func genString(t *rapid.T) string {
	var s string
	switch rapid.IntRange(0, 9).Draw(t, "strkind") {
	case 0:
		s = rapid.SampledFrom(wholeStrings).Draw(t, "whole")
	case 1:
		s = rapid.String().Draw(t, "any")
	case 2:
		// ends in a backslash or a quote: the scanner has to tell an escaped
		// backslash from an escaped quote
		s = string(rapid.SliceOfN(rapid.SampledFrom(runePool), 0, 6).Draw(t, "runes")) +
			rapid.SampledFrom([]string{"\\", "\\\\", "\"", "\\\"", "\"\\", "/"}).Draw(t, "tail")
	default:
		s = string(rapid.SliceOfN(rapid.SampledFrom(runePool), 0, 12).Draw(t, "runes"))
	}
	return strings.ToValidUTF8(s, "\ufffd")
}

var edgeInts = []int64{math.MinInt64, math.MinInt64 + 1, -1, 0, 1, -(1 << 53), -(1<<53 + 1), -(1<<53 - 1), math.MinInt32, math.MaxInt64, -10, -100, 1000}
var edgeUints = []uint64{0, 1, 9, 10, 1 << 53, 1<<53 + 1, 1<<53 - 1, 1<<63 - 1, 1 << 63, 1<<63 + 1, math.MaxUint64, math.MaxUint64 - 1, 1 << 32, 12000, 100}
var edgeFloats = []float64{0.5, -0.5, 0.1, 1.5, -2.25, 1e21, 1e22, 1e23, 1e-7, 1e-6, 5e-324, math.MaxFloat64, -math.MaxFloat64, math.SmallestNonzeroFloat64,
	2.2250738585072014e-308, 3.0000000000000004, 1e100, -1e-100, 123456.789, 0.000123, 1 << 64, -(1 << 63) * 2, 1.8446744073709552e19 * 3, math.Copysign(0, -1), 1e15 + 0.5, 100, 1200}

// normFloat keeps the float domain sound: no NaN/Inf (not JSON), and integral
// floats whose magnitude lies in [2^53, 2^64) become the integer they are -
// their shortest decimal spelling is an integer literal that denotes another
// number than the float (12345678901234567000 vs 12345678901234567168), so a
// faithful reader returns that integer and not the float.
func normFloat(f float64) *gen.Tree {
	if math.IsNaN(f) || math.IsInf(f, 0) {
		return gen.Float(0.5)
	}
	if f == math.Trunc(f) && math.Abs(f) >= 1<<53 {
		if f >= 0 && f < 1<<64 {
			return gen.Uint(uint64(f))
		}
		if f < 0 && f >= -(1<<63) {
			return gen.Int(int64(f))
		}
	}
	return gen.Float(f)
}

func genNumber(t *rapid.T) *gen.Tree {
	switch rapid.IntRange(0, 7).Draw(t, "numkind") {
	case 0:
		return gen.Int(rapid.Int64().Draw(t, "i"))
	case 1:
		return gen.Int(rapid.SampledFrom(edgeInts).Draw(t, "ei"))
	case 2:
		return gen.Uint(rapid.Uint64().Draw(t, "u"))
	case 3:
		return gen.Uint(rapid.SampledFrom(edgeUints).Draw(t, "eu"))
	case 4:
		return gen.Uint(uint64(rapid.IntRange(0, 1000).Draw(t, "small")))
	case 5:
		return normFloat(rapid.SampledFrom(edgeFloats).Draw(t, "ef"))
	default:
		return normFloat(rapid.Float64().Draw(t, "f"))
	}
}

func genObj(t *rapid.T, depth, width int) *gen.Tree {
	o := gen.Obj()
	n := rapid.IntRange(0, width).Draw(t, "nkeys")
	for i := 0; i < n; i++ {
		var key string
		if rapid.IntRange(0, 4).Draw(t, "keykind") == 0 {
			key = genString(t)
		} else {
			key = rapid.SampledFrom(keyPool).Draw(t, "key")
		}
		if o.Get(key) != nil {
			continue // no duplicate keys: JSON does not define their meaning
		}
		o.Put(key, genValue(t, depth-1, width))
	}
	return o
}

func genList(t *rapid.T, depth, width int) *gen.Tree {
	l := gen.List()
	n := rapid.IntRange(0, width).Draw(t, "len")
	for i := 0; i < n; i++ {
		l.Vals = append(l.Vals, genValue(t, depth-1, width))
	}
	return l
}

func genValue(t *rapid.T, depth, width int) *gen.Tree {
	hi := 11
	if depth <= 0 {
		hi = 7
	}
	switch k := rapid.IntRange(0, hi).Draw(t, "kind"); {
	case k == 0:
		return gen.Nil()
	case k == 1:
		return gen.Bool(rapid.Bool().Draw(t, "b"))
	case k <= 4:
		return genNumber(t)
	case k <= 7:
		return gen.Str(genString(t))
	case k <= 9:
		return genObj(t, depth, width)
	default:
		return genList(t, depth, width)
	}
}

func genCase(t *rapid.T) Case {
	depth, width := runlog.Pick(4, 6), runlog.Pick(4, 6)
	var c Case
	// mostly documents (object or array at the top), sometimes a bare scalar
	switch top := rapid.IntRange(0, 9).Draw(t, "top"); {
	case top == 0:
		c.V = genValue(t, 0, width)
	case top <= 5:
		c.V = genObj(t, depth, width)
	default:
		c.V = genList(t, depth, width)
	}
	c.Indent = rapid.SampledFrom([]string{"  ", "\t", " ", "", "    ", "\r"}).Draw(t, "indent")
	c.Prefix = rapid.SampledFrom([]string{"", "", "", " ", "\t"}).Draw(t, "prefix")
	c.NoHTML = rapid.Bool().Draw(t, "nohtml")
	// the layout is drawn by running the writer once with a drawing chooser, so
	// that it has exactly one entry per choice point
	dense := rapid.IntRange(0, 2).Draw(t, "density")
	w := &jw{ch: func(n int) int {
		v := 0
		if dense > 0 || rapid.IntRange(0, 3).Draw(t, "on") == 0 {
			v = rapid.IntRange(0, n-1).Draw(t, "c")
		}
		c.Layout = append(c.Layout, v)
		return v
	}}
	w.doc(c.V)
	for len(c.Layout) > 0 && c.Layout[len(c.Layout)-1] == 0 {
		c.Layout = c.Layout[:len(c.Layout)-1]
	}
	return c
}

// ---------------------------------------------------------------------------
// the three renderings

func stdRender(c Case, indent bool) (string, error) {
	var buf bytes.Buffer
	enc := json.NewEncoder(&buf)
	enc.SetEscapeHTML(!c.NoHTML)
	if err := enc.Encode(c.V.Go()); err != nil {
		return "", err
	}
	out := bytes.TrimRight(buf.Bytes(), "\n")
	if !indent {
		return string(out), nil
	}
	var ind bytes.Buffer
	if err := json.Indent(&ind, out, onlyWS(c.Prefix), onlyWS(c.Indent)); err != nil {
		return "", err
	}
	return ind.String(), nil
}

// onlyWS keeps hand-written cases inside JSON: indentation must be whitespace.
func onlyWS(s string) string {
	return strings.Map(func(r rune) rune {
		if r == ' ' || r == '\t' || r == '\r' || r == '\n' {
			return r
		}
		return -1
	}, s)
}

func ownRender(c Case) string {
	pos := 0
	w := &jw{ch: func(n int) int {
		v := 0
		if pos < len(c.Layout) {
			v = c.Layout[pos] % n
			if v < 0 {
				v = -v
			}
		}
		pos++
		return v
	}}
	w.doc(c.V)
	return w.b.String()
}

// ---------------------------------------------------------------------------
// oracle

func treeClasses(v *gen.Tree, r *runlog.R) {
	seen := map[string]bool{}
	v.Walk(nil, func(_ []string, n *gen.Tree) {
		strs := []string{}
		switch n.K {
		case "str":
			strs = append(strs, n.S)
		case "obj":
			strs = append(strs, n.Keys...)
			seen["value:object"] = true
			if len(n.Keys) == 0 {
				seen["value:empty container"] = true
			}
		case "list":
			seen["value:array"] = true
			if len(n.Vals) == 0 {
				seen["value:empty container"] = true
			}
		case "nil":
			seen["value:null"] = true
		case "int":
			seen["value:negative-capable int"] = true
			if n.I < -(1<<53) || n.I > 1<<53 {
				seen["value:|int| > 2^53"] = true
			}
		case "uint":
			if n.U > 1<<53 {
				seen["value:|int| > 2^53"] = true
			}
			if n.U > math.MaxInt64 {
				seen["value:int >= 2^63"] = true
			}
		case "float":
			seen["value:float"] = true
		}
		for _, s := range strs {
			for _, x := range s {
				switch {
				case x >= 0x10000:
					seen["string:astral rune"] = true
				case x >= 0x80:
					seen["string:non-ASCII"] = true
				case x < 0x20 || x == 0x7f:
					seen["string:control character"] = true
				case x == '"':
					seen["string:quote"] = true
				case x == '\\':
					seen["string:backslash"] = true
				}
			}
			if strings.HasSuffix(s, "\\") {
				seen["string:ends in backslash"] = true
			}
		}
	})
	for k := range seen {
		r.Class(k)
	}
}

func runCase(c Case, r *runlog.R) error {
	if c.V == nil {
		r.Discard()
		return nil
	}
	want := c.V.Go()
	compact, err := stdRender(c, false)
	if err != nil {
		return fmt.Errorf("harness: encoding/json cannot render the case: %v", err)
	}
	indented, err := stdRender(c, true)
	if err != nil {
		return fmt.Errorf("harness: encoding/json cannot indent the case: %v", err)
	}
	own := ownRender(c)
	if !json.Valid([]byte(own)) {
		return fmt.Errorf("harness: the own writer produced text that is not JSON: %q", own)
	}
	nt := c.V.Depth() >= 2
	for _, tx := range []struct{ name, text string }{{"encoding/json compact", compact}, {"encoding/json indented", indented}, {"own writer", own}} {
		got, err := parse.Value(tx.text)
		if err != nil {
			return fmt.Errorf("%s rendering rejected: %v\n text %q\n value %s", tx.name, err, tx.text, canon.Show(want))
		}
		if !canon.EqualData(got, want) {
			return fmt.Errorf("%s rendering read back differently\n text %q\n got  %s\n want %s", tx.name, tx.text, canon.Show(got), canon.Show(want))
		}
		ly := scanLayout(tx.text)
		if ly.escapes > 0 || ly.wsAfterValue {
			nt = true
		}
		if tx.name == "own writer" {
			for _, l := range ly.labels() {
				r.Class("own:" + l)
			}
		}
	}
	r.NonTrivialIf(nt)
	r.Class(fmt.Sprintf("depth=%d", c.V.Depth()))
	treeClasses(c.V, r)
	return nil
}

var subRound = runlog.Register(&runlog.Sub[Case]{
	Name: "json-roundtrip",
	Rule: "random JSON value (depth<=4/6, width<=4/6; strings over quotes, backslashes, slashes, control characters, non-ASCII and astral runes, keyword and number look-alikes; integers over [-2^63,2^64) incl. the edges; finite floats; no duplicate keys) rendered by encoding/json compact, by encoding/json indented (random indent/prefix) and by the harness's own RFC 8259 writer whose whitespace per token gap, escape style per character (literal, short escape, \\uXXXX in either hex case, \\/, surrogate pair) and number spelling (fraction, exponent forms, padding zeros, -0) are a list of choices stored in the case; every text must be accepted by parse.Value and equal the value canonically ([] = {} = nil, numbers by value). Non-trivial: some text has whitespace after a string/array/object value, or an escape sequence, or the value nests >= 2 levels. Distinct: hash of the whole case.",
	Gen:  genCase,
	Run:  runCase,
})

func TestJSONRoundTrip(t *testing.T) { subRound.Check(t, 600000, 10000000) }

func TestReplay(t *testing.T) { runlog.ReplayMain(t) }

// ---------------------------------------------------------------------------
// layout scanner: what a JSON text exercises (used for NT and the histogram)

type layout struct {
	escapes           int
	escSlash          bool // \/
	escU              bool // \uXXXX
	escSurrogate      bool // \uD8xx\uDCxx
	escShort          bool
	endsInEscBacksl   bool // string ends in an escaped backslash
	wsAfterValue      bool // whitespace after a string/array/object value, before , ] }
	wsAfterValueInObj bool
	wsAfterValueInArr bool
	wsAfterScalar     bool // whitespace after a number/keyword, before , ] }
	wsBeforeColon     bool
	wsAfterColon      bool
	wsAfterOpen       bool
	wsAfterComma      bool
	multiline         bool
	exponent          bool
	fraction          bool
	depth             int
}

func (l layout) labels() []string {
	var out []string
	add := func(c bool, s string) {
		if c {
			out = append(out, s)
		}
	}
	add(l.escSlash, `escape \/`)
	add(l.escU, `escape \uXXXX`)
	add(l.escSurrogate, "escape surrogate pair")
	add(l.escShort, "escape short")
	add(l.endsInEscBacksl, "string ends in escaped backslash")
	add(l.wsAfterValueInObj, "ws after string/array/object value in object")
	add(l.wsAfterValueInArr, "ws after string/array/object value in array")
	add(l.wsAfterScalar, "ws after number/keyword")
	add(l.wsBeforeColon, "ws before colon")
	add(l.wsAfterColon, "ws after colon")
	add(l.wsAfterOpen, "ws after [ or {")
	add(l.wsAfterComma, "ws after comma")
	add(l.multiline, "multi-line")
	add(l.exponent, "number with exponent")
	add(l.fraction, "number with fraction")
	return out
}

func isJSONSpace(b byte) bool { return b == ' ' || b == '\t' || b == '\n' || b == '\r' }

// scanLayout assumes text is valid JSON.
func scanLayout(text string) layout {
	var l layout
	var stack []byte
	n := len(text)
	skip := func(i int) int {
		for i < n && isJSONSpace(text[i]) {
			i++
		}
		return i
	}
	afterValue := func(i int, compound bool) {
		j := skip(i)
		if j == i || j >= n {
			return
		}
		switch text[j] {
		case ',', ']', '}':
			if !compound {
				l.wsAfterScalar = true
				return
			}
			l.wsAfterValue = true
			if len(stack) > 0 && stack[len(stack)-1] == '{' {
				l.wsAfterValueInObj = true
			} else {
				l.wsAfterValueInArr = true
			}
		case ':':
			l.wsBeforeColon = true
		}
	}
	for i := 0; i < n; {
		c := text[i]
		switch {
		case c == '\n':
			l.multiline = true
			i++
		case isJSONSpace(c):
			i++
		case c == '[' || c == '{':
			stack = append(stack, c)
			if len(stack) > l.depth {
				l.depth = len(stack)
			}
			i++
			if j := skip(i); j > i {
				l.wsAfterOpen = true
			}
		case c == ']' || c == '}':
			if len(stack) > 0 {
				stack = stack[:len(stack)-1]
			}
			i++
			afterValue(i, true)
		case c == ',' || c == ':':
			i++
			if j := skip(i); j > i {
				if c == ',' {
					l.wsAfterComma = true
				} else {
					l.wsAfterColon = true
				}
			}
		case c == '"':
			i++
			lastEscBackslash := false
			for i < n && text[i] != '"' {
				lastEscBackslash = false
				if text[i] == '\\' && i+1 < n {
					l.escapes++
					switch text[i+1] {
					case '/':
						l.escSlash = true
					case 'u':
						l.escU = true
						if i+6 <= n {
							if v, err := strconv.ParseUint(text[i+2:i+6], 16, 32); err == nil && v >= 0xd800 && v < 0xdc00 {
								l.escSurrogate = true
							}
						}
					case '\\':
						lastEscBackslash = true
						l.escShort = true
					default:
						l.escShort = true
					}
					i += 2
					continue
				}
				_, sz := utf8.DecodeRuneInString(text[i:])
				i += sz
			}
			if lastEscBackslash {
				l.endsInEscBacksl = true
			}
			i++
			afterValue(i, true)
		default:
			j := i
			for j < n && !isJSONSpace(text[j]) && !strings.ContainsRune(",]}:", rune(text[j])) {
				if text[j] == 'e' || text[j] == 'E' {
					if c == '-' || (c >= '0' && c <= '9') {
						l.exponent = true
					}
				}
				if text[j] == '.' {
					l.fraction = true
				}
				j++
			}
			i = j
			afterValue(i, false)
		}
	}
	return l
}
