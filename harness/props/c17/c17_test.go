// Package c17 decides property C17: parse.Value accepts every JSON value and
// reads it back faithfully, and the parse.Config flags do what they say.
//
// Sub-checks:
//
//	json-roundtrip  generated JSON values, three renderings (encoding/json compact, encoding/json
//	                indented, own RFC 8259 writer with free layout), round-trip oracle
//	config-flags    texts with exactly one syntax feature under all accepted parse.Config combinations
//	short-texts     all short texts over a small JSON alphabet that encoding/json accepts (differential)
//	seed-texts      the hostile constants that also seed the native fuzz target (differential)
//	repeated-calls  histories of calls on the same text / document / configuration with the caller
//	                changing earlier results in between: every call returns the data of its text,
//	                no two results share a map or a slice (repeat_test.go)
//	FuzzJSONRoundTrip  native fuzz target with the differential oracle inside (thorough tier only)
package c17

import (
	"bytes"
	"encoding/json"
	"fmt"
	"math"
	"strconv"
	"strings"
	"testing"
	"unicode/utf8"

	"github.com/elastic/go-ucfg/parse"
	"pgregory.net/rapid"

	"verif/harness/internal/canon"
	"verif/harness/internal/gen"
	"verif/harness/internal/runlog"
)

// Case is a JSON value together with everything that decides how it is
// spelled: the encoding/json indentation parameters and the list of layout
// choices the own writer consumes (one entry per choice point, in writing
// order; missing entries count as 0 = the plainest spelling).
type Case struct {
	V      *gen.Tree `json:"v"`
	Prefix string    `json:"prefix,omitempty"` // json.Indent prefix (whitespace only)
	Indent string    `json:"indent"`           // json.Indent indentation (whitespace only)
	NoHTML bool      `json:"nohtml,omitempty"` // encoding/json without <-style escaping of < > &
	Layout []int     `json:"layout,omitempty"`
}

// ---------------------------------------------------------------------------
// generator of JSON values

// weighted rune pool: JSON and parser metacharacters, characters that need an
// escape, characters with several legal spellings, non-ASCII and astral runes
var runePool = []rune("ab \"\"\\\\\\//',:{}[]\n\t\r\b\f\x00\x01\x1f\x7f$\u00e9\u20ac\u2028\ufffd\uffff\U0001F600\U0001D11E01-.eE+tfnu<>&")

var wholeStrings = append([]string{
	"true", "false", "null", "on", "off", "12", "-1", "1.5", "1e5", "0x10", "-", "", " ", "  a  ",
	"\\", "\\\\", "a\\", "a\\\\", "\\\"", "\"", "/", "a/b", "</script>", "\\u0041", "\\n", "'", "'a'", "\"a\"",
	"[", "]", "{", "}", "[]", "{}", "a,b", "a: b", "\U0001F600", "\U0010ffff", "\u0080", "\u07ff", "\u0800", "\ud7ff\ue000",
}, gen.HostileStrings...)

var keyPool = []string{"a", "b", "c", "d", "", " ", "a b", "a.b", "0", "1", "\"", "\\", "k\\", ":", ",", "a:", "{", "}", "[", "é", "😀", "/", "'", "\n", "true", "null"}

func genString(t *rapid.T) string {
	var s string
	switch rapid.IntRange(0, 9).Draw(t, "strkind") {
	case 0:
		s = rapid.SampledFrom(wholeStrings).Draw(t, "whole")
	case 1:
		s = rapid.String().Draw(t, "any")
	case 2:
		// ends in a backslash or a quote: the scanner has to tell an escaped
		// backslash from an escaped quote
		s = string(rapid.SliceOfN(rapid.SampledFrom(runePool), 0, 6).Draw(t, "runes")) +
			rapid.SampledFrom([]string{"\\", "\\\\", "\"", "\\\"", "\"\\", "/"}).Draw(t, "tail")
	default:
		s = string(rapid.SliceOfN(rapid.SampledFrom(runePool), 0, 12).Draw(t, "runes"))
	}
	return strings.ToValidUTF8(s, "\ufffd")
}

var edgeInts = []int64{math.MinInt64, math.MinInt64 + 1, -1, 0, 1, -(1 << 53), -(1<<53 + 1), -(1<<53 - 1), math.MinInt32, math.MaxInt64, -10, -100, 1000}
var edgeUints = []uint64{0, 1, 9, 10, 1 << 53, 1<<53 + 1, 1<<53 - 1, 1<<63 - 1, 1 << 63, 1<<63 + 1, math.MaxUint64, math.MaxUint64 - 1, 1 << 32, 12000, 100}
var edgeFloats = []float64{0.5, -0.5, 0.1, 1.5, -2.25, 1e21, 1e22, 1e23, 1e-7, 1e-6, 5e-324, math.MaxFloat64, -math.MaxFloat64, math.SmallestNonzeroFloat64,
	2.2250738585072014e-308, 3.0000000000000004, 1e100, -1e-100, 123456.789, 0.000123, 1 << 64, -(1 << 63) * 2, 1.8446744073709552e19 * 3, math.Copysign(0, -1), 1e15 + 0.5, 100, 1200}

// normFloat keeps the float domain sound: no NaN/Inf (not JSON), and integral
// floats whose magnitude lies in [2^53, 2^64) become the integer they are -
// their shortest decimal spelling is an integer literal that denotes another
// number than the float (12345678901234567000 vs 12345678901234567168), so a
// faithful reader returns that integer and not the float.
func normFloat(f float64) *gen.Tree {
	if math.IsNaN(f) || math.IsInf(f, 0) {
		return gen.Float(0.5)
	}
	if f == math.Trunc(f) && math.Abs(f) >= 1<<53 {
		if f >= 0 && f < 1<<64 {
			return gen.Uint(uint64(f))
		}
		if f < 0 && f >= -(1<<63) {
			return gen.Int(int64(f))
		}
	}
	return gen.Float(f)
}

func genNumber(t *rapid.T) *gen.Tree {
	switch rapid.IntRange(0, 8).Draw(t, "numkind") {
	case 8:
		return genBinaryEdge(t)
	case 0:
		return gen.Int(rapid.Int64().Draw(t, "i"))
	case 1:
		return gen.Int(rapid.SampledFrom(edgeInts).Draw(t, "ei"))
	case 2:
		return gen.Uint(rapid.Uint64().Draw(t, "u"))
	case 3:
		return gen.Uint(rapid.SampledFrom(edgeUints).Draw(t, "eu"))
	case 4:
		return gen.Uint(uint64(rapid.IntRange(0, 1000).Draw(t, "small")))
	case 5:
		return normFloat(rapid.SampledFrom(edgeFloats).Draw(t, "ef"))
	default:
		return normFloat(rapid.Float64().Draw(t, "f"))
	}
}

// binary exponents around the limits of the integer types and of the float64
// mantissa first (2^63, 2^64, 2^53), then everything from 2^50 to 2^67
var edgeExps = []int{63, 64, 53, 62, 65, 52, 54, 31, 32, 50, 51, 55, 56, 57, 58, 59, 60, 61, 66, 67}

// genBinaryEdge: +-m * 2^(k-52) with a 53-bit mantissa m that is the lowest
// (a power of two), the next one, the highest (the float64 just below the next
// power of two) or random: the float64 values at and next to the powers of two
// around 2^53, 2^63, 2^64. All of them are whole numbers; those within
// [-2^63, 2^64) become the integer they are (normFloat), and the writer may
// spell them as floats.
func genBinaryEdge(t *rapid.T) *gen.Tree {
	k := rapid.SampledFrom(edgeExps).Draw(t, "bexp")
	var m uint64
	switch rapid.IntRange(0, 4).Draw(t, "mant") {
	case 0, 1:
		m = 1 << 52
	case 2:
		m = 1<<52 + 1
	case 3:
		m = 1<<53 - 1
	default:
		m = 1<<52 | rapid.Uint64Range(0, 1<<52-1).Draw(t, "m")
	}
	f := math.Ldexp(float64(m), k-52)
	if rapid.IntRange(0, 2).Draw(t, "neg") == 2 {
		f = -f
	}
	return normFloat(f)
}

func genObj(t *rapid.T, depth, width int) *gen.Tree {
	o := gen.Obj()
	n := rapid.IntRange(0, width).Draw(t, "nkeys")
	for i := 0; i < n; i++ {
		var key string
		if rapid.IntRange(0, 4).Draw(t, "keykind") == 0 {
			key = genString(t)
		} else {
			key = rapid.SampledFrom(keyPool).Draw(t, "key")
		}
		if o.Get(key) != nil {
			continue // no duplicate keys: JSON does not define their meaning
		}
		o.Put(key, genValue(t, depth-1, width))
	}
	return o
}

func genList(t *rapid.T, depth, width int) *gen.Tree {
	l := gen.List()
	n := rapid.IntRange(0, width).Draw(t, "len")
	for i := 0; i < n; i++ {
		l.Vals = append(l.Vals, genValue(t, depth-1, width))
	}
	return l
}

func genValue(t *rapid.T, depth, width int) *gen.Tree {
	hi := 11
	if depth <= 0 {
		hi = 7
	}
	switch k := rapid.IntRange(0, hi).Draw(t, "kind"); {
	case k == 0:
		return gen.Nil()
	case k == 1:
		return gen.Bool(rapid.Bool().Draw(t, "b"))
	case k <= 4:
		return genNumber(t)
	case k <= 7:
		return gen.Str(genString(t))
	case k <= 9:
		return genObj(t, depth, width)
	default:
		return genList(t, depth, width)
	}
}

// ---------------------------------------------------------------------------
// big documents: hundreds of containers side by side, hundreds of levels

// genItem is one member of a wide container; mix decides what the members are
// like (0: empty containers only, 1: mostly empty ones, 2: records whose fields
// may be empty containers, 3: anything small).
func genItem(t *rapid.T, mix, i int) *gen.Tree {
	var k int
	switch mix {
	case 0:
		k = rapid.IntRange(0, 1).Draw(t, "item")
	case 1:
		k = rapid.SampledFrom([]int{0, 1, 0, 1, 0, 1, 2, 3, 4, 5, 6, 7}).Draw(t, "item")
	case 2:
		k = rapid.IntRange(6, 7).Draw(t, "item")
	default:
		k = rapid.IntRange(0, 9).Draw(t, "item")
	}
	switch k {
	case 0:
		return gen.List()
	case 1:
		return gen.Obj()
	case 2:
		return gen.Uint(uint64(i))
	case 3:
		return gen.Str("s")
	case 4:
		return gen.List(gen.Uint(1))
	case 5:
		return gen.Obj().Put("k", gen.Str("v"))
	case 6, 7:
		// a record; which of its fields are empty is one more draw
		e := rapid.IntRange(0, 7).Draw(t, "empties")
		rec := gen.Obj().Put("id", gen.Uint(uint64(i)))
		tags, attrs := gen.List(), gen.Obj()
		if e&1 == 0 {
			tags = gen.List(gen.Str("a"))
		}
		if e&2 == 0 {
			attrs = gen.Obj().Put("k", gen.Str("v"))
		}
		rec.Put("tags", tags)
		if e&4 == 0 || k == 7 {
			rec.Put("attrs", attrs)
		}
		return rec
	case 8:
		return gen.Nil()
	default:
		return gen.List(gen.List(), gen.Obj().Put("", gen.Obj()))
	}
}

// genWide: a list or an object with 64..~400 members (the library has no limit
// on the number of members or of containers in a document, so none is assumed),
// below 0-3 levels of wrappers that have members before and after it.
func genWide(t *rapid.T) *gen.Tree {
	n := rapid.SampledFrom([]int{70, 64, 65, 100, 130, 200, 256, 257, 300, 400, 63, 80}).Draw(t, "n")
	n += rapid.IntRange(0, 20).Draw(t, "nplus")
	mix := rapid.IntRange(0, 3).Draw(t, "mix")
	var v *gen.Tree
	if rapid.IntRange(0, 2).Draw(t, "wideobj") == 0 {
		v = gen.Obj()
		for i := 0; i < n; i++ {
			v.Keys = append(v.Keys, "k"+strconv.Itoa(i))
			v.Vals = append(v.Vals, genItem(t, mix, i))
		}
	} else {
		v = gen.List()
		for i := 0; i < n; i++ {
			v.Vals = append(v.Vals, genItem(t, mix, i))
		}
	}
	for lv := rapid.IntRange(0, 3).Draw(t, "wrap"); lv > 0; lv-- {
		v = genWrap(t, v, true)
	}
	return v
}

// genWrap puts one container around v; siblings: also members before/after v.
func genWrap(t *rapid.T, v *gen.Tree, siblings bool) *gen.Tree {
	hi := 2
	if siblings {
		hi = 7
	}
	switch rapid.IntRange(0, hi).Draw(t, "wrapkind") {
	case 0:
		return gen.List(v)
	case 1:
		return gen.Obj().Put("k", v)
	case 2:
		return gen.Obj().Put("", v)
	case 3:
		return gen.List(gen.Uint(0), v, gen.List(gen.Obj()))
	case 4:
		return gen.Obj().Put("a", gen.Uint(1)).Put("k", v).Put("z", gen.Obj().Put("l", gen.List(gen.List())))
	case 5:
		return gen.List(gen.List(), v, gen.Str("x"))
	case 6:
		return gen.List(v, gen.Obj().Put("k", gen.List(gen.Uint(1))))
	default:
		return gen.Obj().Put("e", gen.Obj()).Put("k", v).Put("f", gen.List())
	}
}

// genDeep: 65..~500 levels of arrays and objects around a small value.
func genDeep(t *rapid.T) *gen.Tree {
	d := rapid.SampledFrom([]int{65, 66, 64, 70, 100, 128, 129, 80, 200, 257, 90, 300}).Draw(t, "levels")
	d += rapid.IntRange(0, 30).Draw(t, "lplus")
	v := genItem(t, 3, 0)
	style := rapid.IntRange(0, 3).Draw(t, "deepstyle") // arrays only, objects only, alternating, free
	for i := 0; i < d; i++ {
		switch {
		case style == 0:
			v = gen.List(v)
		case style == 1:
			v = gen.Obj().Put("k", v)
		case style == 2 && i%2 == 0:
			v = gen.List(v)
		case style == 2:
			v = gen.Obj().Put("k", v)
		default:
			v = genWrap(t, v, i%16 == 0)
		}
	}
	return v
}

// values of the "shape" draw (0..99) that select a big document; interior
// values, because rapid favours the ends of a range
const shapeWide, shapeDeep = 37, 61

func genCase(t *rapid.T) Case {
	depth, width := runlog.Pick(4, 6), runlog.Pick(4, 6)
	var c Case
	shape := rapid.IntRange(0, 99).Draw(t, "shape")
	// mostly documents (object or array at the top), sometimes a bare scalar
	switch top := rapid.IntRange(0, 9).Draw(t, "top"); {
	case shape == shapeWide:
		c.V = genWide(t)
	case shape == shapeDeep:
		c.V = genDeep(t)
	case top == 0:
		c.V = genValue(t, 0, width)
	case top <= 5:
		c.V = genObj(t, depth, width)
	default:
		c.V = genList(t, depth, width)
	}
	c.Indent = rapid.SampledFrom([]string{"  ", "\t", " ", "", "    ", "\r"}).Draw(t, "indent")
	c.Prefix = rapid.SampledFrom([]string{"", "", "", " ", "\t"}).Draw(t, "prefix")
	c.NoHTML = rapid.Bool().Draw(t, "nohtml")
	// the layout is drawn by running the writer once with a drawing chooser, so
	// that it has exactly one entry per choice point
	dense := rapid.IntRange(0, 2).Draw(t, "density")
	var pattern []int
	if shape == shapeDeep {
		// indentation makes the text of a deep document quadratic in its depth
		c.Indent = rapid.SampledFrom([]string{" ", "\t", "", "\r"}).Draw(t, "deepindent")
		c.Prefix = ""
	}
	if shape == shapeWide || shape == shapeDeep {
		// a big document has thousands of choice points: its layout repeats a
		// short drawn pattern instead of drawing every point
		pattern = rapid.SliceOfN(rapid.IntRange(0, 11), 1, 12).Draw(t, "pattern")
	}
	w := &jw{ch: func(n int) int {
		v := 0
		switch {
		case pattern != nil:
			v = pattern[len(c.Layout)%len(pattern)] % n
		case dense > 0 || rapid.IntRange(0, 3).Draw(t, "on") == 0:
			v = rapid.IntRange(0, n-1).Draw(t, "c")
		}
		c.Layout = append(c.Layout, v)
		return v
	}}
	w.doc(c.V)
	for len(c.Layout) > 0 && c.Layout[len(c.Layout)-1] == 0 {
		c.Layout = c.Layout[:len(c.Layout)-1]
	}
	return c
}

// ---------------------------------------------------------------------------
// the three renderings

func stdRender(c Case, indent bool) (string, error) {
	var buf bytes.Buffer
	enc := json.NewEncoder(&buf)
	enc.SetEscapeHTML(!c.NoHTML)
	if err := enc.Encode(c.V.Go()); err != nil {
		return "", err
	}
	out := bytes.TrimRight(buf.Bytes(), "\n")
	if !indent {
		return string(out), nil
	}
	var ind bytes.Buffer
	if err := json.Indent(&ind, out, onlyWS(c.Prefix), onlyWS(c.Indent)); err != nil {
		return "", err
	}
	return ind.String(), nil
}

// onlyWS keeps hand-written cases inside JSON: indentation must be whitespace.
func onlyWS(s string) string {
	return strings.Map(func(r rune) rune {
		if r == ' ' || r == '\t' || r == '\r' || r == '\n' {
			return r
		}
		return -1
	}, s)
}

func ownRender(c Case) string { return ownWriter(c).b.String() }

func ownWriter(c Case) *jw {
	pos := 0
	w := &jw{ch: func(n int) int {
		v := 0
		if pos < len(c.Layout) {
			v = c.Layout[pos] % n
			if v < 0 {
				v = -v
			}
		}
		pos++
		return v
	}}
	w.doc(c.V)
	return w
}

// ---------------------------------------------------------------------------
// oracle

func treeClasses(v *gen.Tree, r *runlog.R) {
	seen := map[string]bool{}
	empties, conts, maxMembers := 0, 0, 0
	v.Walk(nil, func(_ []string, n *gen.Tree) {
		strs := []string{}
		if n.IsCont() {
			conts++
			if len(n.Vals) == 0 {
				empties++
			}
			if len(n.Vals) > maxMembers {
				maxMembers = len(n.Vals)
			}
		}
		switch n.K {
		case "str":
			strs = append(strs, n.S)
		case "obj":
			strs = append(strs, n.Keys...)
			seen["value:object"] = true
			if len(n.Keys) == 0 {
				seen["value:empty container"] = true
			}
		case "list":
			seen["value:array"] = true
			if len(n.Vals) == 0 {
				seen["value:empty container"] = true
			}
		case "nil":
			seen["value:null"] = true
		case "int":
			seen["value:negative-capable int"] = true
			if n.I < -(1<<53) || n.I > 1<<53 {
				seen["value:|int| > 2^53"] = true
			}
		case "uint":
			if n.U > 1<<53 {
				seen["value:|int| > 2^53"] = true
			}
			if n.U > math.MaxInt64 {
				seen["value:int >= 2^63"] = true
			}
		case "float":
			seen["value:float"] = true
		}
		for _, s := range strs {
			for _, x := range s {
				switch {
				case x >= 0x10000:
					seen["string:astral rune"] = true
				case x >= 0x80:
					seen["string:non-ASCII"] = true
				case x < 0x20 || x == 0x7f:
					seen["string:control character"] = true
				case x == '"':
					seen["string:quote"] = true
				case x == '\\':
					seen["string:backslash"] = true
				}
			}
			if strings.HasSuffix(s, "\\") {
				seen["string:ends in backslash"] = true
			}
		}
	})
	for _, b := range []int{64, 128, 256} {
		seen[fmt.Sprintf("size:>=%d empty containers in one document", b)] = empties >= b
		seen[fmt.Sprintf("size:>=%d containers in one document", b)] = conts >= b
		seen[fmt.Sprintf("size:>=%d members in one container", b)] = maxMembers >= b
	}
	for k, on := range seen {
		if on {
			r.Class(k)
		}
	}
}

func runCase(c Case, r *runlog.R) error {
	if c.V == nil {
		r.Discard()
		return nil
	}
	want := c.V.Go()
	compact, err := stdRender(c, false)
	if err != nil {
		return fmt.Errorf("harness: encoding/json cannot render the case: %v", err)
	}
	indented, err := stdRender(c, true)
	if err != nil {
		return fmt.Errorf("harness: encoding/json cannot indent the case: %v", err)
	}
	ow := ownWriter(c)
	own := ow.b.String()
	if !json.Valid([]byte(own)) {
		return fmt.Errorf("harness: the own writer produced text that is not JSON: %q", own)
	}
	nt := c.V.Depth() >= 2
	for _, tx := range []struct{ name, text string }{{"encoding/json compact", compact}, {"encoding/json indented", indented}, {"own writer", own}} {
		got, err := parse.Value(tx.text)
		if err != nil {
			return fmt.Errorf("%s rendering rejected: %v\n text %q\n value %s", tx.name, err, tx.text, canon.Show(want))
		}
		if !canon.EqualData(got, want) {
			return fmt.Errorf("%s rendering read back differently\n text %q\n got  %s\n want %s", tx.name, tx.text, canon.Show(got), canon.Show(want))
		}
		ly := scanLayout(tx.text)
		if ly.escapes > 0 || ly.wsAfterValue {
			nt = true
		}
		if tx.name == "own writer" {
			for _, l := range ly.labels() {
				r.Class("own:" + l)
			}
		}
	}
	r.NonTrivialIf(nt)
	switch d := c.V.Depth(); {
	case d >= 256:
		r.Class("depth>=256")
	case d >= 128:
		r.Class("depth 128..255")
	case d >= 65:
		r.Class("depth 65..127")
	case d >= 10:
		r.Class("depth 10..64")
	default:
		r.Class(fmt.Sprintf("depth=%d", d))
	}
	if ow.bigFloatSyntax {
		r.Class("own:whole number beyond 2^53 with fraction/exponent")
	}
	if ow.bigAtLimit {
		r.Class("own:2^53, +-2^63 or 2^64 with fraction/exponent")
	}
	if ow.longDigits {
		r.Class("own:float with its exact (long) decimal expansion")
	}
	treeClasses(c.V, r)
	return nil
}

var subRound = runlog.Register(&runlog.Sub[Case]{
	Name: "json-roundtrip",
	Rule: "random JSON value (depth<=4/6, width<=4/6; strings over quotes, backslashes, slashes, control characters, non-ASCII and astral runes, keyword and number look-alikes; integers over [-2^63,2^64) incl. the edges; finite floats; the float64 values at and next to the powers of two 2^50..2^67 (lowest, second and highest mantissa, both signs); no duplicate keys). about 1 case in 100 is a WIDE document (a list or object with 63..420 members - empty lists/objects only, mostly empty ones, records whose list/object fields may be empty, or a mix - below 0-3 wrapper levels with members before and after it) and 1 in 100 a DEEP one (64..330 levels of arrays/objects, uniform, alternating or free with side members); no size limit is assumed because the library states none. Each value is rendered by encoding/json compact, by encoding/json indented (random indent/prefix) and by the harness's own RFC 8259 writer whose whitespace per token gap (so `[ ]`, `{\\n}`), escape style per character (literal, short escape, \\uXXXX in either hex case, \\/, surrogate pair) and number spelling (fraction, exponent forms, shifted decimal point, padding zeros, -0; digits = shortest decimal or the exact decimal expansion of the float64) are a list of choices stored in the case (big documents repeat a drawn pattern of <=12 choices). A whole number beyond 2^53 that no float64 holds keeps its integer spelling; one that is a float64 (2^63, -2^63, 2^64-2048, 2^53+2, ...; 2^64 and beyond as float) is also written with a fraction or an exponent, with its exact digits (9223372036854775808.0, 92233720368547758.08e2) or with the shortest digits (9.223372036854776e18), which denote it exactly resp. as the nearest float64. Every text must be accepted by parse.Value and equal the value canonically ([] = {} = nil, numbers by mathematical value, big.Int). Non-trivial: some text has whitespace after a string/array/object value, or an escape sequence, or the value nests >= 2 levels. Distinct: hash of the whole case.",
	Gen:  genCase,
	Run:  runCase,
})

func TestJSONRoundTrip(t *testing.T) { subRound.Check(t, 600000, 10000000) }

func TestReplay(t *testing.T) { runlog.ReplayMain(t) }

// ---------------------------------------------------------------------------
// layout scanner: what a JSON text exercises (used for NT and the histogram)

type layout struct {
	escapes           int
	escSlash          bool // \/
	escU              bool // \uXXXX
	escSurrogate      bool // \uD8xx\uDCxx
	escShort          bool
	endsInEscBacksl   bool // string ends in an escaped backslash
	wsAfterValue      bool // whitespace after a string/array/object value, before , ] }
	wsAfterValueInObj bool
	wsAfterValueInArr bool
	wsAfterScalar     bool // whitespace after a number/keyword, before , ] }
	wsBeforeColon     bool
	wsAfterColon      bool
	wsAfterOpen       bool
	wsAfterComma      bool
	multiline         bool
	exponent          bool
	fraction          bool
	depth             int
}

func (l layout) labels() []string {
	var out []string
	add := func(c bool, s string) {
		if c {
			out = append(out, s)
		}
	}
	add(l.escSlash, `escape \/`)
	add(l.escU, `escape \uXXXX`)
	add(l.escSurrogate, "escape surrogate pair")
	add(l.escShort, "escape short")
	add(l.endsInEscBacksl, "string ends in escaped backslash")
	add(l.wsAfterValueInObj, "ws after string/array/object value in object")
	add(l.wsAfterValueInArr, "ws after string/array/object value in array")
	add(l.wsAfterScalar, "ws after number/keyword")
	add(l.wsBeforeColon, "ws before colon")
	add(l.wsAfterColon, "ws after colon")
	add(l.wsAfterOpen, "ws after [ or {")
	add(l.wsAfterComma, "ws after comma")
	add(l.multiline, "multi-line")
	add(l.exponent, "number with exponent")
	add(l.fraction, "number with fraction")
	return out
}

func isJSONSpace(b byte) bool { return b == ' ' || b == '\t' || b == '\n' || b == '\r' }

// scanLayout assumes text is valid JSON.
func scanLayout(text string) layout {
	var l layout
	var stack []byte
	n := len(text)
	skip := func(i int) int {
		for i < n && isJSONSpace(text[i]) {
			i++
		}
		return i
	}
	afterValue := func(i int, compound bool) {
		j := skip(i)
		if j == i || j >= n {
			return
		}
		switch text[j] {
		case ',', ']', '}':
			if !compound {
				l.wsAfterScalar = true
				return
			}
			l.wsAfterValue = true
			if len(stack) > 0 && stack[len(stack)-1] == '{' {
				l.wsAfterValueInObj = true
			} else {
				l.wsAfterValueInArr = true
			}
		case ':':
			l.wsBeforeColon = true
		}
	}
	for i := 0; i < n; {
		c := text[i]
		switch {
		case c == '\n':
			l.multiline = true
			i++
		case isJSONSpace(c):
			i++
		case c == '[' || c == '{':
			stack = append(stack, c)
			if len(stack) > l.depth {
				l.depth = len(stack)
			}
			i++
			if j := skip(i); j > i {
				l.wsAfterOpen = true
			}
		case c == ']' || c == '}':
			if len(stack) > 0 {
				stack = stack[:len(stack)-1]
			}
			i++
			afterValue(i, true)
		case c == ',' || c == ':':
			i++
			if j := skip(i); j > i {
				if c == ',' {
					l.wsAfterComma = true
				} else {
					l.wsAfterColon = true
				}
			}
		case c == '"':
			i++
			lastEscBackslash := false
			for i < n && text[i] != '"' {
				lastEscBackslash = false
				if text[i] == '\\' && i+1 < n {
					l.escapes++
					switch text[i+1] {
					case '/':
						l.escSlash = true
					case 'u':
						l.escU = true
						if i+6 <= n {
							if v, err := strconv.ParseUint(text[i+2:i+6], 16, 32); err == nil && v >= 0xd800 && v < 0xdc00 {
								l.escSurrogate = true
							}
						}
					case '\\':
						lastEscBackslash = true
						l.escShort = true
					default:
						l.escShort = true
					}
					i += 2
					continue
				}
				_, sz := utf8.DecodeRuneInString(text[i:])
				i += sz
			}
			if lastEscBackslash {
				l.endsInEscBacksl = true
			}
			i++
			afterValue(i, true)
		default:
			j := i
			for j < n && !isJSONSpace(text[j]) && !strings.ContainsRune(",]}:", rune(text[j])) {
				if text[j] == 'e' || text[j] == 'E' {
					if c == '-' || (c >= '0' && c <= '9') {
						l.exponent = true
					}
				}
				if text[j] == '.' {
					l.fraction = true
				}
				j++
			}
			i = j
			afterValue(i, false)
		}
	}
	return l
}
