package c17

import (
	"encoding/json"
	"errors"
	"fmt"
	"math"
	"math/big"
	"strconv"
	"strings"
	"testing"
	"unicode/utf8"

	"github.com/elastic/go-ucfg/parse"

	"verif/harness/internal/canon"
	"verif/harness/internal/runlog"
)

// TextCase is a text; the differential oracle applies when encoding/json
// accepts it as a JSON value.
type TextCase struct {
	Text string `json:"text"`
}

type skipErr struct{ why string }

func (s skipErr) Error() string { return s.why }

// numberOf gives the number a JSON number literal denotes, in the reading of
// the property: an integer literal within [-2^63, 2^64) is that integer;
// everything else is the nearest float64. Literals for which "numerically
// equal" cannot hold are skipped: beyond the float64 range, rounded to zero,
// or integer literals beyond 64 bits that no float64 holds exactly.
func numberOf(s string) (interface{}, error) {
	if !strings.ContainsAny(s, ".eE") {
		if u, err := strconv.ParseUint(s, 10, 64); err == nil {
			return u, nil
		}
		if i, err := strconv.ParseInt(s, 10, 64); err == nil {
			return i, nil
		}
		bi, ok := new(big.Int).SetString(s, 10)
		if !ok {
			return nil, skipErr{"unreadable integer literal"}
		}
		f, acc := new(big.Float).SetInt(bi).Float64()
		if acc != big.Exact || math.IsInf(f, 0) {
			return nil, skipErr{"integer literal beyond 64 bits that float64 cannot hold exactly"}
		}
		return f, nil
	}
	f, err := strconv.ParseFloat(s, 64)
	if err != nil || math.IsInf(f, 0) {
		return nil, skipErr{"number beyond the float64 range"}
	}
	if f == 0 {
		mant := s
		if i := strings.IndexAny(mant, "eE"); i >= 0 {
			mant = mant[:i]
		}
		if strings.ContainsAny(mant, "123456789") {
			return nil, skipErr{"number rounds to zero"}
		}
	}
	return f, nil
}

// readJSON decodes one value token by token, so that duplicate keys are seen.
func readJSON(dec *json.Decoder) (interface{}, error) {
	tok, err := dec.Token()
	if err != nil {
		return nil, err
	}
	switch x := tok.(type) {
	case json.Delim:
		switch x {
		case '[':
			out := []interface{}{}
			for dec.More() {
				e, err := readJSON(dec)
				if err != nil {
					return nil, err
				}
				out = append(out, e)
			}
			_, err := dec.Token()
			return out, err
		case '{':
			out := map[string]interface{}{}
			for dec.More() {
				kt, err := dec.Token()
				if err != nil {
					return nil, err
				}
				k, ok := kt.(string)
				if !ok {
					return nil, fmt.Errorf("key token %T", kt)
				}
				if _, dup := out[k]; dup {
					return nil, skipErr{"duplicate key"}
				}
				v, err := readJSON(dec)
				if err != nil {
					return nil, err
				}
				out[k] = v
			}
			_, err := dec.Token()
			return out, err
		}
		return nil, fmt.Errorf("unexpected delimiter %v", x)
	case json.Number:
		return numberOf(string(x))
	default:
		return tok, nil // string, bool, nil
	}
}

func countReplacement(v interface{}) int {
	switch x := v.(type) {
	case string:
		return strings.Count(x, "\ufffd")
	case []interface{}:
		n := 0
		for _, e := range x {
			n += countReplacement(e)
		}
		return n
	case map[string]interface{}:
		n := 0
		for k, e := range x {
			n += strings.Count(k, "\ufffd") + countReplacement(e)
		}
		return n
	}
	return 0
}

// checkText is the differential oracle shared by the enumeration, the seed
// list and the native fuzz target. skip != "" means the text is outside the
// property's domain (not a JSON text, or JSON whose meaning the statement does
// not fix).
func checkText(text string) (skip string, err error) {
	if !utf8.ValidString(text) {
		return "not UTF-8", nil
	}
	if !json.Valid([]byte(text)) {
		return "not JSON", nil
	}
	dec := json.NewDecoder(strings.NewReader(text))
	dec.UseNumber()
	want, derr := readJSON(dec)
	if derr != nil {
		var s skipErr
		if errors.As(derr, &s) {
			return s.why, nil
		}
		return "", fmt.Errorf("harness: encoding/json validates %q but the token reader fails: %v", text, derr)
	}
	if countReplacement(want) > strings.Count(text, "\ufffd") {
		// an unpaired surrogate escape: RFC 8259 calls the outcome unpredictable
		return "unpaired surrogate escape", nil
	}
	got, perr := parse.Value(text)
	if perr != nil {
		return "", fmt.Errorf("JSON text rejected: %v\n text %q\n value %s", perr, text, canon.Show(want))
	}
	if !canon.EqualData(got, want) {
		return "", fmt.Errorf("JSON text read differently from encoding/json\n text %q\n got  %s\n want %s", text, canon.Show(got), canon.Show(want))
	}
	return "", nil
}

func runText(c TextCase, r *runlog.R) error {
	skip, err := checkText(c.Text)
	if err != nil {
		return err
	}
	if skip != "" {
		r.Discard()
		return nil
	}
	ly := scanLayout(c.Text)
	r.NonTrivialIf(ly.escapes > 0 || ly.wsAfterValue || ly.depth >= 2)
	for _, l := range ly.labels() {
		r.Class(l)
	}
	r.Class(fmt.Sprintf("depth=%d", ly.depth))
	return nil
}

// ---------------------------------------------------------------------------
// exhaustive: every text up to a length bound over a small alphabet that
// encoding/json accepts

const shortAlphabet = "[]{},:\"\\/an10-.e "

// viablePrefix reports whether some continuation can turn b into a JSON text.
// It only cuts the search (a prefix automaton of the RFC 8259 grammar); what is
// a JSON text is decided by encoding/json. It must never say false for a
// prefix of a JSON text: TestEnumSelfCheck compares the pruned with the
// unpruned enumeration.
func viablePrefix(b []byte) bool {
	const (
		sValue = iota
		sValueOrEnd
		sKeyOrEnd
		sKey
		sColon
		sAfter
		sStr
		sStrEsc
		sStrU
		sNeg
		sZero
		sInt
		sDot
		sFrac
		sE
		sESign
		sExp
		sLit
	)
	var stack []byte
	st, isKey, lit, ucount := sValue, false, "", 0
	digit := func(c byte) bool { return c >= '0' && c <= '9' }
	for i := 0; i < len(b); i++ {
		c := b[i]
	again:
		switch st {
		case sValue, sValueOrEnd:
			switch {
			case isJSONSpace(c):
			case c == '[':
				stack, st = append(stack, c), sValueOrEnd
			case c == '{':
				stack, st = append(stack, c), sKeyOrEnd
			case c == ']' && st == sValueOrEnd:
				stack, st = stack[:len(stack)-1], sAfter
			case c == '"':
				st, isKey = sStr, false
			case c == '-':
				st = sNeg
			case c == '0':
				st = sZero
			case digit(c):
				st = sInt
			case c == 't':
				st, lit = sLit, "rue"
			case c == 'f':
				st, lit = sLit, "alse"
			case c == 'n':
				st, lit = sLit, "ull"
			default:
				return false
			}
		case sKeyOrEnd, sKey:
			switch {
			case isJSONSpace(c):
			case c == '"':
				st, isKey = sStr, true
			case c == '}' && st == sKeyOrEnd:
				stack, st = stack[:len(stack)-1], sAfter
			default:
				return false
			}
		case sColon:
			switch {
			case isJSONSpace(c):
			case c == ':':
				st = sValue
			default:
				return false
			}
		case sAfter:
			switch {
			case isJSONSpace(c):
			case len(stack) == 0:
				return false
			case c == ',' && stack[len(stack)-1] == '[':
				st = sValue
			case c == ',' && stack[len(stack)-1] == '{':
				st = sKey
			case c == ']' && stack[len(stack)-1] == '[', c == '}' && stack[len(stack)-1] == '{':
				stack = stack[:len(stack)-1]
			default:
				return false
			}
		case sStr:
			switch {
			case c == '"' && isKey:
				st = sColon
			case c == '"':
				st = sAfter
			case c == '\\':
				st = sStrEsc
			case c < 0x20:
				return false
			}
		case sStrEsc:
			switch {
			case strings.IndexByte("\"\\/bfnrt", c) >= 0:
				st = sStr
			case c == 'u':
				st, ucount = sStrU, 0
			default:
				return false
			}
		case sStrU:
			if !digit(c) && !(c >= 'a' && c <= 'f') && !(c >= 'A' && c <= 'F') {
				return false
			}
			if ucount++; ucount == 4 {
				st = sStr
			}
		case sNeg:
			switch {
			case c == '0':
				st = sZero
			case digit(c):
				st = sInt
			default:
				return false
			}
		case sZero, sInt, sFrac, sExp:
			switch {
			case digit(c) && st != sZero:
			case c == '.' && (st == sZero || st == sInt):
				st = sDot
			case (c == 'e' || c == 'E') && st != sExp:
				st = sE
			default:
				st = sAfter // the number ended before c
				goto again
			}
		case sDot:
			if !digit(c) {
				return false
			}
			st = sFrac
		case sE:
			switch {
			case c == '+' || c == '-':
				st = sESign
			case digit(c):
				st = sExp
			default:
				return false
			}
		case sESign:
			if !digit(c) {
				return false
			}
			st = sExp
		case sLit:
			if c != lit[0] {
				return false
			}
			if lit = lit[1:]; lit == "" {
				st = sAfter
			}
		}
	}
	return true
}

// enumTexts visits, in lexicographic order of symbol indices, every text of
// length 1..maxLen over the alphabet that encoding/json accepts. Prefixes that
// no continuation can turn into JSON are cut off (prune=false visits all
// |alphabet|^n texts instead; TestEnumSelfCheck compares the two).
func enumTexts(alphabet string, maxLen int, prune bool, yield func(string) bool) {
	buf := make([]byte, 0, maxLen)
	var rec func() bool
	rec = func() bool {
		for i := 0; i < len(alphabet); i++ {
			buf = append(buf, alphabet[i])
			valid, more := json.Valid(buf), true
			if prune && !valid {
				more = viablePrefix(buf)
			}
			if valid && !yield(string(buf)) {
				return false
			}
			if more && len(buf) < maxLen && !rec() {
				return false
			}
			buf = buf[:len(buf)-1]
		}
		return true
	}
	rec()
}

func enumShort(yield func(TextCase) bool) {
	enumTexts(shortAlphabet, runlog.Pick(6, 7), true, func(s string) bool { return yield(TextCase{Text: s}) })
}

// TestEnumSelfCheck guards the pruning: up to length 4 the pruned enumeration
// must find exactly the texts the unpruned one finds (over a wider alphabet
// than the sub-check's, so that literals and \\u escapes are covered too).
func TestEnumSelfCheck(t *testing.T) {
	if runlog.Env().Replay != "" {
		t.Skip("replay mode")
	}
	var a, b []string
	const wide = shortAlphabet + "truflsE+\t"
	enumTexts(wide, 4, true, func(s string) bool { a = append(a, s); return true })
	enumTexts(wide, 4, false, func(s string) bool { b = append(b, s); return true })
	enumTexts(shortAlphabet, 5, true, func(s string) bool { a = append(a, s); return true })
	enumTexts(shortAlphabet, 5, false, func(s string) bool { b = append(b, s); return true })
	if len(a) != len(b) {
		t.Fatalf("harness: pruned enumeration found %d texts, unpruned %d", len(a), len(b))
	}
	for i := range a {
		if a[i] != b[i] {
			t.Fatalf("harness: enumerations differ at %d: %q vs %q", i, a[i], b[i])
		}
	}
}

var subShort = runlog.Register(&runlog.Sub[TextCase]{
	Name: "short-texts",
	Rule: "every text of length <= 6 (quick) / 7 (thorough) over the 17 symbols `[ ] { } , : \" \\ / a n 1 0 - . e space` that encoding/json accepts as a JSON value (depth-first over all 17^n texts, cutting prefixes that no continuation can complete; a self-check compares with the unpruned enumeration up to length 5); parse.Value must accept it and return the data encoding/json decodes (integers exact, other numbers as nearest float64; texts with duplicate keys or numbers beyond float64 are discarded). Non-trivial: whitespace after a string/array/object value, or an escape sequence, or nesting >= 2.",
	Enum: enumShort,
	Run:  runText,
})

func TestShortTexts(t *testing.T) { subShort.Enumerate(t, true) }

// ---------------------------------------------------------------------------
// hostile constants: seed corpus of the fuzz target, also run as a sub-check

var seedTexts = []string{
	`"a\\"`, `"\\"`, `"\\\\"`, `"\\\""`, `"\"\\"`, `["a\\","b"]`, `{"a\\":"b\\"}`, `{"k":"\\"}`, `{"k\\":1}`,
	`"\/"`, `"a\/b"`, `"<\/script>"`, `"\ud83d\ude00"`, `"\uD834\uDD1E"`, `"\uD83d\udE00x"`, `{"\ud83d\ude00":1}`,
	`"\u005c"`, `"\u0022"`, `"\u002f"`, `"\u002F"`, `"\u0000"`, `"\u001f"`, `"\u007f"`, `"\u00e9"`, `"\u00E9"`, `"\u2028"`, `"\uffff"`,
	`"\b\f\n\r\t"`, `"\"\\\/\b\f\n\r\t"`, "\"\u00e9\"", "\"\U0001F600\"", "\"\x7f\"", "\"\u2028\"", "\"\ufffd\"",
	`{"a": "x" }`, `{"a": [] }`, `{"a": {} }`, `{"a": "x" , "b": "y"}`, `{"a" : "x"}`, `{ "a":"x"}`, "{\n  \"a\": \"x\"\n}", "{\n\t\"a\": [\n\t\t1\n\t]\n}",
	"[\n  \"x\"\n]", "[\n  [\n    {\n      \"a\": null\n    }\n  ]\n]", `[1 , 2 ]`, `[ 1,2]`, `[ "a" , "b" ]`, `{"a" : 1 , "b" : [ ] }`, "\t1\n", " \r\n\"x\"\r\n ",
	`[]`, `{}`, ` [ ] `, `{ }`, `[[]]`, `[{}]`, `[[],{}]`, `{"a":{}}`, `{"a":[]}`, `{"a":null}`, `[null]`, `[null,null]`, `{"":""}`, `{"":{"":{}}}`,
	`null`, `true`, `false`, `[true,false,null]`, `"true"`, `"false"`, `"null"`, `"on"`, `"12"`, `"-1"`, `"1.5"`, `"1e5"`, `"0x10"`,
	`0`, `-0`, `-0.0`, `0.0`, `0e0`, `1e2`, `1E2`, `1E+2`, `1e-2`, `1e+00`, `1.0`, `1.50`, `10`, `-1`, `100e-2`, `0.1`, `0.5e1`,
	`18446744073709551615`, `18446744073709551616`, `9223372036854775807`, `9223372036854775808`, `-9223372036854775808`, `-9223372036854775809`,
	`9007199254740993`, `-9007199254740993`, `1.7976931348623157e308`, `5e-324`, `2.2250738585072014e-308`, `123456789012345678901234567890`, `1e22`, `1e23`,
	`""`, `" "`, `" a "`, `[""]`, `"'"`, `"'a'"`, `"a,b"`, `"a, b"`, `"[1]"`, `"{a:1}"`, `"]"`, `"}"`, `":"`, `","`, `"${x}"`, `"$"`, `"a b"`, `"a.b"`,
	`[1,"a",true,null,{"x":1.5}]`, `{"a":[1,{"b":[2,{"c":"d"}]}]}`, `[[[[[[1]]]]]]`, `{"a":{"b":{"c":{"d":{}}}}}`, `{"a":1,"b":2,"c":3}`, `{"b":1,"a":[true]}`,
	// whole numbers in float syntax at the limits of the integer types and of the float64 mantissa
	`9223372036854775808.0`, `9.223372036854775808e18`, `92233720368547758.08e2`, `-9223372036854775808.0`, `-9.223372036854775808E+18`, `9223372036854775807.0`,
	`18446744073709551616.0`, `1.8446744073709551616e19`, `18446744073709551615.0`, `9007199254740992.0`, `9007199254740993.0`, `9.007199254740992e15`, `[0, 9223372036854775808.0]`, `{"n": 1.8446744073709552e19}`,
	// many containers side by side, many levels
	"[" + strings.Repeat("[],", 99) + "{}]", "[" + strings.Repeat("[ ], { },", 50) + "[1]]", "{\"a\":[" + strings.Repeat("{\"t\":[],\"a\":{}},", 60) + "0],\"b\":{\"c\":[1]}}",
	strings.Repeat("[", 200) + strings.Repeat("]", 200), strings.Repeat("{\"k\":[", 100) + "1" + strings.Repeat("]}", 100),
	// outside the domain (skipped by the oracle, kept so that the fuzzer starts near the borders)
	`1e400`, `-1e400`, `1e-400`, `{"a":1,"a":2}`, `"\ud800"`, `"\udc00\ud800"`, `01`, `[1,]`, `{"a":1,}`, `'a'`, `[`, `{`, `"`, `"\`, `"\x41"`, `"\'"`, `tru`, `+1`, `.5`, `1.`, "\"\n\"",
}

func enumSeeds(yield func(TextCase) bool) {
	for _, s := range seedTexts {
		if !yield(TextCase{Text: s}) {
			return
		}
	}
}

var subSeeds = runlog.Register(&runlog.Sub[TextCase]{
	Name: "seed-texts",
	Rule: "fixed list of hostile JSON texts (escaped backslash before the closing quote, JSON-only escapes, every layout position of whitespace, number edge spellings incl. whole numbers in float syntax at 2^53/2^63/2^64, empty containers, 100+ containers side by side, 200 levels, keyword look-alikes); same differential oracle as short-texts. It is the seed corpus of the native fuzz target FuzzJSONRoundTrip.",
	Enum: enumSeeds,
	Run:  runText,
})

func TestSeedTexts(t *testing.T) { subSeeds.Enumerate(t, true) }

// FuzzJSONRoundTrip is the native fuzz target (thorough tier; see
// cmd/verifctl): bytes -> if they are a JSON text whose meaning is fixed (valid
// UTF-8, json.Valid, no duplicate keys, numbers within range, no unpaired
// surrogate escape) -> parse.Value must return what encoding/json decodes.
func FuzzJSONRoundTrip(f *testing.F) {
	for _, s := range seedTexts {
		f.Add([]byte(s))
	}
	f.Fuzz(func(t *testing.T, data []byte) {
		if len(data) > 1<<16 {
			return
		}
		if _, err := checkText(string(data)); err != nil {
			t.Fatalf("C17 violated: %v", err)
		}
	})
}
