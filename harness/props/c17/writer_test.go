package c17

import (
	"fmt"
	"math"
	"math/big"
	"math/bits"
	"strconv"
	"strings"
	"unicode/utf16"

	"verif/harness/internal/gen"
)

// jw is the harness's own RFC 8259 writer. Wherever the grammar leaves a
// choice it asks ch(n) for a number in [0,n); choice 0 is always the plainest
// spelling (no whitespace, literal character or shortest escape, plain
// number), so that a layout shrinks towards the compact form.
type jw struct {
	b  strings.Builder
	ch func(n int) int
	// what the writer did (for the class histogram)
	bigFloatSyntax bool // an integral value beyond 2^53 was written with a fraction or an exponent
	bigAtLimit     bool // ... and its magnitude is 2^53, 2^63 or 2^64
	longDigits     bool // a float was written with its exact (long) decimal expansion
}

var wsChoices = []string{"", "", "", "", " ", "\n", "\t", "\r", "\r\n", "  ", "\n\t ", " \n  "}

func (w *jw) gap() { w.b.WriteString(wsChoices[w.ch(len(wsChoices))]) }

// doc writes a complete JSON text: ws value ws.
func (w *jw) doc(v *gen.Tree) {
	w.gap()
	w.value(v)
	w.gap()
}

func (w *jw) value(v *gen.Tree) {
	switch v.K {
	case "nil":
		w.b.WriteString("null")
	case "bool":
		w.b.WriteString(strconv.FormatBool(v.B))
	case "int":
		neg, mag := v.I < 0, uint64(v.I)
		if neg {
			mag = -mag // also right for -2^63
		}
		w.integer(neg, mag)
	case "uint":
		w.integer(false, v.U)
	case "float":
		w.float(v.FloatVal())
	case "str":
		w.str(v.S)
	case "list":
		w.b.WriteByte('[')
		w.gap()
		for i, e := range v.Vals {
			if i > 0 {
				w.b.WriteByte(',')
				w.gap()
			}
			w.value(e)
			w.gap()
		}
		w.b.WriteByte(']')
	case "obj":
		w.b.WriteByte('{')
		w.gap()
		for i, k := range v.Keys {
			if i > 0 {
				w.b.WriteByte(',')
				w.gap()
			}
			w.str(k)
			w.gap()
			w.b.WriteByte(':')
			w.gap()
			w.value(v.Vals[i])
			w.gap()
		}
		w.b.WriteByte('}')
	default:
		panic("bad tree kind " + v.K)
	}
}

// floatExact: the integer mag is a float64 (its significant bits fit 53).
func floatExact(mag uint64) bool {
	return mag == 0 || bits.Len64(mag)-bits.TrailingZeros64(mag) <= 53
}

// integer writes an integer of [-2^63, 2^64). Up to 2^53 every spelling of
// the number is free. Beyond 2^53 an integer that no float64 holds keeps its
// integer spelling (with a fraction or an exponent the literal would be read
// as the nearest float64, another number). One that IS a float64 (2^63, 2^64-2048,
// 2^53+2, ...) may also be written in float syntax: with its exact digits in any
// spelling (9223372036854775808.0, 92233720368547758.08e2; the literal denotes
// the integer exactly, whichever way it is read), or with the shortest digits
// that identify the float64, then necessarily with a fraction or an exponent
// (9.223372036854776e18: the nearest float64 is the integer).
func (w *jw) integer(neg bool, mag uint64) {
	d := strconv.FormatUint(mag, 10)
	if mag <= 1<<53 {
		w.number(neg, d, 0, false)
		return
	}
	if !floatExact(mag) {
		w.number(neg, d, 0, true)
		return
	}
	start := w.b.Len()
	switch w.ch(4) {
	case 0, 1:
		w.number(neg, d, 0, true)
	case 2:
		e := 0
		for len(d) > 1 && d[len(d)-1] == '0' {
			d, e = d[:len(d)-1], e+1
		}
		w.number(neg, d, e, false)
	default:
		_, sd, e := decimalOf(float64(mag))
		w.numberFloat(neg, sd, e)
	}
	if strings.ContainsAny(w.b.String()[start:], ".eE") {
		w.bigFloatSyntax = true
		if mag == 1<<63 || mag == 1<<53 {
			w.bigAtLimit = true
		}
	}
}

var floatTails = []string{".0", "e0", "E0", ".00", "e+0", "E-0", ".0e0", ".000E+00"}

// numberFloat is number, but the spelling always has a fraction or an exponent.
func (w *jw) numberFloat(neg bool, d string, e int) {
	start := w.b.Len()
	w.number(neg, d, e, false)
	if !strings.ContainsAny(w.b.String()[start:], ".eE") {
		w.b.WriteString(floatTails[w.ch(len(floatTails))])
	}
}

// exactDecimal returns the exact decimal expansion of the finite float f != 0 in
// the form of decimalOf (every float64 is a finite decimal).
func exactDecimal(f float64) (digits string, exp int) {
	_, be := math.Frexp(f) // |f| = m * 2^be, m in [0.5,1): the lowest bit is worth 2^(be-53)
	frac := 0
	if be < 53 {
		frac = 53 - be
	}
	s := new(big.Float).SetFloat64(math.Abs(f)).Text('f', frac)
	if dot := strings.IndexByte(s, '.'); dot >= 0 {
		exp = -(len(s) - dot - 1)
		s = s[:dot] + s[dot+1:]
	}
	s = strings.TrimLeft(s, "0")
	for len(s) > 1 && s[len(s)-1] == '0' {
		s, exp = s[:len(s)-1], exp+1
	}
	return s, exp
}

// float writes a float64 value. The digits are the shortest decimal that
// identifies it or (by choice, for moderate exponents) its exact decimal
// expansion; both denote f for a correctly rounding reader. An integral value
// of [2^53, 2^64) / [-2^63, -2^53] with the shortest digits needs float syntax
// (as an integer literal those digits are another integer).
func (w *jw) float(f float64) {
	neg, d, e := decimalOf(f)
	if f == math.Trunc(f) && math.Abs(f) >= 1<<53 {
		start := w.b.Len()
		inRange := (f > 0 && f < 1<<64) || (f < 0 && f >= -(1<<63))
		switch {
		case w.ch(2) == 1 && math.Abs(f) < 1e60:
			d, e = exactDecimal(f)
			w.number(neg, d, e, false)
		case inRange:
			w.numberFloat(neg, d, e)
		default:
			w.number(neg, d, e, false)
		}
		if strings.ContainsAny(w.b.String()[start:], ".eE") {
			w.bigFloatSyntax = true
			if math.Abs(f) == 1<<64 || math.Abs(f) == 1<<63 {
				w.bigAtLimit = true
			}
		}
		return
	}
	if _, be := math.Frexp(f); f != 0 && be > -70 && be < 200 && w.ch(6) == 5 {
		d, e = exactDecimal(f)
		w.longDigits = true
	}
	w.number(neg, d, e, false)
}

// decimalOf returns the shortest decimal that identifies f: f is the float64
// nearest to (-1)^neg * digits * 10^exp, digits has no leading or trailing
// zeros (it is "0" for zero). Every spelling of that decimal is read back as f
// by a correctly rounding reader.
func decimalOf(f float64) (neg bool, digits string, exp int) {
	s := strconv.FormatFloat(f, 'e', -1, 64) // [-]d[.ddd]e±dd
	if s[0] == '-' {
		neg, s = true, s[1:]
	}
	ei := strings.IndexByte(s, 'e')
	mant := s[:ei]
	exp, _ = strconv.Atoi(s[ei+1:])
	if dot := strings.IndexByte(mant, '.'); dot >= 0 {
		exp -= len(mant) - dot - 1
		mant = mant[:dot] + mant[dot+1:]
	}
	mant = strings.TrimLeft(mant, "0")
	if mant == "" {
		return neg, "0", 0
	}
	for len(mant) > 1 && mant[len(mant)-1] == '0' {
		mant = mant[:len(mant)-1]
		exp++
	}
	return neg, mant, exp
}

func zeros(n int) string { return strings.Repeat("0", n) }

// number writes (-1)^neg * d * 10^e in one of the spellings RFC 8259 allows:
// number = [ minus ] int [ frac ] [ exp ], int = zero / ( digit1-9 *DIGIT ).
// plainOnly (requires e == 0) forces the integer spelling.
func (w *jw) number(neg bool, d string, e int, plainOnly bool) {
	if plainOnly {
		if neg {
			w.b.WriteByte('-')
		}
		w.b.WriteString(d)
		return
	}
	style := w.ch(8)
	if neg || (d == "0" && w.ch(4) == 3) { // "-0" is a legal spelling of zero
		w.b.WriteByte('-')
	}
	zero := d == "0"
	switch {
	case style <= 1 && e == 0:
		// plain integer
		w.b.WriteString(d)
		return
	case style <= 1 && e > 0 && e <= 25:
		// positional, no exponent (only for integral values)
		w.b.WriteString(d)
		if !zero {
			w.b.WriteString(zeros(e))
		}
		return
	case style <= 1 && e < 0 && e >= -25:
		// positional with a fraction, no exponent
		if len(d) > -e {
			w.b.WriteString(d[:len(d)+e] + "." + d[len(d)+e:])
		} else {
			w.b.WriteString("0." + zeros(-e-len(d)) + d)
		}
		return
	case style == 2 || style <= 1:
		// digits and exponent
		w.b.WriteString(d)
		w.exp(e, false)
	case style == 3:
		// scientific: one digit before the point
		w.b.WriteString(d[:1])
		if len(d) > 1 {
			w.b.WriteString("." + d[1:])
		}
		w.exp(e+len(d)-1, true)
	case style == 4:
		// point anywhere inside the digits
		p := 1 + w.ch(len(d))
		w.b.WriteString(d[:p])
		if p < len(d) {
			w.b.WriteString("." + d[p:])
		}
		w.exp(e+len(d)-p, true)
	case style == 5:
		// 0.000ddd with a compensating exponent
		k := w.ch(3)
		w.b.WriteString("0." + zeros(k) + d)
		w.exp(e+len(d)+k, true)
	case style == 6:
		// padding zeros on the right, as fraction digits
		k := 1 + w.ch(3)
		w.b.WriteString(d + "." + zeros(k))
		w.exp(e, true)
	default:
		// padding zeros on the right, inside the integer part
		k := 1 + w.ch(3)
		if zero {
			w.b.WriteString("0." + zeros(k))
			w.exp(e, true)
		} else {
			w.b.WriteString(d + zeros(k))
			w.exp(e-k, false)
		}
	}
}

// exp writes the exponent part; it may be left out when it is zero.
func (w *jw) exp(e int, mayOmit bool) {
	if e == 0 && mayOmit && w.ch(2) == 0 {
		return
	}
	if e == 0 && !mayOmit && w.ch(3) == 0 {
		return
	}
	if w.ch(2) == 0 {
		w.b.WriteByte('e')
	} else {
		w.b.WriteByte('E')
	}
	sign := w.ch(3)
	switch {
	case e < 0:
		w.b.WriteByte('-')
		e = -e
	case sign == 1:
		w.b.WriteByte('+')
	case sign == 2 && e == 0:
		w.b.WriteByte('-')
	}
	if w.ch(5) == 4 {
		w.b.WriteString("00")
	}
	w.b.WriteString(strconv.Itoa(e))
}

var shortEsc = map[rune]string{'\b': `\b`, '\f': `\f`, '\n': `\n`, '\r': `\r`, '\t': `\t`}

func hex4(v rune, upper bool) string {
	if upper {
		return fmt.Sprintf(`\u%04X`, v)
	}
	return fmt.Sprintf(`\u%04x`, v)
}

// str writes a JSON string; every character picks one of its legal spellings.
func (w *jw) str(s string) {
	w.b.WriteByte('"')
	for _, r := range s {
		style := w.ch(8)
		switch {
		case r == '"' || r == '\\':
			if style < 6 {
				w.b.WriteString(`\` + string(r))
			} else {
				w.b.WriteString(hex4(r, style == 7))
			}
		case r == '/':
			switch {
			case style < 4:
				w.b.WriteByte('/')
			case style < 6:
				w.b.WriteString(`\/`)
			default:
				w.b.WriteString(hex4(r, style == 7))
			}
		case r < 0x20:
			if se, ok := shortEsc[r]; ok && style < 5 {
				w.b.WriteString(se)
			} else {
				w.b.WriteString(hex4(r, style%2 == 1))
			}
		case r < 0x10000:
			if style < 5 {
				w.b.WriteRune(r)
			} else {
				w.b.WriteString(hex4(r, style == 7))
			}
		default:
			if style < 5 {
				w.b.WriteRune(r)
			} else {
				r1, r2 := utf16.EncodeRune(r)
				w.b.WriteString(hex4(r1, style >= 6) + hex4(r2, style == 7))
			}
		}
	}
	w.b.WriteByte('"')
}
