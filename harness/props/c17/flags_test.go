package c17

import (
	"fmt"
	"strings"
	"testing"

	"github.com/elastic/go-ucfg/parse"
	"pgregory.net/rapid"

	"verif/harness/internal/canon"
	"verif/harness/internal/runlog"
)

// FlagCase is a text in which exactly one syntax feature occurs (one array,
// one object, one double quoted string, one single quoted string, or top-level
// commas), optionally placed inside one enclosing array or object, together
// with a parse.Config.
type FlagCase struct {
	Feature string   `json:"feature"`        // array | object | dquote | squote | comma
	Items   []string `json:"items"`          // array/comma: elements; object: key, value, key, value...; quotes: fragments of the content
	Seps    []string `json:"seps,omitempty"` // quotes: separators between the fragments ("," or an inert one)
	Pad     []string `json:"pad,omitempty"`  // whitespace used round-robin at every token gap
	Wrap    string   `json:"wrap,omitempty"` // "" | array | object
	Array   bool     `json:"array"`
	Object  bool     `json:"object"`
	DQuote  bool     `json:"dquote"`
	SQuote  bool     `json:"squote"`
	NoComma bool     `json:"ignore_commas"`
}

// words that are inert everywhere (no quote, bracket, brace, comma, colon, no
// surrounding whitespace) and what parse.Value documents them to mean
var wordPool = []struct {
	text string
	val  interface{}
}{
	{"a", "a"}, {"b", "b"}, {"foo", "foo"}, {"x y", "x y"}, {"é", "é"}, {"a.b", "a.b"}, {"a-b", "a-b"}, {"C\\d", "C\\d"}, {"$v", "$v"},
	// non-ASCII words, among them some whose LAST UTF-8 byte is 0x85 / 0xA0 (NEL / NBSP when read as a byte) and
	// words that contain real Unicode spaces inside
	{"voilà", "voilà"}, {"Å", "Å"}, {"àà", "àà"}, {"日本", "日本"}, {"x\u00a0y", "x\u00a0y"}, {"€", "€"}, {"ą", "ą"},
	{"1", uint64(1)}, {"0", uint64(0)}, {"-2", int64(-2)}, {"1.5", 1.5}, {"true", true}, {"false", false}, {"null", nil},
}

// words with a colon: inert except in an object key
var colonWords = []string{"h:1", "a: b"}

func prim(s string) interface{} {
	for _, w := range wordPool {
		if w.text == s {
			return w.val
		}
	}
	return s
}

const quoteMeta = "[]{}:,'\""

func (c FlagCase) cfg() parse.Config {
	return parse.Config{Array: c.Array, Object: c.Object, StringDQuote: c.DQuote, StringSQuote: c.SQuote, IgnoreCommas: c.NoComma}
}

func (c FlagCase) enabled() bool {
	switch c.Feature {
	case "array":
		return c.Array
	case "object":
		return c.Object
	case "dquote":
		return c.DQuote
	case "squote":
		return c.SQuote
	}
	return true
}

type padder struct {
	pad []string
	i   int
}

func (p *padder) next() string {
	if len(p.pad) == 0 {
		return ""
	}
	s := p.pad[p.i%len(p.pad)]
	p.i++
	return s
}

// literalOrSplit is the documented meaning of a text whose only active
// characters are top-level commas: a list of its trimmed pieces, or, with
// IgnoreCommas (or without any comma), the trimmed text itself.
func literalOrSplit(text string, ignoreCommas bool) interface{} {
	if ignoreCommas || !strings.Contains(text, ",") {
		return prim(strings.TrimSpace(text))
	}
	var out []interface{}
	for _, p := range strings.Split(text, ",") {
		out = append(out, prim(strings.TrimSpace(p)))
	}
	return out
}

var dqEscaper = strings.NewReplacer(`\`, `\\`, `"`, `\"`, "\n", `\n`, "\t", `\t`)

// build returns the text, the expected value, whether a flag that differs
// from the default configuration decides the outcome, and "" or the reason why
// the case is outside the sub-check's domain.
func (c FlagCase) build() (text string, want interface{}, flagMatters bool, outside string) {
	if c.Object && !c.Array {
		return "", nil, false, "configuration rejected by ValueWithConfig"
	}
	p := &padder{pad: c.Pad}
	lead, trail := p.next(), p.next()
	var inner string
	var val interface{}
	on := c.enabled()
	switch c.Feature {
	case "array", "comma":
		var parts []string
		var vals []interface{}
		for _, it := range c.Items {
			if strings.TrimSpace(it) != it || it == "" || strings.ContainsAny(it, "[]{},'\"") {
				return "", nil, false, "element is not an inert word"
			}
			parts = append(parts, p.next()+it+p.next())
			vals = append(vals, prim(it))
		}
		if c.Feature == "comma" {
			if len(parts) == 0 {
				return "", nil, false, "no element"
			}
			inner = strings.Join(parts, ",")
			val = literalOrSplit(inner, c.NoComma)
			flagMatters = c.NoComma && len(parts) > 1
			break
		}
		if len(parts) == 0 {
			inner = "[" + p.next() + "]"
		} else {
			inner = "[" + strings.Join(parts, ",") + "]"
		}
		if on {
			val = vals
		} else {
			val = literalOrSplit(inner, c.NoComma)
			flagMatters = true
		}
	case "object":
		if len(c.Items)%2 != 0 {
			return "", nil, false, "odd key/value list"
		}
		var parts []string
		m := map[string]interface{}{}
		for i := 0; i+1 < len(c.Items); i += 2 {
			k, v := c.Items[i], c.Items[i+1]
			if strings.TrimSpace(k) != k || k == "" || strings.ContainsAny(k, quoteMeta) || strings.TrimSpace(v) != v || v == "" || strings.ContainsAny(v, "[]{},'\"") {
				return "", nil, false, "key or value is not an inert word"
			}
			if _, dup := m[k]; dup {
				return "", nil, false, "duplicate key"
			}
			m[k] = prim(v)
			parts = append(parts, p.next()+k+p.next()+":"+p.next()+v+p.next())
		}
		if len(parts) == 0 {
			inner = "{" + p.next() + "}"
		} else {
			inner = "{" + strings.Join(parts, ",") + "}"
		}
		if on {
			val = m
		} else {
			val = literalOrSplit(inner, c.NoComma)
			flagMatters = true
		}
	case "dquote", "squote":
		var content strings.Builder
		for i, it := range c.Items {
			if i > 0 {
				sep := ","
				if i-1 < len(c.Seps) {
					sep = c.Seps[i-1]
				}
				content.WriteString(sep)
			}
			if !on && (strings.TrimSpace(it) == "" || strings.ContainsAny(it, quoteMeta)) {
				// taken literally the fragments become values of their own:
				// they have to be inert, non-empty words
				return "", nil, false, "fragment is not inert although the quote style is disabled"
			}
			content.WriteString(it)
		}
		s := content.String()
		if !on {
			for _, sep := range c.Seps {
				if strings.ContainsAny(sep, "[]{}:'\"") {
					return "", nil, false, "separator is not inert although the quote style is disabled"
				}
			}
		}
		if c.Feature == "dquote" {
			inner = `"` + dqEscaper.Replace(s) + `"`
		} else {
			if strings.Contains(s, "'") {
				return "", nil, false, "single quote inside a single quoted string"
			}
			inner = "'" + s + "'"
		}
		if on {
			val = s
		} else {
			val = literalOrSplit(inner, c.NoComma)
			flagMatters = true
		}
	default:
		return "", nil, false, "unknown feature"
	}

	switch c.Wrap {
	case "":
		return lead + inner + trail, val, flagMatters, ""
	case "array", "object":
		if c.Feature == "comma" || !c.Array || (c.Wrap == "object" && !c.Object) {
			return "", nil, false, "wrapper not applicable"
		}
		stop := ",]"
		if c.Wrap == "object" {
			stop = ",}"
		}
		if !on && strings.ContainsAny(inner, stop) {
			// a literal element ends at the enclosing container's stop characters
			return "", nil, false, "literal text would end early inside the wrapper"
		}
		if !on {
			val = prim(strings.TrimSpace(inner))
		}
		if c.Wrap == "array" {
			return lead + "[" + p.next() + inner + p.next() + "]" + trail, []interface{}{val}, flagMatters, ""
		}
		return lead + "{" + p.next() + "k" + p.next() + ":" + p.next() + inner + p.next() + "}" + trail, map[string]interface{}{"k": val}, flagMatters, ""
	}
	return "", nil, false, "unknown wrapper"
}

func runFlag(c FlagCase, r *runlog.R) error {
	text, want, matters, outside := c.build()
	if outside != "" {
		r.Discard()
		return nil
	}
	got, err := parse.ValueWithConfig(text, c.cfg())
	if err != nil {
		return fmt.Errorf("ValueWithConfig(%q, %+v) failed: %v\n want %s", text, c.cfg(), err, canon.Show(want))
	}
	if !canon.EqualData(got, want) {
		return fmt.Errorf("ValueWithConfig(%q, %+v)\n got  %s\n want %s", text, c.cfg(), canon.Show(got), canon.Show(want))
	}
	if c.cfg() == parse.DefaultConfig {
		// Value is documented as ValueWithConfig with the default configuration
		got2, err := parse.Value(text)
		if err != nil || !canon.EqualData(got2, want) {
			return fmt.Errorf("Value(%q) = %s, %v\n want %s", text, canon.Show(got2), err, canon.Show(want))
		}
	}
	r.NonTrivialIf(matters)
	state := "enabled"
	if !c.enabled() {
		state = "disabled"
	}
	if c.Feature == "comma" {
		state = "split"
		if c.NoComma {
			state = "ignored"
		}
	}
	r.Class(c.Feature + " " + state)
	r.ClassIf(c.Wrap != "", "wrapped in "+c.Wrap)
	r.ClassIf(!c.enabled() && strings.Contains(text, ",") && !c.NoComma, "literal text split at commas")
	r.ClassIf(!c.enabled() && strings.Contains(text, ",") && c.NoComma, "literal text with commas kept whole")
	return nil
}

func genFlag(t *rapid.T) FlagCase {
	c := FlagCase{Feature: rapid.SampledFrom([]string{"array", "object", "dquote", "squote", "comma"}).Draw(t, "feature")}
	c.Array = rapid.Bool().Draw(t, "array")
	if c.Array {
		c.Object = rapid.Bool().Draw(t, "object")
	}
	c.DQuote = rapid.Bool().Draw(t, "dquote")
	c.SQuote = rapid.Bool().Draw(t, "squote")
	c.NoComma = rapid.Bool().Draw(t, "ignorecommas")
	c.Pad = rapid.SliceOfN(rapid.SampledFrom([]string{"", "", " ", "  ", "\t", " \t"}), 0, 5).Draw(t, "pad")
	word := func(colonOK bool) string {
		if colonOK && rapid.IntRange(0, 7).Draw(t, "colon") == 0 {
			return rapid.SampledFrom(colonWords).Draw(t, "cw")
		}
		return wordPool[rapid.IntRange(0, len(wordPool)-1).Draw(t, "w")].text
	}
	on := c.enabled()
	switch c.Feature {
	case "array":
		n := rapid.IntRange(0, 4).Draw(t, "n")
		for i := 0; i < n; i++ {
			c.Items = append(c.Items, word(true))
		}
	case "comma":
		n := rapid.IntRange(1, 4).Draw(t, "n")
		for i := 0; i < n; i++ {
			c.Items = append(c.Items, word(true))
		}
	case "object":
		n := rapid.IntRange(0, 3).Draw(t, "n")
		seen := map[string]bool{}
		for i := 0; i < n; i++ {
			k := word(false)
			if seen[k] {
				continue
			}
			seen[k] = true
			c.Items = append(c.Items, k, word(true))
		}
	default:
		n := rapid.IntRange(0, 3).Draw(t, "n")
		if !on && n == 0 {
			n = 1
		}
		for i := 0; i < n; i++ {
			it := word(false)
			if on {
				// inside an enabled quote style everything is content
				switch rapid.IntRange(0, 5).Draw(t, "frag") {
				case 0:
					it = rapid.SampledFrom([]string{"[", "]", "{", "}", ":", "{a: 1}", "[1, 2]", " lead", "trail ", "", " ", "\\", "\\n", "a\\"}).Draw(t, "meta")
				case 1:
					if c.Feature == "dquote" {
						it = rapid.SampledFrom([]string{"\"", "'", "\n", "\t", "'q'", "\"q\"", "\\\""}).Draw(t, "qmeta")
					} else {
						it = rapid.SampledFrom([]string{"\"", "\"q\"", "\\\"", "\\"}).Draw(t, "qmeta")
					}
				}
			}
			c.Items = append(c.Items, it)
			if i > 0 {
				seps := []string{",", ",", " ", "-", ", "}
				if on {
					seps = append(seps, ":", "],[", " , ")
				}
				c.Seps = append(c.Seps, rapid.SampledFrom(seps).Draw(t, "sep"))
			}
		}
	}
	// wrappers only where they apply (build re-checks and discards otherwise)
	if c.Feature != "comma" && c.Array && rapid.IntRange(0, 2).Draw(t, "wrap") == 0 {
		w := "array"
		if c.Object && rapid.Bool().Draw(t, "wrapobj") {
			w = "object"
		}
		c.Wrap = w
		if _, _, _, outside := c.build(); outside != "" {
			c.Wrap = ""
		}
	}
	return c
}

var subFlags = runlog.Register(&runlog.Sub[FlagCase]{
	Name: "config-flags",
	Rule: "text with exactly one syntax feature (an array, an object, a double quoted string, a single quoted string, or top-level commas) built from inert words (plain words, numbers, keywords; inside an enabled quote style also brackets, braces, colons, commas, the other quote and backslashes), random padding, optionally as the only element of an enclosing array or the only value of an enclosing object; all 24 parse.Config combinations ValueWithConfig accepts. Expected: feature enabled => the documented value; feature disabled => the trimmed text as one string, or, when it holds top-level commas and IgnoreCommas is off, the list of its trimmed pieces (parse_test.go pins both); IgnoreCommas => `a,b` is one string. The default configuration is also checked through Value. Non-trivial: the outcome is decided by a flag that differs from DefaultConfig (feature disabled, or IgnoreCommas with a top-level comma present).",
	Gen:  genFlag,
	Run:  runFlag,
})

func TestConfigFlags(t *testing.T) { subFlags.Check(t, 150000, 2000000) }
