package c17

import (
	"fmt"
	"reflect"
	"runtime"
	"sort"
	"testing"

	"github.com/elastic/go-ucfg/parse"
	"pgregory.net/rapid"

	"verif/harness/internal/canon"
	"verif/harness/internal/runlog"
)

// The statement says what parse.Value returns for a text: the data of that
// text (and, for ValueWithConfig, of that text under that configuration). That
// is a function of the arguments of the call alone. This sub-check therefore
// varies the HISTORY of a call: the same text (or another layout of the same
// document, or the same text under another configuration) has been parsed
// before in this process, through Value or through ValueWithConfig, and the
// caller has done to the earlier results what callers do with their own data:
// overwritten, deleted and added members, written to and appended to lists, at
// any depth. Every call must still return the data of its text, and the
// container trees of two calls must not share a map or a slice.

// RepCase is one source (a JSON document with its three renderings, or a
// one-feature text of the config-flags sub-check) and a sequence of calls.
type RepCase struct {
	Doc   *Case     `json:"doc,omitempty"`
	Flag  *FlagCase `json:"flag,omitempty"`
	Steps []RepStep `json:"steps"`
}

// RepStep is one call and what the caller does with its result afterwards.
type RepStep struct {
	Render int `json:"render,omitempty"` // Doc: 0 encoding/json compact, 1 indented, 2 own writer
	// Via: 0 parse.Value; 1 ValueWithConfig. For a Doc the configuration is one
	// of those under which JSON keeps its meaning (Array, Object, StringDQuote
	// on; SQuote and NoComma free); for a Flag text it is the five flags below.
	Via     int  `json:"via,omitempty"`
	Array   bool `json:"array,omitempty"`
	Object  bool `json:"object,omitempty"`
	DQuote  bool `json:"dquote,omitempty"`
	SQuote  bool `json:"squote,omitempty"`
	NoComma bool `json:"ignore_commas,omitempty"`
	// what happens to the result of this call after it was checked
	Scrub bool    `json:"scrub,omitempty"` // every container at every depth is rewritten
	Muts  []MutOp `json:"muts,omitempty"`
	// additionally re-apply the mutations to the results of all earlier calls
	Again bool `json:"again,omitempty"`
}

// MutOp walks Path (child index modulo the number of children; map children
// in sorted key order) as far as containers go and changes the container it
// ends in.
type MutOp struct {
	Path []int `json:"path,omitempty"`
	Kind int   `json:"kind"` // see applyMut
	Sel  int   `json:"sel,omitempty"`
}

const sentinel = "\x00MUTATED BY THE CALLER\x00"

func sortedKeys(m map[string]interface{}) []string {
	keys := make([]string, 0, len(m))
	for k := range m {
		keys = append(keys, k)
	}
	sort.Strings(keys)
	return keys
}

// applyMut changes one container of the tree below *root. Storing through the
// parent is needed for append (new slice header).
func applyMut(root *interface{}, op MutOp) {
	type slot struct {
		get func() interface{}
		set func(interface{})
	}
	cur := slot{func() interface{} { return *root }, func(v interface{}) { *root = v }}
	for _, p := range op.Path {
		if p < 0 {
			p = -p
		}
		switch x := cur.get().(type) {
		case map[string]interface{}:
			if len(x) == 0 {
				goto done
			}
			k := sortedKeys(x)[p%len(x)]
			if _, isCont := containerOf(x[k]); !isCont {
				goto done
			}
			cur = slot{func() interface{} { return x[k] }, func(v interface{}) { x[k] = v }}
		case []interface{}:
			if len(x) == 0 {
				goto done
			}
			i := p % len(x)
			if _, isCont := containerOf(x[i]); !isCont {
				goto done
			}
			cur = slot{func() interface{} { return x[i] }, func(v interface{}) { x[i] = v }}
		default:
			goto done
		}
	}
done:
	sel := op.Sel
	if sel < 0 {
		sel = -sel
	}
	switch x := cur.get().(type) {
	case map[string]interface{}:
		keys := sortedKeys(x)
		switch op.Kind % 6 {
		case 0: // overwrite a member
			if len(keys) > 0 {
				x[keys[sel%len(keys)]] = sentinel
			}
		case 1: // delete a member
			if len(keys) > 0 {
				delete(x, keys[sel%len(keys)])
			}
		case 2: // add a member
			x[sentinel] = true
		case 3: // replace a member by a container
			if len(keys) > 0 {
				x[keys[sel%len(keys)]] = map[string]interface{}{sentinel: []interface{}{sentinel}}
			} else {
				x[sentinel] = []interface{}{sentinel}
			}
		case 4: // empty it
			for _, k := range keys {
				delete(x, k)
			}
		case 5: // set a member to nil
			if len(keys) > 0 {
				x[keys[sel%len(keys)]] = nil
			}
		}
	case []interface{}:
		switch op.Kind % 6 {
		case 0:
			if len(x) > 0 {
				x[sel%len(x)] = sentinel
			}
		case 1: // remove an element in place (shifts the rest)
			if len(x) > 0 {
				i := sel % len(x)
				copy(x[i:], x[i+1:])
				x[len(x)-1] = sentinel
				cur.set(x[:len(x)-1])
			}
		case 2: // append (also writes the spare capacity)
			full := x[:cap(x)]
			for i := len(x); i < len(full); i++ {
				full[i] = sentinel
			}
			cur.set(append(x, sentinel))
		case 3:
			if len(x) > 0 {
				x[sel%len(x)] = map[string]interface{}{sentinel: []interface{}{sentinel}}
			}
		case 4:
			for i := range x {
				x[i] = sentinel
			}
		case 5: // swap / reverse
			for i, j := 0, len(x)-1; i < j; i, j = i+1, j-1 {
				x[i], x[j] = x[j], x[i]
			}
		}
	}
}

func containerOf(v interface{}) (interface{}, bool) {
	switch v.(type) {
	case map[string]interface{}, []interface{}:
		return v, true
	}
	return nil, false
}

// scrub rewrites every container at every depth, children first: the first
// member is deleted, the others overwritten, one is added; every list element
// is overwritten.
func scrub(v interface{}) {
	switch x := v.(type) {
	case map[string]interface{}:
		keys := sortedKeys(x)
		for _, k := range keys {
			scrub(x[k])
		}
		for i, k := range keys {
			if i == 0 {
				delete(x, k)
			} else {
				x[k] = sentinel
			}
		}
		x[sentinel] = true
	case []interface{}:
		for _, e := range x {
			scrub(e)
		}
		full := x[:cap(x)]
		for i := range full {
			full[i] = sentinel
		}
	}
}

// storage is the set of maps and slice backing arrays a result consists of.
type storage struct {
	maps   map[uintptr]bool
	slices [][2]uintptr // [begin, end) of backing arrays with capacity > 0
	keep   []interface{}
}

func collectStorage(v interface{}, st *storage) {
	switch x := v.(type) {
	case map[string]interface{}:
		if x != nil {
			st.maps[reflect.ValueOf(x).Pointer()] = true
			st.keep = append(st.keep, x)
		}
		for _, k := range sortedKeys(x) {
			collectStorage(x[k], st)
		}
	case []interface{}:
		if cap(x) > 0 {
			p := reflect.ValueOf(x).Pointer()
			st.slices = append(st.slices, [2]uintptr{p, p + uintptr(cap(x))*reflect.TypeOf(x).Elem().Size()})
			st.keep = append(st.keep, x)
		}
		for _, e := range x {
			collectStorage(e, st)
		}
	}
}

func (a *storage) shares(b *storage) string {
	for p := range a.maps {
		if b.maps[p] {
			return "a map"
		}
	}
	for _, x := range a.slices {
		for _, y := range b.slices {
			if x[0] < y[1] && y[0] < x[1] {
				return "the backing array of a list"
			}
		}
	}
	return ""
}

type repCall struct {
	text string
	desc string
	cfg  parse.Config
	via  int
	want interface{}
}

// call resolves a step: the text, how it is parsed and what the statement says
// the result is. ok=false: the step is outside the domain (a configuration the
// flag text is not defined for).
func (c RepCase) call(s RepStep) (repCall, bool, error) {
	if c.Doc != nil {
		var text string
		var err error
		switch s.Render % 3 {
		case 0:
			text, err = stdRender(*c.Doc, false)
		case 1:
			text, err = stdRender(*c.Doc, true)
		default:
			text = ownRender(*c.Doc)
		}
		if err != nil {
			return repCall{}, false, fmt.Errorf("harness: encoding/json cannot render the case: %v", err)
		}
		cfg := parse.Config{Array: true, Object: true, StringDQuote: true, StringSQuote: s.SQuote, IgnoreCommas: s.NoComma}
		if s.Via == 0 {
			cfg = parse.DefaultConfig
		}
		return repCall{text: text, cfg: cfg, via: s.Via, want: c.Doc.V.Go()}, true, nil
	}
	fc := *c.Flag
	fc.Array, fc.Object, fc.DQuote, fc.SQuote, fc.NoComma = s.Array, s.Object, s.DQuote, s.SQuote, s.NoComma
	text, want, _, outside := fc.build()
	if outside != "" {
		return repCall{}, false, nil
	}
	via := s.Via
	if fc.cfg() != parse.DefaultConfig {
		via = 1
	}
	return repCall{text: text, cfg: fc.cfg(), via: via, want: want}, true, nil
}

func runRep(c RepCase, r *runlog.R) error {
	if (c.Doc == nil) == (c.Flag == nil) || (c.Doc != nil && c.Doc.V == nil) {
		r.Discard()
		return nil
	}
	type done struct {
		call    repCall
		result  interface{}
		st      *storage
		changed bool // the caller's mutations changed the data of this result
	}
	var hist []*done
	defer func() { runtime.KeepAlive(hist) }()
	sameAfterMut, otherCfgAfterMut, otherLayoutAfterMut, containers, sameEntry, otherEntry := false, false, false, false, false, false
	for i, s := range c.Steps {
		call, ok, err := c.call(s)
		if err != nil {
			return err
		}
		if !ok {
			r.Class("step outside the domain (skipped)")
			continue
		}
		name := "Value"
		var got interface{}
		if call.via == 0 {
			got, err = parse.Value(call.text)
		} else {
			name = fmt.Sprintf("ValueWithConfig %+v", call.cfg)
			got, err = parse.ValueWithConfig(call.text, call.cfg)
		}
		describe := func() string {
			out := ""
			for j, h := range hist {
				n := "Value"
				if h.call.via != 0 {
					n = fmt.Sprintf("ValueWithConfig %+v", h.call.cfg)
				}
				out += fmt.Sprintf("\n  call %d: %s(%q); caller changed its result: %v", j+1, n, h.call.text, h.changed)
			}
			return out
		}
		if err != nil {
			return fmt.Errorf("call %d, %s(%q), fails after earlier calls: %v\n want %s\n history:%s", i+1, name, call.text, err, canon.Show(call.want), describe())
		}
		if !canon.EqualData(got, call.want) {
			return fmt.Errorf("call %d, %s(%q), does not return the data of its text after earlier calls\n got  %s\n want %s\n history:%s", i+1, name, call.text, canon.Show(got), canon.Show(call.want), describe())
		}
		st := &storage{maps: map[uintptr]bool{}}
		collectStorage(got, st)
		if len(st.keep) > 0 {
			containers = true
		}
		for j, h := range hist {
			if what := st.shares(h.st); what != "" {
				return fmt.Errorf("call %d, %s(%q), returns a value that shares %s with the value returned by call %d: changing one result changes the other\n history:%s", i+1, name, call.text, what, j+1, describe())
			}
			if h.changed {
				switch {
				case h.call.text == call.text && h.call.cfg == call.cfg:
					sameAfterMut = true
					if h.call.via == call.via {
						sameEntry = true
					} else {
						otherEntry = true
					}
				case h.call.text == call.text:
					otherCfgAfterMut = true
				default:
					otherLayoutAfterMut = true
				}
			}
		}
		d := &done{call: call, result: got, st: st}
		hist = append(hist, d)
		// the caller works on its result(s)
		targets := []*done{d}
		if s.Again {
			targets = hist
		}
		for _, tg := range targets {
			if s.Scrub {
				scrub(tg.result)
			}
			for _, op := range s.Muts {
				applyMut(&tg.result, op)
			}
			if !canon.EqualData(tg.result, tg.call.want) {
				tg.changed = true
			}
		}
	}
	r.NonTrivialIf(sameAfterMut)
	r.ClassIf(c.Doc != nil, "source: JSON document")
	r.ClassIf(c.Flag != nil, "source: one-feature text under varying configurations")
	r.ClassIf(sameEntry, "same text, same entry point again after the caller changed the earlier result")
	r.ClassIf(otherEntry, "same text through the other entry point after the caller changed the earlier result")
	r.ClassIf(otherCfgAfterMut, "same text under another configuration after a changed result")
	r.ClassIf(otherLayoutAfterMut, "another layout of the document after a changed result")
	r.ClassIf(!containers, "no call returned a container (nothing to share)")
	r.Class(fmt.Sprintf("calls=%d", len(hist)))
	return nil
}

func genMuts(t *rapid.T, s *RepStep) {
	switch rapid.IntRange(0, 3).Draw(t, "mutkind") {
	case 0:
		// the caller only reads
	case 1:
		s.Scrub = true
	default:
		n := rapid.IntRange(1, 3).Draw(t, "nmut")
		for i := 0; i < n; i++ {
			s.Muts = append(s.Muts, MutOp{
				Path: rapid.SliceOfN(rapid.IntRange(0, 3), 0, 4).Draw(t, "path"),
				Kind: rapid.IntRange(0, 5).Draw(t, "kind"),
				Sel:  rapid.IntRange(0, 3).Draw(t, "sel"),
			})
		}
	}
	s.Again = rapid.IntRange(0, 5).Draw(t, "again") == 0
}

func genRep(t *rapid.T) RepCase {
	var c RepCase
	n := rapid.IntRange(2, 4).Draw(t, "calls")
	if rapid.IntRange(0, 2).Draw(t, "source") < 2 {
		d := genCase(t)
		c.Doc = &d
		// a main spelling and entry point, so that identical calls repeat
		mainRender := rapid.IntRange(0, 2).Draw(t, "render")
		mainVia := rapid.IntRange(0, 1).Draw(t, "via")
		mainSQ, mainNC := true, false
		if mainVia == 1 && rapid.Bool().Draw(t, "othercfg") {
			mainSQ, mainNC = rapid.Bool().Draw(t, "sq"), rapid.Bool().Draw(t, "nc")
		}
		for i := 0; i < n; i++ {
			s := RepStep{Render: mainRender, Via: mainVia, SQuote: mainSQ, NoComma: mainNC}
			if rapid.IntRange(0, 3).Draw(t, "vary") == 0 {
				s.Render = rapid.IntRange(0, 2).Draw(t, "render")
				s.Via = rapid.IntRange(0, 1).Draw(t, "via")
				s.SQuote, s.NoComma = rapid.Bool().Draw(t, "sq"), rapid.Bool().Draw(t, "nc")
			}
			if s.Via == 0 {
				s.SQuote, s.NoComma = false, false // not used
			}
			genMuts(t, &s)
			c.Steps = append(c.Steps, s)
		}
		return c
	}
	f := genFlag(t)
	c.Flag = &f
	main := RepStep{Via: rapid.IntRange(0, 1).Draw(t, "via"), Array: f.Array, Object: f.Object, DQuote: f.DQuote, SQuote: f.SQuote, NoComma: f.NoComma}
	if rapid.Bool().Draw(t, "default") {
		main.Array, main.Object, main.DQuote, main.SQuote, main.NoComma = true, true, true, true, false
	}
	for i := 0; i < n; i++ {
		s := main
		if rapid.IntRange(0, 2).Draw(t, "vary") == 0 {
			s.Via = rapid.IntRange(0, 1).Draw(t, "via")
			s.Array = rapid.Bool().Draw(t, "array")
			s.Object = s.Array && rapid.Bool().Draw(t, "object")
			s.DQuote, s.SQuote, s.NoComma = rapid.Bool().Draw(t, "dq"), rapid.Bool().Draw(t, "sq"), rapid.Bool().Draw(t, "nc")
		}
		genMuts(t, &s)
		c.Steps = append(c.Steps, s)
	}
	return c
}

var subRep = runlog.Register(&runlog.Sub[RepCase]{
	Name: "repeated-calls",
	Rule: "a history of 2-4 parse calls in one process on one source: either a random JSON document (generator of json-roundtrip) in one of its three renderings, parsed through Value or through ValueWithConfig under the configurations that leave JSON its meaning (Array, Object, StringDQuote on; StringSQuote and IgnoreCommas free), or a one-feature text of config-flags parsed under varying parse.Config combinations (same text, other configuration => other documented value). Most steps repeat the main text/entry point/configuration of the case, some switch rendering, entry point or configuration. Between the calls the caller changes the result(s) it got: either every container at every depth is rewritten, or 1-3 single changes (overwrite/delete/add/nil a member, replace it by a container, empty the container, write/remove/append/reverse list elements, incl. the spare capacity) at a random path; sometimes the results of all earlier calls are changed again. Asserted for EVERY call: no error and canonically the data of its text under its configuration (same oracles as json-roundtrip and config-flags), and the maps and list backing arrays of its result are disjoint (pointer identity / address ranges) from those of every earlier result. Non-trivial: a call repeats text and configuration of an earlier call whose result the caller had effectively changed. Distinct: hash of the whole case.",
	Gen:  genRep,
	Run:  runRep,
})

func TestRepeatedCalls(t *testing.T) { subRep.Check(t, 150000, 2000000) }
