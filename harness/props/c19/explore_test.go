package c19

import (
	"fmt"
	"testing"

	ucfg "github.com/elastic/go-ucfg"
	"github.com/elastic/go-ucfg/flag"

	"verif/harness/internal/canon"
	"verif/harness/internal/uc"
)

func TestExplore(t *testing.T) {
	try := func(autoBool bool, opts []ucfg.Option, args ...string) {
		fv := flag.NewFlagKeyValue(nil, autoBool, opts...)
		for _, a := range args {
			err := fv.Set(a)
			d, derr := uc.Dump(fv.Config(), opts...)
			fmt.Printf("  Set(%q) -> %v | Error()=%v | dump=%s derr=%v | isDict=%v isArr=%v\n", a, err, fv.Error(), canon.Show(d), derr, fv.Config().IsDict(), fv.Config().IsArray())
		}
		fmt.Printf("  String()=%s ; Error()=%v\n", fv.String(), fv.Error())
	}
	ps := []ucfg.Option{ucfg.PathSep(".")}
	fmt.Println("numeric top")
	try(true, ps, "0=1", "1=2")
	try(true, nil, "0=1", "a=2")
	fmt.Println("odd keys")
	try(true, ps, "", "=5", ".=1", "a.=2", ".b=3", "a..b=4", "=")
	try(true, nil, "", "=5", ".=1", "a.=2", ".b=3", "a..b=4", "=")
	fmt.Println("nan")
	try(true, ps, "a=NaN", "b=1")
	try(true, ps, "a=Inf", "b=-inf")
	fmt.Println("varexp")
	ve := []ucfg.Option{ucfg.PathSep("."), ucfg.VarExp}
	try(true, ve, "a=${b}", "b=1", "c=${", "d=${x}", "e=2")
	try(true, ve, "a=${b}", "b=${a}")
	try(true, ve, "a=$${b}", "b=x${a}y")
	fmt.Println("autobool off")
	try(false, ps, "a", "b=1", "")
	fmt.Println("policies")
	try(true, []ucfg.Option{ucfg.PathSep("."), ucfg.AppendValues}, "a=1,2", "a=3", "a.0=9", "a=[]", "a= ", "a={x: 1}", "a=5")
	fmt.Println("nested")
	try(true, ps, "a.b.c=1", "a.b=2", "a.b.0=3", "a.5=1", "a.-1=1", "a.0x10=4")
	try(true, ps, "a=1", "a.b=2", "a=[1,", "a=3", "b=[", "c")
}
