// Package c19 decides property C19: repeated flags accumulate like sequential
// merges with the flag's options.
//
// The oracle is the statement's own definition: every argument is turned into
// a setting with the documented public pieces (split at the first '=',
// parse.Value for the value, ucfg.NewFrom(map{key: value}, opts...)) and the
// settings are folded with cfg.Merge(setting, opts...) starting from the
// initial config. The flag / collector under test must show the same data up
// to the first failing argument and keep reporting that argument's error
// afterwards. Nothing is asserted about the config after a failure.
package c19

import (
	"encoding/json"
	"errors"
	goflag "flag"
	"fmt"
	"io"
	"math"
	"os"
	"path/filepath"
	"strconv"
	"strings"
	"testing"

	ucfg "github.com/elastic/go-ucfg"
	"github.com/elastic/go-ucfg/cfgutil"
	"github.com/elastic/go-ucfg/flag"
	ujson "github.com/elastic/go-ucfg/json"
	"github.com/elastic/go-ucfg/parse"
	uyaml "github.com/elastic/go-ucfg/yaml"

	"verif/harness/internal/canon"
	"verif/harness/internal/gen"
	"verif/harness/internal/model"
	"verif/harness/internal/runlog"
	"verif/harness/internal/uc"
)

// ---------------------------------------------------------------------------
// option sets

// Opts is the option set given when the flag / collector is created.
type Opts struct {
	PathSep  bool         `json:"pathsep,omitempty"`
	VarExp   bool         `json:"varexp,omitempty"`
	Resolver bool         `json:"resolver,omitempty"` // ucfg.Resolve with a fixed table (r1, r2)
	Policy   model.Policy `json:"policy"`
}

func resolver(name string) (string, parse.Config, error) {
	switch name {
	case "r1":
		return "7", parse.DefaultConfig, nil
	case "r2":
		return "x,y", parse.DefaultConfig, nil
	}
	return "", parse.DefaultConfig, ucfg.ErrMissing
}

// build returns the options in the documented order (PathSep first).
func (o Opts) build() []ucfg.Option {
	var opts []ucfg.Option
	if o.PathSep {
		opts = append(opts, ucfg.PathSep("."))
	}
	if o.VarExp {
		opts = append(opts, ucfg.VarExp)
	}
	if o.Resolver {
		opts = append(opts, ucfg.Resolve(resolver))
	}
	return append(opts, uc.PolicyOpts(o.Policy)...)
}

func (o Opts) classes(r *runlog.R) {
	r.Class("policy=" + o.Policy.String())
	r.ClassIf(o.PathSep, "opt:pathsep")
	r.ClassIf(o.VarExp, "opt:varexp")
	r.ClassIf(o.Resolver, "opt:resolver")
}

// behaviour renders what an option list does to a fixed probe (build, merge,
// unpack). Two option lists with the same rendering are indistinguishable for
// PathSep, VarExp, the resolver table and the five merge policies.
func behaviour(opts []ucfg.Option) string {
	var out string
	err := uc.Safe("option probe", func() error {
		c, err := ucfg.NewFrom(map[string]interface{}{
			"p.q": []interface{}{1, 2}, "r": "${p.q.0}", "s": "${r1}", "t": map[string]interface{}{"u": 1},
		}, opts...)
		if err != nil {
			return err
		}
		if err := c.Merge(map[string]interface{}{"p.q": []interface{}{3}, "t": map[string]interface{}{"v": 2}}, opts...); err != nil {
			return err
		}
		d, err := uc.Dump(c, opts...)
		out = canon.Show(d)
		return err
	})
	if err != nil {
		return out + " error: " + err.Error()
	}
	return out
}

func sameOptions(what string, got, want []ucfg.Option) error {
	if len(got) != len(want) {
		return fmt.Errorf("%s: %d options, the construction options are %d", what, len(got), len(want))
	}
	if g, w := behaviour(got), behaviour(want); g != w {
		return fmt.Errorf("%s do not behave like the construction options:\n got  %s\n want %s", what, g, w)
	}
	return nil
}

// ---------------------------------------------------------------------------
// helpers shared by the sub-checks

func newInit(tr *gen.Tree, opts []ucfg.Option) (*ucfg.Config, error) {
	if tr == nil {
		return nil, nil
	}
	return ucfg.NewFrom(tr.Go(), opts...)
}

// view is the observable data of a config: its dump or the error of dumping.
type view struct {
	data interface{}
	err  error
}

func viewOf(c *ucfg.Config, opts []ucfg.Option) view {
	d, err := uc.Dump(c, opts...)
	return view{d, err}
}

func (v view) String() string {
	if v.err != nil {
		return "unpack error: " + v.err.Error()
	}
	return canon.String(canon.Split(canon.Of(v.data)))
}

func sameView(got, want view) bool {
	if (got.err != nil) != (want.err != nil) {
		return false
	}
	if got.err != nil {
		return true
	}
	return canon.EqualSplit(got.data, want.data)
}

// repeatable re-reads two configs that just compared unequal. Under VarExp a
// config whose references form a cycle that a default absorbs may unpack
// differently from one call to the next (evaluation follows map order; that
// is C09's subject), and then neither reading is "the" data: if any re-reading
// makes the two agree, the difference is not attributed to the flag.
func repeatable(a, b *ucfg.Config, opts []ucfg.Option) bool {
	for i := 0; i < 8; i++ {
		if sameView(viewOf(a, opts), viewOf(b, opts)) {
			return false
		}
	}
	return true
}

// stored renders the stored structure of a config (snapshot hook: names,
// payloads and expressions of every node, nothing is evaluated). Two equal
// renderings mean that nothing was merged into the config in between.
func stored(c *ucfg.Config) string { return ucfg.VerifFingerprint(c, false) }

// frozen is the state of a collected config right after the first failing
// argument. Reading of the statement (the fold stops at the first failing
// argument; the collector's Add returns early once it holds an error): from
// then on the config stays what it was, whatever follows.
type frozen struct {
	at   int
	fp   string
	data view
}

func freeze(at int, c *ucfg.Config, opts []ucfg.Option) *frozen {
	return &frozen{at: at, fp: stored(c), data: viewOf(c, opts)}
}

func (f *frozen) check(what string, c *ucfg.Config, opts []ucfg.Option) error {
	if fp := stored(c); fp != f.fp {
		return fmt.Errorf("%s: the config changed after the first failure (argument %d): a setting that follows a failed one was merged\n data at the failure %s\n data now            %s\n stored at the failure:\n%s stored now:\n%s",
			what, f.at, f.data, viewOf(c, opts), clip(f.fp), clip(fp))
	}
	return nil
}

func clip(s string) string {
	if len(s) > 1500 {
		return s[:1500] + "...\n"
	}
	return s
}

func isPanic(err error) bool { return err != nil && strings.Contains(err.Error(), " panicked: ") }

// hasNonFinite reports whether the data holds a NaN or an infinity, which
// JSON cannot express.
func hasNonFinite(v interface{}) bool {
	switch x := v.(type) {
	case float64:
		return math.IsNaN(x) || math.IsInf(x, 0)
	case map[string]interface{}:
		for _, e := range x {
			if hasNonFinite(e) {
				return true
			}
		}
	case []interface{}:
		for _, e := range x {
			if hasNonFinite(e) {
				return true
			}
		}
	}
	return false
}

// topListPart reports whether the top level of a dump has a list part (a
// list, or a map with index keys). String() unpacks into a map, which cannot
// show that part; the statement does not say what String() prints then.
func topListPart(v interface{}) bool {
	switch x := v.(type) {
	case []interface{}:
		return len(x) > 0
	case map[string]interface{}:
		for k := range x {
			if i, err := strconv.ParseInt(k, 0, 64); err == nil && i >= 0 {
				return true
			}
		}
	}
	return false
}

// decodeJSON reads a JSON text into generic data with exact numbers.
func decodeJSON(s string) (interface{}, error) {
	dec := json.NewDecoder(strings.NewReader(s))
	dec.UseNumber()
	var v interface{}
	if err := dec.Decode(&v); err != nil {
		return nil, err
	}
	if dec.More() {
		return nil, errors.New("trailing data after the JSON value")
	}
	return fixNumbers(v), nil
}

func fixNumbers(v interface{}) interface{} {
	switch x := v.(type) {
	case json.Number:
		if u, err := strconv.ParseUint(string(x), 10, 64); err == nil {
			return u
		}
		if i, err := strconv.ParseInt(string(x), 10, 64); err == nil {
			return i
		}
		f, _ := strconv.ParseFloat(string(x), 64)
		return f
	case map[string]interface{}:
		for k, e := range x {
			x[k] = fixNumbers(e)
		}
	case []interface{}:
		for i, e := range x {
			x[i] = fixNumbers(e)
		}
	}
	return v
}

// checkString asserts that String() is the JSON of the data in want, when the
// statement determines it: the data can be unpacked, JSON can express it and
// the top level is a dictionary only.
// stop is set when the data turned out not to be repeatable under VarExp: String()
// may then have recorded an unpack error in the collector, so the case ends there.
func checkString(fv *flag.FlagValue, want view, varexp bool, opts []ucfg.Option, r *runlog.R) (stop bool, _ error) {
	switch {
	case want.err != nil:
		r.Class("string:skipped (data cannot be unpacked)")
		return false, nil
	case hasNonFinite(want.data):
		r.Class("string:skipped (NaN/Inf)")
		return false, nil
	case topListPart(want.data):
		r.Class("string:skipped (top-level list part)")
		return false, nil
	}
	err := stringIsJSONOf(fv, want)
	if err != nil && varexp && !isPanic(err) {
		// see repeatable: re-read both sides before blaming String()
		for i := 0; i < 8; i++ {
			again := viewOf(fv.Config(), opts)
			if again.err != nil || hasNonFinite(again.data) || topListPart(again.data) || stringIsJSONOf(fv, again) == nil {
				r.Class("varexp: unpacking is not repeatable, String() not asserted")
				return true, nil
			}
		}
	}
	if err == nil {
		r.Class("string:checked")
	}
	return false, err
}

func stringIsJSONOf(fv *flag.FlagValue, want view) error {
	var s string
	if err := uc.Safe("String", func() error { s = fv.String(); return nil }); err != nil {
		return err
	}
	got, err := decodeJSON(s)
	if err != nil {
		return fmt.Errorf("String() is not the JSON of the data: %q (%v); data: %s", s, err, want)
	}
	// "the JSON of the same data": the data written by encoding/json and read
	// back the same way (a float64 like 2^63 is printed in its shortest form,
	// which is not the exact integer)
	wj, err := json.Marshal(want.data)
	if err != nil {
		return nil // the data has no JSON form
	}
	wantData, err := decodeJSON(string(wj))
	if err != nil {
		return fmt.Errorf("harness: %v", err)
	}
	if !canon.EqualSplit(got, wantData) {
		return fmt.Errorf("String() differs from the data:\n got  %s\n want %s (%s)", s, wj, want)
	}
	return nil
}

func errText(err error) string {
	if err == nil {
		return "<nil>"
	}
	return err.Error()
}

// related reports whether one key path is a prefix of (or equal to) the other.
func related(a, b []string) bool {
	if len(a) > len(b) {
		a, b = b, a
	}
	for i := range a {
		if a[i] != b[i] {
			return false
		}
	}
	return true
}

func keyPath(key string, pathSep bool) []string {
	if pathSep {
		return strings.Split(key, ".")
	}
	return []string{key}
}

func touchesSame(paths [][]string) bool {
	for i := range paths {
		for j := i + 1; j < len(paths); j++ {
			if related(paths[i], paths[j]) {
				return true
			}
		}
	}
	return false
}

// ---------------------------------------------------------------------------
// sub-check 1: -flag key=value

// KVCase is a sequence of key=value arguments for one flag.
type KVCase struct {
	Opts     Opts      `json:"opts"`
	AutoBool bool      `json:"autobool"`
	Init     *gen.Tree `json:"init,omitempty"`
	Args     []string  `json:"args"`
	// Via "set": NewFlagKeyValue driven through Set. Via "flagset": flag.ConfigVar
	// registered in a standard library FlagSet (autoBool is on there) and
	// FlagSet.Parse("-E", arg, "-E", arg, ...).
	Via string `json:"via"`
}

type stepKind int

const (
	stIgnored     stepKind = iota // key= : nothing changes
	stSetting                     // a setting to be merged
	stFail                        // the argument's setting cannot be created
	stUnspecified                 // bare key with autoBool off: the documentation does not say
)

type step struct {
	kind stepKind
	key  string
	cfg  *ucfg.Config
	err  error
	why  string
}

// settingOf is the statement's definition of what one argument means.
func settingOf(arg string, autoBool bool, opts []ucfg.Option) step {
	var val interface{}
	i := strings.IndexByte(arg, '=')
	st := step{key: arg}
	if i < 0 {
		if !autoBool {
			st.kind = stUnspecified
			return st
		}
		val = true
	} else {
		st.key = arg[:i]
		text := arg[i+1:]
		if text == "" {
			st.kind = stIgnored
			return st
		}
		v, err := parse.Value(text)
		if err != nil {
			st.kind, st.err, st.why = stFail, err, "parse.Value"
			return st
		}
		val = v
	}
	cfg, err := ucfg.NewFrom(map[string]interface{}{st.key: val}, opts...)
	if err != nil {
		st.kind, st.err, st.why = stFail, err, "NewFrom"
		return st
	}
	st.kind, st.cfg = stSetting, cfg
	return st
}

// foldAll folds all arguments under the given options without looking at the
// flag; it returns nil if any step fails. Used to measure whether the policy
// is observable in a case.
func foldAll(c KVCase, autoBool bool, opts []ucfg.Option) *view {
	var v *view
	uc.Safe("fold", func() error {
		acc, err := newInit(c.Init, opts)
		if err != nil {
			return err
		}
		if acc == nil {
			acc = ucfg.New()
		}
		for _, a := range c.Args {
			st := settingOf(a, autoBool, opts)
			switch st.kind {
			case stFail, stUnspecified:
				return nil
			case stSetting:
				if err := acc.Merge(st.cfg, opts...); err != nil {
					return nil
				}
			}
		}
		w := viewOf(acc, opts)
		v = &w
		return nil
	})
	return v
}

func runKV(c KVCase, r *runlog.R) error {
	if len(c.Args) == 0 {
		r.Discard()
		return nil
	}
	if c.Via == "flagset" {
		return runKVFlagSet(c, r)
	}
	opts := c.Opts.build()
	var initFlag, acc *ucfg.Config
	if err := uc.Safe("NewFrom(init)", func() (err error) {
		if initFlag, err = newInit(c.Init, opts); err != nil {
			return err
		}
		acc, err = newInit(c.Init, opts)
		return err
	}); err != nil {
		r.Discard() // the initial config is an input, not the subject
		return nil
	}
	if acc == nil {
		acc = ucfg.New()
	}

	var fv *flag.FlagValue
	if err := uc.Safe("NewFlagKeyValue", func() error { fv = flag.NewFlagKeyValue(initFlag, c.AutoBool, opts...); return nil }); err != nil {
		return err
	}
	handle := fv.Config()
	if handle == nil {
		return errors.New("Config() is nil right after construction")
	}
	if initFlag != nil && handle != initFlag {
		return errors.New("Config() is not the initial config the settings are documented to be merged into")
	}
	if err := fv.Error(); err != nil {
		return fmt.Errorf("Error() = %v before any argument", err)
	}

	failedAt := -1 // index of the first failing argument
	firstMsg := "" // what Error() said right after it
	known := true  // the config is determined by the statement so far
	var paths [][]string
	var classes []string
	applied := map[string]bool{} // arguments merged so far
	var prev *view               // the data after the previous argument, when asserted
	var fz *frozen               // the config right after the first failing argument

args:
	for i, arg := range c.Args {
		// the definition first: if the public pieces themselves panic on this
		// argument there is nothing to compare with (that is C07's subject)
		var st step
		if err := uc.Safe("oracle", func() error { st = settingOf(arg, c.AutoBool, opts); return nil }); err != nil {
			r.Discard()
			return nil
		}
		if failedAt >= 0 {
			// anything may follow; the first error stays
			if err := uc.Safe("Set", func() error { _ = fv.Set(arg); return nil }); err != nil {
				return fmt.Errorf("arg %d %q (after the failure of arg %d): %v", i, arg, failedAt, err)
			}
			if i%2 == 1 {
				if err := uc.Safe("String", func() error { _ = fv.String(); return nil }); err != nil {
					return fmt.Errorf("after arg %d %q: %v", i, arg, err)
				}
			}
			if got := errText(fv.Error()); got != firstMsg {
				return fmt.Errorf("arg %d %q: Error() changed after the first failure (arg %d %q):\n got  %s\n want %s", i, arg, failedAt, c.Args[failedAt], got, firstMsg)
			}
			if fv.Config() != handle {
				return fmt.Errorf("arg %d %q: Config() returns a different object than before the call", i, arg)
			}
			if err := fz.check(fmt.Sprintf("arg %d %q", i, arg), fv.Config(), opts); err != nil {
				return err
			}
			switch {
			case st.kind == stSetting:
				classes = append(classes, "after failure: a well-formed setting is given (config must stay)")
			case st.kind == stFail:
				classes = append(classes, "after failure: another failing argument")
			}
			continue
		}

		var mergeErr error
		if st.kind == stSetting {
			if err := uc.Safe("oracle merge", func() error { mergeErr = acc.Merge(st.cfg, opts...); return nil }); err != nil {
				r.Discard()
				return nil
			}
		}

		storedBefore := stored(fv.Config())
		var setErr error
		if err := uc.Safe("Set", func() error { setErr = fv.Set(arg); return nil }); err != nil {
			return fmt.Errorf("arg %d %q: %v", i, arg, err)
		}
		if fv.Config() != handle {
			return fmt.Errorf("arg %d %q: Config() returns a different object than before the call", i, arg)
		}

		failNow := func(msg string) {
			failedAt, firstMsg = i, msg
			fz = freeze(i, fv.Config(), opts)
		}
		// an argument that is ignored or whose setting cannot be created merges nothing
		unchanged := func(why string) error {
			if now := stored(fv.Config()); now != storedBefore {
				return fmt.Errorf("arg %d %q %s, but the config changed:\n stored before:\n%s stored after:\n%s", i, arg, why, clip(storedBefore), clip(now))
			}
			return nil
		}
		switch {
		case st.kind == stIgnored:
			classes = append(classes, "arg:empty value")
			if setErr != nil {
				return fmt.Errorf("arg %d %q: a key with an empty value is to be ignored, Set returned %v", i, arg, setErr)
			}
			if err := unchanged("has an empty value and is to be ignored"); err != nil {
				return err
			}
		case st.kind == stSetting && mergeErr == nil:
			if strings.IndexByte(arg, '=') < 0 {
				classes = append(classes, "arg:bare key")
			} else {
				classes = append(classes, "arg:key=value")
			}
			if setErr != nil {
				return fmt.Errorf("arg %d %q: Set failed with %v, creating and merging the setting works", i, arg, setErr)
			}
			paths = append(paths, keyPath(st.key, c.Opts.PathSep))
		case st.kind == stSetting && !known:
			// the fold no longer follows the flag's config; a merge error of the fold says nothing
			classes = append(classes, "stopped: merge error after the config became unspecified")
			break args
		case st.kind == stSetting: // merging the setting fails
			classes = append(classes, "arg:merge fails")
			// Set is not told about merge errors by the collector's interface; only Error() is asserted
			if fv.Error() == nil {
				return fmt.Errorf("arg %d %q: merging the setting fails with %v, Error() is nil", i, arg, mergeErr)
			}
			if !strings.Contains(fv.Error().Error(), mergeErr.Error()) {
				return fmt.Errorf("arg %d %q: Error() = %v, merging the setting fails with %v", i, arg, fv.Error(), mergeErr)
			}
			failNow(fv.Error().Error())
		case st.kind == stFail:
			classes = append(classes, "arg:fails in "+st.why)
			if setErr == nil {
				return fmt.Errorf("arg %d %q: Set returned nil, %s fails with: %v", i, arg, st.why, st.err)
			}
			if !strings.Contains(setErr.Error(), st.err.Error()) {
				return fmt.Errorf("arg %d %q: Set returned %q, the argument's error is %q", i, arg, setErr, st.err)
			}
			if fv.Error() == nil {
				return fmt.Errorf("arg %d %q: Set failed with %v but Error() is nil", i, arg, setErr)
			}
			if !strings.Contains(fv.Error().Error(), st.err.Error()) {
				return fmt.Errorf("arg %d %q: Error() = %q, the argument's error is %q", i, arg, fv.Error(), st.err)
			}
			if err := unchanged("fails in " + st.why); err != nil {
				return err
			}
			failNow(fv.Error().Error())
		case st.kind == stUnspecified:
			// bare key without autoBool: the documentation only defines the autoBool case
			if setErr != nil {
				classes = append(classes, "arg:bare key, autoBool off: error")
				if fv.Error() == nil || fv.Error().Error() != setErr.Error() {
					return fmt.Errorf("arg %d %q: Set failed with %v, Error() = %v", i, arg, setErr, fv.Error())
				}
				failNow(fv.Error().Error())
			} else {
				classes = append(classes, "arg:bare key, autoBool off: accepted")
				known = false
			}
		}
		if failedAt >= 0 {
			continue
		}
		if err := fv.Error(); err != nil {
			return fmt.Errorf("arg %d %q: Error() = %v although no argument failed", i, arg, err)
		}
		if !known {
			continue
		}
		want := viewOf(acc, opts)
		got := viewOf(fv.Config(), opts)
		if isPanic(got.err) && !isPanic(want.err) {
			return fmt.Errorf("arg %d %q: %v", i, arg, got.err)
		}
		if !sameView(got, want) {
			if c.Opts.VarExp && !repeatable(fv.Config(), acc, opts) {
				classes = append(classes, "varexp: unpacking is not repeatable, data not asserted")
				known = false
				continue
			}
			return fmt.Errorf("after arg %d %q the flag's config differs from folding the settings (%s):\n got  %s\n want %s",
				i, arg, c.Opts.Policy, got, want)
		}
		if want.err != nil {
			classes = append(classes, "data cannot be unpacked (both)")
		}
		if st.kind == stSetting {
			if applied[arg] {
				classes = append(classes, "again:argument given again verbatim")
				if prev != nil && !sameView(*prev, want) {
					classes = append(classes, "again:merging it again changes the data")
				}
			}
			applied[arg] = true
		}
		prev = &want
		stop, err := checkString(fv, want, c.Opts.VarExp, opts, r)
		if err != nil {
			return fmt.Errorf("after arg %d %q: %v", i, arg, err)
		}
		if stop {
			known = false
			break args
		}
		// String() produced the JSON or was not called: no error may have appeared
		if err := fv.Error(); err != nil {
			return fmt.Errorf("after arg %d %q and String(): Error() = %v although no argument failed", i, arg, err)
		}
	}

	// evidence
	c.Opts.classes(r)
	r.Class("via=set")
	r.ClassIf(c.AutoBool, "autobool")
	r.ClassIf(c.Init != nil, "initial config")
	r.Class(fmt.Sprintf("nargs=%d", len(c.Args)))
	for _, l := range classes {
		r.Class(l)
	}
	followed := failedAt >= 0 && failedAt < len(c.Args)-1
	sameKey := c.Opts.Policy != model.Default && touchesSame(paths)
	r.ClassIf(followed, "nt:failure followed by further arguments")
	r.ClassIf(sameKey, "nt:same key twice under a non-default policy")
	r.ClassIf(failedAt >= 0, "some argument fails")
	r.NonTrivialIf(followed || sameKey)
	if failedAt < 0 && known && c.Opts.Policy != model.Default {
		o := c.Opts
		o.Policy = model.Default
		if def := foldAll(c, c.AutoBool, o.build()); def != nil {
			r.ClassIf(!sameView(viewOf(acc, opts), *def), "policy observable in the result")
		}
	}
	return nil
}

// runKVFlagSet drives the same arguments through the standard flag package.
func runKVFlagSet(c KVCase, r *runlog.R) error {
	opts := c.Opts.build()
	var initFlag, acc *ucfg.Config
	if err := uc.Safe("NewFrom(init)", func() (err error) {
		if initFlag, err = newInit(c.Init, opts); err != nil {
			return err
		}
		acc, err = newInit(c.Init, opts)
		return err
	}); err != nil {
		r.Discard()
		return nil
	}
	if acc == nil {
		acc = ucfg.New()
	}
	// the definition: ConfigVar enables autoBool
	failedAt := -1
	var failErr error
	var failKind string
	var paths [][]string
	for i, arg := range c.Args {
		var st step
		var mergeErr error
		if err := uc.Safe("oracle", func() error {
			st = settingOf(arg, true, opts)
			if st.kind == stSetting {
				mergeErr = acc.Merge(st.cfg, opts...)
			}
			return nil
		}); err != nil {
			r.Discard()
			return nil
		}
		if st.kind == stFail {
			failedAt, failErr, failKind = i, st.err, "setting"
			break
		}
		if mergeErr != nil {
			failedAt, failErr, failKind = i, mergeErr, "merge"
			break
		}
		if st.kind == stSetting {
			paths = append(paths, keyPath(st.key, c.Opts.PathSep))
		}
	}

	set := goflag.NewFlagSet("c19", goflag.ContinueOnError)
	set.SetOutput(io.Discard)
	set.Usage = func() {}
	var cfg *ucfg.Config
	var parseErr error
	if err := uc.Safe("ConfigVar/Parse", func() error {
		cfg = flag.ConfigVar(set, initFlag, "E", "settings", opts...)
		argv := make([]string, 0, 2*len(c.Args))
		for _, a := range c.Args {
			argv = append(argv, "-E", a)
		}
		parseErr = set.Parse(argv)
		return nil
	}); err != nil {
		return err
	}
	if cfg == nil {
		return errors.New("ConfigVar returned nil")
	}
	switch {
	case failedAt >= 0 && failKind == "setting":
		if parseErr == nil {
			return fmt.Errorf("Parse returned nil, arg %d %q fails with: %v", failedAt, c.Args[failedAt], failErr)
		}
		if !strings.Contains(parseErr.Error(), failErr.Error()) {
			return fmt.Errorf("Parse returned %q, the error of arg %d %q is %q", parseErr, failedAt, c.Args[failedAt], failErr)
		}
		r.Class("some argument fails")
		// the config holds the settings before the failing argument and nothing else
		want, got := viewOf(acc, opts), viewOf(cfg, opts)
		if isPanic(got.err) && !isPanic(want.err) {
			return got.err
		}
		if !sameView(got, want) {
			if c.Opts.VarExp && !repeatable(cfg, acc, opts) {
				r.Class("varexp: unpacking is not repeatable, data not asserted")
			} else {
				return fmt.Errorf("after Parse failed at arg %d %q the config returned by ConfigVar differs from folding the settings before it (%s):\n got  %s\n want %s", failedAt, c.Args[failedAt], c.Opts.Policy, got, want)
			}
		}
		r.ClassIf(failedAt < len(c.Args)-1, "failure followed by further arguments on the command line (config = fold before the failure)")
	case failedAt >= 0:
		r.Class("arg:merge fails")
	default:
		if parseErr != nil {
			return fmt.Errorf("Parse failed with %v, every setting can be created and merged", parseErr)
		}
		want, got := viewOf(acc, opts), viewOf(cfg, opts)
		if isPanic(got.err) && !isPanic(want.err) {
			return got.err
		}
		if !sameView(got, want) {
			if c.Opts.VarExp && !repeatable(cfg, acc, opts) {
				r.Class("varexp: unpacking is not repeatable, data not asserted")
			} else {
				return fmt.Errorf("the config returned by ConfigVar differs from folding the settings (%s):\n got  %s\n want %s", c.Opts.Policy, got, want)
			}
		}
	}
	c.Opts.classes(r)
	r.Class("via=flagset")
	r.ClassIf(c.Init != nil, "initial config")
	r.Class(fmt.Sprintf("nargs=%d", len(c.Args)))
	sameKey := c.Opts.Policy != model.Default && touchesSame(paths)
	r.ClassIf(sameKey, "nt:same key twice under a non-default policy")
	r.NonTrivialIf(sameKey)
	return nil
}

var subKV = runlog.Register(&runlog.Sub[KVCase]{
	Name: "flag-kv",
	Rule: "1-8 arguments for one NewFlagKeyValue flag driven through Set (5/6) or for flag.ConfigVar in a standard library FlagSet parsed as -E arg -E arg ... (1/6): keys of 1-3 segments over {a,b,c,d,0,1,2} plus odd spellings (empty segments, signs, other bases, blanks, non-ASCII, the index cap), 40% of the keys repeat an earlier one (1/12 of those with a value that holds no data: null [] {} [null] {a: null} \"\" ...), 1/8 of the arguments after the first repeat an earlier argument verbatim (classes again:*: how often, and how often merging it again changes the data), with '=' or bare, values rendered from a grammar covering every syntax parse.Value documents (numbers, bools, null, bare/quoted strings, comma lists, [..], {..}, nesting, ${..} references), empty values, and malformed values (fixed near-misses, unterminated references, well-formed containers cut at any position) at any position; options PathSep, VarExp (+Resolve), one of the 5 merge policies; autoBool on/off; optional initial config. Oracle: the fold of ucfg.NewFrom(map{key: parse.Value(value)}, opts...) with Merge(.., opts...) from the initial config, compared (canonical dump, or both fail to unpack) after every argument up to the first failing one; Config() keeps its identity (and is the initial config); Set returns that argument's error; Error() is nil before and stays the first error after any further Set/String calls; key= changes nothing and is no error; bare key = true with autoBool (without autoBool the docs are silent: an error is treated as the failing argument, acceptance ends the data assertions); String() is the JSON of the data whenever the data can be unpacked, has no NaN/Inf and no top-level list part. After EVERY argument both the error and the config are compared with the fold: an ignored argument (key=) and an argument whose setting cannot be created leave the stored config exactly as it was (snapshot hook: names, payloads and expressions of every node, unevaluated); once an argument has failed, the error stays the first one AND the stored config stays what it was right after the failing argument, whatever follows (well-formed settings, further failures, String calls; classes `after failure:*`); through a FlagSet, where Parse stops at the failing argument, the returned config must equal the fold of the arguments before it. Only the state right after a failing MERGE (as opposed to a setting that cannot be created) is not compared with the fold. Discarded: cases in which parse.Value/NewFrom/Merge themselves panic on an argument (C07's subject). Non-trivial: two applied arguments whose key paths are equal or a prefix of one another under a non-default policy, or a failing argument followed by further arguments. Distinct: hash of the case.",
	Gen:  genKV,
	Run:  runKV,
})

func TestFlagKV(t *testing.T) { subKV.Check(t, 60000, 3000000) }

// ---------------------------------------------------------------------------
// sub-check 2: cfgutil.Collector driven directly

// ColStep is one Add call: a config (nil: none) and an error text ("": nil).
type ColStep struct {
	Cfg *gen.Tree `json:"cfg,omitempty"`
	Err string    `json:"err,omitempty"`
	// Same > 0: the config object given in step Same-1 is given once more (Cfg unused)
	Same int `json:"same,omitempty"`
	// Touch > 0: no Add call; the owner of the config object of step Touch-1
	// changes its own config (sets the top-level name "zz"). The collector's
	// config must not follow, and a later Same step hands in the changed object.
	Touch int `json:"touch,omitempty"`
}

// colSource is a config object that is handed to the collector, with the data
// it was made of: the tree and, if its owner changed it later, the value of
// the name "zz". fp is the stored structure the object must keep while only the
// collector works with it.
type colSource struct {
	cfg  *ucfg.Config
	tree *gen.Tree
	zz   string
	fp   string
	adds int
}

// fresh builds the data of the source anew (the oracle never merges an object
// the collector has seen).
func (s *colSource) fresh(opts []ucfg.Option) (*ucfg.Config, error) {
	c, err := ucfg.NewFrom(s.tree.Go(), opts...)
	if err == nil && s.zz != "" {
		err = c.SetString("zz", -1, s.zz, opts...)
	}
	return c, err
}

// ColCase is a history of Add calls on one collector.
type ColCase struct {
	Opts  Opts      `json:"opts"`
	Init  *gen.Tree `json:"init,omitempty"`
	Steps []ColStep `json:"steps"`
}

func runCollector(c ColCase, r *runlog.R) error {
	opts := c.Opts.build()
	var initCol, acc *ucfg.Config
	var srcs []*ucfg.Config
	var owners []*colSource // per step: the source object of srcs[i] (nil: none)
	if err := uc.Safe("NewFrom", func() (err error) {
		if initCol, err = newInit(c.Init, opts); err != nil {
			return err
		}
		if acc, err = newInit(c.Init, opts); err != nil {
			return err
		}
		for i, s := range c.Steps {
			var cfg *ucfg.Config
			var own *colSource
			switch {
			case s.Touch > 0 && s.Touch <= i:
				// no config of its own
			case s.Touch != 0:
				return errors.New("malformed case")
			case s.Same > 0 && s.Same <= i:
				cfg, own = srcs[s.Same-1], owners[s.Same-1]
			case s.Same != 0:
				return errors.New("malformed case")
			case s.Cfg != nil:
				if cfg, err = ucfg.NewFrom(s.Cfg.Go(), opts...); err != nil {
					return err
				}
				own = &colSource{cfg: cfg, tree: s.Cfg, fp: stored(cfg)}
			}
			srcs = append(srcs, cfg)
			owners = append(owners, own)
		}
		return nil
	}); err != nil {
		r.Discard()
		return nil
	}
	if acc == nil {
		acc = ucfg.New()
	}
	var col *cfgutil.Collector
	if err := uc.Safe("NewCollector", func() error { col = cfgutil.NewCollector(initCol, opts...); return nil }); err != nil {
		return err
	}
	handle := col.Config()
	if handle == nil {
		return errors.New("Config() is nil right after construction")
	}
	if initCol != nil && handle != initCol {
		return errors.New("Config() is not the config given at construction")
	}
	if err := sameOptions("GetOptions()", col.GetOptions(), opts); err != nil {
		return err
	}
	var first error
	failedAt := -1
	merges := 0
	var fz *frozen
	// handedIn: every config object given to Add so far must still hold its own data
	handedIn := func(i int) error {
		for j := 0; j <= i; j++ {
			if o := owners[j]; o != nil && o.adds > 0 {
				if now := stored(o.cfg); now != o.fp {
					return fmt.Errorf("step %d: the collector changed a configuration that was handed to Add (the config object of step %d): collecting must copy the settings, the configs handed in are inputs only\n stored when handed in:\n%s stored now:\n%s", i, j, clip(o.fp), clip(now))
				}
			}
		}
		return nil
	}
	for i, s := range c.Steps {
		if s.Touch > 0 {
			o := owners[s.Touch-1]
			if o == nil {
				continue
			}
			storedBefore := stored(col.Config())
			o.zz = fmt.Sprintf("touched-%d", i)
			if err := uc.Safe("owner's SetString", func() error { return o.cfg.SetString("zz", -1, o.zz, opts...) }); err != nil {
				r.Discard()
				return nil
			}
			o.fp = stored(o.cfg)
			if now := stored(col.Config()); now != storedBefore {
				return fmt.Errorf("step %d: the owner of the config object of step %d set zz=%q in its own config, and the collector's config changed with it: collected settings must be copies\n stored before:\n%s stored after:\n%s", i, s.Touch-1, o.zz, clip(storedBefore), clip(now))
			}
			if err := handedIn(i); err != nil {
				return err
			}
			r.ClassIf(o.adds > 0, "owner:changes its config after it was added (collector must not follow)")
			continue
		}
		var stepErr error
		if s.Err != "" {
			stepErr = errors.New(s.Err)
		}
		var mergeErr error
		var before view
		if first == nil && stepErr == nil && srcs[i] != nil {
			if s.Same > 0 {
				before = viewOf(acc, opts)
			}
			// the fold re-merges the ORIGINAL data of the object (built anew), never the object the collector has seen
			if err := uc.Safe("oracle merge", func() error {
				twin, err := owners[i].fresh(opts)
				if err != nil {
					return err
				}
				mergeErr = acc.Merge(twin, opts...)
				return nil
			}); err != nil {
				r.Discard()
				return nil
			}
			merges++
		}
		storedBefore := stored(col.Config())
		var ret error
		if err := uc.Safe("Add", func() error { ret = col.Add(srcs[i], stepErr); return nil }); err != nil {
			return fmt.Errorf("step %d: %v", i, err)
		}
		if owners[i] != nil {
			owners[i].adds++
		}
		if err := handedIn(i); err != nil {
			return err
		}
		if srcs[i] == nil {
			// nothing to merge, with or without an error
			if now := stored(col.Config()); now != storedBefore {
				return fmt.Errorf("step %d: Add(nil, %v) changed the config:\n stored before:\n%s stored after:\n%s", i, stepErr, clip(storedBefore), clip(now))
			}
		}
		switch {
		case first != nil:
			// keeps reporting the first error; a nil return is tolerated only for a call without error
			if ret != nil && ret.Error() != first.Error() {
				return fmt.Errorf("step %d: Add returned %q after the first error %q (step %d)", i, ret, first, failedAt)
			}
			if ret == nil && stepErr != nil {
				return fmt.Errorf("step %d: Add(_, %q) returned nil after the first error %q", i, stepErr, first)
			}
		case stepErr != nil:
			if ret == nil || ret.Error() != stepErr.Error() {
				return fmt.Errorf("step %d: Add(_, %q) returned %v", i, stepErr, ret)
			}
			first, failedAt = stepErr, i
		case mergeErr != nil:
			if ret == nil || !strings.Contains(ret.Error(), mergeErr.Error()) {
				return fmt.Errorf("step %d: Add returned %v, merging fails with %v", i, ret, mergeErr)
			}
			first, failedAt = ret, i
			r.Class("merge fails")
		default:
			if ret != nil {
				return fmt.Errorf("step %d: Add returned %v, merging works", i, ret)
			}
		}
		if col.Config() != handle {
			return fmt.Errorf("step %d: Config() returns a different object than before", i)
		}
		gc, ge := col.Get()
		if gc != col.Config() || errText(ge) != errText(col.Error()) {
			return fmt.Errorf("step %d: Get() = (%p, %v) disagrees with Config()/Error() = (%p, %v)", i, gc, ge, col.Config(), col.Error())
		}
		if errText(col.Error()) != errText(first) {
			return fmt.Errorf("step %d: Error() = %s, the first error is %s (step %d)", i, errText(col.Error()), errText(first), failedAt)
		}
		if first != nil {
			// the config stays what it was right after the failing call
			if fz == nil {
				fz = freeze(i, col.Config(), opts)
				if stepErr != nil && stored(col.Config()) != storedBefore {
					// Add(cfg, err): the error says that there is no usable config
					return fmt.Errorf("step %d: Add(cfg, %q) merged the config it was given together with an error:\n stored before:\n%s stored after:\n%s", i, stepErr, clip(storedBefore), clip(fz.fp))
				}
				continue
			}
			if err := fz.check(fmt.Sprintf("step %d", i), col.Config(), opts); err != nil {
				return err
			}
			r.ClassIf(stepErr == nil && srcs[i] != nil, "after failure: a config without error is added (config must stay)")
			r.ClassIf(stepErr != nil && srcs[i] != nil, "after failure: a config with an error is added")
			continue
		}
		want, got := viewOf(acc, opts), viewOf(col.Config(), opts)
		if isPanic(got.err) && !isPanic(want.err) {
			return fmt.Errorf("step %d: %v", i, got.err)
		}
		if !sameView(got, want) {
			return fmt.Errorf("after step %d the collector's config differs from merging with the construction options (%s):\n got  %s\n want %s",
				i, c.Opts.Policy, got, want)
		}
		if s.Same > 0 && stepErr == nil && srcs[i] != nil {
			r.Class("again:config object added again")
			r.ClassIf(!sameView(before, want), "again:merging it again changes the data")
			r.ClassIf(owners[i].zz != "", "again:config object added again after its owner changed it")
			r.ClassIf(c.Init == nil || (c.Init.K == "obj" && len(c.Init.Keys) == 0), "again:on a collector that started empty")
		}
	}
	if err := sameOptions("GetOptions() after the history", col.GetOptions(), opts); err != nil {
		return err
	}
	c.Opts.classes(r)
	r.ClassIf(c.Init != nil, "initial config")
	r.ClassIf(c.Init == nil, "nil config at construction")
	r.ClassIf(failedAt >= 0, "some step fails")
	followed := failedAt >= 0 && failedAt < len(c.Steps)-1
	r.ClassIf(followed, "nt:failure followed by further steps")
	multi := c.Opts.Policy != model.Default && (merges >= 2 || (merges >= 1 && c.Init != nil))
	r.ClassIf(multi, "nt:two configs meet under a non-default policy")
	r.NonTrivialIf(followed || multi)
	return nil
}

var subCol = runlog.Register(&runlog.Sub[ColCase]{
	Name: "collector",
	Rule: "cfgutil.NewCollector(initial or nil, opts...) followed by 1-7 steps, mostly Add(cfg, err) calls: cfg a random tree over keys {a,b,c,d} (or nil), err nil or a distinct error, both, or neither; 1/4 of the config steps after the first give the config OBJECT of an earlier step once more (a long-lived config that a loader keeps; classes again:*), 1/8 are no Add call but the OWNER of an earlier config object changing its own config (sets a top-level name; class owner:*). Oracle (the fold always re-merges the ORIGINAL data of a config object - its tree plus the owner's changes, built anew -, never the object the collector has seen): after EVERY step every config object handed to Add so far still has exactly the stored structure it had when handed in (snapshot hook: the configs handed in are inputs only), and an owner changing its config afterwards leaves the collector's stored config exactly as it was (collected settings are copies); Config() is the construction config (or a fresh one) and keeps its identity; before the first error the data equals merging the configs in order with the construction options; Add returns the step's error, Error()/Get() keep the first error; Add(nil, err) and Add(nil, nil) leave the stored config exactly as it was (snapshot hook, unevaluated), Add(cfg, err) does not merge cfg, and from the first error on (a given error or a failing merge) the stored config stays what it was right after that call, whatever is added later (configs without error: class `after failure: a config without error is added`); GetOptions() has the length and the behaviour (fixed build/merge/unpack probe) of the construction options. Non-trivial: >=2 configs (counting the initial one) meet under a non-default policy, or an error is followed by further calls. Distinct: hash of the case.",
	Gen:  genCollector,
	Run:  runCollector,
})

func TestCollector(t *testing.T) { subCol.Check(t, 30000, 1500000) }

// ---------------------------------------------------------------------------
// sub-check 3: file flags

// FileArg is one -c argument: a file name (relative to the case directory),
// its content, or Missing for a file that does not exist.
type FileArg struct {
	Name    string `json:"name"`
	Content string `json:"content,omitempty"`
	Missing bool   `json:"missing,omitempty"`
	// Again > 0: this argument names the file of argument Again-1 once more
	// (Name is unused). With Rewrite the file is overwritten with Content right
	// before the argument is given, so the second reading finds other data.
	Again   int  `json:"again,omitempty"`
	Rewrite bool `json:"rewrite,omitempty"`
	// Spell is the way the path is written on the command line: "" dir/name,
	// "dot" dir/./name, "slash" dir//name, "updown" dir/sub/../name, "rel"
	// relative to the working directory, "symlink" dir/sl/name -> ../name,
	// "hardlink" dir/hl/name (second link to the same file), "dirlink"
	// dir/dl/name with dl -> . ; all of them name the same file.
	Spell string `json:"spell,omitempty"`
}

// ExtEntry registers the loader "json" or "yaml" for an extension ("" is the
// documented fallback).
type ExtEntry struct {
	Ext    string `json:"ext"`
	Loader string `json:"loader"`
}

// FilesCase is a sequence of file arguments for one NewFlagFiles flag.
type FilesCase struct {
	Opts  Opts       `json:"opts"`
	Init  *gen.Tree  `json:"init,omitempty"`
	Exts  []ExtEntry `json:"exts"`
	Files []FileArg  `json:"files"`
	// Via "" : NewFlagFiles driven through Set. Via "flagset": the flag is
	// registered in a standard library FlagSet (ConfigFilesVar with the table,
	// or - Named - the constructor that has this table built in:
	// ConfigFilesExtsVar, ConfigYAMLFilesVar, ConfigJSONFilesVar) and the
	// arguments are parsed as -c path -c path ...
	Via   string `json:"via,omitempty"`
	Named bool   `json:"named,omitempty"`
	// Keep: the loaders in the table hand out configs they KEEP: the first
	// config loaded for a path (as spelled) is returned again, the same object,
	// whenever that path is given again (a prepared/cached configuration per
	// file). Such a loader does not see a rewritten file.
	Keep bool `json:"keep,omitempty"`
}

// handedCfg is a config object a loader handed to the flag, with its stored
// structure at that time: the flag must leave it as it is.
type handedCfg struct {
	cfg  *ucfg.Config
	path string
	fp   string
}

// target is the index of the argument that introduced the file argument i names.
func (c FilesCase) target(i int) int {
	for n := 0; n <= len(c.Files) && c.Files[i].Again > 0; n++ {
		i = c.Files[i].Again - 1
	}
	return i
}

func (c FilesCase) wellFormed() bool {
	for i, f := range c.Files {
		if f.Again < 0 || f.Again > i {
			return false
		}
	}
	return true
}

var sep = string(filepath.Separator)

// spellPath writes the path of dir/name in the requested spelling and creates
// the links the spelling needs. If a link cannot be made the plain path is used.
func spellPath(dir, name, how string) string {
	plain := filepath.Join(dir, name)
	switch how {
	case "dot":
		return dir + sep + "." + sep + name
	case "slash":
		return dir + sep + sep + name
	case "updown":
		if os.MkdirAll(filepath.Join(dir, "sub"), 0o755) == nil {
			return dir + sep + "sub" + sep + ".." + sep + name
		}
	case "rel":
		if wd, err := os.Getwd(); err == nil {
			if rel, err := filepath.Rel(wd, plain); err == nil {
				return rel
			}
		}
	case "symlink":
		l := filepath.Join(dir, "sl", name)
		if os.MkdirAll(filepath.Dir(l), 0o755) == nil {
			if err := os.Symlink(filepath.Join("..", name), l); err == nil || os.IsExist(err) {
				return l
			}
		}
	case "hardlink":
		l := filepath.Join(dir, "hl", name)
		if os.MkdirAll(filepath.Dir(l), 0o755) == nil {
			if err := os.Link(plain, l); err == nil || os.IsExist(err) {
				return l
			}
		}
	case "dirlink":
		l := filepath.Join(dir, "dl")
		if err := os.Symlink(".", l); err == nil || os.IsExist(err) {
			return filepath.Join(l, name)
		}
	}
	return plain
}

type loaderCall struct {
	entry int
	path  string
	nopts int
	behav string
}

func realLoader(kind string) flag.FileLoader {
	if kind == "json" {
		return ujson.NewConfigWithFile
	}
	return uyaml.NewConfigWithFile
}

func runFiles(c FilesCase, r *runlog.R) error {
	if len(c.Files) == 0 || !c.wellFormed() {
		r.Discard()
		return nil
	}
	opts := c.Opts.build()
	wantBehav := behaviour(opts)
	dir, err := os.MkdirTemp(runlog.Env().OutDir, "c19-files-")
	if err != nil {
		return fmt.Errorf("harness: %v", err)
	}
	defer os.RemoveAll(dir)
	for _, f := range c.Files {
		if f.Missing || f.Again > 0 {
			continue
		}
		if err := os.WriteFile(filepath.Join(dir, f.Name), []byte(f.Content), 0o644); err != nil {
			return fmt.Errorf("harness: %v", err)
		}
	}

	var initFlag, acc *ucfg.Config
	if err := uc.Safe("NewFrom(init)", func() (err error) {
		if initFlag, err = newInit(c.Init, opts); err != nil {
			return err
		}
		acc, err = newInit(c.Init, opts)
		return err
	}); err != nil {
		r.Discard()
		return nil
	}
	if acc == nil {
		acc = ucfg.New()
	}

	// the extension table under test: recording wrappers around the real loaders
	var calls []loaderCall
	var handed []*handedCfg
	type keptLoad struct {
		cfg *ucfg.Config
		err error
	}
	kept := map[string]keptLoad{}
	keptAgain := 0
	table := map[string]flag.FileLoader{}
	expect := map[string]int{}
	for i, e := range c.Exts {
		i, e := i, e
		real := realLoader(e.Loader)
		table[e.Ext] = func(name string, o ...ucfg.Option) (*ucfg.Config, error) {
			calls = append(calls, loaderCall{entry: i, path: name, nopts: len(o), behav: behaviour(o)})
			key := fmt.Sprintf("%d|%s", i, name)
			if k, ok := kept[key]; ok && c.Keep {
				if k.cfg != nil {
					keptAgain++
				}
				return k.cfg, k.err
			}
			cfg, err := real(name, o...)
			if cfg != nil {
				handed = append(handed, &handedCfg{cfg: cfg, path: name, fp: stored(cfg)})
			}
			kept[key] = keptLoad{cfg, err}
			return cfg, err
		}
		expect[e.Ext] = i // a later entry for the same extension replaces the earlier one, as in the map
	}
	// the configs the loaders handed to the flag are inputs only
	checkHanded := func(when string) error {
		for _, h := range handed {
			if now := stored(h.cfg); now != h.fp {
				return fmt.Errorf("%s: the flag changed a configuration its loader had handed in (the config loaded for %q): collecting must copy the settings\n stored when handed in:\n%s stored now:\n%s", when, h.path, clip(h.fp), clip(now))
			}
		}
		return nil
	}
	// the oracle of a keeping loader: the data a path had when it was first
	// loaded (the fold re-merges the ORIGINAL data of a repeated file, read anew
	// from a private copy of the text, never the object the flag has seen)
	firstText := map[string][]byte{}
	oracleLoad := func(entry int, path string) (*ucfg.Config, error) {
		if !c.Keep {
			return realLoader(c.Exts[entry].Loader)(path, opts...)
		}
		key := fmt.Sprintf("%d|%s", entry, path)
		text, ok := firstText[key]
		if !ok {
			// first time: the file itself (error texts name the path)
			if b, err := os.ReadFile(path); err == nil {
				firstText[key] = b
			}
			return realLoader(c.Exts[entry].Loader)(path, opts...)
		}
		private := filepath.Join(dir, "oracle-private-copy")
		if err := os.WriteFile(private, text, 0o644); err != nil {
			return nil, fmt.Errorf("harness: %v", err)
		}
		return realLoader(c.Exts[entry].Loader)(private, opts...)
	}
	if c.Via == "flagset" {
		err := runFilesFlagSet(c, r, dir, opts, initFlag, acc, table, expect, &calls, checkHanded)
		r.ClassIf(c.Keep, "keep:loaders hand out configs they keep")
		r.ClassIf(keptAgain > 0, "keep:a kept config object is handed in again")
		return err
	}
	var fv *flag.FlagValue
	if err := uc.Safe("NewFlagFiles", func() error { fv = flag.NewFlagFiles(initFlag, table, opts...); return nil }); err != nil {
		return err
	}
	handle := fv.Config()
	if handle == nil {
		return errors.New("Config() is nil right after construction")
	}
	if initFlag != nil && handle != initFlag {
		return errors.New("Config() is not the initial config the files are documented to be merged into")
	}

	failedAt := -1
	firstMsg := ""
	loaded := 0
	var classes []string
	var fz *frozen
	given := map[int][]string{} // target -> the spellings it was given in so far
	for i, f := range c.Files {
		tgt := c.target(i)
		f.Name = c.Files[tgt].Name
		if f.Again > 0 && f.Rewrite {
			if err := os.WriteFile(filepath.Join(dir, f.Name), []byte(f.Content), 0o644); err != nil {
				return fmt.Errorf("harness: %v", err)
			}
		}
		path := spellPath(dir, f.Name, f.Spell)
		if failedAt >= 0 {
			if err := uc.Safe("Set", func() error { _ = fv.Set(path); return nil }); err != nil {
				return fmt.Errorf("file %d %q (after the failure of file %d): %v", i, f.Name, failedAt, err)
			}
			if i%2 == 1 {
				if err := uc.Safe("String", func() error { _ = fv.String(); return nil }); err != nil {
					return err
				}
			}
			if got := errText(fv.Error()); got != firstMsg {
				return fmt.Errorf("file %d %q: Error() changed after the first failure (file %d %q):\n got  %s\n want %s", i, f.Name, failedAt, c.Files[failedAt].Name, got, firstMsg)
			}
			if fv.Config() != handle {
				return fmt.Errorf("file %d %q: Config() returns a different object than before the call", i, f.Name)
			}
			if err := fz.check(fmt.Sprintf("file %d %q", i, f.Name), fv.Config(), opts); err != nil {
				return err
			}
			if err := checkHanded(fmt.Sprintf("file %d %q (after the failure)", i, f.Name)); err != nil {
				return err
			}
			// does the file load on its own? (only for the evidence)
			e, ok := expect[filepath.Ext(path)]
			if !ok {
				e, ok = expect[""]
			}
			if ok {
				var lerr error
				var lc *ucfg.Config
				uc.Safe("oracle", func() error { lc, lerr = realLoader(c.Exts[e].Loader)(path, opts...); return nil })
				if lerr == nil && lc != nil {
					classes = append(classes, "after failure: a file that loads is given (config must stay)")
				} else {
					classes = append(classes, "after failure: another failing file")
				}
			}
			continue
		}
		// the definition: loader by extension, else the "" entry, else an error
		ext := filepath.Ext(path)
		entry, ok := expect[ext]
		how := "ext:" + ext
		if !ok {
			entry, ok = expect[""]
			how = "fallback"
		}
		var want *ucfg.Config
		var wantErr error
		var before view
		if f.Again > 0 {
			before = viewOf(acc, opts)
		}
		loadFails := false
		if ok {
			if err := uc.Safe("oracle", func() error {
				want, wantErr = oracleLoad(entry, path)
				loadFails = wantErr != nil
				if wantErr == nil && want != nil {
					wantErr = acc.Merge(want, opts...)
				}
				return nil
			}); err != nil {
				r.Discard()
				return nil
			}
		} else {
			how = "no loader"
		}
		classes = append(classes, "dispatch:"+how)

		ncalls := len(calls)
		storedBefore := stored(fv.Config())
		var setErr error
		if err := uc.Safe("Set", func() error { setErr = fv.Set(path); return nil }); err != nil {
			return fmt.Errorf("file %d %q: %v", i, f.Name, err)
		}
		if fv.Config() != handle {
			return fmt.Errorf("file %d %q: Config() returns a different object than before the call", i, f.Name)
		}
		if err := checkHanded(fmt.Sprintf("file %d %q", i, f.Name)); err != nil {
			return err
		}
		// a file that cannot be loaded merges nothing
		unchanged := func(why string) error {
			if now := stored(fv.Config()); now != storedBefore {
				return fmt.Errorf("file %d %q %s, but the config changed:\n stored before:\n%s stored after:\n%s", i, f.Name, why, clip(storedBefore), clip(now))
			}
			return nil
		}
		mine := calls[ncalls:]
		if !ok {
			if len(mine) != 0 {
				return fmt.Errorf("file %d %q: no loader is registered for %q and there is no fallback, but loader #%d (%q) was called", i, f.Name, ext, mine[0].entry, c.Exts[mine[0].entry].Ext)
			}
			if fv.Error() == nil {
				return fmt.Errorf("file %d %q: no loader for %q and no fallback, but Error() is nil", i, f.Name, ext)
			}
			if err := unchanged("has no loader"); err != nil {
				return err
			}
			failedAt, firstMsg = i, fv.Error().Error()
			fz = freeze(i, fv.Config(), opts)
			continue
		}
		if len(mine) == 0 {
			return fmt.Errorf("file %d %q: the loader registered for %q (%s) was not called", i, f.Name, c.Exts[entry].Ext, how)
		}
		for _, call := range mine {
			if call.entry != entry {
				return fmt.Errorf("file %d %q: loader #%d (registered for %q) was called, expected #%d (%s)", i, f.Name, call.entry, c.Exts[call.entry].Ext, entry, how)
			}
			if call.path != path {
				return fmt.Errorf("file %d: the loader was called with %q instead of %q", i, call.path, path)
			}
			if call.nopts != len(opts) || call.behav != wantBehav {
				return fmt.Errorf("file %d %q: the loader did not receive the flag's options: %d options behaving like %s, want %d behaving like %s",
					i, f.Name, call.nopts, call.behav, len(opts), wantBehav)
			}
		}
		if wantErr != nil {
			classes = append(classes, "file fails")
			// file flags postpone error checking: Set may return nil; Error() must report the failure
			if setErr != nil && !strings.Contains(setErr.Error(), wantErr.Error()) {
				return fmt.Errorf("file %d %q: Set returned %q, the file's error is %q", i, f.Name, setErr, wantErr)
			}
			if fv.Error() == nil {
				return fmt.Errorf("file %d %q: loading fails with %v, Error() is nil", i, f.Name, wantErr)
			}
			if !strings.Contains(fv.Error().Error(), wantErr.Error()) {
				return fmt.Errorf("file %d %q: Error() = %q, the file's error is %q", i, f.Name, fv.Error(), wantErr)
			}
			if loadFails {
				if err := unchanged("cannot be loaded"); err != nil {
					return err
				}
			}
			failedAt, firstMsg = i, fv.Error().Error()
			fz = freeze(i, fv.Config(), opts)
			continue
		}
		loaded++
		if setErr != nil {
			return fmt.Errorf("file %d %q: Set returned %v, loading and merging works", i, f.Name, setErr)
		}
		if err := fv.Error(); err != nil {
			return fmt.Errorf("file %d %q: Error() = %v although no file failed", i, f.Name, err)
		}
		wantV, gotV := viewOf(acc, opts), viewOf(fv.Config(), opts)
		classes = append(classes, "spell:"+map[bool]string{true: "plain", false: f.Spell}[path == filepath.Join(dir, f.Name)])
		if f.Again > 0 {
			classes = append(classes, "again:file named again and loaded")
			same := false
			for _, g := range given[tgt] {
				same = same || g == path
			}
			if same {
				classes = append(classes, "again:in a spelling used before")
			} else {
				classes = append(classes, "again:in a new spelling")
			}
			if f.Rewrite {
				classes = append(classes, "again:rewritten in between")
			}
			if !sameView(before, wantV) {
				if f.Rewrite {
					classes = append(classes, "again:merging the rewritten file changes the data")
				} else {
					classes = append(classes, "again:merging it again changes the data")
				}
			}
		}
		given[tgt] = append(given[tgt], path)
		if f.Again == 0 {
			for j := 0; j < i; j++ {
				if o := c.Files[j]; o.Again == 0 && !o.Missing && o.Content == f.Content && o.Content != "" {
					classes = append(classes, "again:another file with the content of an earlier one")
					break
				}
			}
		}
		if isPanic(gotV.err) && !isPanic(wantV.err) {
			return fmt.Errorf("file %d %q: %v", i, f.Name, gotV.err)
		}
		if !sameView(gotV, wantV) {
			return fmt.Errorf("after file %d %q the flag's config differs from merging the loaded files (%s):\n got  %s\n want %s",
				i, f.Name, c.Opts.Policy, gotV, wantV)
		}
		stop, err := checkString(fv, wantV, c.Opts.VarExp, opts, r)
		if err != nil {
			return fmt.Errorf("after file %d %q: %v", i, f.Name, err)
		}
		if stop {
			break
		}
		if err := fv.Error(); err != nil {
			return fmt.Errorf("after file %d %q and String(): Error() = %v although no file failed", i, f.Name, err)
		}
	}
	c.Opts.classes(r)
	r.Class("via=set")
	r.ClassIf(c.Keep, "keep:loaders hand out configs they keep")
	r.ClassIf(keptAgain > 0, "keep:a kept config object is handed in again")
	r.ClassIf(keptAgain > 0 && (c.Init == nil || (c.Init.K == "obj" && len(c.Init.Keys) == 0)), "keep:a kept config object is handed in again to a flag that started empty")
	for _, l := range classes {
		r.Class(l)
	}
	r.ClassIf(c.Init != nil, "initial config")
	r.ClassIf(failedAt >= 0, "some file fails")
	followed := failedAt >= 0 && failedAt < len(c.Files)-1
	multi := c.Opts.Policy != model.Default && (loaded >= 2 || (loaded >= 1 && c.Init != nil))
	r.ClassIf(followed, "nt:failure followed by further files")
	r.ClassIf(multi, "nt:two configs meet under a non-default policy")
	r.NonTrivialIf(followed || multi)
	return nil
}

// builtinTable reports which registering constructor has the case's extension
// table built in ("" if none).
func builtinTable(exts []ExtEntry) string {
	key := ""
	for _, e := range exts {
		key += e.Ext + "=" + e.Loader + ";"
	}
	switch key {
	case ".json=json;.yaml=yaml;.yml=yaml;":
		return "ConfigFilesExtsVar"
	case "=yaml;":
		return "ConfigYAMLFilesVar"
	case "=json;":
		return "ConfigJSONFilesVar"
	}
	return ""
}

// runFilesFlagSet gives the same arguments to a file flag registered in a
// standard library FlagSet. The fold is computed first (Rewrite is not
// applicable here and ignored), then the command line is parsed once.
func runFilesFlagSet(c FilesCase, r *runlog.R, dir string, opts []ucfg.Option, initFlag, acc *ucfg.Config,
	table map[string]flag.FileLoader, expect map[string]int, calls *[]loaderCall, checkHanded func(string) error) error {
	wantBehav := behaviour(opts)
	failedAt := -1
	var failErr error // nil: no loader for the file
	mergeFails := false
	loaded, again, againChanges := 0, 0, 0
	paths := make([]string, len(c.Files))
	entries := make([]int, len(c.Files))
	for i, f := range c.Files {
		name := c.Files[c.target(i)].Name
		paths[i] = spellPath(dir, name, f.Spell)
	}
	for i, f := range c.Files {
		ext := filepath.Ext(paths[i])
		entry, ok := expect[ext]
		if !ok {
			entry, ok = expect[""]
		}
		if !ok {
			failedAt = i
			break
		}
		entries[i] = entry
		var wantErr error
		var before view
		if f.Again > 0 {
			before = viewOf(acc, opts)
		}
		if err := uc.Safe("oracle", func() error {
			want, err := realLoader(c.Exts[entry].Loader)(paths[i], opts...)
			if err == nil && want != nil {
				err = acc.Merge(want, opts...)
				mergeFails = err != nil
			}
			wantErr = err
			return nil
		}); err != nil {
			r.Discard()
			return nil
		}
		if wantErr != nil {
			failedAt, failErr = i, wantErr
			break
		}
		loaded++
		if f.Again > 0 {
			again++
			if !sameView(before, viewOf(acc, opts)) {
				againChanges++
			}
		}
	}

	set := goflag.NewFlagSet("c19", goflag.ContinueOnError)
	set.SetOutput(io.Discard)
	set.Usage = func() {}
	ctor := "ConfigFilesVar"
	if b := builtinTable(c.Exts); c.Named && b != "" {
		ctor = b
	}
	var fv *flag.FlagValue
	var parseErr error
	if err := uc.Safe(ctor+"/Parse", func() error {
		switch ctor {
		case "ConfigFilesExtsVar":
			fv = flag.ConfigFilesExtsVar(set, initFlag, "c", "files", opts...)
		case "ConfigYAMLFilesVar":
			fv = flag.ConfigYAMLFilesVar(set, initFlag, "c", "files", opts...)
		case "ConfigJSONFilesVar":
			fv = flag.ConfigJSONFilesVar(set, initFlag, "c", "files", opts...)
		default:
			fv = flag.ConfigFilesVar(set, initFlag, "c", "files", table, opts...)
		}
		argv := make([]string, 0, 2*len(paths))
		for _, p := range paths {
			argv = append(argv, "-c", p)
		}
		parseErr = set.Parse(argv)
		return nil
	}); err != nil {
		return err
	}
	if fv == nil || fv.Config() == nil {
		return fmt.Errorf("%s returned no flag value / config", ctor)
	}
	if err := checkHanded("after Parse"); err != nil {
		return err
	}
	if initFlag != nil && fv.Config() != initFlag {
		return fmt.Errorf("%s: Config() is not the initial config the files are documented to be merged into", ctor)
	}
	if ctor == "ConfigFilesVar" {
		// every argument up to the first failing one reached its loader, in order, with the flag's options
		n := len(c.Files)
		if failedAt >= 0 {
			n = failedAt
			if failErr != nil {
				n++
			}
		}
		j := 0
		for i := 0; i < n; i++ {
			for j < len(*calls) && ((*calls)[j].entry != entries[i] || (*calls)[j].path != paths[i]) {
				j++
			}
			if j == len(*calls) {
				return fmt.Errorf("argument %d %q: loader #%d (registered for %q) was not called for it; %d loader calls for %d arguments",
					i, paths[i], entries[i], c.Exts[entries[i]].Ext, len(*calls), len(paths))
			}
			if call := (*calls)[j]; call.nopts != len(opts) || call.behav != wantBehav {
				return fmt.Errorf("argument %d %q: the loader did not receive the flag's options: %d options behaving like %s, want %d behaving like %s",
					i, paths[i], call.nopts, call.behav, len(opts), wantBehav)
			}
			j++
		}
	}
	switch {
	case failedAt >= 0:
		// file flags postpone error checking: Parse may succeed; Error() must report the failure
		if fv.Error() == nil {
			return fmt.Errorf("argument %d %q fails (%s), Error() is nil after Parse", failedAt, paths[failedAt], errText(failErr))
		}
		if failErr != nil && !strings.Contains(fv.Error().Error(), failErr.Error()) {
			return fmt.Errorf("Error() = %q, the error of the first failing argument %d %q is %q", fv.Error(), failedAt, paths[failedAt], failErr)
		}
		if parseErr != nil && failErr != nil && !strings.Contains(parseErr.Error(), failErr.Error()) {
			return fmt.Errorf("Parse returned %q, the error of the first failing argument %d %q is %q", parseErr, failedAt, paths[failedAt], failErr)
		}
		// Parse goes on after a file that fails (file flags postpone error checking): the config holds the files
		// before the first failing one and nothing of what follows (unless merging itself failed half way)
		if !mergeFails {
			wantV, gotV := viewOf(acc, opts), viewOf(fv.Config(), opts)
			if isPanic(gotV.err) && !isPanic(wantV.err) {
				return gotV.err
			}
			if !sameView(gotV, wantV) && c.Opts.VarExp && !repeatable(fv.Config(), acc, opts) {
				r.Class("varexp: unpacking is not repeatable, data not asserted")
			} else if !sameView(gotV, wantV) {
				return fmt.Errorf("%s: after parsing -c %s, where argument %d fails, the flag's config differs from merging the files before it (%s):\n got  %s\n want %s",
					ctor, strings.Join(paths, " -c "), failedAt, c.Opts.Policy, gotV, wantV)
			}
			r.ClassIf(failedAt < len(paths)-1, "nt:failure followed by further files")
			r.ClassIf(failedAt < len(paths)-1, "after failure: further files on the command line (config = files before the failure)")
		}
	default:
		if parseErr != nil {
			return fmt.Errorf("Parse failed with %v, every file can be loaded and merged", parseErr)
		}
		if err := fv.Error(); err != nil {
			return fmt.Errorf("Error() = %v although no file failed", err)
		}
		wantV, gotV := viewOf(acc, opts), viewOf(fv.Config(), opts)
		if isPanic(gotV.err) && !isPanic(wantV.err) {
			return gotV.err
		}
		if !sameView(gotV, wantV) {
			return fmt.Errorf("%s: after parsing -c %s the flag's config differs from merging the loaded files (%s):\n got  %s\n want %s",
				ctor, strings.Join(paths, " -c "), c.Opts.Policy, gotV, wantV)
		}
		if _, err := checkString(fv, wantV, c.Opts.VarExp, opts, r); err != nil {
			return err
		}
	}
	c.Opts.classes(r)
	r.Class("via=flagset:" + ctor)
	r.ClassIf(c.Init != nil, "initial config")
	r.ClassIf(failedAt >= 0, "some file fails")
	r.ClassIf(again > 0, "again:file named again and loaded")
	r.ClassIf(againChanges > 0, "again:merging it again changes the data")
	multi := c.Opts.Policy != model.Default && (loaded >= 2 || (loaded >= 1 && c.Init != nil))
	r.ClassIf(multi, "nt:two configs meet under a non-default policy")
	r.NonTrivialIf(multi || (failedAt >= 0 && failedAt < len(paths)-1 && !mergeFails))
	return nil
}

var subFiles = runlog.Register(&runlog.Sub[FilesCase]{
	Name: "flag-files",
	Rule: "1-5 file arguments for one NewFlagFiles flag driven through Set (4/5), or for a file flag registered in a standard library FlagSet and parsed as -c path -c path ... (1/5: ConfigFilesVar with the table, or the constructor that has the table built in: ConfigFilesExtsVar/ConfigYAMLFilesVar/ConfigJSONFilesVar); files (JSON, block YAML, top-level lists, documents without data such as null {} [] ~ or a comment, truncated or malformed text, empty, missing) are written under the run's work directory; names combine bases with inner dots and the extensions .json .yaml .yml .txt .JSON .conf .jsonx or none; 40% of the arguments after the first name the file of an earlier argument AGAIN (any earlier one, so A,A and A,B,A and longer patterns; 1/4 of these with the file rewritten in between), 10% of the new files copy the content of an earlier file; 3/8 of all arguments spell their path in another way that names the same file (dir/./name, dir//name, dir/sub/../name, relative to the working directory, through a symbolic link, a hard link, a symlinked directory); extension table one of 7 (the ConfigFilesExts table, yaml/json fallback only, extension plus fallback, single entry, empty, custom) built from recording wrappers around json/yaml.NewConfigWithFile; in 1/3 of the cases the wrappers are loaders that KEEP what they hand out (the first *Config loaded for a path as spelled is returned again, the same object, whenever that path is given again; such a loader does not see a rewritten file; classes keep:*); options as in flag-kv. Oracle (for a keeping loader the fold re-merges the ORIGINAL data of a repeated path, read anew from a private copy of the text first loaded): after EVERY argument (through a FlagSet: after Parse) every config object a loader handed to the flag still has exactly the stored structure it had when handed out (snapshot hook: the loaded configs are inputs only); for EVERY argument, also one given before, the loader registered for filepath.Ext(path), else the \"\" entry, else an error, is the one called, with the path as given and with options that have the length and behaviour of the flag's; the data equals merging loader(path, opts...) (read at the time of the argument) in order with Merge(.., opts...) up to the first failing file; Error() reports that file's error and keeps it; a file without loader or one that cannot be loaded leaves the stored config exactly as it was (snapshot hook, unevaluated), and after the first failing file the stored config stays what it was right after it, whatever files follow (classes `after failure:*`: files that load on their own, further failing files); String() is the JSON of the data. Through a FlagSet the same is asserted once after Parse (loader calls as an ordered subsequence; Parse may or may not report a postponed file error; Parse goes on after a failing file, so the config must equal the merge of the files BEFORE the first failing one - not asserted only when the failure is a failing merge). Classes again:* count files named again, in a spelling used before or a new one, and how often merging the file again changes the data (which is when reading a file only once would be visible). Non-trivial: >=2 configs (counting the initial one) meet under a non-default policy, or a failing file is followed by further files (also on a FlagSet command line). Distinct: hash of the case.",
	Gen:  genFiles,
	Run:  runFiles,
})

func TestFlagFiles(t *testing.T) { subFiles.Check(t, 12000, 400000) }

func TestReplay(t *testing.T) { runlog.ReplayMain(t) }
