package c19

import (
	"bytes"
	"encoding/json"
	"fmt"
	"strings"

	"pgregory.net/rapid"

	"verif/harness/internal/gen"
	"verif/harness/internal/model"
)

// pick draws a number in [0, n) with (nearly) equal probabilities. rapid's
// integer generators favour small values and the bounds, which would distort
// the stated frequencies of the argument classes; single bits are unbiased.
// Shrinks towards 0, so the first alternative of every choice is the simplest.
func pick(t *rapid.T, label string, n int) int {
	bits := 0
	for 1<<bits < n {
		bits++
	}
	bits += 3 // the modulo bias is below 1/8 of a step
	v := 0
	for i := 0; i < bits; i++ {
		v <<= 1
		if rapid.Bool().Draw(t, label) {
			v |= 1
		}
	}
	return v % n
}

func oneOf(t *rapid.T, label string, s []string) string { return s[pick(t, label, len(s))] }

// ---------------------------------------------------------------------------
// options and initial config

func genOpts(t *rapid.T) Opts {
	o := Opts{
		PathSep: pick(t, "pathsep", 4) != 3,
		VarExp:  pick(t, "varexp", 3) == 2,
	}
	o.Resolver = o.VarExp && pick(t, "resolver", 2) == 1
	// the default policy is one of five; the others are where the options matter
	o.Policy = model.Policy(pick(t, "policy", int(model.NPolicies)))
	return o
}

var initKeys = []string{"a", "b", "c", "d", "a", "b"}

// genInit draws the initial configuration (nil: none). Strings are plain, so
// that the initial config can always be built and unpacked under VarExp.
func genInit(t *rapid.T) *gen.Tree {
	if pick(t, "init", 3) == 0 {
		return nil
	}
	return gen.GenObj(t, &gen.TreeCfg{Depth: 2, Width: 3, Keys: initKeys}, 2)
}

// ---------------------------------------------------------------------------
// key=value arguments
//
// The generator is structural: a key (segments, separators), the presence of
// '=' and a value rendered from a small grammar that covers every syntax
// parse.Value documents. The case stores the resulting plain strings.

var keySegs = []string{"a", "a", "a", "b", "b", "c", "d", "0", "0", "1", "2"}

// a numeric first segment gives the top level a list part; kept rarer than below the top
var firstSegs = []string{"a", "a", "a", "a", "b", "b", "b", "c", "c", "d", "0", "1"}

// odd spellings: empty segments, signs, other bases, blanks, non-ASCII, the index cap
var oddKeys = []string{"", ".", "a.", ".a", "a..b", "a.-1", "-1", "a.0x1", "a.01", "a b", " a", "é", "日本.a", "a.1024", "a.1025", "a.+1", "a.b.c.d", "-E", "--", "a.0.0", "A", "a,b", "a:b", "[a]", "${a}", "$"}

func genKey(t *rapid.T) string {
	if pick(t, "oddkey", 15) == 14 {
		return oneOf(t, "odd", oddKeys)
	}
	n := []int{1, 1, 1, 2, 2, 3}[pick(t, "nseg", 6)]
	segs := make([]string, n)
	for i := range segs {
		if i == 0 {
			segs[i] = oneOf(t, "seg0", firstSegs)
			continue
		}
		segs[i] = oneOf(t, "seg", keySegs)
	}
	return strings.Join(segs, ".")
}

var numbers = []string{"1", "0", "2", "3", "7", "42", "-3", "+5", "0x10", "007", "1.5", "-2.25", "1e3", "1e400", ".5", "1_000",
	"18446744073709551615", "18446744073709551616", "-9223372036854775808", "9223372036854775808", "0b11", "0o17"}
var bools = []string{"true", "false", "on", "off", "T", "F", "True", "FALSE", "ON", "t"}
var bareStrings = []string{"abc", "x", "s t", "hello world", "a=b", "k=", "=", "tRUE", "nil", "a.b", "-", "a]", "a}", "é", "日本", "x:y", "1 2", "#c", "a\\b", "a\"b", "it's"}
var quoted = []string{`"q"`, `"a,b"`, `"x y"`, `""`, `'s'`, `'a,b'`, `''`, `"a\"b"`, `"tab\t."`, `"é"`, `"[1,2]"`, `'{a: 1}'`, `"a=b"`,
	`"1"`, `'true'`, `"null"`, `"a\\"`, `'a"b'`, `"it's"`, `"\\\""`, `" lead"`, `'trail '`}
var nonFinite = []string{"NaN", "Inf", "-inf", "+Inf", "nan", "Infinity"}
var refs = []string{"${a}", "${b}", "${a.b}", "${a.0}", "${c}", "${x:def}", "${x:?msg}", "${a:+alt}", "$${a}", "${r1}", "${r2}", "a${b}c", "${a}${b}",
	"$", "$$", "${x:${a}}", "${${c}}", "x$y"}
var badRefs = []string{"${", "${a", "${}", "${a:", "${a:?", "a${", "${a}${"}

var objKeys = []string{"a", "b", "c", "0", "1", "d.e", `"k"`, `'s t'`, "x y"}

// fixed near-misses of the value syntax
var malformed = []string{"[1,", "[", "{", "{a", "{a:", "{a: 1", "{a 1}", "{a: 1 b: 2}", `"abc`, `'abc`, "[1]]", `"a"b`, "{:1}", "[1,2", `"\q"`,
	",", ",1", "1,,2", "[,]", "[1 , 2 ; 3", "{a: [1}", "[{a: 1]", "{a: 1}}", "[1] 2", `'a' 'b'`, "{a: 1,, b: 2}", `{"a" 1}`, "{a: 'x}", "[\"x]", "1,[", "{a:1},{"}

func genScalar(t *rapid.T) string {
	switch k := pick(t, "scalar", 40); {
	case k < 12:
		return oneOf(t, "num", numbers)
	case k < 16:
		return oneOf(t, "bool", bools)
	case k < 18:
		return "null"
	case k < 24:
		return oneOf(t, "bare", bareStrings)
	case k < 30:
		return oneOf(t, "quoted", quoted)
	case k < 36:
		return oneOf(t, "ref", refs)
	case k < 37:
		return oneOf(t, "nonfinite", nonFinite)
	default:
		return rapid.StringMatching(`[a-c]{1,3}`).Draw(t, "word")
	}
}

func pad(t *rapid.T, s string) string {
	switch pick(t, "pad", 10) {
	case 7:
		return " " + s
	case 8:
		return s + " "
	case 9:
		return " " + s + "\t"
	}
	return s
}

func genElems(t *rapid.T, depth, lo, hi int) []string {
	n := lo + pick(t, "nelem", hi-lo+1)
	out := make([]string, n)
	for i := range out {
		out[i] = pad(t, genNested(t, depth-1))
	}
	return out
}

func genList(t *rapid.T, depth int) string {
	el := genElems(t, depth, 0, 3)
	s := "[" + strings.Join(el, ",")
	if len(el) > 0 && pick(t, "trail", 6) == 5 {
		s += ","
	}
	return s + "]"
}

func genObject(t *rapid.T, depth int) string {
	n := pick(t, "nkeys", 4)
	var parts []string
	seen := map[string]bool{}
	for i := 0; i < n; i++ {
		k := oneOf(t, "okey", objKeys)
		if seen[k] {
			continue // one definition per name: overlapping definitions are C05's subject
		}
		seen[k] = true
		sep := oneOf(t, "colon", []string{": ", ":", " : "})
		parts = append(parts, k+sep+genNested(t, depth-1))
	}
	s := "{" + strings.Join(parts, oneOf(t, "comma", []string{", ", ","}))
	if len(parts) > 0 && pick(t, "trail", 6) == 5 {
		s += ","
	}
	return s + "}"
}

// genNested draws a value as it may appear inside a container.
func genNested(t *rapid.T, depth int) string {
	if depth <= 0 {
		return genScalar(t)
	}
	switch k := pick(t, "nested", 10); {
	case k < 6:
		return genScalar(t)
	case k < 8:
		return genList(t, depth)
	default:
		return genObject(t, depth)
	}
}

// genValue draws the text after '='. With containers set, lists and objects
// are preferred (used for repeated keys, where the merge policy shows).
func genValue(t *rapid.T, containers bool) string {
	k := pick(t, "value", 40)
	if containers {
		k = 10 + k%18
	}
	switch {
	case k < 10:
		return pad(t, genScalar(t))
	case k < 18: // the comma shortcut for lists
		return strings.Join(genElems(t, 2, 2, 4), ",")
	case k < 24:
		return pad(t, genList(t, 2))
	case k < 28:
		return pad(t, genObject(t, 2))
	case k < 31:
		return "" // key= : ignored
	case k < 33:
		return oneOf(t, "blank", []string{" ", "\t", "  ", "[]", "{}", "[ ]", "null"})
	case k < 35:
		return oneOf(t, "malformed", malformed)
	case k < 36:
		return oneOf(t, "badref", badRefs)
	case k >= 38:
		return pad(t, genScalar(t))
	default: // a well-formed container cut at any position
		var s string
		if pick(t, "cutobj", 2) == 1 {
			s = genObject(t, 2)
		} else {
			s = genList(t, 2)
		}
		return s[:cutPoint(s, rapid.IntRange(0, len(s)).Draw(t, "cut"))]
	}
}

// cutPoint moves a cut position back to a UTF-8 boundary.
func cutPoint(s string, i int) int {
	for i > 0 && i < len(s) && (s[i]&0xC0) == 0x80 {
		i--
	}
	return i
}

func genArg(t *rapid.T, keys *[]string) string {
	// reuse an earlier key often: repeated keys are where the policy and "last wins" show
	var key string
	reused := false
	if len(*keys) > 0 && pick(t, "reuse", 10) >= 6 {
		key = (*keys)[pick(t, "oldkey", len(*keys))]
		reused = true
	} else {
		key = genKey(t)
		*keys = append(*keys, key)
	}
	if pick(t, "bare", 10) == 9 {
		return key
	}
	if reused && pick(t, "nilish", 12) == 11 {
		// a value without data for a key that has data: it still is a value (only key= is ignored)
		return key + "=" + pad(t, oneOf(t, "nilvalue", []string{"null", "[]", "{}", "[ ]", "{ }", "[null]", "{a: null}", "{a: []}", "\"\"", "''"}))
	}
	return key + "=" + genValue(t, reused && pick(t, "containers", 4) != 0)
}

func genKV(t *rapid.T) KVCase {
	c := KVCase{Opts: genOpts(t), Init: genInit(t), Via: "set"}
	c.AutoBool = pick(t, "autobool", 4) != 3
	if pick(t, "via", 6) == 5 {
		c.Via, c.AutoBool = "flagset", true
	}
	n := 1 + pick(t, "nargs", 8)
	var keys []string
	for i := 0; i < n; i++ {
		// the same argument once more, verbatim: "merged in order" differs from "every setting once"
		// when something in between overrode it, or under an accumulating policy
		if i > 0 && pick(t, "verbatim", 8) == 7 {
			c.Args = append(c.Args, c.Args[pick(t, "which", i)])
			continue
		}
		c.Args = append(c.Args, genArg(t, &keys))
	}
	return c
}

// ---------------------------------------------------------------------------
// collector histories

func genCollector(t *rapid.T) ColCase {
	c := ColCase{Opts: genOpts(t), Init: genInit(t)}
	cfg := &gen.TreeCfg{Depth: 2, Width: 3, Keys: initKeys}
	n := 1 + pick(t, "steps", 7)
	for i := 0; i < n; i++ {
		var s ColStep
		k := pick(t, "kind", 20) // 17: neither, 18: config and error, 19: error only, else a config
		if i > 0 && k < 17 {
			switch pick(t, "same", 8) {
			case 6, 7:
				// the config object of an earlier step once more
				s.Same = 1 + pick(t, "which", i)
				c.Steps = append(c.Steps, s)
				continue
			case 5:
				// the owner of an earlier config object changes it
				s.Touch = 1 + pick(t, "which", i)
				c.Steps = append(c.Steps, s)
				continue
			}
		}
		if k != 17 && k != 19 {
			if pick(t, "toplist", 8) == 7 {
				s.Cfg = gen.GenList(t, cfg, 2)
			} else {
				s.Cfg = gen.GenObj(t, cfg, 2)
			}
		}
		if k >= 18 {
			s.Err = fmt.Sprintf("E%d-%s", i, oneOf(t, "msg", []string{"x", "y", "load failed"}))
		}
		c.Steps = append(c.Steps, s)
	}
	return c
}

// ---------------------------------------------------------------------------
// file arguments

var extTables = [][]ExtEntry{
	{{".json", "json"}, {".yaml", "yaml"}, {".yml", "yaml"}}, // flag.ConfigFilesExts
	{{"", "yaml"}},                    // flag.ConfigYAMLFiles
	{{"", "json"}},                    // flag.ConfigJSONFiles
	{{".json", "json"}, {"", "yaml"}}, // extension plus fallback
	{{".yaml", "yaml"}},
	{{".json", "yaml"}, {".yaml", "json"}, {".conf", "json"}}, // custom assignment
	{},
}

var fileBases = []string{"f", "g", "a.b", "x.tar", "conf.json.d"}
var fileExts = []string{".json", ".yaml", ".yml", ".txt", "", ".JSON", ".conf", ".jsonx"}

func jsonText(tr *gen.Tree) string {
	b, err := json.Marshal(tr.Go())
	if err != nil {
		return "{}"
	}
	return string(b)
}

// yamlText renders an object as a block mapping whose values are in flow
// (JSON) style; other trees are rendered as JSON, which is YAML as well.
func yamlText(tr *gen.Tree) string {
	if tr.K != "obj" || len(tr.Keys) == 0 {
		return jsonText(tr)
	}
	var b bytes.Buffer
	for i, k := range tr.Keys {
		kb, _ := json.Marshal(k)
		fmt.Fprintf(&b, "%s: %s\n", kb, jsonText(tr.Vals[i]))
	}
	return b.String()
}

// genContent draws the text of a file that will mostly be read by the given loader.
func genContent(t *rapid.T, cfg *gen.TreeCfg, loader string) (content string, missing bool) {
	switch k := pick(t, "content", 32); {
	case k == 29:
		return "", true
	case k == 28:
		return oneOf(t, "bad", []string{"", "{", "[1,", "a: [", "42", "{\"a\": }", "a: 1\n b: 2\n", "\t"}), false
	case k == 27:
		s := jsonText(gen.GenObj(t, cfg, 2))
		return s[:rapid.IntRange(0, len(s)).Draw(t, "cut")], false
	case k >= 30: // documents without data
		return oneOf(t, "nilish", []string{"null", "{}", "[]", "~", "---\n", "# nothing\n", "{\"a\": null}", "{\"a\": []}", "{\"a\": {}}", "[null]", " \n"}), false
	case k < 12 && (loader != "json" || k == 0):
		return yamlText(gen.GenObj(t, cfg, 2)), false
	case k >= 25:
		return jsonText(gen.GenList(t, cfg, 2)), false
	default:
		return jsonText(gen.GenObj(t, cfg, 2)), false
	}
}

var spellings = []string{"dot", "slash", "updown", "rel", "symlink", "hardlink", "dirlink"}

func genFiles(t *rapid.T) FilesCase {
	c := FilesCase{Opts: genOpts(t), Init: genInit(t)}
	c.Exts = append([]ExtEntry{}, extTables[pick(t, "table", len(extTables)+3)%len(extTables)]...) // the first three tables twice
	if pick(t, "via", 5) == 4 {
		c.Via = "flagset"
		c.Named = pick(t, "named", 2) == 1
	}
	c.Keep = pick(t, "keep", 3) == 2
	cfg := &gen.TreeCfg{Depth: 2, Width: 3, Keys: initKeys, NoFloat: true}
	n := 1 + pick(t, "files", 5)
	loaders := make([]string, 0, n)
	for i := 0; i < n; i++ {
		var f FileArg
		if pick(t, "spelled", 8) >= 5 {
			f.Spell = oneOf(t, "spell", spellings)
		}
		// name an earlier file again: the same argument twice is where "merged in order" differs from "merged once"
		if i > 0 && pick(t, "again", 10) >= 6 {
			f.Again = 1 + pick(t, "which", i)
			loader := loaders[f.Again-1]
			loaders = append(loaders, loader)
			if c.Via == "" && pick(t, "rewrite", 4) == 3 {
				f.Rewrite = true
				f.Content, _ = genContent(t, cfg, loader)
			}
			c.Files = append(c.Files, f)
			continue
		}
		// mostly an extension the table knows, and content its loader can read
		ext := oneOf(t, "ext", fileExts)
		if len(c.Exts) > 0 && pick(t, "known", 10) < 6 {
			ext = c.Exts[pick(t, "knownext", len(c.Exts))].Ext
		}
		loader := ""
		for _, e := range c.Exts {
			if e.Ext == ext || (e.Ext == "" && loader == "") {
				loader = e.Loader
			}
		}
		loaders = append(loaders, loader)
		f.Name = fmt.Sprintf("%d-%s%s", i, oneOf(t, "base", fileBases), ext)
		f.Content, f.Missing = genContent(t, cfg, loader)
		if i > 0 && pick(t, "copy", 10) == 9 {
			// another file with the content of an earlier one
			if src := c.Files[c.target(pick(t, "of", i))]; !src.Missing {
				f.Content, f.Missing = src.Content, false
			}
		}
		c.Files = append(c.Files, f)
	}
	return c
}
