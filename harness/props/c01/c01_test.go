// Package c01 decides property C01: Merge follows the selected policy exactly.
package c01

import (
	"fmt"
	"testing"

	ucfg "github.com/elastic/go-ucfg"
	"pgregory.net/rapid"

	"verif/harness/internal/canon"
	"verif/harness/internal/gen"
	"verif/harness/internal/model"
	"verif/harness/internal/runlog"
	"verif/harness/internal/uc"
)

// Step is one merge of a chain.
type Step struct {
	B      *gen.Tree    `json:"b"`
	Policy model.Policy `json:"policy"`
	// Asm != 0: the *Config source is not built by NewFrom but assembled with SetChild; bit i says whether the i-th
	// object-valued entry (in traversal order) is a fresh config or a section adopted from another configuration,
	// where it had a different name
	Asm uint64 `json:"asm,omitempty"`
}

// Case is a chain A <- B1 ... Bk.
type Case struct {
	A     *gen.Tree `json:"a"`
	Steps []Step    `json:"steps"`
	Wrap  bool      `json:"wrap,omitempty"` // everything below one key, so that mixed nodes occur below the top
}

var keys = []string{"a", "b", "c", "d", "a", "b", "0", "1"}

func treeCfg() *gen.TreeCfg {
	return &gen.TreeCfg{Depth: runlog.Pick(3, 5), Width: runlog.Pick(3, 5), Keys: keys, Strings: gen.HostileStrings, Reprs: true}
}

func genTop(t *rapid.T, cfg *gen.TreeCfg, list bool) *gen.Tree {
	if list {
		return gen.GenList(t, cfg, cfg.Depth)
	}
	return gen.GenObj(t, cfg, cfg.Depth)
}

func genCase(t *rapid.T) Case {
	cfg := treeCfg()
	topList := rapid.IntRange(0, 4).Draw(t, "toplist") == 0
	c := Case{A: genTop(t, cfg, topList), Wrap: rapid.IntRange(0, 3).Draw(t, "wrap") == 0}
	n := rapid.IntRange(1, 3).Draw(t, "steps")
	for i := 0; i < n; i++ {
		// mostly the same top-level shape, sometimes the other one (dict over list gives a mixed top node)
		l := topList
		if rapid.IntRange(0, 9).Draw(t, "flip") == 0 {
			l = !l
		}
		st := Step{Policy: model.Policy(rapid.IntRange(0, int(model.NPolicies)-1).Draw(t, "policy"))}
		if rapid.IntRange(0, 3).Draw(t, "shadow") == 0 {
			// a source that follows the shape of A and meets its (empty) containers with nil / {} / [] / nothing
			st.B = shadow(t, c.A, cfg, true)
		} else {
			st.B = genTop(t, cfg, l)
		}
		if rapid.IntRange(0, 2).Draw(t, "assembled") == 0 {
			st.Asm = rapid.Uint64().Draw(t, "asm") | 1<<63
		}
		c.Steps = append(c.Steps, st)
	}
	return c
}

func wrap(t *gen.Tree, on bool) *gen.Tree {
	if !on {
		return t
	}
	return gen.Obj().Put("w", t)
}

// overlap reports whether the two trees share a path at which both are
// containers or their kinds differ.
func overlap(a, b *gen.Tree) bool {
	if a.IsCont() && b.IsCont() {
		if len(a.Vals) > 0 && len(b.Vals) > 0 {
			return true
		}
	}
	return a.K != b.K && (a.IsCont() || b.IsCont())
}

func deepOverlap(a, b *gen.Tree) bool {
	if a.K == "obj" && b.K == "obj" {
		for i, k := range a.Keys {
			if o := b.Get(k); o != nil {
				if overlap(a.Vals[i], o) || deepOverlap(a.Vals[i], o) {
					return true
				}
			}
		}
	}
	if a.K == "list" && b.K == "list" {
		for i := range a.Vals {
			if i < len(b.Vals) && (overlap(a.Vals[i], b.Vals[i]) || deepOverlap(a.Vals[i], b.Vals[i])) {
				return true
			}
		}
	}
	return false
}

var reprNames = []string{"generic", "repr", "config"}

func source(b *gen.Tree, kind int, used map[string]int, asm uint64) (interface{}, error) {
	switch kind {
	case 0:
		return b.Go(), nil
	case 1:
		return b.GoRepr(nil, used)
	default:
		if asm != 0 && b.K == "obj" {
			n := 0
			return assemble(b, asm, &n)
		}
		return ucfg.NewFrom(b.Go())
	}
}

// assemble builds the configuration holding the data of t the way an application composes one: the entries that
// are no objects come from NewFrom, every object-valued entry is assembled on its own and attached with SetChild
// - as a fresh configuration, or (bit set) as a section that is first attached to another configuration under
// another name, taken out of it with Child and then adopted under its name here.
func assemble(t *gen.Tree, asm uint64, n *int) (*ucfg.Config, error) {
	plain := gen.Obj()
	for i, k := range t.Keys {
		if t.Vals[i].K != "obj" {
			plain.Put(k, t.Vals[i])
		}
	}
	cfg, err := ucfg.NewFrom(plain.Go())
	if err != nil {
		return nil, err
	}
	for i, k := range t.Keys {
		if t.Vals[i].K != "obj" {
			continue
		}
		child, err := assemble(t.Vals[i], asm, n)
		if err != nil {
			return nil, err
		}
		adopt := asm>>(uint(*n)%63)&1 == 1
		*n++
		if adopt {
			other := "other"
			for _, o := range t.Keys {
				if o != k {
					other = o // the name of a sibling: a stale name would collide
					break
				}
			}
			donor := ucfg.New()
			if err := donor.SetChild(other, -1, child); err != nil {
				return nil, fmt.Errorf("SetChild(%q) on the donor failed: %v", other, err)
			}
			if child, err = donor.Child(other, -1); err != nil {
				return nil, fmt.Errorf("Child(%q) of the donor failed: %v", other, err)
			}
		}
		if err := cfg.SetChild(k, -1, child); err != nil {
			return nil, fmt.Errorf("SetChild(%q) failed: %v", k, err)
		}
	}
	return cfg, nil
}

func runCase(c Case, r *runlog.R) error {
	a := wrap(c.A, c.Wrap)
	m := &model.Node{Kind: "cont"}
	model.MergeCont(model.Default, nil, m, model.FromTree(a))
	var cfgs [3]*ucfg.Config
	for i := range cfgs {
		cfg, err := ucfg.NewFrom(a.Go())
		if err != nil {
			return fmt.Errorf("NewFrom(A) failed: %v", err)
		}
		cfgs[i] = cfg
	}
	used := map[string]int{}
	nt := false
	prev := a
	// *Config sources are kept: a source is not changed by being merged from (nor by later merges into the
	// destination), so the same object can be merged again and gives the same contribution
	type kept struct {
		cfg  *ucfg.Config
		tree *gen.Tree
		pol  model.Policy
	}
	var keptSrc []kept
	for si, st := range c.Steps {
		b := wrap(st.B, c.Wrap)
		if deepOverlap(prev, b) || overlap(prev, b) {
			nt = true
		}
		prev = b
		model.MergeCont(st.Policy, nil, m, model.FromTree(b))
		want := m.Reify()
		for k, cfg := range cfgs {
			src, err := source(b, k, used, st.Asm)
			if err != nil {
				return fmt.Errorf("step %d: building the %s source failed: %v", si, reprNames[k], err)
			}
			if sc, ok := src.(*ucfg.Config); ok && k == 2 {
				keptSrc = append(keptSrc, kept{sc, b, st.Policy})
				r.ClassIf(st.Asm != 0 && b.K == "obj", "*Config source assembled with SetChild (fresh and adopted sections)")
			}
			keep, err := shapesBefore(cfg, b, st.Policy)
			if err != nil {
				return fmt.Errorf("step %d: %v", si, err)
			}
			err = uc.Safe("Merge", func() error { return cfg.Merge(src, uc.PolicyOpts(st.Policy)...) })
			if err != nil {
				return fmt.Errorf("step %d: Merge(%s source, %v) failed: %v", si, reprNames[k], st.Policy, err)
			}
			got, err := uc.Dump(cfg)
			if err != nil {
				return fmt.Errorf("step %d: unpacking the result failed: %v", si, err)
			}
			if err := checkShapes(cfg, got, keep); err != nil {
				return fmt.Errorf("step %d (%v, %s source): %v", si, st.Policy, reprNames[k], err)
			}
			if k == 0 {
				for _, e := range keep {
					r.Class("empty " + e.shape + " of A met with " + e.with)
				}
			}
			if !canon.EqualSplit(got, want) {
				return fmt.Errorf("step %d (%v, %s source): result differs from the model\n got  %s\n want %s",
					si, st.Policy, reprNames[k], canon.String(canon.Split(canon.Of(got))), canon.String(canon.Split(canon.Of(want))))
			}
		}
		r.Class("policy=" + st.Policy.String())
		// between the merges the application reads the result: handles obtained for null settings are empty
		// configurations of their own; what is written into them is no part of the result
		for k, n := range m.D {
			if n == nil || n.Kind != "nil" {
				continue
			}
			for _, cfg := range cfgs {
				if ch, err := cfg.Child(k, -1); err == nil && ch != nil {
					ch.SetInt("leak", -1, 1)
					ch.SetString("", 2, "leak")
					r.Class("wrote into the handle of a null setting")
				}
			}
		}
		if w := m.D["w"]; c.Wrap && w != nil && w.Kind == "cont" {
			for k, n := range w.D {
				if n == nil || n.Kind != "nil" {
					continue
				}
				for _, cfg := range cfgs {
					if ch, err := cfg.Child("w", -1); err == nil {
						if ch2, err := ch.Child(k, -1); err == nil && ch2 != nil {
							ch2.SetInt("leak", -1, 1)
							r.Class("wrote into the handle of a null setting")
						}
					}
				}
			}
		}
	}
	// merge the kept source objects once more, oldest first, into the config that received *Config sources
	for i, ks := range keptSrc {
		model.MergeCont(ks.pol, nil, m, model.FromTree(ks.tree))
		if err := uc.Safe("Merge", func() error { return cfgs[2].Merge(ks.cfg, uc.PolicyOpts(ks.pol)...) }); err != nil {
			return fmt.Errorf("merging the *Config source of step %d a second time failed: %v", i, err)
		}
		got, err := uc.Dump(cfgs[2])
		if err != nil {
			return fmt.Errorf("unpacking the result failed: %v", err)
		}
		if want := m.Reify(); !canon.EqualSplit(got, want) {
			return fmt.Errorf("merging the *Config source of step %d (%v) a second time, after the rest of the chain: result differs from the model (was the source modified by the earlier merges?)\n got  %s\n want %s",
				i, ks.pol, canon.String(canon.Split(canon.Of(got))), canon.String(canon.Split(canon.Of(want))))
		}
		src, err := uc.Dump(ks.cfg)
		if err != nil {
			return err
		}
		if !canon.EqualSplit(src, ks.tree.Go()) {
			return fmt.Errorf("the *Config source of step %d no longer holds its own data\n got  %s\n want %s", i, canon.Show(src), canon.Show(ks.tree.Go()))
		}
		r.Class("*Config source merged a second time")
	}
	r.NonTrivialIf(nt)
	r.ClassIf(c.Wrap, "wrapped")
	r.ClassIf(c.A.K == "list", "top-level list")
	for k := range used {
		r.Class("repr:" + k)
	}
	return nil
}

var subModel = runlog.Register(&runlog.Sub[Case]{
	Name: "merge-model",
	Rule: "chains A<-B1..Bk (k<=3) of random trees over keys {a,b,c,d,0,1}, each merge under one of the 5 global policies, B given as generic map, in a mixed Go representation (structs, typed maps/slices, pointers, *Config) and as *Config; a quarter of the sources follow the shape of A and meet its containers (the empty ones in particular) with nil, {}, [], nothing or more data; result compared with the reference merge model after every step (canonical comparison: nil = {} = []); in addition every EMPTY container the destination holds right before a merge, below the top level (shape [] if unpacking shows an empty list there, {} otherwise; classes 'empty <shape> of A met with absent/nil/empty'), which the source reaches with nothing, a nil or an empty container of either kind (not under a dictionary or list that the policy replaces; shifted by prepend) must have the same shape afterwards - no null, no container of the other kind; at the end every *Config source object is merged a second time (and must still hold its own data). Non-trivial: two consecutive operands share a path where both are non-empty containers or their kinds differ (container vs other). Distinct: hash of the whole case.",
	Gen:  genCase,
	Run:  runCase,
})

func TestMergeModel(t *testing.T) { subModel.Check(t, 80000, 6000000) }

// ---------------------------------------------------------------------------
// algebraic laws stated by the property, asserted directly (no model)

type LawCase struct {
	X      *gen.Tree    `json:"x"`
	Y      *gen.Tree    `json:"y"`
	Policy model.Policy `json:"policy"`
	Path   []string     `json:"path,omitempty"` // keys under which the list operands of the append/prepend law sit
}

func genLaw(t *rapid.T) LawCase {
	cfg := treeCfg()
	cfg.Reprs = false
	topList := rapid.IntRange(0, 4).Draw(t, "toplist") == 0
	lc := LawCase{X: genTop(t, cfg, topList), Policy: model.Policy(rapid.IntRange(0, int(model.NPolicies)-1).Draw(t, "policy"))}
	lc.Y = gen.GenList(t, cfg, 2)
	n := rapid.IntRange(0, 3).Draw(t, "pathlen")
	for i := 0; i < n; i++ {
		lc.Path = append(lc.Path, rapid.SampledFrom([]string{"a", "b", "c"}).Draw(t, "seg"))
	}
	return lc
}

func nest(path []string, t *gen.Tree) *gen.Tree {
	for i := len(path) - 1; i >= 0; i-- {
		t = gen.Obj().Put(path[i], t)
	}
	return t
}

func dumpOf(v interface{}, opts ...ucfg.Option) (*ucfg.Config, interface{}, error) {
	c, err := ucfg.NewFrom(v, opts...)
	if err != nil {
		return nil, nil, err
	}
	d, err := uc.Dump(c)
	return c, d, err
}

func runLaw(lc LawCase, r *runlog.R) error {
	opts := uc.PolicyOpts(lc.Policy)
	_, want, err := dumpOf(lc.X.Go())
	if err != nil {
		return fmt.Errorf("NewFrom/Unpack(X): %v", err)
	}
	// 1. merging an empty config is the identity, in both directions, under every policy
	for _, empty := range []interface{}{map[string]interface{}{}, []interface{}{}, ucfg.New(), struct{}{}} {
		c, _ := ucfg.NewFrom(lc.X.Go())
		keep, err := shapesBefore(c, gen.Obj(), lc.Policy)
		if err != nil {
			return err
		}
		if err := uc.Safe("Merge", func() error { return c.Merge(empty, opts...) }); err != nil {
			return fmt.Errorf("X.Merge(empty %T): %v", empty, err)
		}
		got, err := uc.Dump(c)
		if err != nil {
			return err
		}
		// the identity keeps the empty containers of X what they are (the canonical comparison cannot see them)
		if err := checkShapes(c, got, keep); err != nil {
			return fmt.Errorf("X.Merge(empty %T, %v): %v", empty, lc.Policy, err)
		}
		r.ClassIf(len(keep) > 0, "X holds empty containers (must survive the identity merges)")
		if !canon.EqualSplit(got, want) {
			return fmt.Errorf("X.Merge(empty %T, %v) changed X:\n got  %s\n want %s", empty, lc.Policy, canon.Show(got), canon.Show(want))
		}
	}
	e := ucfg.New()
	if err := uc.Safe("Merge", func() error { return e.Merge(lc.X.Go(), opts...) }); err != nil {
		return fmt.Errorf("empty.Merge(X): %v", err)
	}
	got, err := uc.Dump(e)
	if err != nil {
		return err
	}
	if !canon.EqualSplit(got, want) {
		return fmt.Errorf("empty.Merge(X, %v) is not X:\n got  %s\n want %s", lc.Policy, canon.Show(got), canon.Show(want))
	}
	// 2. merging a config into itself changes nothing under default / replace / replace-arr
	if lc.Policy == model.Default || lc.Policy == model.Replace || lc.Policy == model.ReplaceArr {
		c, _ := ucfg.NewFrom(lc.X.Go())
		if err := uc.Safe("Merge", func() error { return c.Merge(c, opts...) }); err != nil {
			return fmt.Errorf("X.Merge(X) (same pointer): %v", err)
		}
		got, err := uc.Dump(c)
		if err != nil {
			return err
		}
		if !canon.EqualSplit(got, want) {
			return fmt.Errorf("X.Merge(X) (same pointer, %v) changed X:\n got  %s\n want %s", lc.Policy, canon.Show(got), canon.Show(want))
		}
		c2, _ := ucfg.NewFrom(lc.X.Go())
		cp, _ := ucfg.NewFrom(lc.X.Go())
		keep, err := shapesBefore(c2, lc.X, lc.Policy)
		if err != nil {
			return err
		}
		if err := uc.Safe("Merge", func() error { return c2.Merge(cp, opts...) }); err != nil {
			return fmt.Errorf("X.Merge(copy of X): %v", err)
		}
		if got, err = uc.Dump(c2); err != nil {
			return err
		}
		if err := checkShapes(c2, got, keep); err != nil {
			return fmt.Errorf("X.Merge(copy of X, %v): %v", lc.Policy, err)
		}
		if !canon.EqualSplit(got, want) {
			return fmt.Errorf("X.Merge(copy of X, %v) changed X:\n got  %s\n want %s", lc.Policy, canon.Show(got), canon.Show(want))
		}
	}
	// 2b. under every policy, merging a config into itself (the same pointer, or a config that shares a section
	// with it by SetChild) gives what merging an equal copy gives: the model's merge of X into X
	if lc.X.K == "obj" {
		m := &model.Node{Kind: "cont"}
		model.MergeCont(model.Default, nil, m, model.FromTree(lc.X))
		model.MergeCont(lc.Policy, nil, m, model.FromTree(lc.X))
		wantSelf := m.Reify()
		c, _ := ucfg.NewFrom(lc.X.Go())
		if err := uc.Safe("Merge", func() error { return c.Merge(c, opts...) }); err != nil {
			return fmt.Errorf("X.Merge(X) (same pointer, %v): %v", lc.Policy, err)
		}
		got, err := uc.Dump(c)
		if err != nil {
			return err
		}
		if !canon.EqualSplit(got, wantSelf) {
			return fmt.Errorf("X.Merge(X) (same pointer, %v) differs from merging an equal copy:\n got  %s\n want %s", lc.Policy, canon.String(canon.Split(canon.Of(got))), canon.String(canon.Split(canon.Of(wantSelf))))
		}
		// a section shared by reference between destination and source
		d, _ := ucfg.NewFrom(lc.X.Go())
		src, scp := ucfg.New(), ucfg.New()
		shared := false
		for i, k := range lc.X.Keys {
			if lc.X.Vals[i].K != "obj" {
				continue
			}
			ch, err := d.Child(k, -1)
			if err != nil {
				continue
			}
			ind, err := ucfg.NewFrom(lc.X.Vals[i].Go())
			if err != nil {
				return err
			}
			if src.SetChild(k, -1, ch) == nil && scp.SetChild(k, -1, ind) == nil {
				shared = true
			}
		}
		if shared {
			if err := uc.Safe("Merge", func() error { return d.Merge(src, opts...) }); err != nil {
				return fmt.Errorf("X.Merge(config sharing sections with X, %v): %v", lc.Policy, err)
			}
			// the expectation: merging an independent copy of what the source holds
			cp, _ := ucfg.NewFrom(lc.X.Go())
			if err := cp.Merge(scp, opts...); err != nil {
				return err
			}
			wantShared, err := uc.Dump(cp)
			if err != nil {
				return err
			}
			if got, err = uc.Dump(d); err != nil {
				return err
			}
			if !canon.EqualSplit(got, wantShared) {
				return fmt.Errorf("X.Merge(config sharing sections with X by SetChild, %v) differs from merging an independent copy:\n got  %s\n want %s", lc.Policy, canon.String(canon.Split(canon.Of(got))), canon.String(canon.Split(canon.Of(wantShared))))
			}
			r.Class("merge of a config sharing sections with the destination")
		}
	}
	// 3. append / prepend: the length is the sum and both operands keep their order. The operands are
	// the list X (if it is one, else a list drawn from its values) and the list Y, placed under Path.
	if lc.Policy == model.Append || lc.Policy == model.Prepend {
		xl := lc.X
		if xl.K != "list" {
			xl = gen.List(lc.X.Vals...)
		}
		if len(lc.Path) == 0 || true {
			la, lb := nest(lc.Path, xl), nest(lc.Path, lc.Y)
			c, err := ucfg.NewFrom(la.Go())
			if err != nil {
				return err
			}
			if err := uc.Safe("Merge", func() error { return c.Merge(lb.Go(), opts...) }); err != nil {
				return fmt.Errorf("append/prepend merge: %v", err)
			}
			var exp *gen.Tree
			if lc.Policy == model.Append {
				exp = gen.List(append(append([]*gen.Tree{}, xl.Vals...), lc.Y.Vals...)...)
			} else {
				exp = gen.List(append(append([]*gen.Tree{}, lc.Y.Vals...), xl.Vals...)...)
			}
			got, err := uc.Dump(c)
			if err != nil {
				return err
			}
			_, wantL, err := dumpOf(nest(lc.Path, exp).Go())
			if err != nil {
				return err
			}
			// an empty operand contributes nothing; the expectation holds for that case as well
			if !canon.EqualSplit(got, wantL) {
				return fmt.Errorf("%v of lists under %v:\n A    %s\n B    %s\n got  %s\n want %s", lc.Policy, lc.Path,
					canon.Show(xl.Go()), canon.Show(lc.Y.Go()), canon.Show(got), canon.Show(wantL))
			}
			r.NonTrivialIf(len(xl.Vals) > 0 && len(lc.Y.Vals) > 0)
		}
	} else {
		r.NonTrivialIf(lc.X.Depth() >= 2)
	}
	r.Class("policy=" + lc.Policy.String())
	return nil
}

var subLaws = runlog.Register(&runlog.Sub[LawCase]{
	Name: "merge-laws",
	Rule: "random tree X and list Y: X.Merge(empty) and empty.Merge(X) are identities for four kinds of empty source and every policy (X.Merge(empty) also keeps every empty container of X an empty list resp. dictionary); X.Merge(X) (same pointer and equal copy) is the identity under default/replace/replace-arr (the equal copy also keeps the empty containers that are not below a replaced dictionary or list), and under every policy X.Merge(X) and X.Merge(config sharing sections with X by SetChild) equal the merge of an independent copy; under append/prepend two lists nested under a random key path combine to A++B / B++A element for element. Non-trivial: both list operands non-empty (append/prepend) or X nested at least two levels (other policies).",
	Gen:  genLaw,
	Run:  runLaw,
})

func TestMergeLaws(t *testing.T) { subLaws.Check(t, 30000, 2000000) }

func TestReplay(t *testing.T) { runlog.ReplayMain(t) }
