package c01

import (
	"fmt"
	"strconv"
	"strings"

	ucfg "github.com/elastic/go-ucfg"
	"pgregory.net/rapid"

	"verif/harness/internal/gen"
	"verif/harness/internal/model"
	"verif/harness/internal/uc"
)

// The canonical comparison treats nil, {} and [] as one value, so it cannot see whether an EMPTY container of A
// survives a merge. The statement says it does ("a nil in B leaves a container of A in place", "an empty list or
// dictionary in B replaces nothing", and what B does not mention is not touched at all). The shape check observes
// every place of the destination that holds an empty container right before a merge - shape "[]" if unpacking the
// configuration shows an empty list there, "{}" otherwise - works out from B's tree and the policy where that place
// is afterwards (prepend shifts list elements) and whether the merge reaches it with nothing (B has no value
// there, a nil, or an empty container of either kind), and demands the same shape at that place after the merge:
// not a null, not a container of the other kind, not gone.

type pstep struct {
	name string
	idx  int // < 0: a name
}

type expect struct {
	path  []pstep
	shape string // "[]" or "{}"
	with  string // what B holds at the place: absent, nil, empty
}

func showPath(p []pstep) string {
	var s []string
	for _, st := range p {
		if st.idx >= 0 {
			s = append(s, strconv.Itoa(st.idx))
		} else {
			s = append(s, st.name)
		}
	}
	return strings.Join(s, ".")
}

// descend follows one step in the generic view of a configuration (mixed nodes hold their list part under
// numeric keys).
func descend(v interface{}, st pstep) interface{} {
	switch c := v.(type) {
	case map[string]interface{}:
		if st.idx >= 0 {
			return c[strconv.Itoa(st.idx)]
		}
		return c[st.name]
	case []interface{}:
		if st.idx >= 0 && st.idx < len(c) {
			return c[st.idx]
		}
	}
	return nil
}

func snapStep(sn ucfg.VerifNode, st pstep) (ucfg.VerifNode, bool) {
	if sn.Kind != "sub" {
		return ucfg.VerifNode{}, false
	}
	if st.idx >= 0 {
		if st.idx < len(sn.Arr) {
			return sn.Arr[st.idx], true
		}
		return ucfg.VerifNode{}, false
	}
	for i, n := range sn.Names {
		if n == st.name {
			return sn.Dict[i], true
		}
	}
	return ucfg.VerifNode{}, false
}

func isEmptyList(v interface{}) bool {
	l, ok := v.([]interface{})
	return ok && len(l) == 0
}

// shapeAt classifies the place reached by path in a configuration given by its stored tree and its generic view.
func shapeAt(sn ucfg.VerifNode, dv interface{}, path []pstep) string {
	for _, st := range path {
		var ok bool
		if sn, ok = snapStep(sn, st); !ok {
			return "missing"
		}
		dv = descend(dv, st)
	}
	switch {
	case sn.Kind == "nil":
		return "null"
	case sn.Kind != "sub":
		return "a " + sn.Kind
	case len(sn.Names) > 0 || len(sn.Arr) > 0:
		return "a non-empty container"
	case isEmptyList(dv):
		return "[]"
	}
	return "{}"
}

// expectShapes walks the destination (stored tree sn, generic view dv) next to what the source holds at the same
// place (bn; nil: nothing, the subtree is not touched) and collects the empty containers that must survive.
func expectShapes(sn ucfg.VerifNode, dv interface{}, bn *model.Node, pol model.Policy, path []pstep, out *[]expect) {
	if sn.Kind != "sub" {
		return
	}
	with := "absent"
	if bn != nil {
		switch bn.Kind {
		case "nil":
			// a nil in B leaves a container of A in place - with everything it holds
			if pol == model.Replace {
				return
			}
			bn, with = nil, "nil"
		case "cont":
			with = "empty"
		default:
			return // B's value wins
		}
	}
	if len(sn.Names) == 0 && len(sn.Arr) == 0 {
		if bn != nil && (len(bn.D) > 0 || len(bn.A) > 0) {
			return
		}
		if len(path) == 0 {
			return // the statement does not say what kind of container an empty top level is
		}
		sh := "{}"
		if isEmptyList(dv) {
			sh = "[]"
		}
		*out = append(*out, expect{append([]pstep(nil), path...), sh, with})
		return
	}
	for i, name := range sn.Names {
		var cb *model.Node
		if bn != nil && len(bn.D) > 0 {
			if pol == model.Replace {
				break // the dictionary is replaced as a whole
			}
			cb = bn.D[name]
		}
		st := pstep{name, -1}
		expectShapes(sn.Dict[i], descend(dv, st), cb, pol, append(path, st), out)
	}
	for i := range sn.Arr {
		var cb *model.Node
		idx := i
		if bn != nil && len(bn.A) > 0 {
			switch pol {
			case model.Replace, model.ReplaceArr:
				return // B's list alone
			case model.Prepend:
				idx = i + len(bn.A)
			case model.Append:
			default:
				if i < len(bn.A) {
					cb = bn.A[i]
				}
			}
		}
		expectShapes(sn.Arr[i], descend(dv, pstep{"", i}), cb, pol, append(path, pstep{"", idx}), out)
	}
}

// shapesBefore lists the empty containers of cfg that a merge of b under pol must leave as they are.
func shapesBefore(cfg *ucfg.Config, b *gen.Tree, pol model.Policy) ([]expect, error) {
	dv, err := uc.Dump(cfg)
	if err != nil {
		return nil, fmt.Errorf("unpacking the destination before the merge failed: %v", err)
	}
	var out []expect
	expectShapes(ucfg.VerifSnapshot(cfg), dv, model.FromTree(b), pol, nil, &out)
	return out, nil
}

func checkShapes(cfg *ucfg.Config, got interface{}, exp []expect) error {
	if len(exp) == 0 {
		return nil
	}
	sn := ucfg.VerifSnapshot(cfg)
	for _, e := range exp {
		if sh := shapeAt(sn, got, e.path); sh != e.shape {
			return fmt.Errorf("the destination held an empty container %s which the source meets with %s; after the merge there is %s at %q, the empty container of A must still be there",
				e.shape, map[string]string{"absent": "nothing", "nil": "a nil", "empty": "an empty container"}[e.with], sh, showPath(e.path))
		}
	}
	return nil
}

// shadow draws a source that follows the shape of a: it meets the containers of a - the empty ones in particular -
// with nil, with empty containers of both kinds, with nothing, or with a container that goes on below.
func shadow(t *rapid.T, a *gen.Tree, cfg *gen.TreeCfg, top bool) *gen.Tree {
	hollow := func() *gen.Tree {
		switch rapid.IntRange(0, 3).Draw(t, "hollow") {
		case 0:
			n := gen.Nil()
			if cfg.Reprs {
				n.R = rapid.IntRange(0, 7).Draw(t, "nilrepr")
			}
			return n
		case 1:
			o := gen.Obj()
			if cfg.Reprs {
				o.R = rapid.IntRange(0, 2*gen.NRepr-1).Draw(t, "repr")
			}
			return o
		case 2:
			l := gen.List()
			if cfg.Reprs {
				l.R = rapid.IntRange(0, gen.NRepr-1).Draw(t, "repr")
			}
			return l
		}
		return gen.GenTree(t, cfg, 1)
	}
	switch {
	case a.K == "obj" && len(a.Vals) > 0:
		o := gen.Obj()
		for i, k := range a.Keys {
			if rapid.IntRange(0, 3).Draw(t, "drop") == 0 {
				continue
			}
			o.Put(k, shadow(t, a.Vals[i], cfg, false))
		}
		if rapid.IntRange(0, 2).Draw(t, "extra") == 0 {
			if k := rapid.SampledFrom(cfg.Keys).Draw(t, "key"); o.Get(k) == nil {
				o.Put(k, gen.GenTree(t, cfg, 1))
			}
		}
		if cfg.Reprs {
			o.R = rapid.IntRange(0, 2*gen.NRepr-1).Draw(t, "repr")
		}
		return o
	case a.K == "list" && len(a.Vals) > 0:
		l := gen.List()
		n := len(a.Vals)
		if rapid.IntRange(0, 3).Draw(t, "cut") == 0 {
			n = rapid.IntRange(0, n).Draw(t, "len")
		}
		for i := 0; i < n; i++ {
			l.Vals = append(l.Vals, shadow(t, a.Vals[i], cfg, false))
		}
		return l
	case top:
		if a.K == "list" {
			return gen.List()
		}
		return gen.Obj()
	case a.IsCont() || a.K == "nil":
		return hollow()
	}
	if rapid.IntRange(0, 1).Draw(t, "keep") == 0 {
		return a.Clone()
	}
	return hollow()
}
