package c05

import (
	"sort"
	"strconv"
	"strings"

	"verif/harness/internal/canon"
)

// splitShow renders generic data canonically for comparisons in which
// integer-literal keys address the list part of their node (numeric keys not
// enabled): every container becomes <named part | list part>, the library's
// two shapes of such a node (a map with numeric keys, a list) are equal, and
// nil = absent = empty container holds after the split as well (a node whose
// members are all nil is nil; trailing nils of a list part are not observable
// once the node is reified as a map and are dropped). Leaves are rendered by
// canon (numbers by value), so two values are canonically equal iff their
// renderings are equal.
func splitShow(v interface{}) string { return OptSet{}.show(v) }

func splitEqual(a, b interface{}) bool { return splitShow(a) == splitShow(b) }

// show is splitShow under the key classification of the option set: which
// keys of a map address the list part depends on MaxIdx, and with numeric
// keys enabled none does.
func (o OptSet) show(v interface{}) string {
	var b strings.Builder
	splitRender(&b, splitNorm(canon.Of(v), o.resultIdx))
	return b.String()
}

func (o OptSet) equal(a, b interface{}) bool { return o.show(a) == o.show(b) }

type splitNode struct {
	named map[string]interface{}
	list  []interface{}
}

func splitNorm(v interface{}, index func(string) (int, bool)) interface{} {
	n := &splitNode{named: map[string]interface{}{}}
	switch x := v.(type) {
	case map[string]interface{}:
		idx := map[int]interface{}{}
		max := -1
		for k, e := range x {
			ne := splitNorm(e, index)
			if i, ok := index(k); ok {
				if old, dup := idx[i]; dup && old != nil {
					// two spellings of one index in one map ("1", "01"): keep both visible
					n.named[k] = ne
					continue
				}
				idx[i] = ne
				if i > max {
					max = i
				}
				continue
			}
			if ne != nil {
				n.named[k] = ne
			}
		}
		for i := 0; i <= max; i++ {
			n.list = append(n.list, idx[i])
		}
	case []interface{}:
		for _, e := range x {
			n.list = append(n.list, splitNorm(e, index))
		}
	default:
		return v
	}
	for len(n.list) > 0 && n.list[len(n.list)-1] == nil {
		n.list = n.list[:len(n.list)-1]
	}
	if len(n.named) == 0 && len(n.list) == 0 {
		return nil
	}
	return n
}

func splitRender(b *strings.Builder, v interface{}) {
	n, ok := v.(*splitNode)
	if !ok {
		b.WriteString(canon.String(v))
		return
	}
	b.WriteString("<")
	keys := make([]string, 0, len(n.named))
	for k := range n.named {
		keys = append(keys, k)
	}
	sort.Strings(keys)
	for i, k := range keys {
		if i > 0 {
			b.WriteString(", ")
		}
		b.WriteString(strconv.Quote(k) + ": ")
		splitRender(b, n.named[k])
	}
	b.WriteString("|")
	for i, e := range n.list {
		if i > 0 {
			b.WriteString(", ")
		}
		splitRender(b, e)
	}
	b.WriteString(">")
}
