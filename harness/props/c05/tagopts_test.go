package c05

import (
	"reflect"
	"strconv"
	"strings"

	"pgregory.net/rapid"

	"verif/harness/internal/gen"
)

// ---------------------------------------------------------------------------
// Option lists of struct tags
//
// A struct tag is a name followed by any number of comma-separated options:
// the options that shape the data (inline / squash: the keys of the member
// belong to the enclosing object; ignore: the field is no setting) and the
// options that select how a *Config field is merged when a config is unpacked
// into the struct (merge, replace, append, prepend; CHANGELOG 0.6.0 "*Config merging options"; ignore: CHANGELOG 0.4.6), which
// say nothing about the data the struct holds. Every option of the list
// counts, wherever it stands; words that are no option of the library (such
// as the "omitempty" of other packages, or nothing at all between two commas)
// are passed over, as parseTags does for every tag of the upstream suite.
//
// Bits 48-52 of the R field of an object that is written as a struct:
//
//	bits 48-51  the tag option seed. 0: every tag carries its name and at most the one
//	            option that shapes the field. Otherwise every tag of the struct (fields,
//	            inline members, the member of a nested inline struct, the ignored field;
//	            under every tag name) gets the option words of one of tagExtras written
//	            before and after that option: which one follows from the seed and the
//	            position of the field, so that one struct mixes several
//	bit  52     the struct has one more exported field with the option ignore (named
//	            like the first field or unnamed, holding a string or a map), at the
//	            front or at the end; an inline struct member has one at its end as well
//
// (the bits stay below 2^53: a case is JSON)

const (
	tagOptShift = 48
	ignoredBit  = 1 << 52
)

// again stands for the shaping option once more, in its other spelling if it has one.
const again = "="

type tagExtra struct{ before, after []string }

// (rapid prefers small seeds: the plain two-option lists come first)
var tagExtras = []tagExtra{
	{nil, []string{"replace"}},                            // a,replace            ,inline,replace
	{[]string{"merge"}, nil},                              // a,merge              ,merge,inline
	{nil, nil},                                            // as without seed
	{[]string{"append"}, []string{"prepend"}},             // a,append,prepend     ,append,inline,prepend
	{nil, []string{"omitempty"}},                          // a,omitempty          ,inline,omitempty
	{[]string{""}, nil},                                   // a,                   ,,inline
	{[]string{"prepend", "merge"}, nil},                   // a,prepend,merge      ,prepend,merge,inline
	{nil, []string{again}},                                // a                    ,inline,squash   x,ignore,ignore
	{nil, []string{"", "append"}},                         // a,,append            ,inline,,append
	{[]string{"omitempty", "replace"}, []string{"merge"}}, // four words
	{[]string{again}, []string{"replace"}},                // a,replace            ,squash,inline,replace
	{nil, []string{""}},                                   // a,                   ,inline,
	{[]string{"merge"}, []string{"x", ""}},                // a,merge,x,           ,merge,inline,x,
}

func tagSeed(r int) int { return (r >> tagOptShift) & 15 }

// slots of the tags of one struct (fields use their index)
const (
	slotMember  = 5
	slotIgnored = 9
	slotNested  = 11
)

func extrasOf(r, slot int) tagExtra {
	seed := tagSeed(r)
	if seed == 0 {
		return tagExtra{}
	}
	return tagExtras[(seed-1+slot*(1+seed>>2))%len(tagExtras)]
}

func (e tagExtra) plain() bool { return len(e.before)+len(e.after) == 0 }

// decorate writes the option words of the slot around the option the tag text
// has (if any). The name and the meaning of the tag stay what they are.
func (b *builder) decorate(text string, r, slot int) string {
	return decorateText(text, r, slot, b.use)
}

// rel is the distance of tag j from the primary tag: the tags the options of
// the case select read the same whichever of the four names is the primary one.
func (b *builder) rel(j int) int { return (j - b.primary + len(tagNames)) % len(tagNames) }

func decorateText(text string, r, slot int, use func(string)) string {
	useIf := func(c bool, l string) {
		if c {
			use(l)
		}
	}
	ex := extrasOf(r, slot)
	if ex.plain() {
		return text
	}
	name, shape, shaped := text, "", false
	if i := strings.IndexByte(text, ','); i >= 0 {
		name, shape, shaped = text[:i], text[i+1:], true
	}
	var words []string
	unknown := false
	add := func(l []string) {
		for _, w := range l {
			switch w {
			case again:
				w = map[string]string{"inline": "squash", "squash": "inline", "ignore": "ignore"}[shape]
				if w == "" {
					continue
				}
				use("tag: the shaping option twice (inline next to squash, ignore twice)")
			case "", "omitempty", "x":
				unknown = true
			}
			words = append(words, w)
		}
	}
	add(ex.before)
	at := len(words)
	if shaped {
		words = append(words, shape)
	}
	add(ex.after)
	if len(words) == 0 || (shaped && len(words) == 1) {
		return text
	}
	known := shape == "inline" || shape == "squash" || shape == "ignore"
	useIf(len(words) >= 2, "tag: >=2 options in one tag")
	useIf(len(words) >= 3, "tag: >=3 options in one tag")
	useIf(known && len(words) >= 2, "tag: inline/squash/ignore next to other options")
	useIf(known && at > 0, "tag: inline/squash/ignore is not the first option")
	useIf(known && at < len(words)-1, "tag: inline/squash/ignore is not the last option")
	useIf(!shaped, "tag: named field with merge-handling options (merge/replace/append/prepend)")
	useIf(unknown, "tag: a word that is no option (omitempty, x, empty) among the options")
	return name + "," + strings.Join(words, ",")
}

// ignoredField is an exported field with the option ignore under every tag
// that is written: whatever it is named and whatever it holds, it is no part
// of the data.
func (b *builder) ignoredField(t *gen.Tree) (reflect.StructField, reflect.Value) {
	seed := tagSeed(t.R)
	name := t.Keys[0]
	if seed%2 == 1 {
		name = ""
	}
	var p []string
	for j, tag := range tagNames {
		if j == b.primary || b.allTags {
			p = append(p, tag+":"+strconv.Quote(b.decorate(name+",ignore", t.R, slotIgnored+b.rel(j))))
		}
	}
	var val interface{} = "not a setting"
	ft := reflect.TypeOf("")
	if (seed>>1)%2 == 1 {
		val = map[string]interface{}{t.Keys[0]: "not a setting", "ig": int64(1)}
		ft = tIface
	}
	b.use("struct: exported field with the option ignore (holds a value that is no part of the data)")
	b.useIf(name == "", "struct: ignored field without a name")
	return reflect.StructField{
		Name: memberPrefix[nameStyle(t.R)] + "g",
		Type: ft,
		Tag:  reflect.StructTag(strings.Join(p, " ")),
	}, reflect.ValueOf(val)
}

func hasIgnored(t *gen.Tree) bool { return t.R&ignoredBit != 0 }

// ignoredFront: the ignored field is the first field of the struct (else the last).
func ignoredFront(t *gen.Tree) bool { return (tagSeed(t.R)>>2)%2 == 1 }

// drawTagOpts draws bits 48-52 of a container representation.
func drawTagOpts(t *rapid.T) int {
	r := 0
	if rapid.Bool().Draw(t, "tagopts") {
		r |= rapid.IntRange(1, 15).Draw(t, "tagseed") << tagOptShift
	}
	if rapid.IntRange(0, 3).Draw(t, "ignored") == 0 {
		r |= ignoredBit
	}
	return r
}

// wordKeys are keys that spell the options of a struct tag: as the NAME of a
// tag (or as a Go field name without tag) they are names like any other.
var wordKeys = []string{"inline", "ignore", "replace", "squash", "merge", "append", "prepend", "omitempty"}

// drawWord draws, every second time, one of wordKeys. (Next to the separator
// "," a tag of the prefix scheme would spell the word as an option.)
func drawWord(t *rapid.T, o OptSet) []string {
	if o.Sep == "," || rapid.Bool().Draw(t, "wordkey?") {
		return nil
	}
	k := rapid.SampledFrom(wordKeys).Draw(t, "wordkey")
	if o.Sep != "" && strings.Contains(k, o.Sep) {
		return nil
	}
	return []string{k}
}

func isWordKey(k string) bool {
	for _, w := range wordKeys {
		if k == w {
			return true
		}
	}
	return false
}

// showTags lists what the struct representation of t writes under the primary
// tag, field by field (for messages).
func showTags(t *gen.Tree) string {
	if tagSeed(t.R) == 0 && !hasIgnored(t) {
		return ""
	}
	nop := func(string) {}
	var p []string
	ig := ""
	if hasIgnored(t) {
		name := t.Keys[0]
		if tagSeed(t.R)%2 == 1 {
			name = ""
		}
		ig = "ignored field " + strconv.Quote(decorateText(name+",ignore", t.R, slotIgnored, nop))
		if ignoredFront(t) {
			p = append(p, ig)
		}
	}
	for run, s := range layoutOf(t) {
		if s.kind != segFields {
			word := "inline"
			if (run+t.R/8)%2 == 1 {
				word = "squash"
			}
			p = append(p, strconv.Quote(decorateText(","+word, t.R, slotMember+run, nop)))
			if s.kind == segNested {
				p = append(p, "in it "+strconv.Quote(decorateText(",squash", t.R, slotNested, nop)))
			}
			if s.kind != segStruct && s.kind != segPtrStruct && s.kind != segNested {
				continue
			}
		}
		for i := s.from; i < s.to; i++ {
			switch {
			case !tagless(t, i):
				p = append(p, strconv.Quote(decorateText(t.Keys[i], t.R, i, nop)))
			case extrasOf(t.R, i).plain():
				p = append(p, "-")
			default:
				p = append(p, strconv.Quote(decorateText("", t.R, i, nop)))
			}
		}
		if s.kind != segFields && hasIgnored(t) {
			p = append(p, ig)
		}
	}
	if hasIgnored(t) && !ignoredFront(t) {
		p = append(p, ig)
	}
	return "tags " + strings.Join(p, " ")
}
