package c05

import (
	"fmt"
	"math"
	"reflect"
	"regexp"
	"strconv"

	ucfg "github.com/elastic/go-ucfg"

	"verif/harness/internal/gen"
)

// The builder materialises a gen.Tree as Go values. It extends gen.Tree.GoRepr
// (same meaning of R%8 and (R/8)%2 for containers) by
//
//	containers: (R/16)%4 = 2, 3    one / two extra pointer levels around the value
//	            typed maps, slices and arrays whenever the built children share one Go type
//	            (map[string]map[string]interface{}, []*T, [N][]interface{} ...)
//	            struct tags for every key that can be written in a tag (dotted keys, digits, blanks)
//	            interface-keyed maps whose keys are values of a named string type
//	primitives: R%4 = 2            a narrower Go kind holding the same value (int8, uint16, int, float32 ...)
//	            R%4 = 3            a named type of the same kind
//	            (R/16)%4 = 2, 3    one / two pointer levels
//	nil:        R%4 = 0 untyped nil, 1 nil *int, 2 nil map, 3 nil slice (2 and 3 only if nilConts)
type builder struct {
	opts     []ucfg.Option
	used     map[string]int
	nilConts bool // nil nodes may be spelled as nil map / nil slice (an empty container, not a nil value)
}

type (
	nStr      string
	nBool     bool
	nInt      int64
	nUint     uint64
	nFloat    float64
	nMap      map[string]interface{}
	nSlice    []interface{}
	nIfaceMap map[interface{}]interface{}
)

var (
	tIface  = reflect.TypeOf((*interface{})(nil)).Elem()
	tagSafe = regexp.MustCompile(`^[\pL\pN_. -]+$`)
)

func ptrTo(v interface{}, depth int) interface{} {
	for i := 0; i < depth && v != nil; i++ {
		p := reflect.New(reflect.TypeOf(v))
		p.Elem().Set(reflect.ValueOf(v))
		v = p.Interface()
	}
	return v
}

func ptrDepth(r int) int {
	switch (r / 16) % 4 {
	case 2:
		return 1
	case 3:
		return 2
	}
	return 0
}

func (b *builder) use(label string) { b.used[label]++ }

func (b *builder) prim(t *gen.Tree) interface{} {
	if t.K == "nil" {
		switch t.R % 4 {
		case 1:
			b.use("nil *int")
			return (*int)(nil)
		case 2:
			if b.nilConts {
				b.use("nil map")
				return map[string]interface{}(nil)
			}
		case 3:
			if b.nilConts {
				b.use("nil slice")
				return []interface{}(nil)
			}
		}
		return nil
	}
	v := t.Prim()
	switch t.R % 4 {
	case 2:
		sel := (t.R / 4) % 4
		switch t.K {
		case "uint":
			switch {
			case t.U <= 127:
				b.use("narrow int")
				return []interface{}{int8(t.U), uint16(t.U), int(t.U), int32(t.U)}[sel]
			case t.U <= math.MaxInt64:
				b.use("narrow int")
				return int64(t.U)
			}
		case "int":
			switch {
			case t.I >= -128:
				b.use("narrow int")
				return []interface{}{int8(t.I), int16(t.I), int(t.I), int32(t.I)}[sel]
			case t.I >= math.MinInt32:
				b.use("narrow int")
				return int32(t.I)
			}
		case "float":
			f := t.FloatVal()
			if f32 := float32(f); float64(f32) == f {
				b.use("float32")
				v = f32
			}
		}
	case 3:
		b.use("named primitive")
		switch t.K {
		case "uint":
			v = nUint(t.U)
		case "int":
			v = nInt(t.I)
		case "float":
			v = nFloat(t.FloatVal())
		case "str":
			v = nStr(t.S)
		case "bool":
			v = nBool(t.B)
		}
	}
	if d := ptrDepth(t.R); d > 0 {
		b.use("pointer to primitive")
		v = ptrTo(v, d)
	}
	return v
}

// commonType returns the Go type shared by all values, if there is one.
func commonType(vals []interface{}) (reflect.Type, bool) {
	if len(vals) == 0 || vals[0] == nil {
		return nil, false
	}
	ty := reflect.TypeOf(vals[0])
	for _, v := range vals {
		if v == nil || reflect.TypeOf(v) != ty {
			return nil, false
		}
	}
	return ty, true
}

func (b *builder) children(t *gen.Tree) ([]interface{}, error) {
	vals := make([]interface{}, len(t.Vals))
	for i, c := range t.Vals {
		v, err := b.build(c)
		if err != nil {
			return nil, err
		}
		vals[i] = v
	}
	return vals, nil
}

func (b *builder) build(t *gen.Tree) (interface{}, error) {
	var out interface{}
	switch t.K {
	case "obj":
		if t.R%8 == 3 {
			c, err := ucfg.NewFrom(t.Go(), b.opts...)
			if err != nil {
				return nil, err
			}
			b.use("*Config")
			out = c
			break
		}
		vals, err := b.children(t)
		if err != nil {
			return nil, err
		}
		generic := func() map[string]interface{} {
			m := make(map[string]interface{}, len(t.Keys))
			for i, k := range t.Keys {
				m[k] = vals[i]
			}
			return m
		}
		switch t.R % 8 {
		case 1:
			if (t.R/8)%2 == 1 {
				m := make(nIfaceMap, len(t.Keys))
				for i, k := range t.Keys {
					m[nStr(k)] = vals[i]
				}
				b.use("map[interface{}] with named-string keys")
				out = m
			} else {
				m := make(map[interface{}]interface{}, len(t.Keys))
				for i, k := range t.Keys {
					m[k] = vals[i]
				}
				b.use("map[interface{}]")
				out = m
			}
		case 2, 7:
			ok := len(t.Keys) > 0
			for _, k := range t.Keys {
				if !tagSafe.MatchString(k) {
					ok = false
				}
			}
			if !ok {
				break
			}
			fields := make([]reflect.StructField, len(t.Keys))
			for i, k := range t.Keys {
				ft := tIface
				if vals[i] != nil && (t.R/8)%2 == 1 {
					ft = reflect.TypeOf(vals[i])
				}
				fields[i] = reflect.StructField{Name: fmt.Sprintf("F%d", i), Type: ft, Tag: reflect.StructTag("config:" + strconv.Quote(k))}
			}
			sv := reflect.New(reflect.StructOf(fields)).Elem()
			for i, v := range vals {
				if v != nil {
					sv.Field(i).Set(reflect.ValueOf(v))
				}
			}
			if t.R%8 == 7 {
				p := reflect.New(sv.Type())
				p.Elem().Set(sv)
				b.use("*struct")
				out = p.Interface()
			} else {
				b.use("struct")
				out = sv.Interface()
			}
		case 4:
			m := generic()
			b.use("*map")
			out = &m
		case 5:
			b.use("named map")
			out = nMap(generic())
		case 6:
			if ty, ok := commonType(vals); ok {
				m := reflect.MakeMapWithSize(reflect.MapOf(reflect.TypeOf(""), ty), len(vals))
				for i, k := range t.Keys {
					m.SetMapIndex(reflect.ValueOf(k), reflect.ValueOf(vals[i]))
				}
				if ty.Kind() == reflect.Map || ty.Kind() == reflect.Slice || ty.Kind() == reflect.Ptr || ty.Kind() == reflect.Struct || ty.Kind() == reflect.Array {
					b.use("map[string]<container type>")
				} else {
					b.use("map[string]T")
				}
				out = m.Interface()
			}
		}
		if out == nil {
			b.use("map[string]interface{}")
			out = generic()
		}
	case "list":
		if t.R%8 == 3 {
			c, err := ucfg.NewFrom(t.Go(), b.opts...)
			if err != nil {
				return nil, err
			}
			b.use("*Config(list)")
			out = c
			break
		}
		vals, err := b.children(t)
		if err != nil {
			return nil, err
		}
		switch t.R % 8 {
		case 1, 6, 7:
			ty, ok := commonType(vals)
			if !ok {
				break
			}
			s := reflect.MakeSlice(reflect.SliceOf(ty), len(vals), len(vals))
			for i, v := range vals {
				s.Index(i).Set(reflect.ValueOf(v))
			}
			cont := ty.Kind() == reflect.Map || ty.Kind() == reflect.Slice || ty.Kind() == reflect.Ptr || ty.Kind() == reflect.Struct || ty.Kind() == reflect.Array
			if t.R%8 == 6 {
				a := reflect.New(reflect.ArrayOf(len(vals), ty)).Elem()
				reflect.Copy(a, s)
				if cont {
					b.use("[N]<container type>")
				} else {
					b.use("[N]T")
				}
				out = a.Interface()
			} else {
				if cont {
					b.use("[]<container type>")
				} else {
					b.use("[]T")
				}
				out = s.Interface()
			}
		case 2:
			a := reflect.New(reflect.ArrayOf(len(vals), tIface)).Elem()
			for i, e := range vals {
				if e != nil {
					a.Index(i).Set(reflect.ValueOf(e))
				}
			}
			b.use("[N]interface{}")
			out = a.Interface()
		case 4:
			b.use("*[]interface{}")
			out = &vals
		case 5:
			b.use("named slice")
			out = nSlice(vals)
		}
		if out == nil {
			b.use("[]interface{}")
			out = vals
		}
	default:
		return b.prim(t), nil
	}
	if d := ptrDepth(t.R); d > 0 {
		b.use(fmt.Sprintf("%d extra pointer level(s)", d))
		out = ptrTo(out, d)
	}
	return out, nil
}

// preorder lists the nodes of t in pre-order.
func preorder(t *gen.Tree, out *[]*gen.Tree) {
	*out = append(*out, t)
	for _, v := range t.Vals {
		preorder(v, out)
	}
}

// withReprs returns a copy of t whose representation choices are taken from
// rs (cyclically, in pre-order). An empty rs selects the generic form.
func withReprs(t *gen.Tree, rs []int) *gen.Tree {
	c := t.Clone()
	var nodes []*gen.Tree
	preorder(c, &nodes)
	for i, n := range nodes {
		n.R = 0
		if len(rs) > 0 {
			if r := rs[i%len(rs)]; r > 0 {
				n.R = r
			}
		}
	}
	return c
}
