package c05

import (
	"fmt"
	"reflect"
	"strconv"
	"strings"
	"unicode/utf8"

	ucfg "github.com/elastic/go-ucfg"

	"verif/harness/internal/gen"
)

// The builder materialises a gen.Tree as Go values. It extends gen.Tree.GoRepr
// (same meaning of R%8 and (R/8)%2 for containers) by
//
//	containers: (R/16)%4 = 2, 3    one / two extra pointer levels around the value
//	            typed maps, slices and arrays whenever the built children share one Go type
//	            (map[string]map[string]interface{}, []*T, [N][]interface{} ...)
//	            struct tags for every key that can be written in a tag (anything but the empty key and keys with a comma)
//	            interface-keyed maps whose keys are values of a named string type
//	primitives: R%4 = 2            a narrower Go kind holding the same value (int8, uint16, int, float32 ...)
//	            R%4 = 3            a named type of the same kind
//	            (R/16)%4 = 2, 3    one / two pointer levels
//	nil:        R%4 = 0 untyped nil, 1 nil *int, 2 nil map, 3 nil slice (2 and 3 only if nilConts)
//
// and by the sized / named kinds of primitives, further typed nils and the
// pointer/interface chains described in prims_test.go (bits 6-9 and 19-39 of R).
//
// Struct representations (R%8 = 2, 7; forced for an object that holds a key
// twice) carry a layout in R>>6, see layoutOf: the keys of the object, in
// their order, are cut into up to three runs, each of which is either a run
// of tagged fields or one inline member (maps of several types, structs,
// pointers, an interface{}-typed field, a struct nested in an inline struct).
// Every field is tagged under the tag the options of the case select
// (primary), which names the keys of the tree, and under one other of tagNames
// (all others if allTags), which carry names made by altTag. A field whose key is one lower-case letter may have no
// primary tag and the upper-cased key as its Go name instead (goFieldName).
type builder struct {
	opts     []ucfg.Option
	used     map[string]int
	nilConts bool // nil nodes may be spelled as nil map / nil slice (an empty container, not a nil value)
	primary  int  // index into tagNames of the tag that carries the keys of the tree
	scheme   int  // how the other tags name the fields (altTag)
	sep      string
	noConfig bool // no embedded *Config (it is normalised when it is built, under the options of that moment)
	allTags  bool // every field carries all four tags (the value is read under several of them); otherwise the primary one and one other, which keeps the type names short (reflect never frees a type)
}

type (
	nStr      string
	nBool     bool
	nInt      int64
	nUint     uint64
	nFloat    float64
	nMap      map[string]interface{}
	nSlice    []interface{}
	nIfaceMap map[interface{}]interface{}
)

var (
	tIface    = reflect.TypeOf((*interface{})(nil)).Elem()
	tPtrIface = reflect.TypeOf((*interface{})(nil))
)

// structable reports whether every key of the object can be written in a
// struct tag: not empty (an empty name selects the lower-cased field name)
// and free of commas (which separate the name from the tag options).
func structable(t *gen.Tree) bool {
	if len(t.Keys) == 0 {
		return false
	}
	for _, k := range t.Keys {
		if k == "" || strings.Contains(k, ",") || !utf8.ValidString(k) {
			return false
		}
	}
	return true
}

func sameKeyTwice(t *gen.Tree) bool {
	for i, k := range t.Keys {
		for _, k2 := range t.Keys[:i] {
			if k == k2 {
				return true
			}
		}
	}
	return false
}

func sameKeyTwiceBelow(t *gen.Tree) bool {
	if t.K == "obj" && sameKeyTwice(t) {
		return true
	}
	for _, v := range t.Vals {
		if sameKeyTwiceBelow(v) {
			return true
		}
	}
	return false
}

// asStruct reports whether the builder writes the object as a struct.
func asStruct(t *gen.Tree) bool {
	if t.K != "obj" || !structable(t) || keysTwiceAsMap(t) {
		return false
	}
	return t.R%8 == 2 || t.R%8 == 7 || sameKeyTwice(t)
}

// seg is a run of keys of a struct representation: tagged fields (kind 0) or
// one inline member.
type seg struct{ from, to, kind int }

const (
	segFields     = iota
	segMap        // map[string]interface{}
	segStruct     // struct
	segPtrStruct  // *struct
	segIfaceMap   // map[interface{}]interface{}
	segTypedMap   // map[string]T if the values share a type
	segNested     // struct with an inline struct inside
	segIfaceField // interface{}-typed field holding a map
)

var segNames = [...]string{"fields", "inline map", "inline struct", "inline *struct", "inline map[interface{}]", "inline typed map", "inline struct in inline struct", "inline interface{} field holding a map"}

// layoutOf decodes the layout bits R>>6 = k0 | k1<<3 | k2<<6 | cut1<<9 |
// cut2<<11: runs [0,cut1) [cut1,cut1+cut2) [cut1+cut2,n) of kinds k0, k1, k2.
// Empty runs of fields are dropped, empty inline members are kept. A map can
// not hold a key twice: such a run becomes an inline struct.
func layoutOf(t *gen.Tree) []seg {
	n := len(t.Keys)
	l := (t.R >> 6) & 0x1fff
	if l <= 0 {
		return []seg{{0, n, segFields}}
	}
	p1 := (l >> 9) & 3
	p2 := p1 + (l>>11)&3
	if p1 > n {
		p1 = n
	}
	if p2 > n {
		p2 = n
	}
	var out []seg
	for i, s := range []seg{{0, p1, l & 7}, {p1, p2, (l >> 3) & 7}, {p2, n, (l >> 6) & 7}} {
		if s.from == s.to && (s.kind == segFields || i == 1) {
			continue
		}
		switch s.kind {
		case segMap, segTypedMap, segIfaceField:
			if sameKeyTwice(&gen.Tree{Keys: t.Keys[s.from:s.to]}) {
				s.kind = segStruct
			}
		case segIfaceMap:
			// (an interface-keyed map holds a key twice under keys of different dynamic types)
			if multiplicity(t.Keys[s.from:s.to]) > nKeyTypes {
				s.kind = segStruct
			}
		}
		out = append(out, s)
	}
	return out
}

func showLayout(t *gen.Tree) string {
	var p []string
	for _, s := range layoutOf(t) {
		p = append(p, fmt.Sprintf("%s %d:%d", segNames[s.kind], s.from, s.to))
	}
	return strings.Join(p, " | ")
}

// nSchemes is the number of naming schemes of the tags other than the primary one.
const nSchemes = 6

// altTag is the tag text of field i (key keys[i]) under tag j, which is not
// the primary tag. The scheme rotates with j, so that one struct type carries
// several schemes.
//
//	0 suffix        key + "_" + tag name
//	1 rotate        the key of the next field
//	2 ignore-first  field 0 has the option ignore, the others get a suffix
//	3 unnamed-first field 0 has no name (the lower-cased Go field name applies), the others keep their keys
//	4 flip          keys kept; inline members are named m<run> instead of being inlined
//	5 prefix        "p" + separator of the case + key
func altTag(scheme, j, i int, keys []string, sep string) string {
	switch (scheme + j) % nSchemes {
	case 1:
		return keys[(i+1)%len(keys)]
	case 2:
		if i == 0 {
			return "x,ignore"
		}
	case 3:
		if i == 0 {
			return ""
		}
		return keys[i]
	case 4:
		return keys[i]
	case 5:
		return "p" + sep + keys[i]
	}
	return keys[i] + "_" + tagNames[j]
}

// goFieldName is the Go name of the field for key i. A key that is one
// lower-case letter and occurs once in its object can do without a tag: the
// name of a field without tag is its lower-cased Go name (every second such
// field is written that way, under the primary tag only).
func goFieldName(t *gen.Tree, i int) string {
	if tagless(t, i) {
		name, _ := taglessName(t.Keys[i])
		return name
	}
	return fmt.Sprintf("%s%d", fieldPrefix[nameStyle(t.R)], i)
}

func (b *builder) fieldTag(t *gen.Tree, i int) reflect.StructTag {
	keys := t.Keys
	var p []string
	for j, name := range tagNames {
		text := keys[i]
		if j != b.primary {
			if !b.allTags && j != (b.primary+1+i%3)%4 {
				continue
			}
			text = altTag(b.scheme, j, i, keys, b.sep)
		} else if tagless(t, i) {
			b.use("struct field without tag")
			b.useIf(text[0] >= 0x80, "struct field without tag, Go name begins with a non-ASCII upper-case letter")
			b.useIf(isWordKey(text), "struct field without tag whose Go name spells an option word (Inline, Ignore ...)")
			if extrasOf(t.R, i).plain() {
				continue
			}
			// the name is left to the Go field name, the tag carries options only
			b.use("tag: options without a name (the lower-cased Go field name applies)")
			text = ""
		}
		b.useIf(j == b.primary && isWordKey(text), "tag: the name spells an option word (inline, ignore, replace ...)")
		p = append(p, name+":"+strconv.Quote(b.decorate(text, t.R, i+b.rel(j))))
	}
	return reflect.StructTag(strings.Join(p, " "))
}

func (b *builder) inlineTag(r, run int, word string) reflect.StructTag {
	var p []string
	for j, name := range tagNames {
		text := "," + word
		if j != b.primary {
			if !b.allTags {
				continue
			}
			if (b.scheme+j)%nSchemes == 4 {
				text = fmt.Sprintf("m%d", run)
			}
		}
		p = append(p, name+":"+strconv.Quote(b.decorate(text, r, slotMember+run+b.rel(j))))
	}
	return reflect.StructTag(strings.Join(p, " "))
}

// alwaysInline inlines a field under every tag name that is read.
func (b *builder) alwaysInline(r int) reflect.StructTag {
	var p []string
	for j, name := range tagNames {
		if j == b.primary || b.allTags {
			p = append(p, name+":"+strconv.Quote(b.decorate(",squash", r, slotNested+b.rel(j))))
		}
	}
	return reflect.StructTag(strings.Join(p, " "))
}

// viewUnder returns the tree as it reads under tag j: the objects the builder
// writes as structs have their keys replaced by what tag j says. The result
// is input to the model only.
func viewUnder(t *gen.Tree, primary, j, scheme int, sep string) *gen.Tree {
	if j == primary || !t.IsCont() {
		return t
	}
	out := &gen.Tree{K: t.K, R: t.R}
	vals := make([]*gen.Tree, len(t.Vals))
	for i, v := range t.Vals {
		vals[i] = viewUnder(v, primary, j, scheme, sep)
	}
	if !asStruct(t) {
		out.Keys, out.Vals = t.Keys, vals
		return out
	}
	add := func(to *gen.Tree, i int) {
		text := altTag(scheme, j, i, t.Keys, sep)
		name := strings.Split(text, ",")[0]
		if strings.HasSuffix(text, ",ignore") {
			return
		}
		if name == "" {
			name = strings.ToLower(goFieldName(t, i))
		}
		to.Keys, to.Vals = append(to.Keys, name), append(to.Vals, vals[i])
	}
	for run, s := range layoutOf(t) {
		to := out
		if s.kind != segFields && (scheme+j)%nSchemes == 4 {
			to = gen.Obj()
			out.Keys, out.Vals = append(out.Keys, fmt.Sprintf("m%d", run)), append(out.Vals, to)
		}
		for i := s.from; i < s.to; i++ {
			switch s.kind {
			case segFields, segStruct, segPtrStruct, segNested:
				add(to, i)
			default:
				// maps have no tags
				to.Keys, to.Vals = append(to.Keys, t.Keys[i]), append(to.Vals, vals[i])
			}
		}
	}
	return out
}

func ptrTo(v interface{}, depth int) interface{} {
	for i := 0; i < depth && v != nil; i++ {
		p := reflect.New(reflect.TypeOf(v))
		p.Elem().Set(reflect.ValueOf(v))
		v = p.Interface()
	}
	return v
}

func ptrDepth(r int) int {
	switch (r / 16) % 4 {
	case 2:
		return 1
	case 3:
		return 2
	}
	return 0
}

func (b *builder) use(label string) { b.used[label]++ }

func (b *builder) prim(t *gen.Tree) interface{} { return b.primAs(t, t.R, []*gen.Tree{t}) }

// primAs builds a primitive or nil node under the representation bits r (its
// own, or those of its first sibling in a typed container, see children).
func (b *builder) primAs(t *gen.Tree, r int, group []*gen.Tree) interface{} {
	if t.K == "nil" {
		return b.chain(b.nilValue(r), r, "a nil")
	}
	v := b.primValue(t, r, group)
	if d := ptrDepth(r); d > 0 {
		b.use("pointer to primitive")
		v = ptrTo(v, d)
	}
	return b.chain(v, r, "a primitive")
}

// nCfg is a rebranded Config ("type MyConfig ucfg.Config", CHANGELOG 0.1.0).
type nCfg ucfg.Config

// rebrand passes every second embedded config as a pointer to the rebranded type.
func (b *builder) rebrand(t *gen.Tree, c *ucfg.Config) interface{} {
	if (t.R/8)%2 == 1 {
		b.use("*Config rebranded (type T ucfg.Config)")
		return (*nCfg)(c)
	}
	return c
}

// commonType returns the Go type shared by all values, if there is one.
func commonType(vals []interface{}) (reflect.Type, bool) {
	if len(vals) == 0 || vals[0] == nil {
		return nil, false
	}
	ty := reflect.TypeOf(vals[0])
	for _, v := range vals {
		if v == nil || reflect.TypeOf(v) != ty {
			return nil, false
		}
	}
	return ty, true
}

// typedCont reports whether the container is written as a typed map, slice
// or array if its children share a Go type.
func typedCont(t *gen.Tree) bool {
	switch t.K {
	case "obj":
		return t.R%8 == 6 && !asStruct(t)
	case "list":
		return t.R%8 == 1 || t.R%8 == 6 || t.R%8 == 7
	}
	return false
}

// elemType is the element type of a typed container: the type the children
// share, or *interface{} with every child boxed if they share none and the
// container asks for it (boxBit).
func (b *builder) elemType(t *gen.Tree, vals []interface{}) (reflect.Type, []interface{}, bool) {
	if ty, ok := commonType(vals); ok {
		return ty, vals, true
	}
	if t.R&boxBit != 0 && len(vals) > 0 {
		vals = boxAll(vals)
		return reflect.TypeOf(vals[0]), vals, true
	}
	return nil, vals, false
}

func isContType(ty reflect.Type) bool {
	switch ty.Kind() {
	case reflect.Map, reflect.Slice, reflect.Struct, reflect.Array:
		return true
	case reflect.Ptr:
		return ty != tPtrIface
	}
	return false
}

func (b *builder) children(t *gen.Tree) ([]interface{}, error) {
	vals := make([]interface{}, len(t.Vals))
	// the primitives of a typed map, slice or array are built in one Go type:
	// the one the first of them selects among the kinds that hold them all
	uniform := typedCont(t) && len(t.Vals) > 1 && sameClassPrims(t.Vals)
	for i, c := range t.Vals {
		if uniform {
			vals[i] = b.primAs(c, t.Vals[0].R, t.Vals)
			continue
		}
		v, err := b.build(c)
		if err != nil {
			return nil, err
		}
		vals[i] = v
	}
	return vals, nil
}

func (b *builder) build(t *gen.Tree) (interface{}, error) {
	var out interface{}
	switch t.K {
	case "obj":
		if sameKeyTwice(t) && !structable(t) && !keysTwiceAsMap(t) {
			return nil, fmt.Errorf("an object holds a key twice but can not be written as a struct: %q", t.Keys)
		}
		if t.R%8 == 3 && !b.noConfig && !sameKeyTwiceBelow(t) {
			c, err := ucfg.NewFrom(t.Go(), b.opts...)
			if err != nil {
				return nil, err
			}
			b.use("*Config")
			out = b.rebrand(t, c)
			break
		}
		vals, err := b.children(t)
		if err != nil {
			return nil, err
		}
		if asStruct(t) {
			out = b.structOf(t, vals)
			break
		}
		generic := func() map[string]interface{} {
			m := make(map[string]interface{}, len(t.Keys))
			for i, k := range t.Keys {
				m[k] = vals[i]
			}
			return m
		}
		switch t.R % 8 {
		case 1:
			if (t.R/8)%2 == 1 {
				b.use("map[interface{}] with named-string keys")
			} else {
				b.use("map[interface{}]")
			}
			out = b.ifaceMap(t.Keys, vals, keySeed(t.R), (t.R/8)%2 == 1)
		case 4:
			m := generic()
			b.use("*map")
			out = &m
		case 5:
			if (t.R/8)%2 == 1 {
				m := make(map[nStr]interface{}, len(t.Keys))
				for i, k := range t.Keys {
					m[nStr(k)] = vals[i]
				}
				b.use("map[named string type]interface{}")
				out = m
				break
			}
			b.use("named map")
			out = nMap(generic())
		case 6:
			if ty, vals, ok := b.elemType(t, vals); ok {
				m := reflect.MakeMapWithSize(reflect.MapOf(reflect.TypeOf(""), ty), len(vals))
				for i, k := range t.Keys {
					m.SetMapIndex(reflect.ValueOf(k), reflect.ValueOf(vals[i]))
				}
				switch {
				case ty == tPtrIface:
					b.use("map[string]*interface{}")
				case isContType(ty):
					b.use("map[string]<container type>")
				default:
					b.use("map[string]T")
				}
				out = m.Interface()
			}
		}
		if out == nil {
			b.use("map[string]interface{}")
			out = generic()
		}
	case "list":
		if t.R%8 == 3 && !b.noConfig && !sameKeyTwiceBelow(t) {
			c, err := ucfg.NewFrom(t.Go(), b.opts...)
			if err != nil {
				return nil, err
			}
			b.use("*Config(list)")
			out = b.rebrand(t, c)
			break
		}
		vals, err := b.children(t)
		if err != nil {
			return nil, err
		}
		switch t.R % 8 {
		case 1, 6, 7:
			ty, vals, ok := b.elemType(t, vals)
			if !ok {
				break
			}
			s := reflect.MakeSlice(reflect.SliceOf(ty), len(vals), len(vals))
			for i, v := range vals {
				s.Index(i).Set(reflect.ValueOf(v))
			}
			elem := "T"
			switch {
			case ty == tPtrIface:
				elem = "*interface{}"
			case isContType(ty):
				elem = "<container type>"
			}
			if t.R%8 == 6 {
				a := reflect.New(reflect.ArrayOf(len(vals), ty)).Elem()
				reflect.Copy(a, s)
				b.use("[N]" + elem)
				out = a.Interface()
			} else {
				b.use("[]" + elem)
				out = s.Interface()
			}
		case 2:
			a := reflect.New(reflect.ArrayOf(len(vals), tIface)).Elem()
			for i, e := range vals {
				if e != nil {
					a.Index(i).Set(reflect.ValueOf(e))
				}
			}
			b.use("[N]interface{}")
			out = a.Interface()
		case 4:
			b.use("*[]interface{}")
			out = &vals
		case 5:
			b.use("named slice")
			out = nSlice(vals)
		}
		if out == nil {
			b.use("[]interface{}")
			out = vals
		}
	default:
		return b.prim(t), nil
	}
	if d := ptrDepth(t.R); d > 0 {
		b.use(fmt.Sprintf("%d extra pointer level(s)", d))
		out = ptrTo(out, d)
	}
	return b.chain(out, t.R, "a container"), nil
}

// structOf writes the object as a struct according to its layout.
func (b *builder) structOf(t *gen.Tree, vals []interface{}) interface{} {
	typed := (t.R/8)%2 == 1
	// fieldsOf makes the tagged fields for keys [from,to) and a setter
	fieldsOf := func(from, to int) []reflect.StructField {
		fs := make([]reflect.StructField, 0, to-from)
		for i := from; i < to; i++ {
			ft := tIface
			if vals[i] != nil && typed {
				ft = reflect.TypeOf(vals[i])
			}
			fs = append(fs, reflect.StructField{Name: goFieldName(t, i), Type: ft, Tag: b.fieldTag(t, i)})
		}
		return fs
	}
	fill := func(sv reflect.Value, from, to int) {
		for i := from; i < to; i++ {
			if vals[i] != nil {
				sv.Field(i - from).Set(reflect.ValueOf(vals[i]))
			}
		}
	}
	mapOf := func(from, to int) map[string]interface{} {
		m := make(map[string]interface{}, to-from)
		for i := from; i < to; i++ {
			m[t.Keys[i]] = vals[i]
		}
		return m
	}
	var fields []reflect.StructField
	var set []func(sv reflect.Value)
	addIgnored := func() {
		f, v := b.ignoredField(t)
		at := len(fields)
		fields = append(fields, f)
		set = append(set, func(sv reflect.Value) { sv.Field(at).Set(v) })
	}
	if hasIgnored(t) && ignoredFront(t) {
		addIgnored()
	}
	layout := layoutOf(t)
	for run, s := range layout {
		s := s
		if s.kind == segFields {
			at := len(fields)
			fields = append(fields, fieldsOf(s.from, s.to)...)
			set = append(set, func(sv reflect.Value) {
				for i := s.from; i < s.to; i++ {
					if vals[i] != nil {
						sv.Field(at + i - s.from).Set(reflect.ValueOf(vals[i]))
					}
				}
			})
			continue
		}
		var member interface{}
		switch s.kind {
		case segStruct, segPtrStruct, segNested:
			inner := fieldsOf(s.from, s.to)
			var ig reflect.Value
			if hasIgnored(t) {
				// (after the fields: fill addresses them by position)
				var f reflect.StructField
				f, ig = b.ignoredField(t)
				inner = append(inner, f)
				b.use("struct: ignored field in an inline struct member")
			}
			sv := reflect.New(reflect.StructOf(inner)).Elem()
			fill(sv, s.from, s.to)
			if ig.IsValid() {
				sv.Field(len(inner) - 1).Set(ig)
			}
			switch s.kind {
			case segPtrStruct:
				p := reflect.New(sv.Type())
				p.Elem().Set(sv)
				member = p.Interface()
			case segNested:
				outer := reflect.New(reflect.StructOf([]reflect.StructField{{Name: memberPrefix[nameStyle(t.R)] + "n", Type: sv.Type(), Tag: b.alwaysInline(t.R)}})).Elem()
				outer.Field(0).Set(sv)
				member = outer.Interface()
			default:
				member = sv.Interface()
			}
		case segIfaceMap:
			member = b.ifaceMap(t.Keys[s.from:s.to], vals[s.from:s.to], keySeed(t.R), false)
		case segTypedMap:
			if ty, ok := commonType(vals[s.from:s.to]); ok {
				m := reflect.MakeMapWithSize(reflect.MapOf(reflect.TypeOf(""), ty), s.to-s.from)
				for i := s.from; i < s.to; i++ {
					m.SetMapIndex(reflect.ValueOf(t.Keys[i]), reflect.ValueOf(vals[i]))
				}
				member = m.Interface()
			} else {
				member = mapOf(s.from, s.to)
			}
		default:
			member = mapOf(s.from, s.to)
		}
		b.use(segNames[s.kind])
		if w := (t.R >> (inlineShift + 4*run)) & 15; w != 0 && run < 3 {
			member = wrapLinks(member, w)
			b.use("chain: around an inline member")
			b.useIf(w&3 >= 2 || w>>2 >= 2, "chain: pointer to interface around an inline member")
		}
		ft := reflect.TypeOf(member)
		if s.kind == segIfaceField {
			ft = tIface
		}
		word := "inline"
		if (run+t.R/8)%2 == 1 {
			word = "squash"
		}
		at := len(fields)
		fields = append(fields, reflect.StructField{Name: fmt.Sprintf("%s%d", memberPrefix[nameStyle(t.R)], run), Type: ft, Tag: b.inlineTag(t.R, run, word)})
		set = append(set, func(sv reflect.Value) { sv.Field(at).Set(reflect.ValueOf(member)) })
	}
	if hasIgnored(t) && !ignoredFront(t) {
		addIgnored()
	}
	if t.R&decoyBit != 0 {
		fields = append(fields, b.hiddenField(t))
	}
	sv := reflect.New(reflect.StructOf(fields)).Elem()
	for _, f := range set {
		f(sv)
	}
	if st := nameStyle(t.R); st != 0 {
		b.use(fmt.Sprintf("struct: Go field names begin with a non-ASCII upper-case letter of %d bytes", len(fieldPrefix[st])))
	}
	if len(layout) > 1 || layout[0].kind != segFields {
		b.use("struct with inline members")
	}
	if sameKeyTwice(t) {
		b.use("struct holding one key twice")
	}
	if t.R%8 == 7 {
		p := reflect.New(sv.Type())
		p.Elem().Set(sv)
		b.use("*struct")
		return p.Interface()
	}
	b.use("struct")
	return sv.Interface()
}

// preorder lists the nodes of t in pre-order.
func preorder(t *gen.Tree, out *[]*gen.Tree) {
	*out = append(*out, t)
	for _, v := range t.Vals {
		preorder(v, out)
	}
}

// withReprs returns a copy of t whose representation choices are taken from
// rs (cyclically, in pre-order). An empty rs selects the generic form.
func withReprs(t *gen.Tree, rs []int) *gen.Tree {
	c := t.Clone()
	var nodes []*gen.Tree
	preorder(c, &nodes)
	for i, n := range nodes {
		n.R = 0
		if len(rs) > 0 {
			if r := rs[i%len(rs)]; r > 0 {
				n.R = r
			}
		}
	}
	return c
}
