package c05

import (
	"fmt"
	"regexp"
	"strings"
	"unicode/utf8"

	ucfg "github.com/elastic/go-ucfg"
	"pgregory.net/rapid"

	"verif/harness/internal/model"
)

// ---------------------------------------------------------------------------
// the options of NewFrom as a dimension of the cases
//
// An OptSet is the set of normalisation options one NewFrom call is made
// under. Every sub-check takes its options from the case; what an input means
// under them (where keys are split, which segments are list indices, which
// struct tag names the fields) is computed by the model in flat_test.go.

// tagNames are the struct tag names every generated struct type carries
// field names for.
var tagNames = [4]string{"config", "json", "yaml", "alt"}

type OptSet struct {
	Sep     string `json:"sep,omitempty"`     // PathSep(Sep); "" = option not given
	NumKeys bool   `json:"numkeys,omitempty"` // EnableNumKeys(true)
	MaxIdx  int    `json:"maxidx,omitempty"`  // 0 = option not given, otherwise MaxIdx(MaxIdx-1)
	Tag     int    `json:"tag,omitempty"`     // 0 = option not given, 1..3 StructTag(tagNames[Tag]), 4 StructTag("config")
	Esc     bool   `json:"esc,omitempty"`     // EscapePath()
	Rev     bool   `json:"rev,omitempty"`     // the options are passed in reverse order
}

func (o OptSet) valid() bool {
	return utf8.ValidString(o.Sep) && o.MaxIdx >= 0 && o.Tag >= 0 && o.Tag <= 4
}

func (o OptSet) options() []ucfg.Option {
	var out []ucfg.Option
	if o.Sep != "" {
		out = append(out, ucfg.PathSep(o.Sep))
	}
	if o.NumKeys {
		out = append(out, ucfg.EnableNumKeys(true))
	}
	if o.MaxIdx > 0 {
		out = append(out, ucfg.MaxIdx(int64(o.MaxIdx-1)))
	}
	if o.Tag > 0 {
		out = append(out, ucfg.StructTag(tagNames[o.Tag%4]))
	}
	if o.Esc {
		out = append(out, ucfg.EscapePath())
	}
	if o.Rev {
		for i, j := 0, len(out)-1; i < j; i, j = i+1, j-1 {
			out[i], out[j] = out[j], out[i]
		}
	}
	return out
}

func (o OptSet) String() string {
	var p []string
	if o.Sep != "" {
		p = append(p, fmt.Sprintf("PathSep(%q)", o.Sep))
	}
	if o.NumKeys {
		p = append(p, "EnableNumKeys(true)")
	}
	if o.MaxIdx > 0 {
		p = append(p, fmt.Sprintf("MaxIdx(%d)", o.MaxIdx-1))
	}
	if o.Tag > 0 {
		p = append(p, fmt.Sprintf("StructTag(%q)", tagNames[o.Tag%4]))
	}
	if o.Esc {
		p = append(p, "EscapePath()")
	}
	if o.Rev {
		for i, j := 0, len(p)-1; i < j; i, j = i+1, j-1 {
			p[i], p[j] = p[j], p[i]
		}
	}
	if len(p) == 0 {
		return "no option"
	}
	return strings.Join(p, ", ")
}

// tagIdx is the index into tagNames of the tag the field names are read from.
func (o OptSet) tagIdx() int { return o.Tag % 4 }

func (o OptSet) maxIdx() int64 {
	if o.MaxIdx > 0 {
		return int64(o.MaxIdx - 1)
	}
	return 1024
}

var bracketed = regexp.MustCompile(`^\[.*\]$`)

// escaped reports whether the key is written in brackets and EscapePath is on:
// it is then one name, whatever it contains.
func (o OptSet) escaped(key string) bool {
	return o.Sep != "" && o.Esc && bracketed.MatchString(key)
}

// split cuts a key into its path segments.
func (o OptSet) split(key string) []string {
	if o.Sep == "" || o.escaped(key) {
		return []string{key}
	}
	return strings.Split(key, o.Sep)
}

// index classifies one segment (DESIGN 3 (vii)): a list index iff it is an
// integer literal in [0, MaxIdx]; EnableNumKeys turns the segment of a
// single-segment key into a name and has no effect inside a multi-segment key.
func (o OptSet) index(seg string, multi bool) (int, bool) {
	if o.NumKeys && !multi {
		return 0, false
	}
	return model.IndexOf(seg, o.maxIdx())
}

// resultIdx classifies a key of an unpacked map: with numeric keys enabled
// every key of a map is taken as a name.
func (o OptSet) resultIdx(key string) (int, bool) {
	if o.NumKeys {
		return 0, false
	}
	return model.IndexOf(key, o.maxIdx())
}

// clear reports whether the way the key is split is beyond doubt: no two
// overlapping occurrences of the separator ("a:::b" under "::"). The statement
// does not say how such keys are cut, so they are not generated, and an option
// set under which a key of the case is not clear is not applied to it.
//
// An empty segment is clear: the empty string is a name like any other
// ({"a": {"": {"c": v}}} is a tree, the library stores and unpacks it
// faithfully), joining the path a, "", c with the separator gives "a..c", and
// "dotted form is equivalent to the corresponding nesting" leaves no other
// reading of "a..c", ".x", "x.", "." than the paths a/""/c, ""/x, x/"", ""/"".
// (With a separator that overlaps itself, "a::::c" under "::", the two
// occurrences next to an empty segment overlap: not clear, by the rule above.)
func (o OptSet) clear(key string) bool {
	if o.Sep == "" || o.escaped(key) {
		return true
	}
	if o.Esc && strings.ContainsAny(key, "[]") {
		// brackets that do not enclose the whole key: not stated
		return false
	}
	for i := 0; i+len(o.Sep) <= len(key); i++ {
		if !strings.HasPrefix(key[i:], o.Sep) {
			continue
		}
		for j := i + 1; j < i+len(o.Sep) && j+len(o.Sep) <= len(key); j++ {
			if strings.HasPrefix(key[j:], o.Sep) {
				return false
			}
		}
	}
	return true
}

// selfOverlap reports whether two occurrences of the separator can overlap
// ("::", "..", "--"): a proper prefix of it is also a suffix. Next to an empty
// segment such a separator is not clear.
func selfOverlap(sep string) bool {
	for i := 1; i < len(sep); i++ {
		if strings.HasPrefix(sep, sep[i:]) {
			return true
		}
	}
	return false
}

// oddNames are names at the edge of the key alphabet. What the statement says
// about each of them under a separator:
//
//	""                     a name like any other; next to a separator it is an empty segment
//	blanks, " a", "a ", tab  names; nothing is trimmed (no clause says so)
//	"+1" "-0" "00" "0x1" "010" "1_0"   integer literals in the sense of DESIGN 3 (vii)
//	                       (strconv base 0): list indices 1, 0, 0, 1, 8, 10 unless numeric
//	                       keys are enabled or MaxIdx is below them
//	"-1", 2^63-1, 10^30, an Arabic-Indic digit   no index: names
//	300 letters            a name
//	the separators of other option sets   names (they do not contain the separator of this one)
var oddNames = []string{
	// (rapid prefers the front of a list: the kinds alternate, the empty name comes first and again)
	"", " ", "+1", "A", strings.Repeat("k", 300), "-0", " a", "-", "00", "", "a ", "0x1", "  ", "-1", "010",
	"9223372036854775807", "\t", "B", "1" + strings.Repeat("0", 30), "1_0", "\u0663", "+0",
}

// oddKeys are the oddNames and the separators of the other option sets that
// can be used as names under o: the separator does not occur in them, and
// written next to it on either side they are split in one clear way.
func oddKeys(o OptSet) (names, seps []string) {
	ok := func(k string) bool {
		if o.Sep == "" {
			return true
		}
		if strings.Contains(k, o.Sep) {
			return false
		}
		if k == "" {
			// (next to a separator that overlaps itself the empty name is kept nested, see sp.joins)
			return true
		}
		j := "a" + o.Sep + k + o.Sep + k + o.Sep + "b"
		segs := strings.Split(j, o.Sep)
		return o.clear(j) && len(segs) == 4 && segs[1] == k && segs[2] == k
	}
	for _, k := range oddNames {
		if ok(k) {
			names = append(names, k)
		}
	}
	seen := map[string]bool{"-": true, " ": true}
	for _, s := range separators {
		if !seen[s] && s != o.Sep && ok(s) {
			seps = append(seps, s)
		}
		seen[s] = true
	}
	return names, seps
}

// drawOdd draws the odd part of the key alphabet of one case: the empty name
// and three of oddKeys (one in four a separator of another option set).
func drawOdd(t *rapid.T, o OptSet) []string {
	names, seps := oddKeys(o)
	out := []string{""}
	for i := 0; i < 3; i++ {
		from := names
		if len(seps) > 0 && rapid.IntRange(0, 3).Draw(t, "oddkind") == 3 {
			from = seps
		}
		out = append(out, rapid.SampledFrom(from).Draw(t, "oddkey"))
	}
	return out
}

// separators: the documented one, other single characters (among them every
// regexp and printf metacharacter, a blank, a comma, a non-ASCII letter),
// multi-character ones (repeated character, two different characters, printf
// verbs, a regexp, multi-byte runes).
var separators = []string{
	// (rapid prefers the front of a list: the kinds alternate)
	".", "::", "/", "->", "é", "%s", ".", "..", "|", ".*", "→", "=>", "*", "--", "$", "%d", ":", "[.]", "+", "\\.",
	"?", "%%", "^", "::=", "\\", "日本", "%", "→→", "(", ". ", ")", "<->", "[", "{", " ", ",", "-", "#",
}

// decoys are key spellings that contain parts of the separator, or another
// separator, but not the separator itself: they must stay whole. They begin
// and end with a letter so that joining them with the separator is clear.
func decoys(sep string) []string {
	var out []string
	add := func(mid string) {
		k := "a" + mid + "b"
		if mid != "" && (sep == "" || !strings.Contains(k, sep)) {
			out = append(out, k)
		}
	}
	if sep != "" {
		first, n := utf8.DecodeRuneInString(sep)
		last, _ := utf8.DecodeLastRuneInString(sep)
		if n < len(sep) {
			add(string(first))
			add(string(last))
			add(string(last) + string(first))
		}
		if first >= utf8.RuneSelf {
			// a rune that shares its leading bytes with the separator's first one
			add(string(first + 1))
			add(string(first - 1))
		}
	}
	if sep != "." {
		add(".")
	}
	if sep != ":" && sep != "::" {
		add("::")
	}
	if sep != "-" {
		add("-")
	}
	return out
}

// genOptSet draws an option set. sepMode: 0 no separator, 1 a separator, 2 either.
func genOptSet(t *rapid.T, sepMode int) OptSet {
	var o OptSet
	if sepMode == 1 || (sepMode == 2 && rapid.Bool().Draw(t, "withsep")) {
		o.Sep = rapid.SampledFrom(separators).Draw(t, "sep")
		if rapid.IntRange(0, 5).Draw(t, "dot") == 5 {
			o.Sep = "."
		}
	}
	// (rapid prefers small numbers: the plain case comes first)
	switch rapid.SampledFrom([]int{0, 0, 0, 0, 0, 0, 1, 1, 2, 3}).Draw(t, "numopts") {
	case 1:
		o.NumKeys = true
	case 2:
		o.MaxIdx = 1 + rapid.SampledFrom([]int{0, 1, 2, 5, 4000}).Draw(t, "maxidx")
	case 3:
		o.NumKeys = true
		o.MaxIdx = 1 + rapid.SampledFrom([]int{0, 1, 5}).Draw(t, "maxidx")
	}
	if rapid.IntRange(0, 3).Draw(t, "tagopt") == 3 {
		o.Tag = rapid.IntRange(1, 4).Draw(t, "tag")
	}
	if o.Sep != "" && !strings.ContainsAny(o.Sep, "[]") && rapid.IntRange(0, 7).Draw(t, "esc") == 7 {
		o.Esc = true
	}
	o.Rev = rapid.IntRange(0, 3).Draw(t, "rev") == 3
	return o
}

func (o OptSet) classes(add func(string)) {
	switch {
	case o.Sep == "":
		add("opt: no PathSep")
	case o.Sep == ".":
		add("opt: PathSep(\".\")")
	case len(o.Sep) == 1:
		add("opt: PathSep other single byte")
	case utf8.RuneCountInString(o.Sep) == 1:
		add("opt: PathSep one multi-byte rune")
	default:
		add("opt: PathSep multi-character")
	}
	if o.NumKeys {
		add("opt: EnableNumKeys")
	}
	if o.MaxIdx > 0 {
		add("opt: MaxIdx")
	}
	if o.Tag > 0 {
		add("opt: StructTag")
	}
	if o.Esc {
		add("opt: EscapePath")
	}
}
