package c05

import (
	"fmt"
	"testing"

	ucfg "github.com/elastic/go-ucfg"
	"verif/harness/internal/uc"
)

type M = map[string]interface{}

func TestExplore(t *testing.T) {
	ps := ucfg.PathSep(".")
	try := func(label string, v interface{}) {
		var c *ucfg.Config
		err := uc.Safe("NewFrom", func() error { var e error; c, e = ucfg.NewFrom(v, ps); return e })
		if err != nil {
			reason := "?"
			if ue, ok := err.(ucfg.Error); ok {
				reason = fmt.Sprint(ue.Reason())
			}
			fmt.Printf("%-30s ERR reason=%q  %v\n", label, reason, err)
			return
		}
		d, err := uc.Dump(c, ps)
		fmt.Printf("%-30s OK %#v err=%v\n   %s\n", label, d, err, ucfg.VerifFingerprint(c, false))
	}
	try("prim a, a.b", M{"a": 1, "a.b": 2})
	try("prim a, a.0", M{"a": 1, "a.0": 2})
	try("a.b.c vs a{b:1}", M{"a.b.c": 2, "a": M{"b": 1}})
	try("a.b=1 vs a{b{c:2}}", M{"a.b": 1, "a": M{"b": M{"c": 2}}})
	try("a.b={c:2} vs a{b:1}", M{"a.b": M{"c": 2}, "a": M{"b": 1}})
	try("a.b={} vs a{b:1}", M{"a.b": M{}, "a": M{"b": 1}})
	try("a.b=nil vs a{b:1}", M{"a.b": nil, "a": M{"b": 1}})
	try("a=nil, a.b=1", M{"a": nil, "a.b": 1})
	try("a={b:nil}, a.b.c=1", M{"a": M{"b": nil}, "a.b.c": 1})
	try("a={}, a.b=1", M{"a": M{}, "a.b": 1})
	try("a=[], a.b=1", M{"a": []interface{}{}, "a.b": 1})
	try("a=[1], a.b=1", M{"a": []interface{}{1}, "a.b": 1})
	try("a=[1], a.0=2", M{"a": []interface{}{1}, "a.0": 2})
	try("a=[1], a.1=2", M{"a": []interface{}{1}, "a.1": 2})
	try("a=[nil,1], a.0=2", M{"a": []interface{}{nil, 1}, "a.0": 2})
	try("a.0=1,a.1=2", M{"a.0": 1, "a.1": 2})
	try("a.1=2", M{"a.1": 2})
	try("cc overlap", M{"a": M{"b": M{"x": 1}}, "a.b": M{"x": 2}})
	try("cc disjoint", M{"a": M{"b": M{"x": 1}}, "a.b": M{"y": 2}})
	try("cc list overlap", M{"a": []interface{}{1}, "a.0": 2})
	try("cc list/list overlap", M{"a.b": []interface{}{1}, "a": M{"b": []interface{}{2}}})
	try("cc list/list disjoint nil", M{"a.b": []interface{}{1}, "a": M{"b": []interface{}{nil, 2}}})
	try("empty key", M{"": 1, "a.": 2, ".b": 3})
	try("top idx", M{"0": 1, "a": 2})
	try("nil leaf", M{"a": nil, "b": M{"c": nil}, "d": M{}, "e": []interface{}{}, "f": []interface{}{nil, M{}, nil}})
	try("list top", []interface{}{1, nil, M{"a.b": 1}})
	try("a.b.c & a.b.d in list", []interface{}{M{"a.b": 1, "a": M{"c": 2}}})
}
