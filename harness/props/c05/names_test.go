package c05

import (
	"reflect"
	"strconv"
	"strings"
	"unicode"
	"unicode/utf8"

	"pgregory.net/rapid"

	"verif/harness/internal/gen"
)

// ---------------------------------------------------------------------------
// Names on the Go side of a representation: the dynamic types of the keys of
// interface-keyed maps and the Go names of struct fields.
//
// Bits 40-47 of the R field of an object:
//
//	bits 40-42  struct representations: the alphabet the Go field names are taken from
//	            (fieldPrefix / memberPrefix: ASCII, or an upper-case letter of 2, 3 or 4 bytes)
//	bit  43     struct representations: an unexported field (lower-case, caseless or
//	            title-case first letter, "_") that is tagged with the key of the first
//	            field and holds a zero int: it defines nothing
//	bits 44-47  interface-keyed maps: the key seed. 0: all keys are strings (or all of the
//	            named string type); otherwise the Go type of the map (key type interface{},
//	            a named empty interface, an interface with a method) and the dynamic type
//	            of every key (string, three named string types) follow from the seed
//
// A Go map with interface keys can hold one TEXT several times, under keys of
// different dynamic types: "port" and nStr("port") are two keys that name the
// same setting. An object that holds a key twice is therefore written either
// as a struct (two fields) or as an interface-keyed map (keysTwiceAsMap).

const (
	nameShift    = 40
	decoyBit     = 1 << 43
	keySeedShift = 44
)

type (
	nStr2 string
	nKeyA string
	nKeyB string
	// keyer is an interface with a method: the key type of map[keyer]interface{}.
	keyer interface{ isKey() }
)

func (nKeyA) isKey() {}
func (nKeyB) isKey() {}

const nKeyTypes = 4

func keyOfType(ty int, s string) interface{} {
	switch ty % nKeyTypes {
	case 1:
		return nStr(s)
	case 2:
		return nKeyA(s)
	case 3:
		return nKeyB(s)
	}
	return s
}

func keySeed(r int) int { return (r >> keySeedShift) & 15 }

// multiplicity is the highest number of times one key occurs.
func multiplicity(keys []string) int {
	max := 0
	for i, k := range keys {
		n := 1
		for _, k2 := range keys[:i] {
			if k2 == k {
				n++
			}
		}
		if n > max {
			max = n
		}
	}
	return max
}

// keysTwiceAsMap reports whether the object holds a key twice and is written
// as an interface-keyed map whose keys differ in their dynamic type.
func keysTwiceAsMap(t *gen.Tree) bool {
	return t.K == "obj" && t.R%8 == 1 && sameKeyTwice(t) && multiplicity(t.Keys) <= nKeyTypes
}

// ifaceMap builds an interface-keyed map. Keys of equal text get different
// dynamic types; with a seed the types vary from key to key as well.
func (b *builder) ifaceMap(keys []string, vals []interface{}, seed int, named bool) interface{} {
	mult := multiplicity(keys)
	kind := 0
	if seed > 0 {
		kind = seed % 3
	}
	if kind == 2 && mult > 2 {
		kind = 0
	}
	types := make([]int, len(keys))
	distinct := map[int]bool{}
	for i, k := range keys {
		first, occ := i, 0
		for j := 0; j < i; j++ {
			if keys[j] == k {
				if occ == 0 {
					first = j
				}
				occ++
			}
		}
		base := 0
		switch {
		case seed == 0 && named:
			base = 1
		case seed > 0:
			base = (seed>>2 + first*(1+seed%4)) % nKeyTypes
		}
		if kind == 2 {
			// only the types with the method are keys of this map
			types[i] = 2 + (base+occ)%2
		} else {
			types[i] = (base + occ) % nKeyTypes
		}
		distinct[types[i]] = true
	}
	var out interface{}
	switch {
	case kind == 1:
		m := make(map[nAny]interface{}, len(keys))
		for i, k := range keys {
			m[keyOfType(types[i], k)] = vals[i]
		}
		b.use("map[named empty interface]interface{}")
		out = m
	case kind == 2:
		m := make(map[keyer]interface{}, len(keys))
		for i, k := range keys {
			m[keyOfType(types[i], k).(keyer)] = vals[i]
		}
		b.use("map[interface with a method]interface{}")
		out = m
	case seed == 0 && named && mult == 1:
		m := make(nIfaceMap, len(keys))
		for i, k := range keys {
			m[keyOfType(types[i], k)] = vals[i]
		}
		out = m
	default:
		m := make(map[interface{}]interface{}, len(keys))
		for i, k := range keys {
			m[keyOfType(types[i], k)] = vals[i]
		}
		out = m
	}
	b.useIf(len(distinct) >= 2, "interface-keyed map: keys of >=2 dynamic types (string, named string types)")
	b.useIf(mult >= 2, "interface-keyed map: one key text under >=2 keys of different dynamic types")
	return out
}

// ---------------------------------------------------------------------------
// Go field names

// Exported Go identifiers begin with an upper-case letter (class Lu) of any
// script. The alphabets: ASCII, Latin-1 (2 bytes), Greek (2), Georgian
// Mtavruli (3), Deseret (4), a Latin digraph (2), Latin Extended-A (2), Eth (2).
var (
	fieldPrefix  = [8]string{"F", "Ö", "Ω", "Ა", "𐐀", "Ǆ", "Ÿ", "Ð"}
	memberPrefix = [8]string{"M", "Ü", "Ψ", "Ბ", "𐐁", "Ǉ", "Ž", "Þ"}
	// names that are not exported: lower-case ASCII and non-ASCII, the blank
	// identifier's letter, a letter without case, a title-case letter (class Lt)
	hiddenNames = [8]string{"f", "ö", "_x", "世", "ǅ", "ω", "ა", "é"}
)

func nameStyle(r int) int { return (r >> nameShift) & 7 }

// taglessName returns the Go field name whose lower-cased form is the key, if
// there is one: the key is an identifier without digits of at most 8 bytes
// that begins with a lower-case letter which has an upper-case form.
func taglessName(k string) (string, bool) {
	if k == "" || len(k) > 8 || !utf8.ValidString(k) {
		return "", false
	}
	for _, r := range k {
		if !unicode.IsLetter(r) && r != '_' {
			return "", false
		}
	}
	first, n := utf8.DecodeRuneInString(k)
	up := unicode.ToUpper(first)
	if up == first || !unicode.IsUpper(up) {
		return "", false
	}
	name := string(up) + k[n:]
	if strings.ToLower(name) != k {
		return "", false
	}
	return name, true
}

// tagless reports whether the field for key i carries no primary tag: its Go
// name, lower-cased, is the key.
func tagless(t *gen.Tree, i int) bool {
	k := t.Keys[i]
	if _, ok := taglessName(k); !ok || (t.R>>4+i)%2 != 0 {
		return false
	}
	n := 0
	for _, k2 := range t.Keys {
		if k2 == k {
			n++
		}
	}
	return n == 1
}

// uniKeys are keys that are lower-cased Go identifiers beginning with a
// non-ASCII letter of 2, 3 and 4 bytes: fields without a tag can carry them.
var uniKeys = []string{"öl", "é", "ა", "𐐨x", "ärmel", "ω", "ñ_a", "ǆ"}

// drawNames draws bits 40-47 of a container representation (and the tag
// options of a struct representation: bits 48-52, see tagopts_test.go).
func drawNames(t *rapid.T) int {
	r := drawTagOpts(t)
	if rapid.IntRange(0, 2).Draw(t, "gonames") > 0 {
		r |= rapid.IntRange(0, 15).Draw(t, "fieldnames") << nameShift
	}
	if rapid.IntRange(0, 2).Draw(t, "keytypes") > 0 {
		r |= rapid.IntRange(1, 15).Draw(t, "keyseed") << keySeedShift
	}
	return r
}

// hiddenField is an unexported field: it is tagged, under every tag name,
// with the key of the first field and holds the zero value of int. Fields
// that are not exported are no part of the data.
func (b *builder) hiddenField(t *gen.Tree) reflect.StructField {
	var p []string
	for _, name := range tagNames {
		p = append(p, name+":"+strconv.Quote(t.Keys[0]))
	}
	b.use("struct: unexported field tagged with the key of a sibling")
	return reflect.StructField{
		Name:    hiddenNames[nameStyle(t.R)] + "h",
		PkgPath: "verif/harness/props/c05",
		Type:    reflect.TypeOf(0),
		Tag:     reflect.StructTag(strings.Join(p, " ")),
	}
}

// drawUni draws one of uniKeys that the separator does not occur in.
func drawUni(t *rapid.T, o OptSet) []string {
	k := rapid.SampledFrom(uniKeys).Draw(t, "unikey")
	if o.Sep != "" && strings.Contains(k, o.Sep) {
		return nil
	}
	return []string{k}
}
