// Package c05 decides property C05: every input shape normalises to the same
// canonical tree.
//
// Sub-checks:
//
//	repr-roundtrip  a data tree in several mixed Go representations: generic view, agreement, idempotence
//	flatten         partial flattenings of a tree into dotted keys (PathSep) equal the nested tree
//	duplicates      a setting defined twice through different spellings is ErrDuplicateKey in every
//	                insertion order; a container spelled twice with disjoint leaves merges
package c05

import (
	"fmt"
	"sort"
	"strings"
	"testing"

	ucfg "github.com/elastic/go-ucfg"
	"pgregory.net/rapid"

	"verif/harness/internal/canon"
	"verif/harness/internal/gen"
	"verif/harness/internal/model"
	"verif/harness/internal/runlog"
	"verif/harness/internal/uc"
)

// ---------------------------------------------------------------------------
// structural view of a config (hook), normalised for nil = absent = empty

// snapString renders the stored tree of c: kind, stored field name and
// payload of every node. With strict=false nil values and empty
// sub-configurations are one value: they are dropped from dictionaries and
// become nil inside lists; with trim trailing nils of a list part are dropped
// as well (a node reified as a map does not show them).
func snapString(c *ucfg.Config, strict, trim bool) string {
	if strict {
		return ucfg.VerifFingerprint(c, false)
	}
	var b strings.Builder
	n := ucfg.VerifSnapshot(c)
	if !snapEmpty(&n, trim) {
		snapRender(&b, &n, 0)
	}
	return b.String()
}

// snapEmpty prunes n in place and reports whether it is nil or empty.
func snapEmpty(n *ucfg.VerifNode, trim bool) bool {
	if n.Kind == "nil" {
		return true
	}
	if n.Kind != "sub" {
		return false
	}
	var names []string
	var dict []ucfg.VerifNode
	for i := range n.Dict {
		if !snapEmpty(&n.Dict[i], trim) {
			names = append(names, n.Names[i])
			dict = append(dict, n.Dict[i])
		}
	}
	n.Names, n.Dict = names, dict
	last := -1
	for i := range n.Arr {
		if snapEmpty(&n.Arr[i], trim) {
			n.Arr[i] = ucfg.VerifNode{Kind: "nil"}
		} else {
			last = i
		}
	}
	if trim {
		n.Arr = n.Arr[:last+1]
	}
	return len(n.Dict) == 0 && len(n.Arr) == 0
}

func snapRender(b *strings.Builder, n *ucfg.VerifNode, depth int) {
	ind := strings.Repeat(" ", depth)
	if n.Kind == "nil" {
		fmt.Fprintf(b, "%snil\n", ind)
		return
	}
	kind := n.Kind
	if kind == "int" || kind == "uint" {
		// integers compare by value: 0 is stored as a signed or an unsigned
		// number depending on the Go type it came from
		kind = "integer"
	}
	fmt.Fprintf(b, "%s%s field=%q prim=%q src=%q\n", ind, kind, n.Field, n.Prim, n.Source)
	for i, name := range n.Names {
		fmt.Fprintf(b, "%s .%s:\n", ind, name)
		snapRender(b, &n.Dict[i], depth+2)
	}
	for i := range n.Arr {
		fmt.Fprintf(b, "%s [%d]:\n", ind, i)
		snapRender(b, &n.Arr[i], depth+2)
	}
}

func newFrom(v interface{}, opts []ucfg.Option) (c *ucfg.Config, err error) {
	err = uc.Safe("NewFrom", func() error {
		var e error
		c, e = ucfg.NewFrom(v, opts...)
		return e
	})
	return c, err
}

// ---------------------------------------------------------------------------
// (a) representations, round trip, idempotence

// ReprCase is a data tree with the representation choices of the first
// variant in the R fields of T and further variants in Alts.
type ReprCase struct {
	T    *gen.Tree `json:"t"`
	Alts [][]int   `json:"alts,omitempty"` // alternative representation choices, applied to the nodes of T in pre-order (cyclically)
	Opt  int       `json:"opt,omitempty"`  // 0 no option, 1 PathSep("."), 2 EnableNumKeys(true)
}

var reprKeys = [3][]string{
	{"a", "b", "c", "d", "a", "b", "a.b", "c.d.e", "é", "x y", "", "0", "1"},
	{"a", "b", "c", "d", "a", "b", "é", "x y", "A_1", "0", "1"},
	{"a", "b", "c", "d", "a", "b", "a.b", "0", "1", "10", "007"},
}

func reprOpts(opt int) []ucfg.Option {
	switch opt {
	case 1:
		return []ucfg.Option{ucfg.PathSep(".")}
	case 2:
		return []ucfg.Option{ucfg.EnableNumKeys(true)}
	}
	return nil
}

// drawReprs adds the representation bits the shared generator does not draw
// (pointer levels, primitive variants).
func drawReprs(t *rapid.T, tr *gen.Tree) {
	var nodes []*gen.Tree
	preorder(tr, &nodes)
	for _, n := range nodes {
		if n.IsCont() {
			n.R = n.R%16 + 16*rapid.IntRange(0, 3).Draw(t, "ptr")
		} else {
			n.R = rapid.IntRange(0, 63).Draw(t, "primrepr")
		}
	}
}

func genRepr(t *rapid.T) ReprCase {
	c := ReprCase{Opt: rapid.SampledFrom([]int{0, 0, 1, 2}).Draw(t, "opt")}
	cfg := &gen.TreeCfg{Depth: runlog.Pick(3, 5), Width: runlog.Pick(4, 6), Keys: reprKeys[c.Opt], Strings: gen.HostileStrings, Reprs: true}
	if rapid.IntRange(0, 4).Draw(t, "toplist") == 0 {
		c.T = gen.GenList(t, cfg, cfg.Depth)
	} else {
		c.T = gen.GenObj(t, cfg, cfg.Depth)
	}
	drawReprs(t, c.T)
	n := rapid.IntRange(1, 2).Draw(t, "nalts")
	for i := 0; i < n; i++ {
		c.Alts = append(c.Alts, rapid.SliceOfN(rapid.IntRange(0, 63), 1, 12).Draw(t, "alt"))
	}
	return c
}

// hasNilOrEmpty reports whether the tree contains nil values, empty
// containers or keys that address the list part of a node.
func hasNilOrEmpty(t *gen.Tree, idxKeys bool) bool {
	found := false
	t.Walk(nil, func(_ []string, n *gen.Tree) {
		if n.K == "nil" || (n.IsCont() && len(n.Vals) == 0) {
			found = true
		}
		if idxKeys && n.K == "obj" {
			for _, k := range n.Keys {
				if isIndex(k) {
					found = true
				}
			}
		}
	})
	return found
}

func runRepr(c ReprCase, r *runlog.R) error {
	if c.T == nil || !c.T.IsCont() || c.Opt < 0 || c.Opt > 2 {
		r.Discard()
		return nil
	}
	opts := reprOpts(c.Opt)
	want := c.T.Go()
	// With numeric keys enabled every key is a name and the comparison is the
	// plain canonical one. Otherwise integer-literal keys address the list part
	// of their node and both sides are compared as (named part, list part).
	equal, show := splitEqual, splitShow
	if c.Opt == 2 {
		equal, show = canon.EqualData, canon.Show
	}
	strict := !hasNilOrEmpty(c.T, c.Opt != 2)

	variants := []*gen.Tree{c.T, withReprs(c.T, nil)}
	for _, a := range c.Alts {
		variants = append(variants, withReprs(c.T, a))
	}
	used := map[string]int{}
	for vi, vt := range variants {
		b := &builder{opts: opts, used: used, nilConts: true}
		var src interface{}
		err := uc.Safe("building the input", func() error {
			var e error
			src, e = b.build(vt)
			return e
		})
		if err != nil {
			return fmt.Errorf("variant %d: building the representation failed: %v", vi, err)
		}
		c1, err := newFrom(src, opts)
		if err != nil {
			return fmt.Errorf("variant %d: NewFrom(%T) failed: %v\n tree %s", vi, src, err, canon.Show(want))
		}
		d1, err := uc.Dump(c1, opts...)
		if err != nil {
			return fmt.Errorf("variant %d: unpacking failed: %v", vi, err)
		}
		if !equal(d1, want) {
			return fmt.Errorf("variant %d (%T): the generic view differs from the data\n got  %s\n want %s", vi, src, show(d1), show(want))
		}
		if vi == 0 {
			// the same through an interface{}-typed struct field
			var w struct {
				V interface{} `config:"v"`
			}
			cw, err := newFrom(map[string]interface{}{"v": src}, opts)
			if err != nil {
				return fmt.Errorf("NewFrom({v: %T}) failed: %v", src, err)
			}
			if err := uc.Safe("Unpack", func() error { return cw.Unpack(&w, opts...) }); err != nil {
				return fmt.Errorf("unpacking into struct{V interface{}} failed: %v", err)
			}
			if !equal(w.V, want) {
				return fmt.Errorf("(%T) unpacked into an interface{} field: the generic view differs from the data\n got  %s\n want %s", src, show(w.V), show(want))
			}
		}
		// idempotence: the unpacked result fed back in
		c2, err := newFrom(d1, opts)
		if err != nil {
			return fmt.Errorf("variant %d: NewFrom(unpacked result) failed: %v\n data %s", vi, err, canon.Show(d1))
		}
		d2, err := uc.Dump(c2, opts...)
		if err != nil {
			return fmt.Errorf("variant %d: unpacking the second config failed: %v", vi, err)
		}
		if !equal(d2, d1) {
			return fmt.Errorf("variant %d (%T): feeding the unpacked result back in changes the generic view\n first  %s\n second %s", vi, src, show(d1), show(d2))
		}
		if s1, s2 := snapString(c1, false, false), snapString(c2, false, false); s1 != s2 {
			return fmt.Errorf("variant %d (%T): feeding the unpacked result back in yields a different config (nil = absent = empty)\n--- first\n%s--- second\n%s", vi, src, s1, s2)
		}
		if strict {
			if s1, s2 := snapString(c1, true, false), snapString(c2, true, false); s1 != s2 {
				return fmt.Errorf("variant %d (%T): feeding the unpacked result back in yields a different config\n--- first\n%s--- second\n%s", vi, src, s1, s2)
			}
		}
	}
	kinds := 0
	for k := range used {
		switch k {
		case "narrow int", "float32", "named primitive", "pointer to primitive", "nil *int", "nil map", "nil slice":
		case "map[string]interface{}", "[]interface{}":
		default:
			kinds++
		}
		r.Class("repr:" + k)
	}
	r.NonTrivialIf(kinds >= 2)
	r.Class([]string{"opt:none", "opt:PathSep", "opt:EnableNumKeys"}[c.Opt])
	r.ClassIf(strict, "strict fingerprint compared")
	r.ClassIf(c.T.K == "list", "top-level list")
	return nil
}

var subRepr = runlog.Register(&runlog.Sub[ReprCase]{
	Name: "repr-roundtrip",
	Rule: "random tree (hostile strings, nil, empty containers, keys incl. dotted/blank/empty/integer literals) built in 3-4 mixed Go representations (as drawn, generic, 1-2 alternative choice vectors: generic/interface-keyed/named/typed maps, slices, arrays, StructOf structs with tags and typed fields, 1-3 pointer levels, *Config, narrow and named primitive kinds, typed nils), under no option / PathSep / EnableNumKeys; for each: canon(Dump(NewFrom(repr))) == canon(T), NewFrom(Dump) has the same generic view and the same hook fingerprint (nil = absent = empty; byte-identical when T has no nil/empty/index keys). Non-trivial: at least 2 different container representations other than the generic map[string]interface{} / []interface{} occur in the case. Distinct: hash of the case.",
	Gen:  genRepr,
	Run:  runRepr,
})

func TestReprRoundTrip(t *testing.T) { subRepr.Check(t, 60000, 2000000) }

// ---------------------------------------------------------------------------
// (b), (c) dotted spellings

// FlatCase is an input written with dotted keys: F is given to NewFrom as it
// is (object keys in insertion order, representation per node in R) under
// PathSep("."). What it has to normalise to is computed by the model in
// flat_test.go from F alone.
type FlatCase struct {
	F       *gen.Tree `json:"f"`
	Planted string    `json:"planted,omitempty"` // what the generator planted (label for the class histogram only)
}

var sepOpts = []ucfg.Option{ucfg.PathSep(".")}

const maxOrders = 48

// An ordering names one object of F (by pre-order position) and the order in
// which its keys are inserted; node < 0 is F as stated.
type ordering struct {
	node int
	perm []int
}

// overlapping reports whether two keys of the object start with the same
// segment, i.e. whether the object spells some container more than once. Only
// then can the order in which its keys are processed matter.
func overlapping(n *gen.Tree) bool {
	seen := map[string]bool{}
	for _, k := range n.Keys {
		first := strings.SplitN(k, ".", 2)[0]
		if i, ok := model.IndexOf(first, 1024); ok {
			first = fmt.Sprint(i)
		}
		if seen[first] {
			return true
		}
		seen[first] = true
	}
	return false
}

// orderings lists the insertion orders to run: F as stated, then every
// insertion order of the keys of each object that spells a container more
// than once (one object permuted at a time, the others as stated): all n!
// orders for objects of up to 4 keys, rotations and the reversal above that.
func orderings(nodes []*gen.Tree) (out []ordering, capped bool) {
	out = append(out, ordering{node: -1})
	for ni, n := range nodes {
		if n.K != "obj" || len(n.Keys) < 2 || !overlapping(n) {
			continue
		}
		for _, p := range perms(len(n.Keys)) {
			if len(out) >= maxOrders {
				return out, true
			}
			out = append(out, ordering{node: ni, perm: p})
		}
	}
	return out, false
}

// apply permutes the keys of the named object in place and returns the undo.
func (o ordering) apply(nodes []*gen.Tree) func() {
	if o.node < 0 {
		return func() {}
	}
	m := nodes[o.node]
	keys, vals := m.Keys, m.Vals
	m.Keys, m.Vals = make([]string, len(o.perm)), make([]*gen.Tree, len(o.perm))
	for i, j := range o.perm {
		m.Keys[i], m.Vals[i] = keys[j], vals[j]
	}
	return func() { m.Keys, m.Vals = keys, vals }
}

// perms returns the non-identity orders to try for n keys.
func perms(n int) [][]int {
	var out [][]int
	if n <= 4 {
		p := make([]int, n)
		for i := range p {
			p[i] = i
		}
		var rec func(k int)
		rec = func(k int) {
			if k == n {
				id := true
				for i, v := range p {
					if i != v {
						id = false
					}
				}
				if !id {
					out = append(out, append([]int(nil), p...))
				}
				return
			}
			for i := k; i < n; i++ {
				p[k], p[i] = p[i], p[k]
				rec(k + 1)
				p[k], p[i] = p[i], p[k]
			}
		}
		rec(0)
		return out
	}
	for s := 1; s < n; s++ {
		p := make([]int, n)
		for i := range p {
			p[i] = (i + s) % n
		}
		out = append(out, p)
	}
	rev := make([]int, n)
	for i := range rev {
		rev[i] = n - 1 - i
	}
	return append(out, rev)
}

// showOrdered renders a tree with its object keys in insertion order.
func showOrdered(t *gen.Tree) string {
	var b strings.Builder
	var rec func(t *gen.Tree)
	rec = func(t *gen.Tree) {
		switch t.K {
		case "obj":
			b.WriteString("{")
			for i, k := range t.Keys {
				if i > 0 {
					b.WriteString(", ")
				}
				fmt.Fprintf(&b, "%q: ", k)
				rec(t.Vals[i])
			}
			b.WriteString("}")
		case "list":
			b.WriteString("[")
			for i, e := range t.Vals {
				if i > 0 {
					b.WriteString(", ")
				}
				rec(e)
			}
			b.WriteString("]")
		default:
			b.WriteString(canon.Show(t.Prim()))
		}
	}
	rec(t)
	return b.String()
}

// lazy defers the rendering of a description until it is printed.
type lazy func() string

func (l lazy) String() string { return l() }

func reasonOf(err error) (error, bool) {
	ue, ok := err.(ucfg.Error)
	if !ok || ue == nil {
		return nil, false
	}
	return ue.Reason(), true
}

func runFlat(c FlatCase, r *runlog.R) error {
	if c.F == nil || !c.F.IsCont() {
		r.Discard()
		return nil
	}
	m := analyse(c.F)
	want := m.root.reify()
	show := splitShow
	wantStr := show(want)

	f := c.F.Clone()
	var nodes []*gen.Tree
	preorder(f, &nodes)
	variants, capped := orderings(nodes)
	// The verdict of a defective implementation depends on the iteration order
	// of Go maps, which differs from run to run even for one insertion order
	// (for small maps the insertion order is the likely one); inputs with a
	// doubly defined setting are therefore tried several times per order.
	reps := 1
	if m.mustFail || m.ambiguous {
		reps = 2
	}
	if runlog.Env().Replay != "" {
		reps = 8 // a replay decides one case: make an order-dependent outcome show up with near certainty
	}
	used := map[string]int{}
	for vi, o := range variants {
		for rep := 0; rep < reps; rep++ {
			b := &builder{opts: sepOpts, used: used}
			var src interface{}
			var cfg *ucfg.Config
			undo := o.apply(nodes)
			desc := lazy(func() string {
				undo := o.apply(nodes)
				defer undo()
				return fmt.Sprintf("insertion order %d of %s", vi, showOrdered(f))
			})
			err := uc.Safe("building the input", func() error {
				var e error
				src, e = b.build(f)
				return e
			})
			undo()
			if err == nil {
				cfg, err = newFrom(src, sepOpts)
			}
			if err != nil {
				reason, typed := reasonOf(err)
				if !typed {
					return fmt.Errorf("%s: NewFrom failed with an error that is no ucfg.Error: %v", desc, err)
				}
				switch {
				case !m.mustFail && !m.ambiguous:
					return fmt.Errorf("%s: no setting is defined twice, but NewFrom failed: %v\n expected %s", desc, err, show(want))
				case reason == ucfg.ErrDuplicateKey:
				case reason == ucfg.ErrExpectedObject && m.throughPrim:
					// a dotted key that runs through a primitive defined by another key of the same object
				default:
					return fmt.Errorf("%s: a setting is defined twice (%s), the error must be ErrDuplicateKey but is %v: %v", desc, m.conflict, reason, err)
				}
				continue
			}
			if m.mustFail {
				got, _ := uc.Dump(cfg, sepOpts...)
				return fmt.Errorf("%s: a setting is defined twice (%s) but NewFrom succeeded\n result %s", desc, m.conflict, show(got))
			}
			got, err := uc.Dump(cfg, sepOpts...)
			if err != nil {
				return fmt.Errorf("%s: unpacking failed: %v", desc, err)
			}
			if m.ambiguous {
				continue
			}
			if show(got) != wantStr {
				return fmt.Errorf("%s: the dotted spelling does not equal the nested tree\n got  %s\n want %s", desc, show(got), wantStr)
			}
			if vi > 0 {
				continue
			}
			// the nested spelling, built from the model's result, gives the same config
			nested := ucfg.New()
			if want != nil {
				nested, err = newFrom(want, sepOpts)
			}
			if err != nil {
				return fmt.Errorf("NewFrom(nested tree) failed: %v\n tree %s", err, show(want))
			}
			if s1, s2 := snapString(cfg, false, true), snapString(nested, false, true); s1 != s2 {
				return fmt.Errorf("%s: the config differs from the one built from the nested tree\n--- dotted\n%s--- nested\n%s", desc, s1, s2)
			}
			// and feeding the generic view back in changes nothing
			c2, err := newFrom(got, sepOpts)
			if err != nil {
				return fmt.Errorf("%s: NewFrom(unpacked result) failed: %v", desc, err)
			}
			d2, err := uc.Dump(c2, sepOpts...)
			if err != nil {
				return fmt.Errorf("%s: unpacking the second config failed: %v", desc, err)
			}
			if !splitEqual(d2, got) {
				return fmt.Errorf("%s: feeding the unpacked result back in changes the generic view\n first  %s\n second %s", desc, show(got), show(d2))
			}
			if s1, s2 := snapString(cfg, false, true), snapString(c2, false, true); s1 != s2 {
				return fmt.Errorf("%s: feeding the unpacked result back in yields a different config\n--- first\n%s--- second\n%s", desc, s1, s2)
			}
		}
	}

	r.NonTrivialIf(m.mustFail || m.shared > 0)
	switch {
	case m.mustFail:
		r.Class("verdict: duplicate (" + m.conflict + ")")
		r.ClassIf(m.throughPrim, "duplicate: a dotted key runs through a primitive (ErrExpectedObject accepted too)")
		r.ClassIf(m.underShared, "duplicate: below a container that is given by two values")
	case m.ambiguous:
		r.Class("verdict: either (primitive vs nil/empty container)")
	default:
		r.Class("verdict: equal to the nested tree")
		r.ClassIf(m.shared > 0, "container assembled from >=2 spellings")
		r.ClassIf(m.contTwice > 0, "container given by two values, disjoint leaves: merged")
		r.ClassIf(m.dottedNextToNested > 0, "dotted edge next to a nested sibling")
	}
	r.ClassIf(m.dotted == 0, "no dotted key")
	r.ClassIf(m.idxSegs > 0, "index segment in a dotted key")
	r.ClassIf(m.maxSegs >= 3, "dotted key with >=3 segments")
	r.ClassIf(capped, "insertion orders capped")
	r.ClassIf(c.F.K == "list", "top-level list")
	if c.Planted != "" {
		r.Class("planted:" + c.Planted)
	}
	labels := make([]string, 0, len(used))
	for k := range used {
		labels = append(labels, k)
	}
	sort.Strings(labels)
	for _, k := range labels {
		switch k {
		case "narrow int", "float32", "named primitive", "pointer to primitive", "nil *int", "map[string]interface{}", "[]interface{}":
		default:
			r.Class("repr:" + k)
		}
	}
	return nil
}

var subFlat = runlog.Register(&runlog.Sub[FlatCase]{
	Name: "flatten",
	Rule: "random tree T over keys {a,b,c,d,0,1}; every leaf path is cut into dotted groups independently (so any subset of the object edges, and of the list edges as index segments, is written dotted, next to nested spellings of sibling parts), subtrees kept whole keep a mixed Go representation (struct tags, interface-keyed and typed maps, pointers, *Config); the spelled input F is the case, with its key insertion orders; run: F as stated plus every insertion order of the keys of every object in which two keys start with the same segment (all n! up to 4 keys, rotations and reversal above, at most 48 inputs; 8 repetitions each in replay mode) under PathSep(\".\") must give the tree computed from F by an order-free model (split keys, union, integer segments are list indices), the same normalised hook fingerprint as NewFrom(nested tree), and be stable when fed back. Non-trivial: some container is assembled from >=2 spellings (a dotted key through it plus a value, two dotted keys, or two values). Distinct: hash of F.",
	Gen:  func(t *rapid.T) FlatCase { return genFlat(t, false) },
	Run:  runFlat,
})

var subDup = runlog.Register(&runlog.Sub[FlatCase]{
	Name: "duplicates",
	Rule: "as flatten, plus one planted second definition of a path of T in a different spelling: primitive/primitive on a leaf, container over a primitive leaf, primitive over a container, container/container overlapping in a leaf, container/container with fresh (disjoint) leaves; the model decides from F alone: a primitive defined twice or a primitive and a container with a primitive below it at one path => NewFrom must fail with Reason()==ErrDuplicateKey (ErrExpectedObject also accepted iff a dotted key runs through a primitive given by another key), in every insertion order, each tried twice (8 times in replay mode) because a defective implementation depends on Go map iteration order; a nil second definition defines nothing; disjoint => must merge; primitive vs nil/empty container only => either. Non-trivial: a duplicate, or a container assembled from >=2 spellings. Distinct: hash of F.",
	Gen:  func(t *rapid.T) FlatCase { return genFlat(t, true) },
	Run:  runFlat,
})

func TestFlatten(t *testing.T)    { subFlat.Check(t, 24000, 800000) }
func TestDuplicates(t *testing.T) { subDup.Check(t, 20000, 500000) }

func TestReplay(t *testing.T) { runlog.ReplayMain(t) }
