// Package c05 decides property C05: every input shape normalises to the same
// canonical tree.
//
// Sub-checks:
//
//	repr-roundtrip  a data tree in several mixed Go representations: generic view, agreement, idempotence
//	flatten         partial flattenings of a tree into dotted keys (PathSep) equal the nested tree
//	duplicates      a setting defined twice through different spellings is ErrDuplicateKey in every
//	                insertion order; a container spelled twice with disjoint leaves merges
//	option-history  one Go value (the same types) normalised under several option sets in sequence
//
// The options of NewFrom (PathSep with any separator, EnableNumKeys, MaxIdx,
// StructTag, EscapePath) are part of every case; what an input means under
// them is computed by the model in flat_test.go. So is the key alphabet: under
// every option set and at every depth the empty name, blank names, integer
// literals in every spelling, long names and the separators of other option
// sets occur as keys (oddNames in opts_test.go says what each of them means).
package c05

import (
	"fmt"
	"reflect"
	"sort"
	"strings"
	"testing"

	ucfg "github.com/elastic/go-ucfg"
	"pgregory.net/rapid"

	"verif/harness/internal/canon"
	"verif/harness/internal/gen"
	"verif/harness/internal/runlog"
	"verif/harness/internal/uc"
)

// ---------------------------------------------------------------------------
// structural view of a config (hook), normalised for nil = absent = empty

// snapString renders the stored tree of c: kind, stored field name and
// payload of every node. With strict=false nil values and empty
// sub-configurations are one value: they are dropped from dictionaries and
// become nil inside lists; with trim trailing nils of a list part are dropped
// as well (a node reified as a map does not show them).
func snapString(c *ucfg.Config, strict, trim bool) string {
	if strict {
		return ucfg.VerifFingerprint(c, false)
	}
	var b strings.Builder
	n := ucfg.VerifSnapshot(c)
	if !snapEmpty(&n, trim) {
		snapRender(&b, &n, 0)
	}
	return b.String()
}

// snapEmpty prunes n in place and reports whether it is nil or empty.
func snapEmpty(n *ucfg.VerifNode, trim bool) bool {
	if n.Kind == "nil" {
		return true
	}
	if n.Kind != "sub" {
		return false
	}
	var names []string
	var dict []ucfg.VerifNode
	for i := range n.Dict {
		if !snapEmpty(&n.Dict[i], trim) {
			names = append(names, n.Names[i])
			dict = append(dict, n.Dict[i])
		}
	}
	n.Names, n.Dict = names, dict
	last := -1
	for i := range n.Arr {
		if snapEmpty(&n.Arr[i], trim) {
			n.Arr[i] = ucfg.VerifNode{Kind: "nil"}
		} else {
			last = i
		}
	}
	if trim {
		n.Arr = n.Arr[:last+1]
	}
	return len(n.Dict) == 0 && len(n.Arr) == 0
}

func snapRender(b *strings.Builder, n *ucfg.VerifNode, depth int) {
	ind := strings.Repeat(" ", depth)
	if n.Kind == "nil" {
		fmt.Fprintf(b, "%snil\n", ind)
		return
	}
	kind := n.Kind
	if kind == "int" || kind == "uint" {
		// integers compare by value: 0 is stored as a signed or an unsigned
		// number depending on the Go type it came from
		kind = "integer"
	}
	fmt.Fprintf(b, "%s%s field=%q prim=%q src=%q\n", ind, kind, n.Field, n.Prim, n.Source)
	for i, name := range n.Names {
		fmt.Fprintf(b, "%s .%s:\n", ind, name)
		snapRender(b, &n.Dict[i], depth+2)
	}
	for i := range n.Arr {
		fmt.Fprintf(b, "%s [%d]:\n", ind, i)
		snapRender(b, &n.Arr[i], depth+2)
	}
}

func newFrom(v interface{}, opts []ucfg.Option) (c *ucfg.Config, err error) {
	err = uc.Safe("NewFrom", func() error {
		var e error
		c, e = ucfg.NewFrom(v, opts...)
		return e
	})
	return c, err
}

// ---------------------------------------------------------------------------
// what an input has to normalise to

// expectation is the model's reading of an input under an option set.
type expectation struct {
	o       OptSet
	m       *analysis
	want    interface{}
	wantStr string
	// EscapePath: whether the brackets stay part of the name is not stated; if
	// bracketed keys occur, alt is the reading without them and either is accepted
	alt    *analysis
	altStr string
}

func expectFor(f *gen.Tree, o OptSet) *expectation { return expectForAs(f, o, false) }

// expectForAs: with nilConts the nil nodes of f may be spelled as nil maps or
// nil slices, which are empty containers rather than nil values.
func expectForAs(f *gen.Tree, o OptSet, nilConts bool) *expectation {
	e := &expectation{o: o, m: analyseAs(f, o, false, nilConts)}
	e.want = e.m.root.reify()
	e.wantStr = o.show(e.want)
	if e.m.escapedKeys > 0 {
		e.alt = analyseAs(f, o, true, nilConts)
		e.altStr = o.show(e.alt.root.reify())
	}
	return e
}

func (e *expectation) mustFail() bool {
	return e.m.mustFail && (e.alt == nil || e.alt.mustFail)
}

func (e *expectation) mayFail() bool {
	return e.m.mustFail || e.m.ambiguous || (e.alt != nil && (e.alt.mustFail || e.alt.ambiguous))
}

// comparable reports whether the value of the result is decided.
func (e *expectation) comparable() bool {
	return !e.m.ambiguous && !e.m.hazard && (e.alt == nil || !e.alt.ambiguous)
}

// exact reports whether the stored tree is decided as well (compared through the hook).
func (e *expectation) exact() bool { return e.comparable() && e.alt == nil }

// verdict checks the outcome of a normalisation against the model. It returns
// the generic view if there is one to look at further.
func (e *expectation) verdict(desc fmt.Stringer, cfg *ucfg.Config, err error) (got interface{}, more bool, fail error) {
	m := e.m
	if err != nil {
		reason, typed := reasonOf(err)
		if !typed {
			return nil, false, fmt.Errorf("%s: failed with an error that is no ucfg.Error: %v", desc, err)
		}
		switch {
		case !e.mayFail():
			return nil, false, fmt.Errorf("%s: no setting is defined twice, but the input was rejected: %v\n expected %s", desc, err, e.wantStr)
		case reason == ucfg.ErrDuplicateKey:
		case reason == ucfg.ErrExpectedObject && m.throughPrim:
			// a dotted key that runs through a primitive defined by another key of the same object
		default:
			return nil, false, fmt.Errorf("%s: a setting is defined twice (%s), the error must be ErrDuplicateKey but is %v: %v", desc, m.conflict, reason, err)
		}
		return nil, false, nil
	}
	opts := e.o.options()
	if e.mustFail() {
		got, _ := uc.Dump(cfg, opts...)
		return nil, false, fmt.Errorf("%s: a setting is defined twice (%s) but the input was accepted\n result %s", desc, m.conflict, e.o.show(got))
	}
	got, err = uc.Dump(cfg, opts...)
	if err != nil {
		return nil, false, fmt.Errorf("%s: unpacking failed: %v", desc, err)
	}
	if !e.comparable() {
		return got, false, nil
	}
	if s := e.o.show(got); s != e.wantStr && (e.alt == nil || s != e.altStr) {
		return nil, false, fmt.Errorf("%s: the result does not equal the tree the input spells\n got  %s\n want %s", desc, s, e.wantStr)
	}
	return got, true, nil
}

func (e *expectation) classes(add func(string)) {
	m := e.m
	addIf := func(cond bool, label string) {
		if cond {
			add(label)
		}
	}
	switch {
	case e.mustFail():
		add("verdict: duplicate (" + m.conflict + ")")
		addIf(m.throughPrim, "duplicate: a dotted key runs through a primitive (ErrExpectedObject accepted too)")
		addIf(m.underShared, "duplicate: below a container that is given by two values")
	case m.ambiguous:
		add("verdict: either (primitive vs nil/empty container)")
	case !e.comparable():
		add("verdict: accepted, value not compared (names next to a list part that the generic view can not tell apart)")
	default:
		add("verdict: equal to the nested tree")
		addIf(m.shared > 0, "container assembled from >=2 spellings")
		addIf(m.contTwice > 0, "container given by two values, disjoint leaves: merged")
		addIf(m.dottedNextToNested > 0, "dotted edge next to a nested sibling")
	}
	addIf(m.dotted == 0, "no dotted key")
	addIf(m.idxSegs > 0, "index segment in a dotted key")
	addIf(m.maxSegs >= 3, "dotted key with >=3 segments")
	addIf(m.sameKeyTwice > 0, "an object holds one key twice")
	addIf(m.decoyKeys > 0, "key with separator-like characters that stays whole")
	addIf(m.escapedKeys > 0, "bracketed key under EscapePath")
	addIf(m.numNames > 0, "integer literal that is a name under the options")
	addIf(m.emptyKeys > 0, "key: the empty name as a key of its own")
	addIf(m.emptyInner > 0, "key: dotted with an empty segment inside (a..c)")
	addIf(m.emptyLead > 0, "key: dotted, begins with the separator (.x)")
	addIf(m.emptyTrail > 0, "key: dotted, ends with the separator (x.)")
	addIf(m.onlySeps > 0, "key: separators only (., ..)")
	addIf(m.blankSegs > 0, "key: blank name or name with leading/trailing white space")
	addIf(m.oddIdx > 0, "key: index not in plain decimal (+1, -0, 00, 0x1, 010, 1_0)")
	addIf(m.oddNum > 0, "key: numeric-looking name that is no index under any option set (-1, >= 2^63-1, other digits)")
	addIf(m.longSegs > 0, "key: name of >= 100 bytes")
	addIf(m.otherSepSegs > 0, "key: name that is the separator of another option set")
	addIf(m.caseSegs > 0, "key: name with an upper-case letter")
	if m.emptyInner+m.emptyLead+m.emptyTrail > 0 {
		switch {
		case e.mustFail():
			add("empty segment: duplicate")
		case e.comparable():
			add("empty segment: value compared")
		}
	}
}

func usedClasses(r *runlog.R, used map[string]int) {
	labels := make([]string, 0, len(used))
	for k := range used {
		labels = append(labels, k)
	}
	sort.Strings(labels)
	for _, k := range labels {
		switch k {
		case "pointer to primitive", "nil *int", "map[string]interface{}", "[]interface{}":
		default:
			r.Class("repr:" + k)
		}
	}
}

// ---------------------------------------------------------------------------
// (a) representations, round trip, idempotence

// ReprCase is a data tree with the representation choices of the first
// variant in the R fields of T and further variants in Alts.
type ReprCase struct {
	T      *gen.Tree `json:"t"`
	Alts   [][]int   `json:"alts,omitempty"`   // alternative representation choices, applied to the nodes of T in pre-order (cyclically)
	Opt    int       `json:"opt,omitempty"`    // cases recorded before O existed: 0 no option, 1 PathSep("."), 2 EnableNumKeys(true)
	O      *OptSet   `json:"o,omitempty"`      // the options
	Scheme int       `json:"scheme,omitempty"` // names under the struct tags the options do not select
}

func (c ReprCase) optset() OptSet {
	if c.O != nil {
		return *c.O
	}
	switch c.Opt {
	case 1:
		return OptSet{Sep: "."}
	case 2:
		return OptSet{NumKeys: true}
	}
	return OptSet{}
}

var reprBase = []string{"a", "b", "c", "d", "a", "b", "é", "x y", "A_1", "0", "1"}

func reprKeys(o OptSet) []string {
	keys := keysFor(o, reprBase)
	if o.Sep == "" {
		keys = append(keys, "a.b", "c.d.e", "")
	}
	if o.NumKeys {
		keys = append(keys, "007", "10")
	}
	if o.Esc {
		keys = append(keys, "[e"+o.Sep+"f]", "[g]", "[e"+o.Sep+"f]")
	}
	if o.Sep != "" {
		// dotted spellings of paths through the empty name
		keys = append(keys, o.Sep+"x", "x"+o.Sep, o.Sep)
		if !selfOverlap(o.Sep) {
			keys = append(keys, "a"+o.Sep+o.Sep+"c")
		}
	}
	return keys
}

// drawReprs adds the representation bits the shared generator does not draw
// (pointer levels, primitive variants, struct layouts).
func drawReprs(t *rapid.T, tr *gen.Tree) {
	var nodes []*gen.Tree
	preorder(tr, &nodes)
	for _, n := range nodes {
		if n.IsCont() {
			n.R = n.R%16 + 16*rapid.IntRange(0, 3).Draw(t, "ptr")
			st := n.K == "obj" && (n.R%8 == 2 || n.R%8 == 7)
			if st {
				n.R += 64 * drawLayout(t)
			}
			n.R |= drawHigh(t, st) | drawNames(t)
		} else {
			n.R = drawPrimRepr(t, n)
		}
	}
}

func genRepr(t *rapid.T) ReprCase {
	o := genOptSet(t, 2)
	c := ReprCase{O: &o, Scheme: rapid.IntRange(0, nSchemes-1).Draw(t, "scheme")}
	cfg := &gen.TreeCfg{Depth: runlog.Pick(3, 5), Width: runlog.Pick(4, 6), Keys: append(append(reprKeys(o), drawOdd(t, o)...), append(drawUni(t, o), drawWord(t, o)...)...), Strings: gen.HostileStrings, Reprs: true}
	if rapid.IntRange(0, 4).Draw(t, "toplist") == 0 {
		c.T = gen.GenList(t, cfg, cfg.Depth)
	} else {
		c.T = gen.GenObj(t, cfg, cfg.Depth)
	}
	enrich(t, c.T)
	drawReprs(t, c.T)
	n := rapid.IntRange(1, 2).Draw(t, "nalts")
	for i := 0; i < n; i++ {
		alt := rapid.SliceOfN(rapid.IntRange(0, 63), 1, 12).Draw(t, "alt")
		for j, r := range alt {
			// (an entry applies to containers and primitives alike: bits 6-18 are
			// the layout of a struct or the kind selector of a primitive)
			st := r%8 == 2 || r%8 == 7
			if st {
				alt[j] += 64 * drawLayout(t)
			} else {
				alt[j] += rapid.IntRange(0, 15).Draw(t, "primsel") << primSelShift
			}
			alt[j] |= drawHigh(t, st) | drawNames(t)
		}
		c.Alts = append(c.Alts, alt)
	}
	return c
}

// hasNilOrEmpty reports whether the tree contains nil values, empty
// containers or keys that address the list part of a node.
func hasNilOrEmpty(t *gen.Tree, o OptSet) bool {
	found := false
	t.Walk(nil, func(_ []string, n *gen.Tree) {
		if n.K == "nil" || (n.IsCont() && len(n.Vals) == 0) {
			found = true
		}
		if n.K == "obj" {
			for _, k := range n.Keys {
				segs := o.split(k)
				for _, s := range segs {
					if _, ok := o.index(s, len(segs) > 1); ok {
						found = true
					}
				}
			}
		}
	})
	return found
}

func runRepr(c ReprCase, r *runlog.R) error {
	o := c.optset()
	if c.T == nil || !c.T.IsCont() || !o.valid() || c.Scheme < 0 {
		r.Discard()
		return nil
	}
	opts := o.options()
	e := expectForAs(c.T, o, true)
	if e.m.unclear {
		r.Discard()
		return nil
	}
	show := o.show
	strict := e.exact() && !hasNilOrEmpty(c.T, o) && e.m.dotted == 0

	variants := []*gen.Tree{c.T, withReprs(c.T, nil)}
	for _, a := range c.Alts {
		variants = append(variants, withReprs(c.T, a))
	}
	used := map[string]int{}
	for vi, vt := range variants {
		b := &builder{opts: opts, used: used, nilConts: true, primary: o.tagIdx(), scheme: c.Scheme, sep: o.Sep}
		var src interface{}
		err := uc.Safe("building the input", func() error {
			var e error
			src, e = b.build(vt)
			return e
		})
		desc := lazy(func() string {
			return fmt.Sprintf("variant %d: NewFrom(%T) under %s of %s", vi, src, o, showOrderedAs(vt, true))
		})
		// (building fails if a part that is written as a *Config holds a duplicate: same verdict)
		var c1 *ucfg.Config
		if err == nil {
			c1, err = newFrom(src, opts)
		}
		d1, more, fail := e.verdict(desc, c1, err)
		if fail != nil {
			return fail
		}
		if err != nil {
			continue
		}
		if vi == 0 && more {
			// the same through an interface{}-typed struct field
			var w struct {
				V interface{} `config:"v" json:"v" yaml:"v" alt:"v"`
			}
			cw, err := newFrom(map[string]interface{}{"v": src}, opts)
			if err != nil {
				return fmt.Errorf("%s: NewFrom({v: input}) failed: %v", desc, err)
			}
			if err := uc.Safe("Unpack", func() error { return cw.Unpack(&w, opts...) }); err != nil {
				return fmt.Errorf("%s: unpacking into struct{V interface{}} failed: %v", desc, err)
			}
			if s := show(w.V); s != e.wantStr && (e.alt == nil || s != e.altStr) {
				return fmt.Errorf("%s: unpacked into an interface{} field: the generic view differs from the data\n got  %s\n want %s", desc, s, e.wantStr)
			}
		}
		if !e.exact() {
			continue
		}
		// idempotence: the unpacked result fed back in
		c2, err := newFrom(d1, opts)
		if err != nil {
			return fmt.Errorf("%s: NewFrom(unpacked result) failed: %v\n data %s", desc, err, canon.Show(d1))
		}
		d2, err := uc.Dump(c2, opts...)
		if err != nil {
			return fmt.Errorf("%s: unpacking the second config failed: %v", desc, err)
		}
		if !o.equal(d2, d1) {
			return fmt.Errorf("%s: feeding the unpacked result back in changes the generic view\n first  %s\n second %s", desc, show(d1), show(d2))
		}
		if s1, s2 := snapString(c1, false, e.m.dotted > 0), snapString(c2, false, e.m.dotted > 0); s1 != s2 {
			return fmt.Errorf("%s: feeding the unpacked result back in yields a different config (nil = absent = empty)\n--- first\n%s--- second\n%s", desc, s1, s2)
		}
		if strict {
			if s1, s2 := snapString(c1, true, false), snapString(c2, true, false); s1 != s2 {
				return fmt.Errorf("%s: feeding the unpacked result back in yields a different config\n--- first\n%s--- second\n%s", desc, s1, s2)
			}
		}
	}
	kinds := 0
	for k := range used {
		switch {
		case k == "pointer to primitive", k == "nil *int", k == "nil map", k == "nil slice":
		case strings.HasPrefix(k, "prim: "), strings.HasPrefix(k, "nil: "), strings.HasPrefix(k, "chain: "):
		case k == "map[string]interface{}", k == "[]interface{}":
		default:
			kinds++
		}
		r.Class("repr:" + k)
	}
	r.NonTrivialIf(kinds >= 2)
	o.classes(r.Class)
	e.classes(r.Class)
	r.ClassIf(strict, "strict fingerprint compared")
	r.ClassIf(c.T.K == "list", "top-level list")
	return nil
}

var subRepr = runlog.Register(&runlog.Sub[ReprCase]{
	Name: "repr-roundtrip",
	Rule: "an option set (no PathSep or one of 37 separators: single characters incl. regexp/printf metacharacters, multi-character and multi-byte ones; EnableNumKeys; MaxIdx 0/1/2/5/4000; StructTag with one of 4 tag names; EscapePath; options in either order) and a random tree (hostile strings, nil, empty containers, keys incl. blank/empty/integer literals, keys holding other separators or parts of the separator, bracketed keys holding the separator with and without EscapePath; under every option set the empty name and, per case, three names from the edge of the key alphabet: blanks and names with leading/trailing white space, integer literals not in plain decimal (+1 -0 00 0x1 010 1_0: list indices by strconv base 0), numeric-looking names that are no index (-1, 2^63-1, 10^30, an Arabic-Indic digit), upper-case names, a name of 300 bytes, the separators of the other option sets; with a separator also the dotted keys \"<sep>x\", \"x<sep>\", \"<sep>\", \"a<sep><sep>c\", which spell paths through the empty name) built in 3-4 mixed Go representations (as drawn, generic, 1-2 alternative choice vectors: generic/interface-keyed/named/typed maps, slices, arrays, StructOf structs with typed fields whose keys are spread over tagged fields and inline members (maps of 4 kinds, struct, *struct, nested inline struct, interface{} field), every field tagged under the selected one of 4 tag names, which carries the keys, and under one other, which carries another name - or, for keys that are lower-cased identifiers (a, é, öl, ärmel, a Georgian and a Deseret letter: first letters of 1-4 bytes; one such key is in the alphabet of every case), no tag and the key with its first letter upper-cased as Go field name -; the Go names of tagged fields and inline members are taken from one of 8 alphabets per struct (F0.. M0.., or an upper-case first letter of 2 bytes (Latin-1, Greek, Latin Extended, a digraph), 3 bytes (Georgian Mtavruli) or 4 bytes (Deseret)); one struct in four also has an unexported field (lower-case ASCII / non-ASCII, caseless, title-case or underscore first letter) that is tagged with the key of the first field and holds int 0, which is no part of the data; every second struct writes option lists in its tags, under every tag name: around the option that shapes the field (inline/squash of a member, the squash inside a nested inline struct, ignore; none for a named field) stand 1-3 further words, before and/or after it - the merge-handling options merge/replace/append/prepend, which say nothing about the data, the shaping option a second time (\",inline,squash\", \"x,ignore,ignore\"), words that are no option (omitempty, x, nothing between two commas or after the last one) -, 13 such lists mixed from field to field by a seed (\"a,replace\" \",merge,inline\" \",append,squash,prepend\" \",inline,,append\" \"a,\" \",omitempty,replace,ignore,merge\" ...), a field without tag may carry options without a name (\",replace\": the lower-cased Go name applies); one struct in four (and its inline struct members) has one more exported field with the option ignore, alone or in such a list, named like the first field or unnamed, first or last, holding a string or a map: no part of the data; every second case has one key that spells an option word (inline ignore replace squash merge append prepend omitempty) and is the NAME of a tag or the Go name of a field without tag; 1-3 pointer levels, *Config also rebranded as type T ucfg.Config, maps with a named string key type; interface-keyed maps of 4 Go types (map[interface{}]interface{}, a named one, key type a named empty interface, key type an interface with a method) whose keys are strings and values of three named string types, mixed from key to key; numbers drawn over the whole range of every sized Go kind - the boundaries of int8..int64 / uint8..uint64 and their neighbours, any value in between, any float32 widened exactly (4 of 5 are not the float64 of their shortest decimal text), any float64, +-Inf, -0, no NaN - and given in their natural type, in any sized kind that holds them exactly (int8/16/32/64/int, uint8/16/32/64/uint, float32), in a named type of any of these kinds, named string/bool, behind 1-2 pointers; the primitives of a typed map, slice or array are built in one kind that holds them all ([]float32, [N]int8, map[string]uint16, []*nI32 ...); nil as untyped nil, nil *int / *interface{} / **int, a **int to a nil *int, nil map / slice / named slice, nil pointer to map, struct, Config, slice, array; around any node, the top level included, and around inline members a chain of up to 4 links, each a typed pointer, a pointer to an interface{} variable or a pointer to a variable of a named interface type, in any alternation (*interface{} and **interface{} struct fields, []interface{} element holding *interface{} holding *T, pointer to a nil interface ...); typed containers whose children share no Go type with every child boxed: map[string]*interface{}, []*interface{}, [N]*interface{}); numbers compare by exact value; for each: the generic view of NewFrom(repr, options) equals the tree the model computes from T under the options (integer literals are list indices unless numeric keys are enabled or they exceed MaxIdx; brackets of an escaped key may stay or go; an empty segment of a dotted key is the empty name; two literals of one index in one object define one element twice: ErrDuplicateKey for two primitives, either outcome if one of them is a nil, which may be built as an empty container here), also through an interface{}-typed struct field; NewFrom(Dump) has the same generic view and the same hook fingerprint (nil = absent = empty; byte-identical when T has no nil/empty/index keys). Values are not compared when a node has names next to a list part under EnableNumKeys or beyond MaxIdx. Non-trivial: at least 2 different container representations other than the generic map[string]interface{} / []interface{} occur in the case. Distinct: hash of the case.",
	Gen:  genRepr,
	Run:  runRepr,
})

func TestReprRoundTrip(t *testing.T) { subRepr.Check(t, 50000, 2000000) }

// ---------------------------------------------------------------------------
// (b), (c) dotted spellings

// FlatCase is an input written with dotted keys: F is given to NewFrom as it
// is (object keys in insertion order, representation per node in R) under the
// options O. What it has to normalise to is computed by the model in
// flat_test.go from F and O alone.
type FlatCase struct {
	F       *gen.Tree `json:"f"`
	Planted string    `json:"planted,omitempty"` // what the generator planted (label for the class histogram only)
	O       OptSet    `json:"o"`                 // the options; without a separator PathSep(".") applies (cases recorded before O existed)
	Scheme  int       `json:"scheme,omitempty"`  // names under the struct tags the options do not select
}

const maxOrders = 48

// An ordering names one object of F (by pre-order position) and the order in
// which its keys are inserted; node < 0 is F as stated.
type ordering struct {
	node int
	perm []int
}

// overlapping reports whether two keys of the object start with the same
// segment, i.e. whether the object spells some container more than once. Only
// then can the order in which its keys are processed matter.
func overlapping(n *gen.Tree, o OptSet) bool {
	seen := map[string]bool{}
	for _, k := range n.Keys {
		segs := o.split(k)
		first := segs[0]
		if i, ok := o.index(first, len(segs) > 1); ok {
			first = fmt.Sprint(i)
		}
		if seen[first] {
			return true
		}
		seen[first] = true
	}
	return false
}

// inlineOverlap reports whether some object of the tree is written as a
// struct in which a key of an inline member starts with the same segment as a
// key outside that member (in the order as stated).
func inlineOverlap(nodes []*gen.Tree, o OptSet) bool {
	first := func(k string) string {
		segs := o.split(k)
		if i, ok := o.index(segs[0], len(segs) > 1); ok {
			return fmt.Sprint(i)
		}
		return segs[0]
	}
	for _, n := range nodes {
		if !asStruct(n) {
			continue
		}
		for _, s := range layoutOf(n) {
			if s.kind == segFields {
				continue
			}
			for i := s.from; i < s.to; i++ {
				for j, k := range n.Keys {
					if (j < s.from || j >= s.to) && first(k) == first(n.Keys[i]) {
						return true
					}
				}
			}
		}
	}
	return false
}

// orderings lists the insertion orders to run: F as stated, then every
// insertion order of the keys of each object that spells a container more
// than once (one object permuted at a time, the others as stated): all n!
// orders for objects of up to 4 keys, rotations and the reversal above that.
func orderings(nodes []*gen.Tree, o OptSet) (out []ordering, capped bool) {
	out = append(out, ordering{node: -1})
	for ni, n := range nodes {
		if n.K != "obj" || len(n.Keys) < 2 || !overlapping(n, o) {
			continue
		}
		for _, p := range perms(len(n.Keys)) {
			if len(out) >= maxOrders {
				return out, true
			}
			out = append(out, ordering{node: ni, perm: p})
		}
	}
	return out, false
}

// apply permutes the keys of the named object in place and returns the undo.
func (o ordering) apply(nodes []*gen.Tree) func() {
	if o.node < 0 {
		return func() {}
	}
	m := nodes[o.node]
	keys, vals := m.Keys, m.Vals
	m.Keys, m.Vals = make([]string, len(o.perm)), make([]*gen.Tree, len(o.perm))
	for i, j := range o.perm {
		m.Keys[i], m.Vals[i] = keys[j], vals[j]
	}
	return func() { m.Keys, m.Vals = keys, vals }
}

// perms returns the non-identity orders to try for n keys.
func perms(n int) [][]int {
	var out [][]int
	if n <= 4 {
		p := make([]int, n)
		for i := range p {
			p[i] = i
		}
		var rec func(k int)
		rec = func(k int) {
			if k == n {
				id := true
				for i, v := range p {
					if i != v {
						id = false
					}
				}
				if !id {
					out = append(out, append([]int(nil), p...))
				}
				return
			}
			for i := k; i < n; i++ {
				p[k], p[i] = p[i], p[k]
				rec(k + 1)
				p[k], p[i] = p[i], p[k]
			}
		}
		rec(0)
		return out
	}
	for s := 1; s < n; s++ {
		p := make([]int, n)
		for i := range p {
			p[i] = (i + s) % n
		}
		out = append(out, p)
	}
	rev := make([]int, n)
	for i := range rev {
		rev[i] = n - 1 - i
	}
	return append(out, rev)
}

// showOrdered renders a tree with its object keys in insertion order; objects
// written as structs are marked with their layout, primitives and nils that
// are not given in their natural Go type with the type they are built in, and
// nodes behind a pointer/interface chain with its links (innermost first: p
// typed pointer, i pointer to an interface{} variable, n pointer to a variable
// of a named interface type).
func showOrdered(t *gen.Tree) string { return showOrderedAs(t, false) }

func showLinks(w int) string {
	out := ""
	for ; w != 0; w >>= 2 {
		out += string("-pin"[w&3])
	}
	return out
}

func showOrderedAs(t *gen.Tree, nilConts bool) string {
	var b strings.Builder
	scratch := &builder{used: map[string]int{}, nilConts: nilConts}
	var rec func(t *gen.Tree, r int, group []*gen.Tree)
	children := func(t *gen.Tree) {
		uniform := typedCont(t) && len(t.Vals) > 1 && sameClassPrims(t.Vals)
		for i, e := range t.Vals {
			if i > 0 {
				b.WriteString(", ")
			}
			if t.K == "obj" {
				fmt.Fprintf(&b, "%q: ", t.Keys[i])
			}
			if uniform {
				rec(e, t.Vals[0].R, t.Vals)
			} else {
				rec(e, e.R, []*gen.Tree{e})
			}
		}
	}
	rec = func(t *gen.Tree, r int, group []*gen.Tree) {
		switch t.K {
		case "obj":
			b.WriteString("{")
			children(t)
			b.WriteString("}")
			if asStruct(t) {
				fmt.Fprintf(&b, "#struct(%s", showLayout(t))
				if st := nameStyle(t.R); st != 0 {
					fmt.Fprintf(&b, "; Go names %s..", fieldPrefix[st])
				}
				if t.R&decoyBit != 0 {
					b.WriteString("; unexported field")
				}
				if tg := showTags(t); tg != "" {
					b.WriteString("; " + tg)
				}
				for run := range layoutOf(t) {
					if w := (t.R >> (inlineShift + 4*run)) & 15; w != 0 {
						fmt.Fprintf(&b, "; member %d @%s", run, showLinks(w))
					}
				}
				b.WriteString(")")
			}
		case "list":
			b.WriteString("[")
			children(t)
			b.WriteString("]")
		default:
			b.WriteString(canon.Show(t.Prim()))
			if built := scratch.primAs(t, r, group); built != nil && reflect.TypeOf(built) != reflect.TypeOf(t.Prim()) {
				fmt.Fprintf(&b, "(%T)", built)
			}
			return
		}
		if t.R&boxBit != 0 && typedCont(t) {
			b.WriteString("#boxed")
		}
		if t.K == "obj" && t.R%8 == 1 && !asStruct(t) {
			fmt.Fprintf(&b, "#ifacemap(key seed %d)", keySeed(t.R))
		}
		if w := (t.R >> chainShift) & 0xff; w != 0 {
			b.WriteString("@" + showLinks(w))
		}
	}
	rec(t, t.R, []*gen.Tree{t})
	return b.String()
}

// lazy defers the rendering of a description until it is printed.
type lazy func() string

func (l lazy) String() string { return l() }

func reasonOf(err error) (error, bool) {
	ue, ok := err.(ucfg.Error)
	if !ok || ue == nil {
		return nil, false
	}
	return ue.Reason(), true
}

func runFlat(c FlatCase, r *runlog.R) error {
	o := c.O
	if o.Sep == "" {
		o.Sep = "."
	}
	if c.F == nil || !c.F.IsCont() || !o.valid() || c.Scheme < 0 {
		r.Discard()
		return nil
	}
	opts := o.options()
	e := expectFor(c.F, o)
	m := e.m
	if m.unclear {
		r.Discard()
		return nil
	}
	show := o.show

	f := c.F.Clone()
	var nodes []*gen.Tree
	preorder(f, &nodes)
	variants, capped := orderings(nodes, o)
	// The verdict of a defective implementation depends on the iteration order
	// of Go maps, which differs from run to run even for one insertion order
	// (for small maps the insertion order is the likely one); inputs with a
	// doubly defined setting are therefore tried several times per order.
	reps := 1
	if m.mustFail || m.ambiguous {
		reps = 2
	}
	if runlog.Env().Replay != "" {
		reps = 8 // a replay decides one case: make an order-dependent outcome show up with near certainty
	}
	used := map[string]int{}
	for vi, ord := range variants {
		for rep := 0; rep < reps; rep++ {
			b := &builder{opts: opts, used: used, primary: o.tagIdx(), scheme: c.Scheme, sep: o.Sep}
			var src interface{}
			var cfg *ucfg.Config
			undo := ord.apply(nodes)
			desc := lazy(func() string {
				undo := ord.apply(nodes)
				defer undo()
				return fmt.Sprintf("NewFrom under %s of insertion order %d of %s", o, vi, showOrdered(f))
			})
			err := uc.Safe("building the input", func() error {
				var e error
				src, e = b.build(f)
				return e
			})
			undo()
			if err == nil {
				cfg, err = newFrom(src, opts)
			}
			got, more, fail := e.verdict(desc, cfg, err)
			if fail != nil {
				return fail
			}
			if !more || vi > 0 || !e.exact() {
				continue
			}
			// the nested spelling, built from the model's result, gives the same config
			nested := ucfg.New()
			if e.want != nil {
				nested, err = newFrom(e.want, opts)
			}
			if err != nil {
				return fmt.Errorf("NewFrom(nested tree) under %s failed: %v\n tree %s", o, err, e.wantStr)
			}
			if s1, s2 := snapString(cfg, false, true), snapString(nested, false, true); s1 != s2 {
				return fmt.Errorf("%s: the config differs from the one built from the nested tree\n--- dotted\n%s--- nested\n%s", desc, s1, s2)
			}
			// and feeding the generic view back in changes nothing
			c2, err := newFrom(got, opts)
			if err != nil {
				return fmt.Errorf("%s: NewFrom(unpacked result) failed: %v", desc, err)
			}
			d2, err := uc.Dump(c2, opts...)
			if err != nil {
				return fmt.Errorf("%s: unpacking the second config failed: %v", desc, err)
			}
			if !o.equal(d2, got) {
				return fmt.Errorf("%s: feeding the unpacked result back in changes the generic view\n first  %s\n second %s", desc, show(got), show(d2))
			}
			if s1, s2 := snapString(cfg, false, true), snapString(c2, false, true); s1 != s2 {
				return fmt.Errorf("%s: feeding the unpacked result back in yields a different config\n--- first\n%s--- second\n%s", desc, s1, s2)
			}
		}
	}

	r.NonTrivialIf(e.mustFail() || m.shared > 0)
	e.classes(r.Class)
	o.classes(r.Class)
	r.ClassIf(capped, "insertion orders capped")
	r.ClassIf(c.F.K == "list", "top-level list")
	r.ClassIf(inlineOverlap(nodes, o), "struct: an inline member overlaps a sibling field or member")
	if c.Planted != "" {
		r.Class("planted:" + c.Planted)
	}
	usedClasses(r, used)
	return nil
}

const flatRule = "an option set with a separator (37 separators: \".\", other single characters incl. every regexp and printf metacharacter, blank, comma, multi-character ones such as \"::\" \"->\" \"..\" \"%s\" \".*\", multi-byte runes; plus EnableNumKeys, MaxIdx 0/1/2/5/4000, StructTag with one of 4 tag names, EscapePath, options in either order) and a random tree T over keys {a,b,c,d,0,1} plus keys that hold parts of the separator or other separators and stay whole (and, without EscapePath, a bracketed key that is split like any other) plus, at every depth, the empty name and three names per case from the edge of the key alphabet (blanks and names with leading/trailing white space; integer literals not in plain decimal such as +1 -0 00 0x1 010 1_0, which are list indices by strconv base 0; numeric-looking names that are no index: -1, 2^63-1, 10^30, an Arabic-Indic digit; upper-case names; a name of 300 bytes; the separators of the other option sets), the empty name below the empty name more often than by chance; every leaf path is cut into dotted groups independently (so any subset of the object edges, and of the list edges as index segments, is written dotted, next to nested spellings of sibling parts; a path through the empty name is joined like any other, giving keys such as \"a..c\", \".x\", \"x.\", \"a..\", \".\" under \".\" and \"a->->c\" under \"->\" - only next to a separator that overlaps itself (\"::\", \"..\", \"--\") the empty name stays nested, as \"a::::c\" is not clear), numbers, nils and pointer/interface chains around nodes and inline members as in repr-roundtrip (every sized and named Go kind over its whole range incl. float32 values that are no short decimals; typed nil pointers; chains of up to 4 typed-pointer / pointer-to-interface links in any alternation; boxed children of typed containers), objects are generic maps (1/2), structs (1/4: keys in tags, spread in their stated order over runs of tagged fields and inline members - inline maps of 4 kinds, inline struct, *struct, nested inline struct, interface{} field - so that inline members overlap sibling fields; all fields tagged under the selected one of 4 tag names, which carries the keys, and under one other, which carries another name) or any other representation (interface-keyed maps with keys of mixed dynamic types, typed maps, pointers, *Config; Go field names, unexported fields, key types, option lists in tags (>=2 options per tag, the shaping option at any place), ignored exported fields and keys that spell option words as in repr-roundtrip); the spelled input F is the case, with its key insertion orders; run: F as stated plus every insertion order of the keys of every object in which two keys start with the same segment (all n! up to 4 keys, rotations and reversal above, at most 48 inputs; 8 repetitions each in replay mode) under the options must give the tree computed from F by an order-free, representation-free model (split keys at every occurrence of the separator - an empty segment is the empty name, nothing is trimmed or folded -, union, integer segments in [0,MaxIdx] are list indices except single-segment keys under EnableNumKeys; two literals of one index are one element), the same normalised hook fingerprint as NewFrom(nested tree), and be stable when fed back. Values are not compared when a node has names next to a list part under EnableNumKeys or beyond MaxIdx."

var subFlat = runlog.Register(&runlog.Sub[FlatCase]{
	Name: "flatten",
	Rule: flatRule + " Non-trivial: some container is assembled from >=2 spellings (a dotted key through it plus a value, two dotted keys, or two values). Distinct: hash of the case.",
	Gen:  func(t *rapid.T) FlatCase { return genFlat(t, false) },
	Run:  runFlat,
})

var subDup = runlog.Register(&runlog.Sub[FlatCase]{
	Name: "duplicates",
	Rule: "as flatten (same option sets, separators and representations), plus one planted second definition of a path of T in a different spelling: primitive/primitive on a leaf, container over a primitive leaf, primitive over a container, container/container overlapping in a leaf, container/container with fresh (disjoint) leaves (fresh keys also \"e<sep>\" and \"<sep>e\"), a primitive at the path of a leaf with one list index written as another literal of the same number (+1, 01, 0x1, 0X1, 0b1, 0o1, -0, 00), or the same key a second time in one object, at any depth (a struct says that with two fields, or a field and a key of an inline member; an interface-keyed map - as a value or as an inline member, key type interface{}, a named empty interface or an interface with a method - with two keys of different dynamic types that have the same text: \"port\" and nStr(\"port\"), two named string types; 1 in 3, and always for keys no struct tag can carry such as the empty name); the model decides from F alone: a primitive defined twice or a primitive and a container with a primitive below it at one path => NewFrom must fail with Reason()==ErrDuplicateKey (ErrExpectedObject also accepted iff a dotted key runs through a primitive given by another key), in every insertion order, each tried twice (8 times in replay mode) because a defective implementation depends on Go map iteration order; a nil second definition defines nothing; disjoint => must merge (a.b and a..b, a and \"a.\" are different settings); primitive vs nil/empty container only => either. Non-trivial: a duplicate, or a container assembled from >=2 spellings. Distinct: hash of the case.",
	Gen:  func(t *rapid.T) FlatCase { return genFlat(t, true) },
	Run:  runFlat,
})

// The thorough counts of the sub-checks that build many struct types are
// bounded by memory: reflect keeps every type made by StructOf (and its
// pointer type) for ever, about 10 KB per case here; 16 shards share one
// machine.
func TestFlatten(t *testing.T)    { subFlat.Check(t, 18000, 500000) }
func TestDuplicates(t *testing.T) { subDup.Check(t, 16000, 300000) }

// ---------------------------------------------------------------------------
// (d) one value under several option sets, one after the other

// HistCase is one input (built once: the same Go value, the same types) that
// is normalised under each of Steps in turn, and under the first one again at
// the end.
type HistCase struct {
	F       *gen.Tree `json:"f"`
	Sep     string    `json:"sep,omitempty"`     // the separator F was spelled with
	Primary int       `json:"primary,omitempty"` // index into tagNames of the tag that carries the keys of F
	Scheme  int       `json:"scheme,omitempty"`  // names under the other tags
	Steps   []Step    `json:"steps"`
	Planted string    `json:"planted,omitempty"`
}

type Step struct {
	O     OptSet `json:"o"`
	Merge bool   `json:"merge,omitempty"` // New() + Merge(input, options) instead of NewFrom(input, options)
}

func genHist(t *rapid.T) HistCase {
	spell := genOptSet(t, 1)
	fc := genFlatWith(t, spell, rapid.IntRange(0, 3).Draw(t, "plant") == 0, true)
	c := HistCase{F: fc.F, Sep: spell.Sep, Planted: fc.Planted, Scheme: fc.Scheme, Primary: rapid.IntRange(0, 3).Draw(t, "primary")}
	inKeys := sepsInKeys(fc.F, spell.Sep)
	n := rapid.IntRange(2, 3).Draw(t, "nsteps")
	for i := 0; i < n; i++ {
		o := genOptSet(t, 0)
		switch rapid.IntRange(0, 5).Draw(t, "stepsep") {
		case 0:
		case 1:
			o.Sep = rapid.SampledFrom(separators).Draw(t, "othersep")
			if len(inKeys) > 0 && rapid.Bool().Draw(t, "sep-from-keys") {
				// a separator that occurs in a key of the input (as a name of its own, inside a
				// name, or made of the spelling separator: ".." in "a..c"): the key is split there
				o.Sep = rapid.SampledFrom(inKeys).Draw(t, "keysep")
			}
		default:
			o.Sep = spell.Sep
		}
		if o.Sep != "" && !strings.ContainsAny(o.Sep, "[]") && rapid.IntRange(0, 7).Draw(t, "esc") == 7 {
			o.Esc = true
		}
		// the tag varies more often than in genOptSet
		if rapid.Bool().Draw(t, "steptag") {
			o.Tag = rapid.IntRange(0, 4).Draw(t, "tag")
		}
		c.Steps = append(c.Steps, Step{O: o, Merge: rapid.IntRange(0, 3).Draw(t, "merge") == 0})
	}
	return c
}

// sepsInKeys lists the separators other than spell that occur in some key of f.
func sepsInKeys(f *gen.Tree, spell string) []string {
	var out []string
	seen := map[string]bool{spell: true}
	for _, s := range separators {
		if seen[s] {
			continue
		}
		seen[s] = true
		found := false
		f.Walk(nil, func(_ []string, n *gen.Tree) {
			if n.K == "obj" {
				for _, k := range n.Keys {
					if strings.Contains(k, s) {
						found = true
					}
				}
			}
		})
		if found {
			out = append(out, s)
		}
	}
	return out
}

func runHist(c HistCase, r *runlog.R) error {
	if c.F == nil || !c.F.IsCont() || len(c.Steps) == 0 || c.Primary < 0 || c.Primary > 3 || c.Scheme < 0 {
		r.Discard()
		return nil
	}
	for _, s := range c.Steps {
		if !s.O.valid() {
			r.Discard()
			return nil
		}
	}
	used := map[string]int{}
	b := &builder{used: used, primary: c.Primary, scheme: c.Scheme, sep: c.Sep, noConfig: true, allTags: true}
	var src interface{}
	if err := uc.Safe("building the input", func() error {
		var e error
		src, e = b.build(c.F)
		return e
	}); err != nil {
		return fmt.Errorf("building the input failed: %v", err)
	}

	steps := append(append([]Step(nil), c.Steps...), c.Steps[0])
	type outcome struct {
		applied bool
		ok      bool
		print   string // what the model expects: verdict and value
		strict  string
	}
	outs := make([]outcome, len(steps))
	sawStruct, splitByOther, emptyByOther := false, false, false
	var exps []*expectation
	for si, st := range steps {
		o := st.O
		fv := viewUnder(c.F, c.Primary, o.tagIdx(), c.Scheme, c.Sep)
		e := expectFor(fv, o)
		if e.m.unclear {
			// some key is not clearly split under this separator: the step is left out
			continue
		}
		opts := o.options()
		via := "NewFrom"
		if st.Merge {
			via = "New+Merge"
		}
		desc := lazy(func() string {
			return fmt.Sprintf("step %d of %d: %s under %s of %s (keys as tag %q says: %s)", si+1, len(steps), via, o, showOrdered(c.F), tagNames[o.tagIdx()], showOrdered(fv))
		})
		var cfg *ucfg.Config
		var err error
		if st.Merge {
			err = uc.Safe("Merge", func() error {
				cfg = ucfg.New()
				return cfg.Merge(src, opts...)
			})
		} else {
			cfg, err = newFrom(src, opts)
		}
		if _, _, fail := e.verdict(desc, cfg, err); fail != nil {
			return fail
		}
		outs[si] = outcome{applied: true, ok: err == nil, print: fmt.Sprintf("%v %v %s", e.mustFail(), e.comparable(), e.wantStr)}
		if err == nil {
			outs[si].strict = snapString(cfg, true, false)
		}
		if si < len(c.Steps) {
			exps = append(exps, e)
		}
		if o.tagIdx() != c.Primary {
			sawStruct = true
		}
		if o.Sep != "" && o.Sep != c.Sep && e.m.dotted > 0 {
			splitByOther = true
			if e.m.emptyInner+e.m.emptyLead+e.m.emptyTrail > 0 {
				emptyByOther = true
			}
		}
	}
	// the same input under the same options, before and after the other steps
	first, last := outs[0], outs[len(outs)-1]
	if first.applied && first.ok && last.ok && first.strict != last.strict {
		return fmt.Errorf("%s under %s of %s gives a different config after the input has been normalised under other options\n--- first\n%s--- again\n%s", map[bool]string{false: "NewFrom", true: "New+Merge"}[c.Steps[0].Merge], c.Steps[0].O, showOrdered(c.F), first.strict, last.strict)
	}

	distinct := map[string]bool{}
	tags, seps := map[int]bool{}, map[string]bool{}
	applied := 0
	for si := range c.Steps {
		if outs[si].applied {
			applied++
			distinct[outs[si].print] = true
			tags[c.Steps[si].O.tagIdx()] = true
			seps[c.Steps[si].O.Sep] = true
		}
	}
	r.NonTrivialIf(len(distinct) >= 2)
	r.Class(fmt.Sprintf("steps applied: %d of %d", applied, len(c.Steps)))
	r.ClassIf(len(distinct) >= 2, "the expected outcome differs between steps")
	r.ClassIf(len(tags) >= 2, "the same types under >=2 struct tags")
	r.ClassIf(len(tags) >= 2 && used["struct"]+used["*struct"] > 0 && sawStruct, "the same struct types under >=2 struct tags")
	r.ClassIf(len(seps) >= 2, "the same input under >=2 separators (or none)")
	r.ClassIf(splitByOther, "a step splits keys at another separator than the one the input was spelled with")
	r.ClassIf(emptyByOther, "a step splits keys at another separator, leaving an empty segment")
	// the classes of the steps, each counted once per case
	seen := map[string]bool{}
	once := func(l string) {
		if !seen[l] {
			seen[l] = true
			r.Class(l)
		}
	}
	for _, e := range exps {
		e.classes(once)
		e.o.classes(once)
	}
	for si, st := range c.Steps {
		if st.Merge && outs[si].applied {
			once("step through New+Merge")
		}
	}
	if c.Planted != "" {
		r.Class("planted:" + c.Planted)
	}
	usedClasses(r, used)
	return nil
}

var subHist = runlog.Register(&runlog.Sub[HistCase]{
	Name: "option-history",
	Rule: "an input as in flatten/duplicates (spelled with one of the 37 separators; 1/4 with a planted second definition; no embedded *Config; objects are structs more often) is built ONCE as a Go value whose struct types carry names under 4 tag names (one carries the keys, the others names derived by 6 schemes: suffix, rotated, first field ignored, first field unnamed, inline members named instead of inlined, prefixed with the separator; every second struct with option lists of 2-4 words in the tags of all four names, differing from tag name to tag name, one struct in four with an ignored exported field, as in repr-roundtrip); it is normalised under 2-3 option sets in sequence (separator: the spelling one, another one - every second time one that occurs in a key of the input, as a name of its own, inside a name, or made of the spelling separator like \"..\" in \"a..c\" - or none; struct tag: any of the 4 or none; EnableNumKeys, MaxIdx, EscapePath; through NewFrom or New+Merge) and under the first one again; every step must give what the model computes for the tree as it reads under that step's tag and options (same verdict rules as duplicates), and the first step repeated at the end must give a byte-identical hook fingerprint. A step whose separator does not split some key of the input clearly (overlapping occurrences of the separator) is left out; empty segments are clear (the empty name). Non-trivial: the expected outcome differs between at least two of the steps. Distinct: hash of the case.",
	Gen:  genHist,
	Run:  runHist,
})

func TestOptionHistory(t *testing.T) { subHist.Check(t, 16000, 300000) }

func TestReplay(t *testing.T) { runlog.ReplayMain(t) }
