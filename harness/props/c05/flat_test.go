package c05

import (
	"strconv"
	"strings"

	"pgregory.net/rapid"

	"verif/harness/internal/gen"
	"verif/harness/internal/model"
	"verif/harness/internal/runlog"
)

// ---------------------------------------------------------------------------
// model: what an input with dotted keys means under PathSep(".")
//
// Every key is split at the separator; an integer literal in [0, MaxIdx]
// addresses the list part of its node, everything else the dictionary. All
// definitions are collected into one tree, independent of any order. A nil
// value defines nothing (nil = absent).

func isIndex(seg string) bool {
	_, ok := model.IndexOf(seg, 1024)
	return ok
}

type mnode struct {
	prims    int       // non-nil primitive values given for this path
	pval     *gen.Tree // one of them
	contVals int       // object / list values given for this path
	through  int       // dotted keys that run through this node (it is neither their first nor their last node)
	below    bool      // some definition lies below this path (a key continues, or a container value has members)
	named    map[string]*mnode
	order    []string
	list     []*mnode
}

func (n *mnode) child(seg string) *mnode {
	n.below = true
	if i, ok := model.IndexOf(seg, 1024); ok {
		for len(n.list) <= i {
			n.list = append(n.list, &mnode{})
		}
		return n.list[i]
	}
	if n.named == nil {
		n.named = map[string]*mnode{}
	}
	c := n.named[seg]
	if c == nil {
		c = &mnode{}
		n.named[seg] = c
		n.order = append(n.order, seg)
	}
	return c
}

type analysis struct {
	root *mnode

	mustFail    bool   // some setting is defined twice
	conflict    string // the kind of the first conflict found (walk in key order of the model)
	ambiguous   bool   // a primitive meets a container that holds nothing but nil / empty containers
	throughPrim bool   // a dotted key runs through a node that (also) has a primitive value
	underShared bool   // a conflict lies below a node that two container values were given for

	shared             int // containers assembled from >= 2 spellings
	contTwice          int // containers for which two container values were given
	dottedNextToNested int // containers reached through a dotted key that also got a container value
	dotted             int // keys with >= 2 segments
	idxSegs            int // index segments inside dotted keys
	maxSegs            int
}

func (a *analysis) addVal(n *mnode, v *gen.Tree) {
	switch v.K {
	case "nil":
	case "obj":
		n.contVals++
		for i, k := range v.Keys {
			segs := strings.Split(k, ".")
			if len(segs) > 1 {
				a.dotted++
				for _, s := range segs {
					if isIndex(s) {
						a.idxSegs++
					}
				}
			}
			if len(segs) > a.maxSegs {
				a.maxSegs = len(segs)
			}
			cur := n
			for j, s := range segs {
				cur = cur.child(s)
				if j < len(segs)-1 {
					cur.through++
				}
			}
			a.addVal(cur, v.Vals[i])
		}
	case "list":
		n.contVals++
		for i, e := range v.Vals {
			a.addVal(n.child(strconv.Itoa(i)), e)
		}
	default:
		n.prims++
		n.pval = v
	}
}

// walk returns whether a primitive is defined at or below n.
func (a *analysis) walk(n *mnode, underShared bool) bool {
	if n.contVals >= 2 {
		underShared = true
	}
	sub := false
	for _, k := range n.order {
		if a.walk(n.named[k], underShared) {
			sub = true
		}
	}
	for _, c := range n.list {
		if a.walk(c, underShared) {
			sub = true
		}
	}
	note := func(kind string) {
		if !a.mustFail {
			a.conflict = kind
		}
		a.mustFail = true
		if underShared {
			a.underShared = true
		}
	}
	switch {
	case n.prims >= 2:
		note("primitive/primitive")
	case n.prims == 1 && sub:
		note("primitive/container")
	case n.prims == 1 && (n.below || n.contVals > 0):
		a.ambiguous = true
	}
	if n.prims >= 1 && n.through > 0 {
		a.throughPrim = true
	}
	if n.prims == 0 {
		if n.contVals+n.through >= 2 {
			a.shared++
		}
		if n.contVals >= 2 {
			a.contTwice++
		}
		if n.contVals >= 1 && n.through >= 1 {
			a.dottedNextToNested++
		}
	}
	return n.prims > 0 || sub
}

func analyse(f *gen.Tree) *analysis {
	a := &analysis{root: &mnode{}}
	a.addVal(a.root, f)
	a.root.contVals = 0 // the input itself is not a second spelling of anything
	a.walk(a.root, false)
	return a
}

// reify renders the model tree as generic data: a node with only a list part
// is a list, otherwise a map with the list part under numeric keys.
func (n *mnode) reify() interface{} {
	if n.prims > 0 && !n.below {
		return n.pval.Prim()
	}
	if len(n.named) == 0 && len(n.list) == 0 {
		return nil
	}
	if len(n.named) == 0 {
		out := make([]interface{}, 0, len(n.list))
		for _, e := range n.list {
			out = append(out, e.reify())
		}
		return out
	}
	m := map[string]interface{}{}
	for k, e := range n.named {
		m[k] = e.reify()
	}
	for i, e := range n.list {
		m[strconv.Itoa(i)] = e.reify()
	}
	return m
}

// ---------------------------------------------------------------------------
// generator: a tree, a spelling of it, optionally a planted second definition

var flatKeys = []string{"a", "b", "c", "d", "a", "b", "c", "0", "1"}

type entry struct {
	path  []string
	val   *gen.Tree
	joins []bool // joins[i]: segment i+1 is written in the same dotted key as segment i
}

func (e entry) groups() []string {
	var out []string
	cur := e.path[0]
	for i := 1; i < len(e.path); i++ {
		if e.joins[i-1] {
			cur += "." + e.path[i]
		} else {
			out = append(out, cur)
			cur = e.path[i]
		}
	}
	return append(out, cur)
}

func extend(p []string, seg string) []string {
	return append(append([]string(nil), p...), seg)
}

func drawContRepr(t *rapid.T) int {
	// mostly generic maps, so that the insertion order matters; the rest spread over all choices
	if rapid.IntRange(0, 2).Draw(t, "generic") > 0 {
		return 0
	}
	return rapid.IntRange(0, 63).Draw(t, "repr")
}

func collectVal(t *rapid.T, v *gen.Tree, p []string, out *[]entry) {
	switch {
	case v.K == "obj" && len(v.Keys) > 0 && rapid.IntRange(0, 3).Draw(t, "inline") > 0:
		for i, k := range v.Keys {
			collectVal(t, v.Vals[i], extend(p, k), out)
		}
	case v.K == "list" && len(v.Vals) > 0 && rapid.IntRange(0, 2).Draw(t, "inline-list") == 0:
		for i, e := range v.Vals {
			collectVal(t, e, extend(p, strconv.Itoa(i)), out)
		}
	default:
		*out = append(*out, entry{path: p, val: spellVal(t, v)})
	}
}

// spellVal spells a value that is kept whole: objects inside it are spelled
// on their own.
func spellVal(t *rapid.T, v *gen.Tree) *gen.Tree {
	switch v.K {
	case "obj":
		if len(v.Keys) == 0 {
			return v.Clone()
		}
		return spellObj(t, v, nil)
	case "list":
		l := gen.List()
		l.R = v.R
		for _, e := range v.Vals {
			l.Vals = append(l.Vals, spellVal(t, e))
		}
		return l
	}
	c := v.Clone()
	if c.K != "nil" {
		c.R = rapid.IntRange(0, 63).Draw(t, "primrepr")
	} else {
		c.R = rapid.IntRange(0, 1).Draw(t, "nilrepr")
	}
	return c
}

func drawJoins(t *rapid.T, n int) []bool {
	if n <= 0 {
		return nil
	}
	return rapid.SliceOfN(rapid.Bool(), n, n).Draw(t, "joins")
}

// fits reports whether e can be added to the spelled object root without
// touching an existing key.
func fits(root *gen.Tree, gs []string) bool {
	cur := root
	for _, g := range gs[:len(gs)-1] {
		ch := cur.Get(g)
		if ch == nil {
			return true
		}
		if ch.K != "obj" {
			return false
		}
		cur = ch
	}
	return cur.Get(gs[len(gs)-1]) == nil
}

func insert(t *rapid.T, root *gen.Tree, gs []string, val *gen.Tree) {
	cur := root
	for _, g := range gs[:len(gs)-1] {
		ch := cur.Get(g)
		if ch == nil {
			ch = gen.Obj()
			ch.R = drawContRepr(t)
			cur.Put(g, ch)
		}
		cur = ch
	}
	cur.Put(gs[len(gs)-1], val)
}

// spellObj spells object o. plant, if not nil, may add entries that define a
// path a second time.
func spellObj(t *rapid.T, o *gen.Tree, plant func(es []entry) (entry, bool)) *gen.Tree {
	var es []entry
	for i, k := range o.Keys {
		collectVal(t, o.Vals[i], []string{k}, &es)
	}
	for i := range es {
		es[i].joins = drawJoins(t, len(es[i].path)-1)
	}
	root := gen.Obj()
	root.R = o.R
	var extra *entry
	if plant != nil {
		if e, ok := plant(es); ok {
			extra = &e
		}
	}
	order := rapid.Permutation(indices(len(es))).Draw(t, "order")
	at := -1
	if extra != nil {
		at = rapid.IntRange(0, len(es)).Draw(t, "extra-at")
	}
	put := func(e entry) {
		gs := e.groups()
		if fits(root, gs) {
			insert(t, root, gs, e.val)
			return
		}
		// another cut of the same path that does not collide with the keys present
		n := len(e.path) - 1
		start := 0
		if n > 0 {
			start = rapid.IntRange(0, 1<<n-1).Draw(t, "recut")
		}
		for k := 0; k < 1<<n; k++ {
			bits := (start + k) % (1 << n)
			e.joins = make([]bool, n)
			for i := range e.joins {
				e.joins[i] = bits>>i&1 == 1
			}
			if gs := e.groups(); fits(root, gs) {
				insert(t, root, gs, e.val)
				return
			}
		}
		// no spelling fits: the definition is left out
	}
	for i, j := range order {
		if i == at {
			put(*extra)
		}
		put(es[j])
	}
	if at == len(es) {
		put(*extra)
	}
	return root
}

func indices(n int) []int {
	out := make([]int, n)
	for i := range out {
		out[i] = i
	}
	return out
}

// primLeaves lists the paths of the non-nil primitives of o.
func primLeaves(o *gen.Tree) [][]string {
	var out [][]string
	o.Walk(nil, func(p []string, n *gen.Tree) {
		if n.IsPrim() && len(p) > 0 {
			out = append(out, append([]string(nil), p...))
		}
	})
	return out
}

var plantKinds = []string{"prim/prim", "container over prim", "prim over container", "container/container overlapping", "container/container disjoint", "nil over anything"}

func otherPrim(t *rapid.T) *gen.Tree {
	p := rapid.SampledFrom([]*gen.Tree{gen.Uint(1), gen.Uint(77), gen.Int(-5), gen.Str("dup"), gen.Str(""), gen.Bool(false), gen.Bool(true), gen.Float(2.5), gen.Uint(0)}).Draw(t, "dupval")
	return p.Clone()
}

// nestUnder builds {rel[0]: {rel[1]: ... v}}, optionally with a dotted cut.
func nestUnder(t *rapid.T, rel []string, v *gen.Tree) *gen.Tree {
	if len(rel) == 0 {
		return v
	}
	e := entry{path: rel, val: v, joins: drawJoins(t, len(rel)-1)}
	root := gen.Obj()
	root.R = drawContRepr(t)
	insert(t, root, e.groups(), v)
	return root
}

// genNested draws an object that is biased towards nested objects (the shared
// generator produces mostly flat ones, which have nothing to flatten).
func genNested(t *rapid.T, cfg *gen.TreeCfg, depth int) *gen.Tree {
	o := gen.Obj()
	n := rapid.IntRange(1, cfg.Width).Draw(t, "nkeys")
	for i := 0; i < n; i++ {
		k := rapid.SampledFrom(cfg.Keys).Draw(t, "key")
		if o.Get(k) != nil {
			continue
		}
		var v *gen.Tree
		switch x := rapid.IntRange(0, 11).Draw(t, "child"); {
		case depth > 0 && x < 6:
			v = genNested(t, cfg, depth-1)
		case depth > 0 && x < 8:
			v = gen.GenList(t, cfg, depth-1)
		case x == 11:
			v = rapid.SampledFrom([]*gen.Tree{gen.Obj(), gen.List()}).Draw(t, "empty").Clone()
		default:
			v = gen.GenTree(t, cfg, 0)
		}
		o.Put(k, v)
	}
	o.R = drawContRepr(t)
	return o
}

func genFlat(t *rapid.T, plant bool) FlatCase {
	cfg := &gen.TreeCfg{Depth: 3, Width: 3, Keys: flatKeys, Strings: gen.HostileStrings, Reprs: true}
	if runlog.Thorough() {
		cfg.Depth, cfg.Width = 4, 4
	}
	tree := genNested(t, cfg, cfg.Depth)
	if plant && rapid.IntRange(0, 2).Draw(t, "deepen") == 0 {
		tree = gen.Obj().Put(rapid.SampledFrom([]string{"a", "b", "w"}).Draw(t, "wrapkey"), tree)
	}
	c := FlatCase{}
	var planter func(es []entry) (entry, bool)
	if plant {
		planter = func(es []entry) (entry, bool) {
			leaves := primLeaves(tree)
			if len(leaves) == 0 {
				return entry{}, false
			}
			kind := rapid.IntRange(0, len(plantKinds)-1).Draw(t, "plant")
			l := rapid.SampledFrom(leaves).Draw(t, "leaf")
			cut := len(l)
			if kind >= 2 && kind <= 4 {
				if len(l) < 2 {
					// no container above this leaf except the input itself
					kind = rapid.IntRange(0, 1).Draw(t, "plant2")
				} else {
					cut = rapid.IntRange(1, len(l)-1).Draw(t, "cut")
				}
			}
			var val *gen.Tree
			switch kind {
			case 0:
				val = otherPrim(t)
			case 1:
				k := rapid.SampledFrom([]string{"a", "b", "e", "0"}).Draw(t, "newkey")
				val = nestUnder(t, []string{k}, otherPrim(t))
				if rapid.IntRange(0, 3).Draw(t, "aslist") == 0 {
					val = gen.List(otherPrim(t))
				}
			case 2:
				val = otherPrim(t)
			case 3:
				val = nestUnder(t, l[cut:], otherPrim(t))
				if rapid.IntRange(0, 2).Draw(t, "plus-disjoint") == 0 && val.Get("e") == nil {
					val.Put("e", otherPrim(t))
				}
			case 4:
				k := rapid.SampledFrom([]string{"e", "f", "e.f", "e.0"}).Draw(t, "freshkey")
				val = gen.Obj().Put(k, otherPrim(t))
				val.R = drawContRepr(t)
			case 5:
				// a nil value defines nothing, whatever the path holds otherwise
				val = gen.Nil()
				val.R = rapid.IntRange(0, 1).Draw(t, "nilrepr")
				if rapid.Bool().Draw(t, "nil-above") && len(l) >= 2 {
					cut = rapid.IntRange(1, len(l)-1).Draw(t, "cut")
				}
			}
			c.Planted = plantKinds[kind]
			p := l[:cut]
			return entry{path: p, val: val, joins: drawJoins(t, len(p)-1)}, true
		}
	}
	c.F = spellObj(t, tree, planter)
	switch rapid.IntRange(0, 7).Draw(t, "wrap") {
	case 0:
		c.F = gen.List(c.F)
	case 1:
		c.F = gen.Obj().Put("w", c.F)
	case 2:
		c.F = gen.Obj().Put("w", gen.List(gen.Uint(1), c.F))
	}
	return c
}
