package c05

import (
	"regexp"
	"strconv"
	"strings"

	"verif/harness/internal/gen"
	"verif/harness/internal/model"
)

// ---------------------------------------------------------------------------
// model: what an input means under an option set
//
// Every key is split at the separator (if one is given); a segment that is an
// integer literal in [0, MaxIdx] addresses the list part of its node (unless
// numeric keys are enabled and it is the only segment of its key), everything
// else the dictionary. All definitions are collected into one tree,
// independent of any order and of the Go representation. A nil value defines
// nothing (nil = absent).

type mnode struct {
	prims    int       // non-nil primitive values given for this path
	pval     *gen.Tree // one of them
	contVals int       // object / list values given for this path
	through  int       // dotted keys that run through this node (it is neither their first nor their last node)
	below    bool      // some definition lies below this path (a key continues, or a container value has members)
	named    map[string]*mnode
	order    []string
	list     []*mnode
}

func (n *mnode) child(seg string, idx int, isIdx bool) *mnode {
	n.below = true
	if isIdx {
		for len(n.list) <= idx {
			n.list = append(n.list, &mnode{})
		}
		return n.list[idx]
	}
	if n.named == nil {
		n.named = map[string]*mnode{}
	}
	c := n.named[seg]
	if c == nil {
		c = &mnode{}
		n.named[seg] = c
		n.order = append(n.order, seg)
	}
	return c
}

type analysis struct {
	o    OptSet
	root *mnode

	mustFail    bool   // some setting is defined twice
	conflict    string // the kind of the first conflict found (walk in key order of the model)
	ambiguous   bool   // a primitive meets a container that holds nothing but nil / empty containers
	throughPrim bool   // a dotted key runs through a node that (also) has a primitive value
	underShared bool   // a conflict lies below a node that two container values were given for
	hazard      bool   // a node has names next to a list part that the generic view renders under keys which are names when fed back (numeric keys enabled, or indices above MaxIdx): values are not compared
	unclear     bool   // some key is not clear under the option set (empty segment, overlapping separators)

	stripBrackets bool
	nilConts      bool // nil nodes may be spelled as a nil map / nil slice, which is an empty container rather than a nil value (repr-roundtrip)

	shared             int // containers assembled from >= 2 spellings
	contTwice          int // containers for which two container values were given
	dottedNextToNested int // containers reached through a dotted key that also got a container value
	dotted             int // keys with >= 2 segments
	idxSegs            int // index segments inside dotted keys
	maxSegs            int
	sameKeyTwice       int // objects that hold one key twice (struct fields, inline members)
	decoyKeys          int // keys that contain a part of the separator or another separator and stay whole
	escapedKeys        int // keys in brackets under EscapePath
	numNames           int // integer literals that are names (numeric keys enabled, or above MaxIdx)

	// the edge of the key alphabet
	emptyKeys    int // keys "" (one segment)
	emptyInner   int // dotted keys with an empty segment between two others ("a..c")
	emptyLead    int // dotted keys that begin with the separator (".x")
	emptyTrail   int // dotted keys that end with the separator ("x.")
	onlySeps     int // keys that consist of separators only (".", "..")
	blankSegs    int // segments that are blank or begin / end with white space
	oddIdx       int // index segments not in plain decimal ("+1", "-0", "00", "0x1", "010")
	oddNum       int // names that look numeric but are no index under any generated option set ("-1", 2^63-1 and above, other digits)
	longSegs     int // segments of >= 100 bytes
	otherSepSegs int // segments that are the separator of another option set
	caseSegs     int // segments with an upper-case letter
}

var decoyChars = regexp.MustCompile(`[^\pL\pN]`)

func (a *analysis) addVal(n *mnode, v *gen.Tree) {
	switch v.K {
	case "nil":
		if a.nilConts {
			// (met by a primitive at the same path - two spellings of one list index - either outcome is accepted)
			n.contVals++
		}
	case "obj":
		n.contVals++
		seen := map[string]bool{}
		for i, k := range v.Keys {
			if seen[k] {
				a.sameKeyTwice++
			}
			seen[k] = true
			if !a.o.clear(k) {
				a.unclear = true
			}
			segs := a.o.split(k)
			multi := len(segs) > 1
			if a.o.escaped(k) {
				a.escapedKeys++
				if a.stripBrackets {
					segs = []string{k[1 : len(k)-1]}
				}
			}
			if multi {
				a.dotted++
			}
			a.noteOdd(k, segs)
			if len(segs) > a.maxSegs {
				a.maxSegs = len(segs)
			}
			cur := n
			for j, s := range segs {
				idx, isIdx := a.o.index(s, multi)
				switch {
				case isIdx && multi:
					a.idxSegs++
				case !isIdx:
					if _, lit := model.IndexOf(s, 1<<62); lit {
						a.numNames++
					} else if !a.o.escaped(k) && decoyChars.MatchString(s) {
						a.decoyKeys++
					}
				}
				cur = cur.child(s, idx, isIdx)
				if j < len(segs)-1 {
					cur.through++
				}
			}
			a.addVal(cur, v.Vals[i])
		}
	case "list":
		n.contVals++
		for i, e := range v.Vals {
			a.addVal(n.child("", i, true), e)
		}
	default:
		n.prims++
		n.pval = v
	}
}

var isSeparator = func() map[string]bool {
	m := map[string]bool{}
	for _, s := range separators {
		m[s] = true
	}
	return m
}()

var oddNumber = regexp.MustCompile(`^[+-]?[\pN_]+$`)

// noteOdd counts the keys at the edge of the alphabet (class labels only).
func (a *analysis) noteOdd(k string, segs []string) {
	if len(segs) == 1 {
		if k == "" {
			a.emptyKeys++
		}
	} else {
		empty := 0
		for i, s := range segs {
			if s != "" {
				continue
			}
			empty++
			switch {
			case i == 0:
				a.emptyLead++
			case i == len(segs)-1:
				a.emptyTrail++
			default:
				a.emptyInner++
			}
		}
		if empty == len(segs) {
			a.onlySeps++
		}
	}
	for _, s := range segs {
		if s != "" && strings.TrimSpace(s) != s {
			a.blankSegs++
		}
		if len(s) >= 100 {
			a.longSegs++
		}
		if s != a.o.Sep && isSeparator[s] {
			a.otherSepSegs++
		}
		if strings.ToLower(s) != s {
			a.caseSegs++
		}
		if i, ok := a.o.index(s, len(segs) > 1); ok {
			if strconv.Itoa(i) != s {
				a.oddIdx++
			}
		} else if _, lit := model.IndexOf(s, 1<<62); !lit && oddNumber.MatchString(s) {
			a.oddNum++
		}
	}
}

// walk returns whether a primitive is defined at or below n.
func (a *analysis) walk(n *mnode, underShared bool) bool {
	if n.contVals >= 2 {
		underShared = true
	}
	sub := false
	for _, k := range n.order {
		if a.walk(n.named[k], underShared) {
			sub = true
		}
	}
	for _, c := range n.list {
		if a.walk(c, underShared) {
			sub = true
		}
	}
	if len(n.named) > 0 && len(n.list) > 0 && (a.o.NumKeys || int64(len(n.list)) > a.o.maxIdx()+1) {
		a.hazard = true
	}
	note := func(kind string) {
		if !a.mustFail {
			a.conflict = kind
		}
		a.mustFail = true
		if underShared {
			a.underShared = true
		}
	}
	switch {
	case n.prims >= 2:
		note("primitive/primitive")
	case n.prims == 1 && sub:
		note("primitive/container")
	case n.prims == 1 && (n.below || n.contVals > 0):
		a.ambiguous = true
	}
	if n.prims >= 1 && n.through > 0 {
		a.throughPrim = true
	}
	if n.prims == 0 {
		if n.contVals+n.through >= 2 {
			a.shared++
		}
		if n.contVals >= 2 {
			a.contTwice++
		}
		if n.contVals >= 1 && n.through >= 1 {
			a.dottedNextToNested++
		}
	}
	return n.prims > 0 || sub
}

func analyse(f *gen.Tree, o OptSet) *analysis { return analyseWith(f, o, false) }

// analyseWith: EscapePath "allows the user to escape the path using
// brackets"; whether the brackets remain part of the name is not stated, so
// both readings are computed (stripBrackets) and either is accepted.
func analyseWith(f *gen.Tree, o OptSet, stripBrackets bool) *analysis {
	return analyseAs(f, o, stripBrackets, false)
}

func analyseAs(f *gen.Tree, o OptSet, stripBrackets, nilConts bool) *analysis {
	a := &analysis{o: o, root: &mnode{}, stripBrackets: stripBrackets, nilConts: nilConts}
	a.addVal(a.root, f)
	a.root.contVals = 0 // the input itself is not a second spelling of anything
	a.walk(a.root, false)
	return a
}

// reify renders the model tree as generic data: a node with only a list part
// is a list, otherwise a map with the list part under numeric keys.
func (n *mnode) reify() interface{} {
	if n.prims > 0 && !n.below {
		return n.pval.Prim()
	}
	if len(n.named) == 0 && len(n.list) == 0 {
		return nil
	}
	if len(n.named) == 0 {
		out := make([]interface{}, 0, len(n.list))
		for _, e := range n.list {
			out = append(out, e.reify())
		}
		return out
	}
	m := map[string]interface{}{}
	for k, e := range n.named {
		m[k] = e.reify()
	}
	for i, e := range n.list {
		m[strconv.Itoa(i)] = e.reify()
	}
	return m
}
