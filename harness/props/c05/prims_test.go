package c05

import (
	"math"
	"reflect"
	"strconv"

	ucfg "github.com/elastic/go-ucfg"
	"pgregory.net/rapid"

	"verif/harness/internal/gen"
)

// ---------------------------------------------------------------------------
// Go representations of primitives, typed nils and pointer/interface chains
//
// Besides the bits documented at builder, the R field of a node carries
//
//	primitives  bits 6-9    further selector bits for the sized / named Go kind (see primValue)
//	containers  bit 19      typed map / slice / array whose children do not share a Go type:
//	                        every child is boxed in a *interface{} (map[string]*interface{} ...)
//	every node  bits 20-27  a chain of up to four links around the built value, innermost
//	                        first, two bits each: 0 none, 1 typed pointer (&v, *T),
//	                        2 pointer to an interface{} variable holding v (*interface{}),
//	                        3 pointer to a variable of a named interface type holding v (*nAny)
//	structs     bits 28-39  a chain of up to two links (same code) around each of the up to
//	                        three inline members
//
// so that a value is reached through any alternation of pointers and
// interfaces: a []interface{} element holding a *interface{} holding a *T, a
// struct field of type **interface{}, a pointer to a nil interface, ...

const (
	primSelShift = 6
	boxBit       = 1 << 19
	chainShift   = 20
	inlineShift  = 28
)

type (
	nI8   int8
	nI16  int16
	nI32  int32
	nIntP int
	nU8   uint8
	nU16  uint16
	nU32  uint32
	nUntP uint
	nF32  float32
	nAny  interface{}
)

// goKind is a Go type a number can be held in.
type goKind struct {
	label  string
	ty     reflect.Type
	bits   int
	signed bool
}

// (rapid prefers small selector values: signed and unsigned, narrow and wide alternate)
var sizedInts = []goKind{
	{"int8", reflect.TypeOf(int8(0)), 8, true},
	{"uint16", reflect.TypeOf(uint16(0)), 16, false},
	{"int", reflect.TypeOf(int(0)), 64, true},
	{"int32", reflect.TypeOf(int32(0)), 32, true},
	{"uint8", reflect.TypeOf(uint8(0)), 8, false},
	{"int64", reflect.TypeOf(int64(0)), 64, true},
	{"uint32", reflect.TypeOf(uint32(0)), 32, false},
	{"int16", reflect.TypeOf(int16(0)), 16, true},
	{"uint", reflect.TypeOf(uint(0)), 64, false},
	{"uint64", reflect.TypeOf(uint64(0)), 64, false},
}

var namedInts = []goKind{
	{"named int64", reflect.TypeOf(nInt(0)), 64, true},
	{"named uint64", reflect.TypeOf(nUint(0)), 64, false},
	{"named int8", reflect.TypeOf(nI8(0)), 8, true},
	{"named uint16", reflect.TypeOf(nU16(0)), 16, false},
	{"named int", reflect.TypeOf(nIntP(0)), 64, true},
	{"named uint8", reflect.TypeOf(nU8(0)), 8, false},
	{"named int32", reflect.TypeOf(nI32(0)), 32, true},
	{"named uint", reflect.TypeOf(nUntP(0)), 64, false},
	{"named int16", reflect.TypeOf(nI16(0)), 16, true},
	{"named uint32", reflect.TypeOf(nU32(0)), 32, false},
}

// holds reports whether the kind holds the integer of node t exactly.
func (k goKind) holds(t *gen.Tree) bool {
	if t.K == "uint" {
		if k.signed {
			return t.U <= 1<<(k.bits-1)-1
		}
		return k.bits == 64 || t.U <= 1<<k.bits-1
	}
	if k.signed {
		return k.bits == 64 || (t.I >= -(1<<(k.bits-1)) && t.I <= 1<<(k.bits-1)-1)
	}
	return t.I >= 0 && (k.bits == 64 || uint64(t.I) <= 1<<k.bits-1)
}

func (k goKind) make(t *gen.Tree) interface{} {
	rv := reflect.New(k.ty).Elem()
	switch {
	case k.signed && t.K == "uint":
		rv.SetInt(int64(t.U))
	case k.signed:
		rv.SetInt(t.I)
	case t.K == "uint":
		rv.SetUint(t.U)
	default:
		rv.SetUint(uint64(t.I))
	}
	return rv.Interface()
}

// primClass groups the node kinds whose values can share a Go type.
func primClass(t *gen.Tree) string {
	switch t.K {
	case "int", "uint":
		return "integer"
	case "float", "str", "bool":
		return t.K
	}
	return ""
}

// sameClassPrims reports whether all nodes are non-nil primitives of one class.
func sameClassPrims(ts []*gen.Tree) bool {
	if len(ts) == 0 || primClass(ts[0]) == "" {
		return false
	}
	for _, t := range ts {
		if primClass(t) != primClass(ts[0]) {
			return false
		}
	}
	return true
}

func isFloat32(f float64) bool { return float64(float32(f)) == f }

// notShortDecimal reports whether the float32 value f differs from the float64
// nearest to its shortest decimal text (float32(0.1) is not 0.1).
func notShortDecimal(f float64) bool {
	g, err := strconv.ParseFloat(strconv.FormatFloat(f, 'g', -1, 32), 64)
	return err != nil || g != f
}

func primSel(r int) int { return (r/4)%4 + 4*((r>>primSelShift)&15) }

// primValue builds the non-nil primitive t in the Go kind r selects: r%4 = 0, 1
// the natural type (bool, string, int64, uint64, float64), 2 a sized kind, 3 a
// named type. The kind is picked among those that hold the values of all
// nodes of group exactly (the siblings of t in a typed container, or t alone),
// so that the members of a group get one Go type.
func (b *builder) primValue(t *gen.Tree, r int, group []*gen.Tree) interface{} {
	sel := primSel(r)
	pick := func(kinds []goKind) (goKind, bool) {
		var fit []goKind
		for _, k := range kinds {
			ok := true
			for _, g := range group {
				ok = ok && k.holds(g)
			}
			if ok {
				fit = append(fit, k)
			}
		}
		if len(fit) == 0 {
			return goKind{}, false
		}
		return fit[sel%len(fit)], true
	}
	all32 := true
	if t.K == "float" {
		for _, g := range group {
			all32 = all32 && isFloat32(g.FloatVal())
		}
	}
	switch r % 4 {
	case 2:
		switch primClass(t) {
		case "integer":
			if k, ok := pick(sizedInts); ok {
				b.use("prim: " + k.label)
				return k.make(t)
			}
		case "float":
			if all32 {
				b.use("prim: float32")
				b.useIf(notShortDecimal(t.FloatVal()), "prim: float32 that is not the float64 of its shortest decimal text")
				return float32(t.FloatVal())
			}
		}
	case 3:
		switch primClass(t) {
		case "integer":
			if k, ok := pick(namedInts); ok {
				b.use("prim: " + k.label)
				return k.make(t)
			}
		case "float":
			if all32 && sel%2 == 1 {
				b.use("prim: named float32")
				b.useIf(notShortDecimal(t.FloatVal()), "prim: float32 that is not the float64 of its shortest decimal text")
				return nF32(t.FloatVal())
			}
			b.use("prim: named float64")
			return nFloat(t.FloatVal())
		case "str":
			b.use("prim: named string")
			return nStr(t.S)
		case "bool":
			b.use("prim: named bool")
			return nBool(t.B)
		}
	}
	return t.Prim()
}

// nilValue spells a nil node: r%4 = 0 untyped nil, 1 a nil pointer
// ((r/4)%4: *int, *interface{}, **int, a non-nil **int to a nil *int), 2 / 3
// (only if nilConts, as they are empty containers rather than nil values) a nil
// map / slice, a nil pointer to a map, struct, Config, slice or array, or a nil
// slice of a named type.
func (b *builder) nilValue(r int) interface{} {
	sub := (r / 4) % 4
	switch r % 4 {
	case 1:
		switch sub {
		case 1:
			b.use("nil: nil *interface{}")
			return (*interface{})(nil)
		case 2:
			b.use("nil: nil **int")
			return (**int)(nil)
		case 3:
			b.use("nil: **int to a nil *int")
			p := (*int)(nil)
			return &p
		}
		b.use("nil *int")
		return (*int)(nil)
	case 2:
		if b.nilConts {
			switch sub {
			case 1:
				b.use("nil: nil *map")
				return (*map[string]interface{})(nil)
			case 2:
				b.use("nil: nil *struct")
				return (*struct{ A int })(nil)
			case 3:
				b.use("nil: nil *Config")
				return (*ucfg.Config)(nil)
			}
			b.use("nil map")
			return map[string]interface{}(nil)
		}
	case 3:
		if b.nilConts {
			switch sub {
			case 1:
				b.use("nil: nil *[]interface{}")
				return (*[]interface{})(nil)
			case 2:
				b.use("nil: nil *[2]int")
				return (*[2]int)(nil)
			case 3:
				b.use("nil: nil named slice")
				return nSlice(nil)
			}
			b.use("nil slice")
			return []interface{}(nil)
		}
	}
	return nil
}

// wrapLinks puts the links coded in w (two bits each, innermost first) around v.
func wrapLinks(v interface{}, w int) interface{} {
	for ; w != 0; w >>= 2 {
		switch w & 3 {
		case 1:
			if v != nil {
				v = ptrTo(v, 1)
				break
			}
			fallthrough // there is no typed pointer to an untyped nil
		case 2:
			x := v
			v = &x
		case 3:
			var x nAny = v
			v = &x
		}
	}
	return v
}

// chain applies the chain bits of r to the value built for a node.
func (b *builder) chain(v interface{}, r int, what string) interface{} {
	w := (r >> chainShift) & 0xff
	if w == 0 {
		return v
	}
	ifaces, outerPtr, untyped := 0, false, v == nil
	for x := w; x != 0; x >>= 2 {
		switch {
		case x&3 == 0:
		case x&3 == 1 && !untyped:
			outerPtr = ifaces > 0
		default:
			ifaces++
			outerPtr, untyped = false, false
		}
	}
	switch {
	case ifaces == 0:
		b.use("chain: typed pointers only")
	case ifaces == 1:
		b.use("chain: one pointer to an interface variable")
	default:
		b.use("chain: >=2 pointers to interface variables, nested")
	}
	b.useIf(ifaces > 0 && outerPtr, "chain: pointer to an interface variable behind further typed pointers (**interface{})")
	b.useIf(ifaces > 0, "chain: pointer to interface around "+what)
	return wrapLinks(v, w)
}

// boxAll boxes every value in a *interface{}; nil values alternate between a
// nil *interface{} and a pointer to a nil interface.
func boxAll(vals []interface{}) []interface{} {
	out := make([]interface{}, len(vals))
	for i, v := range vals {
		if v == nil && i%2 == 0 {
			out[i] = (*interface{})(nil)
			continue
		}
		x := v
		out[i] = &x
	}
	return out
}

func (b *builder) useIf(cond bool, label string) {
	if cond {
		b.use(label)
	}
}

// ---------------------------------------------------------------------------
// generator side

// drawLinks draws a chain of 1..max links.
func drawLinks(t *rapid.T, max int) int {
	n := rapid.IntRange(1, max).Draw(t, "links")
	w := 0
	for i := 0; i < n; i++ {
		w |= rapid.SampledFrom([]int{2, 1, 2, 3, 1}).Draw(t, "link") << (2 * i)
	}
	return w
}

// drawHigh draws the representation bits from bit 19 up: a chain around one
// node in five, boxed children for every second typed container, a chain
// around one inline member in four.
func drawHigh(t *rapid.T, structRepr bool) int {
	r := 0
	switch rapid.IntRange(0, 9).Draw(t, "high") {
	case 8:
		r |= drawLinks(t, 4) << chainShift
	case 9:
		r |= drawLinks(t, 2) << chainShift
		r |= boxBit
	case 5, 6, 7:
		r |= boxBit
	}
	if structRepr {
		for run := 0; run < 3; run++ {
			if rapid.IntRange(0, 3).Draw(t, "inline-chain") == 3 {
				r |= drawLinks(t, 2) << (inlineShift + 4*run)
			}
		}
	}
	return r
}

// drawPrimRepr draws the representation of a primitive or nil node.
func drawPrimRepr(t *rapid.T, n *gen.Tree) int {
	if n.K == "nil" {
		return rapid.IntRange(0, 15).Draw(t, "nilrepr") | drawHigh(t, false)
	}
	return rapid.IntRange(0, 63).Draw(t, "primrepr") | rapid.IntRange(0, 15).Draw(t, "primsel")<<primSelShift | drawHigh(t, false)
}

// flavour: the Go kind the value of a number is drawn for.
type flavour struct {
	float  bool
	bits   int
	signed bool
}

func drawFlavour(t *rapid.T, float bool) flavour {
	f := flavour{float: float}
	if float {
		f.bits = rapid.SampledFrom([]int{32, 64, 32}).Draw(t, "fbits")
		return f
	}
	f.bits = rapid.SampledFrom([]int{8, 64, 16, 32}).Draw(t, "ibits")
	f.signed = rapid.Bool().Draw(t, "signed")
	return f
}

var special32 = []float32{0.1, 3.14, 0.5, 1e-3, 16777216.0 / 3, math.MaxFloat32, math.SmallestNonzeroFloat32, -0.7, 16777217, 1e10, 1.17549435e-38, 33554430, 1e-45, -2.5e-7}

var special64 = []float64{0.1, math.Pi, math.MaxFloat64, math.SmallestNonzeroFloat64, 1 << 53, 1<<53 + 2, 1e19, -1e-300, 2 * math.MaxFloat32,
	math.Nextafter(float64(float32(0.1)), 1), math.Nextafter(float64(float32(0.1)), 0), math.Nextafter(math.MaxFloat32, math.Inf(1)), 0.30000000000000004, -123456.789e3, 5e-324, 1.7976931348623155e308, math.Copysign(0, -1)}

// richPrim draws a number over the whole range of a Go kind: the boundaries
// of the kind and their neighbours, or any value of it. For floats that is any
// float32 (widened exactly) or any float64, not only short decimals; NaN is
// left out (it equals nothing numerically).
func richPrim(t *rapid.T, f flavour) *gen.Tree {
	edge := rapid.IntRange(0, 2).Draw(t, "edge") == 0
	if f.float {
		var v float64
		switch {
		case f.bits == 32 && edge:
			v = float64(rapid.SampledFrom(special32).Draw(t, "f32"))
		case f.bits == 32:
			v = float64(rapid.Float32().Draw(t, "f32any"))
		case edge:
			v = rapid.SampledFrom(special64).Draw(t, "f64")
		default:
			v = rapid.Float64().Draw(t, "f64any")
		}
		if edge && rapid.IntRange(0, 7).Draw(t, "inf") == 7 {
			v = math.Inf(rapid.SampledFrom([]int{1, -1}).Draw(t, "sign"))
		}
		if rapid.IntRange(0, 3).Draw(t, "neg") == 3 {
			v = -v
		}
		return gen.Float(v)
	}
	if f.signed {
		min, max := int64(math.MinInt64), int64(math.MaxInt64)
		if f.bits < 64 {
			min, max = -(1 << (f.bits - 1)), 1<<(f.bits-1)-1
		}
		v := rapid.Int64Range(min, max).Draw(t, "ival")
		if edge {
			v = rapid.SampledFrom([]int64{min, max, min + 1, max - 1, -1, 0, 1}).Draw(t, "iedge")
		}
		if v < 0 {
			return gen.Int(v)
		}
		return gen.Uint(uint64(v))
	}
	max := uint64(math.MaxUint64)
	if f.bits < 64 {
		max = 1<<f.bits - 1
	}
	v := rapid.Uint64Range(0, max).Draw(t, "uval")
	if edge {
		v = rapid.SampledFrom([]uint64{max, max / 2, max/2 + 1, max - 1, 0, 1}).Draw(t, "uedge")
	}
	return gen.Uint(v)
}

func isNumber(t *gen.Tree) bool { return t.K == "int" || t.K == "uint" || t.K == "float" }

// enrich replaces numbers of the tree (the shared generator draws them from a
// dozen values) by numbers over the whole range of the Go kinds: the numbers
// of a container whose members are all integers, or all floats, are drawn for
// one kind (so that typed slices, arrays and maps of every sized kind occur),
// other numbers one by one.
func enrich(t *rapid.T, tr *gen.Tree) {
	if !tr.IsCont() {
		return
	}
	if len(tr.Vals) > 0 && sameClassPrims(tr.Vals) && isNumber(tr.Vals[0]) {
		if rapid.IntRange(0, 2).Draw(t, "rich-all") > 0 {
			f := drawFlavour(t, tr.Vals[0].K == "float")
			for i, v := range tr.Vals {
				n := richPrim(t, f)
				n.R = v.R
				tr.Vals[i] = n
			}
		}
		return
	}
	for i, v := range tr.Vals {
		switch {
		case v.IsCont():
			enrich(t, v)
		case isNumber(v) && rapid.IntRange(0, 1).Draw(t, "rich") == 0:
			n := richPrim(t, drawFlavour(t, rapid.IntRange(0, 2).Draw(t, "rich-float") == 0))
			n.R = v.R
			tr.Vals[i] = n
		}
	}
}
