package c05

import (
	"strconv"
	"strings"

	"pgregory.net/rapid"

	"verif/harness/internal/gen"
	"verif/harness/internal/model"
	"verif/harness/internal/runlog"
)

// ---------------------------------------------------------------------------
// generator: a tree, a spelling of it under a separator, optionally a planted
// second definition

var flatKeys = []string{"a", "b", "c", "d", "a", "b", "c", "0", "1"}

// keysFor is the key alphabet for an option set: the base keys, keys that
// contain parts of the separator or other separators (they stay whole), and
// integer literals that are names under the options.
func keysFor(o OptSet, base []string) []string {
	var out []string
	for _, k := range base {
		if o.Sep == "" || !strings.Contains(k, o.Sep) {
			out = append(out, k)
		}
	}
	out = append(out, decoys(o.Sep)...)
	if o.NumKeys || o.MaxIdx > 0 {
		out = append(out, "2", "10", "0", "1")
	}
	if o.Sep != "" && !o.Esc && !strings.ContainsAny(o.Sep, "[]") {
		// brackets mean nothing unless EscapePath is given
		out = append(out, "[e"+o.Sep+"f]")
	}
	return out
}

type entry struct {
	path  []string
	val   *gen.Tree
	joins []bool // joins[i]: segment i+1 is written in the same dotted key as segment i
}

func (e entry) groups(sep string) []string {
	var out []string
	cur := e.path[0]
	for i := 1; i < len(e.path); i++ {
		if e.joins[i-1] {
			cur += sep + e.path[i]
		} else {
			out = append(out, cur)
			cur = e.path[i]
		}
	}
	return append(out, cur)
}

func extend(p []string, seg string) []string {
	return append(append([]string(nil), p...), seg)
}

// drawContRepr: half generic maps; structs (whose fields and inline members
// are normalised in the stated order, where maps are normalised in key order)
// with a random layout; the rest spread over all choices.
func (x sp) drawContRepr() int {
	t := x.t
	g := rapid.IntRange(0, 11).Draw(t, "generic")
	switch {
	case g <= 2, g <= 5 && !x.structs:
		return drawHigh(t, false) &^ boxBit
	case g == 9:
		// an interface-keyed map
		return 1 + 8*rapid.IntRange(0, 1).Draw(t, "named") | drawHigh(t, false)&^boxBit | drawNames(t)
	case g <= 8:
		return drawStructRepr(t)
	}
	return rapid.IntRange(0, 63).Draw(t, "repr") | drawHigh(t, false) | drawNames(t)
}

func drawStructRepr(t *rapid.T) int {
	// (typed fields and pointer levels multiply the length of the type names, which reflect keeps for ever)
	return rapid.SampledFrom([]int{2, 7, 2, 10, 7, 15}).Draw(t, "struct") + 16*rapid.SampledFrom([]int{0, 0, 2, 0, 3}).Draw(t, "ptr") + 64*drawLayout(t) + drawHigh(t, true)&^boxBit | drawNames(t)
}

// drawLayout draws the layout bits of a struct representation (see layoutOf).
func drawLayout(t *rapid.T) int {
	if rapid.IntRange(0, 3).Draw(t, "plain") == 0 {
		return 0
	}
	l := 0
	for i := 0; i < 3; i++ {
		k := 0
		if rapid.Bool().Draw(t, "inline") {
			k = rapid.IntRange(1, 7).Draw(t, "kind")
		}
		l |= k << (3 * i)
	}
	return l | rapid.IntRange(0, 3).Draw(t, "cut1")<<9 | rapid.IntRange(0, 3).Draw(t, "cut2")<<11
}

// sp is the spelling context: the separator keys are joined with.
type sp struct {
	t       *rapid.T
	sep     string
	structs bool // more structs, fewer generic maps
}

func (x sp) collectVal(v *gen.Tree, p []string, out *[]entry) {
	t := x.t
	switch {
	case v.K == "obj" && len(v.Keys) > 0 && rapid.IntRange(0, 3).Draw(t, "inline") > 0:
		for i, k := range v.Keys {
			x.collectVal(v.Vals[i], extend(p, k), out)
		}
	case v.K == "list" && len(v.Vals) > 0 && rapid.IntRange(0, 2).Draw(t, "inline-list") == 0:
		for i, e := range v.Vals {
			x.collectVal(e, extend(p, strconv.Itoa(i)), out)
		}
	default:
		*out = append(*out, entry{path: p, val: x.spellVal(v)})
	}
}

// spellVal spells a value that is kept whole: objects inside it are spelled
// on their own.
func (x sp) spellVal(v *gen.Tree) *gen.Tree {
	t := x.t
	switch v.K {
	case "obj":
		if len(v.Keys) == 0 {
			return v.Clone()
		}
		return x.spellObj(v, nil)
	case "list":
		l := gen.List()
		l.R = v.R | drawHigh(t, false)
		for _, e := range v.Vals {
			l.Vals = append(l.Vals, x.spellVal(e))
		}
		return l
	}
	c := v.Clone()
	if c.K != "nil" {
		c.R = drawPrimRepr(t, c)
	} else {
		// (nil pointers only: a nil map or slice is an empty container, not a nil value)
		c.R = rapid.IntRange(0, 1).Draw(t, "nilrepr") + 4*rapid.IntRange(0, 3).Draw(t, "nilptr") | drawHigh(t, false)
	}
	return c
}

func drawJoins(t *rapid.T, n int) []bool {
	if n <= 0 {
		return nil
	}
	return rapid.SliceOfN(rapid.Bool(), n, n).Draw(t, "joins")
}

// joins draws which edges of the path are written dotted. Next to an empty
// name an edge is kept nested if the separator overlaps itself ("a::::c"
// under "::" is not clear, see OptSet.clear).
func (x sp) joins(path []string) []bool {
	js := drawJoins(x.t, len(path)-1)
	if selfOverlap(x.sep) {
		for i := range js {
			if path[i] == "" || path[i+1] == "" {
				js[i] = false
			}
		}
	}
	return js
}

func (x sp) clearAll(gs []string) bool {
	o := OptSet{Sep: x.sep}
	for _, g := range gs {
		if !o.clear(g) {
			return false
		}
	}
	return true
}

// fits reports whether e can be added to the spelled object root without
// touching an existing key.
func fits(root *gen.Tree, gs []string) bool {
	cur := root
	for _, g := range gs[:len(gs)-1] {
		ch := cur.Get(g)
		if ch == nil {
			return true
		}
		if ch.K != "obj" {
			return false
		}
		cur = ch
	}
	return cur.Get(gs[len(gs)-1]) == nil
}

func (x sp) insert(root *gen.Tree, gs []string, val *gen.Tree) {
	cur := root
	for _, g := range gs[:len(gs)-1] {
		ch := cur.Get(g)
		if ch == nil {
			ch = gen.Obj()
			ch.R = x.drawContRepr()
			cur.Put(g, ch)
		}
		cur = ch
	}
	cur.Put(gs[len(gs)-1], val)
}

// spellObj spells object o. plant, if not nil, may add entries that define a
// path a second time.
func (x sp) spellObj(o *gen.Tree, plant func(es []entry) (entry, bool)) *gen.Tree {
	t := x.t
	var es []entry
	for i, k := range o.Keys {
		x.collectVal(o.Vals[i], []string{k}, &es)
	}
	for i := range es {
		es[i].joins = x.joins(es[i].path)
	}
	root := gen.Obj()
	root.R = o.R
	var extra *entry
	if plant != nil {
		if e, ok := plant(es); ok {
			extra = &e
		}
	}
	order := rapid.Permutation(indices(len(es))).Draw(t, "order")
	at := -1
	if extra != nil {
		at = rapid.IntRange(0, len(es)).Draw(t, "extra-at")
	}
	put := func(e entry) {
		gs := e.groups(x.sep)
		if fits(root, gs) {
			x.insert(root, gs, e.val)
			return
		}
		// another cut of the same path that does not collide with the keys present
		n := len(e.path) - 1
		start := 0
		if n > 0 {
			start = rapid.IntRange(0, 1<<n-1).Draw(t, "recut")
		}
		for k := 0; k < 1<<n; k++ {
			bits := (start + k) % (1 << n)
			e.joins = make([]bool, n)
			for i := range e.joins {
				e.joins[i] = bits>>i&1 == 1
			}
			if gs := e.groups(x.sep); fits(root, gs) && x.clearAll(gs) {
				x.insert(root, gs, e.val)
				return
			}
		}
		// no spelling fits: the definition is left out
	}
	for i, j := range order {
		if i == at {
			put(*extra)
		}
		put(es[j])
	}
	if at == len(es) {
		put(*extra)
	}
	return root
}

func indices(n int) []int {
	out := make([]int, n)
	for i := range out {
		out[i] = i
	}
	return out
}

// primLeaves lists the paths of the non-nil primitives of o.
func primLeaves(o *gen.Tree) [][]string {
	var out [][]string
	o.Walk(nil, func(p []string, n *gen.Tree) {
		if n.IsPrim() && len(p) > 0 {
			out = append(out, append([]string(nil), p...))
		}
	})
	return out
}

var plantKinds = []string{"prim/prim", "container over prim", "prim over container", "container/container overlapping", "container/container disjoint", "nil over anything", "prim/prim, a list index of the path in another literal (+1, 01, 0x1, 0b1, 0o1, -0)"}

// respellIndex returns the path with one of its integer-literal segments
// written as another literal of the same number (DESIGN 3 (vii): strconv base
// 0), if it has one.
func respellIndex(t *rapid.T, l []string, sep string) ([]string, bool) {
	var at []int
	for i, s := range l {
		if _, ok := model.IndexOf(s, 1<<40); ok {
			at = append(at, i)
		}
	}
	if len(at) == 0 {
		return nil, false
	}
	i := rapid.SampledFrom(at).Draw(t, "respell-at")
	n, _ := model.IndexOf(l[i], 1<<40)
	forms := []string{"+" + strconv.Itoa(n), "0x" + strconv.FormatInt(int64(n), 16), "0" + strconv.FormatInt(int64(n), 8), "0b" + strconv.FormatInt(int64(n), 2), "0o" + strconv.FormatInt(int64(n), 8), "0X" + strings.ToUpper(strconv.FormatInt(int64(n), 16))}
	if n == 0 {
		forms = append(forms, "-0", "00")
	}
	if l[i] != strconv.Itoa(n) {
		forms = append(forms, strconv.Itoa(n))
	}
	if sep != "" {
		kept := forms[:0]
		for _, f := range forms {
			if !strings.Contains(f, sep) {
				kept = append(kept, f)
			}
		}
		if forms = kept; len(forms) == 0 {
			return nil, false
		}
	}
	out := append([]string(nil), l...)
	out[i] = rapid.SampledFrom(forms).Draw(t, "respell")
	return out, out[i] != l[i]
}

const plantSameKey = "same key twice in one object (struct fields / inline members / interface-keyed map with keys of different dynamic types)"

func otherPrim(t *rapid.T) *gen.Tree {
	p := rapid.SampledFrom([]*gen.Tree{gen.Uint(1), gen.Uint(77), gen.Int(-5), gen.Str("dup"), gen.Str(""), gen.Bool(false), gen.Bool(true), gen.Float(2.5), gen.Uint(0)}).Draw(t, "dupval")
	return p.Clone()
}

// nestUnder builds {rel[0]: {rel[1]: ... v}}, optionally with a dotted cut.
func (x sp) nestUnder(rel []string, v *gen.Tree) *gen.Tree {
	if len(rel) == 0 {
		return v
	}
	e := entry{path: rel, val: v, joins: x.joins(rel)}
	root := gen.Obj()
	root.R = x.drawContRepr()
	x.insert(root, e.groups(x.sep), v)
	return root
}

// genNested draws an object that is biased towards nested objects (the shared
// generator produces mostly flat ones, which have nothing to flatten).
func (x sp) genNested(cfg *gen.TreeCfg, depth int) *gen.Tree {
	t := x.t
	o := gen.Obj()
	n := rapid.IntRange(1, cfg.Width).Draw(t, "nkeys")
	for i := 0; i < n; i++ {
		k := rapid.SampledFrom(cfg.Keys).Draw(t, "key")
		if o.Get(k) != nil {
			continue
		}
		var v *gen.Tree
		switch ch := rapid.IntRange(0, 11).Draw(t, "child"); {
		case depth > 0 && ch < 6:
			v = x.genNested(cfg, depth-1)
			if k == "" && rapid.Bool().Draw(t, "empty-again") {
				// the empty name below the empty name: "a..", "..", "." when written dotted
				v = gen.Obj().Put("", v)
				v.R = x.drawContRepr()
			}
		case depth > 0 && ch < 8:
			v = gen.GenList(t, cfg, depth-1)
		case ch == 11:
			v = rapid.SampledFrom([]*gen.Tree{gen.Obj(), gen.List()}).Draw(t, "empty").Clone()
		default:
			v = gen.GenTree(t, cfg, 0)
		}
		o.Put(k, v)
	}
	o.R = x.drawContRepr()
	return o
}

// plantSame adds a second entry for a key of one object of f that can be
// written as a struct (a Go map can not hold a key twice; two struct fields,
// or a field and a key of an inline member, can).
func (x sp) plantSame(f *gen.Tree) bool {
	t := x.t
	var nodes, cands []*gen.Tree
	preorder(f, &nodes)
	for _, n := range nodes {
		if n.K == "obj" && len(n.Keys) > 0 {
			// (an object with a key that no struct tag can carry is written as an interface-keyed map)
			cands = append(cands, n)
		}
	}
	if len(cands) == 0 {
		return false
	}
	n := cands[rapid.IntRange(0, len(cands)-1).Draw(t, "same-node")]
	i := rapid.IntRange(0, len(n.Keys)-1).Draw(t, "same-key")
	v0 := n.Vals[i]
	var v *gen.Tree
	switch rapid.IntRange(0, 5).Draw(t, "same-val") {
	case 0, 1:
		v = otherPrim(t)
	case 2:
		v = gen.Nil()
	case 3:
		// a container with a fresh member: merges with a container, clashes with a primitive
		v = gen.Obj().Put("e", otherPrim(t))
		v.R = x.drawContRepr()
	default:
		// a container that overlaps the first one in its first member
		switch {
		case v0.K == "obj" && len(v0.Keys) > 0:
			v = gen.Obj().Put(v0.Keys[0], otherPrim(t))
			v.R = x.drawContRepr()
		case v0.K == "list" && len(v0.Vals) > 0:
			v = gen.List(otherPrim(t))
		default:
			v = otherPrim(t)
		}
	}
	at := rapid.IntRange(0, len(n.Keys)).Draw(t, "same-at")
	n.Keys = append(n.Keys[:at:at], append([]string{n.Keys[i]}, n.Keys[at:]...)...)
	n.Vals = append(n.Vals[:at:at], append([]*gen.Tree{v}, n.Vals[at:]...)...)
	if !structable(n) || rapid.IntRange(0, 2).Draw(t, "same-as-map") == 0 {
		// two keys of different dynamic types in an interface-keyed map
		n.R = 1 + 8*rapid.IntRange(0, 1).Draw(t, "named") | drawHigh(t, false)&^boxBit | drawNames(t)
	} else {
		n.R = drawStructRepr(t)
	}
	return true
}

func genFlat(t *rapid.T, plant bool) FlatCase {
	return genFlatWith(t, genOptSet(t, 1), plant, false)
}

func genFlatWith(t *rapid.T, o OptSet, plant, structs bool) FlatCase {
	c := FlatCase{O: o, Scheme: rapid.IntRange(0, nSchemes-1).Draw(t, "scheme")}
	cfg := &gen.TreeCfg{Depth: 3, Width: 3, Keys: append(append(keysFor(c.O, flatKeys), drawOdd(t, c.O)...), append(drawUni(t, c.O), drawWord(t, c.O)...)...), Strings: gen.HostileStrings, Reprs: true}
	if runlog.Thorough() {
		cfg.Depth, cfg.Width = 4, 4
	}
	x := sp{t: t, sep: c.O.Sep, structs: structs}
	tree := x.genNested(cfg, cfg.Depth)
	enrich(t, tree)
	if plant && rapid.IntRange(0, 2).Draw(t, "deepen") == 0 {
		tree = gen.Obj().Put(rapid.SampledFrom([]string{"a", "b", "w", ""}).Draw(t, "wrapkey"), tree)
	}
	same := plant && rapid.IntRange(0, 5).Draw(t, "plant-same") == 0
	var planter func(es []entry) (entry, bool)
	if plant && !same {
		planter = func(es []entry) (entry, bool) {
			leaves := primLeaves(tree)
			if len(leaves) == 0 {
				return entry{}, false
			}
			kind := rapid.IntRange(0, len(plantKinds)-1).Draw(t, "plant")
			l := rapid.SampledFrom(leaves).Draw(t, "leaf")
			cut := len(l)
			if kind >= 2 && kind <= 4 {
				if len(l) < 2 {
					// no container above this leaf except the input itself
					kind = rapid.IntRange(0, 1).Draw(t, "plant2")
				} else {
					cut = rapid.IntRange(1, len(l)-1).Draw(t, "cut")
				}
			}
			var val *gen.Tree
			if kind == 6 {
				if l2, ok := respellIndex(t, l, c.O.Sep); ok {
					l, cut = l2, len(l2)
				} else {
					kind = 0
				}
			}
			switch kind {
			case 0, 6:
				val = otherPrim(t)
			case 1:
				k := rapid.SampledFrom([]string{"a", "b", "e", "0", ""}).Draw(t, "newkey")
				val = x.nestUnder([]string{k}, otherPrim(t))
				if rapid.IntRange(0, 3).Draw(t, "aslist") == 0 {
					val = gen.List(otherPrim(t))
				}
			case 2:
				val = otherPrim(t)
			case 3:
				val = x.nestUnder(l[cut:], otherPrim(t))
				if rapid.IntRange(0, 2).Draw(t, "plus-disjoint") == 0 && val.Get("e") == nil {
					val.Put("e", otherPrim(t))
				}
			case 4:
				k := rapid.SampledFrom([]string{"e", "f", "e" + c.O.Sep + "f", "e" + c.O.Sep + "0", "e" + c.O.Sep, c.O.Sep + "e"}).Draw(t, "freshkey")
				val = gen.Obj().Put(k, otherPrim(t))
				val.R = x.drawContRepr()
			case 5:
				// a nil value defines nothing, whatever the path holds otherwise
				val = gen.Nil()
				val.R = rapid.IntRange(0, 1).Draw(t, "nilrepr")
				if rapid.Bool().Draw(t, "nil-above") && len(l) >= 2 {
					cut = rapid.IntRange(1, len(l)-1).Draw(t, "cut")
				}
			}
			c.Planted = plantKinds[kind]
			p := l[:cut]
			return entry{path: p, val: val, joins: x.joins(p)}, true
		}
	}
	c.F = x.spellObj(tree, planter)
	if same && x.plantSame(c.F) {
		c.Planted = plantSameKey
	}
	switch rapid.IntRange(0, 7).Draw(t, "wrap") {
	case 0:
		c.F = gen.List(c.F)
	case 1:
		c.F = gen.Obj().Put("w", c.F)
	case 2:
		c.F = gen.Obj().Put("w", gen.List(gen.Uint(1), c.F))
	}
	return c
}
