package c13

import (
	"fmt"
	"reflect"
	"strings"

	"verif/harness/internal/gen"
)

// Views. A struct type of a case can carry two tag sets: the names and flags
// read under the default tag name "config" (described by Case.T) and those
// read under the tag name "alt" (described by Case.Alt, a description of the
// same Go structure); likewise validator tags under "validate" (FD.Validate
// of T) and under "altv" (FD.Validate of Alt). Which of them Unpack reads is
// decided by the options StructTag and ValidatorTag of the call. A view is
// the description of the type as one Unpack call sees it; the generator of
// configurations, the fault injector and the expectation all work on views.
//
// Tag selectors of a step: "" (no option, i.e. "config"), "config" (the
// option names the default explicitly), "alt", "none" (a tag name no field
// has: every exported field is read under its lower-cased Go name, without
// flags). Validator selectors: "", "validate", "altv", "none".

const (
	altTagName   = "alt"
	altVTagName  = "altv"
	noneTagName  = "nosuchtag"
	noneVTagName = "nosuchvtag"
)

func tagSel(s string) int { // 0 primary, 1 alt, 2 bare
	switch s {
	case "", "config":
		return 0
	case "alt":
		return 1
	case "none":
		return 2
	}
	panic("c13: unknown struct tag selector " + s)
}

func vtagSel(s string) int {
	switch s {
	case "", "validate":
		return 0
	case "altv":
		return 1
	case "none":
		return 2
	}
	panic("c13: unknown validator tag selector " + s)
}

// catalogue structs have hand-written tags for both names; their shapes under
// the other views are registered under <kind>@alt and <kind>@bare.
var catViewSuffix = [3]string{"", "@alt", "@bare"}

func isCatStruct(kind string) bool {
	switch baseKind(kind) {
	case kTop, kDefStruct, kValStruct, kDefOuter, kCfgUnp, kAnyUnp:
		return true
	}
	return false
}

// baseKind strips the view suffix of a catalogue kind.
func baseKind(kind string) string {
	if i := strings.IndexByte(kind, '@'); i >= 0 {
		return kind[:i]
	}
	return kind
}

// bareShape derives the shape a type has under a tag name none of its fields carries.
func bareShape(t *gen.TD) *gen.TD {
	switch {
	case isCatStruct(t.Kind):
		return td(baseKind(t.Kind) + "@bare")
	case t.Kind == "struct":
		out := &gen.TD{Kind: "struct", Fields: make([]gen.FD, len(t.Fields))}
		for i := range t.Fields {
			f := &t.Fields[i]
			out.Fields[i] = gen.FD{Name: f.Name, Unexp: f.Unexp, T: bareShape(f.T)}
		}
		return out
	case t.Elem != nil:
		return &gen.TD{Kind: t.Kind, N: t.N, Elem: bareShape(t.Elem)}
	}
	return t
}

// view is a type description as seen by one Unpack call.
type view struct {
	td *gen.TD
	// vsrc maps a field of the view to the field of Case.T or Case.Alt that holds
	// its validator tag (absent under the validator selector "none").
	vsrc map[*gen.FD]*gen.FD
}

func makeView(t, alt *gen.TD, tag, vtag string) *view {
	v := &view{vsrc: map[*gen.FD]*gen.FD{}}
	v.td = v.build(t, alt, tagSel(tag), vtagSel(vtag))
	return v
}

func (v *view) build(t, alt *gen.TD, ts, vs int) *gen.TD {
	switch {
	case isCatStruct(t.Kind):
		return td(baseKind(t.Kind) + catViewSuffix[ts])
	case t.Kind == "struct":
		out := &gen.TD{Kind: "struct", Fields: make([]gen.FD, len(t.Fields))}
		for i := range t.Fields {
			pf := &t.Fields[i]
			var af *gen.FD
			if alt != nil && i < len(alt.Fields) {
				af = &alt.Fields[i]
			}
			f := &out.Fields[i]
			f.Name, f.Unexp = pf.Name, pf.Unexp
			switch {
			case ts == 0:
				f.Tag, f.Inline, f.Ignore, f.Policy = pf.Tag, pf.Inline, pf.Ignore, pf.Policy
			case ts == 1 && af != nil:
				f.Tag, f.Inline, f.Ignore, f.Policy = af.Tag, af.Inline, af.Ignore, af.Policy
			}
			switch {
			case vs == 0:
				f.Validate = pf.Validate
				v.vsrc[f] = pf
			case vs == 1 && af != nil:
				f.Validate = af.Validate
				v.vsrc[f] = af
			}
			var at *gen.TD
			if af != nil {
				at = af.T
			}
			f.T = v.build(pf.T, at, ts, vs)
		}
		return out
	case t.Elem != nil:
		var ae *gen.TD
		if alt != nil {
			ae = alt.Elem
		}
		return &gen.TD{Kind: t.Kind, N: t.N, Elem: v.build(t.Elem, ae, ts, vs)}
	}
	return t
}

// altTagString renders the tags a field carries for the alternative names.
func altTagString(f *gen.FD) string {
	opts := ""
	if f.Inline {
		opts += ",inline"
	}
	if f.Ignore {
		opts += ",ignore"
	}
	if f.Policy != "" {
		opts += "," + f.Policy
	}
	tag := fmt.Sprintf(`%s:"%s%s"`, altTagName, f.Tag, opts)
	if f.Validate != "" {
		tag += fmt.Sprintf(` %s:"%s"`, altVTagName, f.Validate)
	}
	return tag
}

// buildType builds the Go type described by t whose struct fields carry the
// tags of t under "config"/"validate" and those of alt (if any) under
// "alt"/"altv".
func buildType(t, alt *gen.TD) reflect.Type {
	if alt == nil {
		return t.Type()
	}
	switch t.Kind {
	case "ptr":
		return reflect.PtrTo(buildType(t.Elem, alt.Elem))
	case "slice":
		return reflect.SliceOf(buildType(t.Elem, alt.Elem))
	case "array":
		return reflect.ArrayOf(t.N, buildType(t.Elem, alt.Elem))
	case "map":
		return reflect.MapOf(reflect.TypeOf(""), buildType(t.Elem, alt.Elem))
	case "struct":
		fs := make([]reflect.StructField, 0, len(t.Fields))
		for i := range t.Fields {
			f, a := &t.Fields[i], &alt.Fields[i]
			sf := reflect.StructField{Name: f.Name, Type: buildType(f.T, a.T), Tag: reflect.StructTag(f.TagString() + " " + altTagString(a))}
			if f.Unexp {
				sf.PkgPath = "verif/harness/internal/gen"
			}
			fs = append(fs, sf)
		}
		return reflect.StructOf(fs)
	}
	return t.Type()
}

// sameStructure reports whether alt describes the same Go structure as t.
func sameStructure(t, alt *gen.TD) bool {
	if t == nil || alt == nil {
		return t == alt
	}
	if t.Kind != alt.Kind || t.N != alt.N || len(t.Fields) != len(alt.Fields) || (t.Elem == nil) != (alt.Elem == nil) {
		return false
	}
	if t.Elem != nil && !sameStructure(t.Elem, alt.Elem) {
		return false
	}
	for i := range t.Fields {
		f, a := &t.Fields[i], &alt.Fields[i]
		if f.Name != a.Name || f.Unexp != a.Unexp || !sameStructure(f.T, a.T) {
			return false
		}
	}
	return true
}

func cloneTD(t *gen.TD) *gen.TD {
	if t == nil {
		return nil
	}
	c := *t
	c.Elem = cloneTD(t.Elem)
	c.Fields = nil
	for _, f := range t.Fields {
		f.T = cloneTD(f.T)
		c.Fields = append(c.Fields, f)
	}
	return &c
}

// ---------------------------------------------------------------------------
// names and paths

// locate finds the setting a field named name reads in object o when the
// path separator sep is in force ("" = names are not split): the container
// holding it and its position there, or nil.
func locate(o *gen.Tree, name, sep string) (*gen.Tree, int) {
	parts := []string{name}
	if sep != "" {
		parts = strings.Split(name, sep)
	}
	cur := o
	for i, p := range parts {
		if cur == nil || cur.K != "obj" {
			return nil, -1
		}
		idx := -1
		for j, k := range cur.Keys {
			if k == p {
				idx = j
				break
			}
		}
		if idx < 0 {
			return nil, -1
		}
		if i == len(parts)-1 {
			return cur, idx
		}
		cur = cur.Vals[idx]
	}
	return nil, -1
}

func lookup(o *gen.Tree, name, sep string) *gen.Tree {
	if p, i := locate(o, name, sep); p != nil {
		return p.Vals[i]
	}
	return nil
}

// putAt stores the setting of a field named name, below intermediate objects if sep splits the name.
func putAt(o *gen.Tree, name, sep string, v *gen.Tree) {
	parts := []string{name}
	if sep != "" {
		parts = strings.Split(name, sep)
	}
	cur := o
	for _, p := range parts[:len(parts)-1] {
		next := cur.Get(p)
		if next == nil || next.K != "obj" {
			next = gen.Obj()
			cur.Put(p, next)
		}
		cur = next
	}
	cur.Put(parts[len(parts)-1], v)
}

// firstSegment is the key of the object itself through which the name is read.
func firstSegment(name, sep string) string {
	if sep != "" {
		if i := strings.Index(name, sep); i >= 0 {
			return name[:i]
		}
	}
	return name
}

// namespace collects the keys of one configuration object that the struct
// (with its inline structs) reads under the view.
func namespace(sh *gen.TD, sep string, into map[string]bool) {
	for i := range sh.Fields {
		f := &sh.Fields[i]
		if f.Unexp {
			continue
		}
		if f.Inline {
			namespace(f.T.Shape(), sep, into)
			continue
		}
		into[firstSegment(f.ConfigName(), sep)] = true
	}
}
