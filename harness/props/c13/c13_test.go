// Package c13 decides property C13: Unpack changes only what the
// configuration mentions and nothing when it fails.
package c13

import (
	"fmt"
	"reflect"
	"runtime"
	"runtime/debug"
	"testing"

	ucfg "github.com/elastic/go-ucfg"

	"verif/harness/internal/gen"
	"verif/harness/internal/runlog"
)

func policyOpts(global string) ([]ucfg.Option, error) {
	switch global {
	case "":
		return nil, nil
	case "replace":
		return []ucfg.Option{ucfg.ReplaceValues}, nil
	case "append":
		return []ucfg.Option{ucfg.AppendValues}, nil
	case "prepend":
		return []ucfg.Option{ucfg.PrependValues}, nil
	}
	return nil, fmt.Errorf("harness: unknown global policy %q", global)
}

// unpack calls Unpack and separates a returned error from a panic.
func unpack(cfg *ucfg.Config, to interface{}, opts []ucfg.Option) (err error, panicked error) {
	defer func() {
		if p := recover(); p != nil {
			s := string(debug.Stack())
			if len(s) > 2500 {
				s = s[:2500]
			}
			panicked = fmt.Errorf("Unpack panicked: %v\n%s", p, s)
		}
	}()
	return cfg.Unpack(to, opts...), nil
}

func runCase(c Case, r *runlog.R) error {
	if c.T == nil || c.T.Shape().Kind != "struct" || leafBase(c.T) != "" || c.P == nil || c.Cfg == nil || c.Cfg.K != "obj" {
		return fmt.Errorf("harness: malformed case")
	}
	opts, err := policyOpts(c.Global)
	if err != nil {
		return err
	}
	if (runlog.IsOpen("D51") || avoided()["D51"]) && regexpFromContainer(&c) {
		// open finding D51: an object or list is accepted as the setting of a regular expression
		// (C13_AVOID=D51 treats it as open during development)
		r.Excluded("D51")
		r.Discard()
		return nil
	}
	typ := c.T.Type()
	prefilled := func() reflect.Value { // a fresh copy of the pre-filled value (addressable)
		p := reflect.New(typ)
		c.T.Set(p.Elem(), c.P)
		return p.Elem()
	}
	describe := func() string {
		return fmt.Sprintf(" type   %v\n target %s\n config %s\n global policy %q", typ, gen.Show(prefilled()), showTree(c.Cfg), c.Global)
	}
	target := prefilled().Addr() // *struct
	// a shallow copy keeps everything the struct referred to reachable, so that identities stay comparable
	keep := reflect.New(target.Type().Elem())
	keep.Elem().Set(target.Elem())
	defer runtime.KeepAlive(keep)
	before := fingerprintOf(target.Elem())

	cfg, err := ucfg.NewFrom(c.Cfg.Go())
	if err != nil {
		return fmt.Errorf("harness: NewFrom(config) failed: %v\n%s", err, describe())
	}
	uerr, panicked := unpack(cfg, target.Interface(), opts)
	if panicked != nil {
		return fmt.Errorf("%v\n%s", panicked, describe())
	}

	// what the case is about (independent of the outcome)
	feats := map[string]bool{}
	typeFeatures(c.T, feats)
	ss := sites(c.T, c.Cfg)
	nMentioned := countLeaves(ss)
	nUntouched := unmentionedNonZero(c.T, prefilled(), c.Cfg)

	if uerr != nil {
		// failure: the struct still holds its previous field values
		after := fingerprintOf(target.Elem())
		if d := diffFingerprints(before, after); d != "" {
			return fmt.Errorf("Unpack failed (%v) but changed the struct passed in\n %s\n%s\n after  %s", uerr, d, describe(), gen.Show(target.Elem()))
		}
		if c.Fault == nil && !hasValidateTag(c.T) {
			// nothing in the case is invalid: every mentioned setting must unpack on its own, or the failure is unexplained
			x := newExpectation()
			_, perr := x.merge(c.T, c.Global, prefilled(), c.Cfg, invalid, "")
			if x.outside {
				r.Discard()
				return nil
			}
			if perr == nil {
				return fmt.Errorf("Unpack failed although every mentioned setting unpacks into a fresh target of its field's type and no validator rejects a value: %v\n%s", uerr, describe())
			}
			if _, ok := perr.(*badSetting); !ok {
				return perr
			}
			r.Class("failure explained by a setting that does not convert on its own")
		}
		r.Class("outcome: error")
		if c.Fault != nil {
			r.Class("fault: " + c.Fault.Kind)
			r.ClassIf(c.Fault.Index > 0, "fault after at least one processed setting")
			r.ClassIf(c.Fault.Index >= 3, "fault after at least three processed settings")
			r.NonTrivialIf(c.Fault.Index > 0)
		}
	} else {
		// success: exactly the mentioned settings were applied
		x := newExpectation()
		want, perr := x.merge(c.T, c.Global, prefilled(), c.Cfg, target.Elem(), "")
		if x.outside {
			r.Discard()
			return nil
		}
		if perr != nil {
			if _, ok := perr.(*badSetting); ok {
				return fmt.Errorf("Unpack succeeded although a mentioned setting cannot be unpacked on its own: %v\n%s\n result %s", perr, describe(), gen.Show(target.Elem()))
			}
			return perr
		}
		if !gen.EqualValues(want, target.Elem()) {
			return fmt.Errorf("Unpack succeeded with an unexpected result\n%s\n got    %s\n want   %s", describe(), gen.Show(target.Elem()), gen.Show(want))
		}
		if len(x.strict) > 0 {
			return fmt.Errorf("Unpack changed a part of the target the configuration does not mention\n %s\n%s\n got    %s\n want   %s", x.strict[0], describe(), gen.Show(target.Elem()), gen.Show(want))
		}
		r.Class("outcome: ok")
		if c.Fault != nil {
			r.Class("fault without effect: " + c.Fault.Kind)
		}
		for k := range x.listMerges {
			r.Class("list: " + k)
		}
		for k := range x.classes {
			r.Class(k)
		}
	}
	r.NonTrivialIf(nMentioned >= 1 && nUntouched >= 1)
	r.ClassIf(c.T.Kind != "struct", "target is a catalogue struct with methods")
	r.ClassIf(nMentioned == 0, "no setting mentioned")
	r.ClassIf(nMentioned >= 4, "four or more settings mentioned")
	r.ClassIf(nUntouched >= 1, "unmentioned non-zero field")
	r.Class("global policy: " + map[string]string{"": "default"}[c.Global] + c.Global)
	for k := range feats {
		r.Class("type has " + k)
	}
	return nil
}

var subUnpack = runlog.Register(&runlog.Sub[Case]{
	Name: "prefilled-unpack",
	Rule: "random struct type (reflect.StructOf over all primitive kinds, named variants, durations, regexps, pointers, slices, arrays, maps, nested and inline structs; ignored and unexported fields; replace/append/prepend/merge tags at any depth; catalogue types with InitDefaults, Validate and Unpack methods; in 1 of 8 cases the target itself is a catalogue struct with InitDefaults and Validate), a pre-filled value, a configuration built from the type that mentions a random subset of the fields (valid settings of the right shape; nil settings count as not mentioned; settings under the names of ignored/unexported fields), a global policy option, and in 30% of the cases one injected fault (unconvertible setting, wrong shape, failing Validate of a primitive or of a struct after all its fields, failing Unpacker, failing validate tag on a mentioned or an absent field) at a position biased to late fields. On success the target must equal the expectation built from the pre-filled value, the type's own InitDefaults, every mentioned primitive unpacked alone into a fresh zero target, and the list policy in force (unmentioned parts bit for bit); on error the struct must hold its previous values (maps and pointees by identity only); without a fault Unpack must succeed. Non-trivial: at least one mentioned primitive setting and at least one unmentioned field with a non-zero pre-filled value, or Unpack failed at an injected fault that is processed after at least one mentioned setting. Distinct: hash of the whole case.",
	Gen:  genCase,
	Run:  runCase,
})

func TestPrefilledUnpack(t *testing.T) { subUnpack.Check(t, 160000, 3000000) }

func TestReplay(t *testing.T) { runlog.ReplayMain(t) }
