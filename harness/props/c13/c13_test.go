// Package c13 decides property C13: Unpack changes only what the
// configuration mentions and nothing when it fails.
package c13

import (
	"fmt"
	"reflect"
	"runtime"
	"runtime/debug"
	"sort"
	"strings"
	"testing"

	ucfg "github.com/elastic/go-ucfg"

	"verif/harness/internal/gen"
	"verif/harness/internal/runlog"
)

func policyOpts(global string) ([]ucfg.Option, error) {
	switch global {
	case "":
		return nil, nil
	case "replace":
		return []ucfg.Option{ucfg.ReplaceValues}, nil
	case "append":
		return []ucfg.Option{ucfg.AppendValues}, nil
	case "prepend":
		return []ucfg.Option{ucfg.PrependValues}, nil
	}
	return nil, fmt.Errorf("harness: unknown global policy %q", global)
}

// unpack calls Unpack and separates a returned error from a panic.
func unpack(cfg *ucfg.Config, to interface{}, opts []ucfg.Option) (err error, panicked error) {
	defer func() {
		if p := recover(); p != nil {
			s := string(debug.Stack())
			if len(s) > 2500 {
				s = s[:2500]
			}
			panicked = fmt.Errorf("Unpack panicked: %v\n%s", p, s)
		}
	}()
	return cfg.Unpack(to, opts...), nil
}

func stepOpts(st *Step) ([]ucfg.Option, error) {
	opts, err := policyOpts(st.Global)
	if err != nil {
		return nil, err
	}
	switch st.Tag {
	case "":
	case "config":
		opts = append(opts, ucfg.StructTag("config"))
	case "alt":
		opts = append(opts, ucfg.StructTag(altTagName))
	case "none":
		opts = append(opts, ucfg.StructTag(noneTagName))
	default:
		return nil, fmt.Errorf("harness: unknown struct tag selector %q", st.Tag)
	}
	switch st.VTag {
	case "":
	case "validate":
		opts = append(opts, ucfg.ValidatorTag("validate"))
	case "altv":
		opts = append(opts, ucfg.ValidatorTag(altVTagName))
	case "none":
		opts = append(opts, ucfg.ValidatorTag(noneVTagName))
	default:
		return nil, fmt.Errorf("harness: unknown validator tag selector %q", st.VTag)
	}
	if st.Sep != "" {
		opts = append(opts, ucfg.PathSep(st.Sep))
	}
	return opts, nil
}

func (st *Step) optString() string {
	return fmt.Sprintf("StructTag %q ValidatorTag %q PathSep %q global policy %q", st.Tag, st.VTag, st.Sep, st.Global)
}

func runCase(c Case, r *runlog.R) error {
	// a class is counted once per case, however many calls of the history show it
	seen := map[string]bool{}
	class := func(label string) { seen[label] = true }
	classIf := func(cond bool, label string) {
		if cond {
			seen[label] = true
		}
	}
	defer func() {
		labels := make([]string, 0, len(seen))
		for l := range seen {
			labels = append(labels, l)
		}
		sort.Strings(labels)
		for _, l := range labels {
			r.Class(l)
		}
	}()
	if c.T == nil || c.T.Shape().Kind != "struct" || leafBase(c.T) != "" || c.P == nil || c.Cfg == nil || c.Cfg.K != "obj" {
		return fmt.Errorf("harness: malformed case")
	}
	if c.Alt != nil && !sameStructure(c.T, c.Alt) {
		return fmt.Errorf("harness: malformed case: the two tag sets describe different Go structures")
	}
	steps := c.steps()
	for i := range steps {
		if steps[i].Cfg == nil || steps[i].Cfg.K != "obj" {
			return fmt.Errorf("harness: malformed case")
		}
		if c.Alt == nil && (tagSel(steps[i].Tag) == 1 || vtagSel(steps[i].VTag) == 1) {
			return fmt.Errorf("harness: malformed case: no second tag set")
		}
	}
	typ := buildType(c.T, c.Alt)
	plan := planAliases(&c)
	aliased, aliasDropped := 0, 0
	newTarget := func() reflect.Value { // a newly pre-filled value (pointer to it)
		p := reflect.New(typ)
		c.T.Set(p.Elem(), c.P)
		fillIfaces(p.Elem(), c.T, c.P)
		aliased, aliasDropped = plan.apply(p.Elem())
		return p
	}

	type done struct {
		target reflect.Value // *struct
		copy   reflect.Value // deep copy of its value after its last call
		step   int
	}
	var earlier []done
	var history []string
	var target reflect.Value
	var prevCfg *ucfg.Config
	nontrivial := false
	poisoned := false

	for k := range steps {
		st := &steps[k]
		opts, err := stepOpts(st)
		if err != nil {
			return err
		}
		v := makeView(c.T, c.Alt, st.Tag, st.VTag)
		view := v.td
		if (runlog.IsOpen("D51") || avoided()["D51"]) && regexpFromContainer(view, st.Cfg, st.Sep) {
			// open finding D51: an object or list is accepted as the setting of a regular expression
			// (C13_AVOID=D51 treats it as open during development)
			r.Excluded("D51")
			r.Discard()
			return nil
		}
		if st.Fresh || !target.IsValid() || poisoned {
			// (poisoned: the previous call failed inside the own Unpack of a type after that had stored the
			// rejected value in its receiver. Behind a pre-filled pointer the receiver is the pointee the struct
			// shares, whose contents may differ after a failure; it would make every later call fail.)
			poisoned = false
			if target.IsValid() {
				earlier = append(earlier, done{target, deepCopy(target.Elem()), k - 1})
			}
			target = newTarget()
		}
		old := deepCopy(target.Elem()) // what the call starts from; never written to
		describe := func() string {
			h := ""
			if len(history) > 0 {
				h = "\n earlier calls in this process on the same type:\n  " + strings.Join(history, "\n  ")
			}
			return fmt.Sprintf(" type   %v\n call %d of %d: %s\n target %s\n config %s%s", typ, k+1, len(steps), st.optString(), gen.Show(old), showTree(st.Cfg), h)
		}
		// a shallow copy keeps everything the struct referred to reachable, so that identities stay comparable
		keep := reflect.New(typ)
		keep.Elem().Set(target.Elem())
		defer runtime.KeepAlive(keep)
		before := fingerprintOf(target.Elem())
		var sharedBefore [][]string
		for _, p := range plan.spaths {
			if d, ok := walkPath(target.Elem(), p); ok {
				sharedBefore = append(sharedBefore, append([]string{header(d)}, fingerprintOf(d)...))
			} else {
				sharedBefore = append(sharedBefore, nil)
			}
		}

		cfg := prevCfg
		if !st.Reuse || cfg == nil {
			cfg, err = ucfg.NewFrom(st.Cfg.Go())
			if err != nil {
				return fmt.Errorf("harness: NewFrom(config) failed: %v\n%s", err, describe())
			}
		}
		prevCfg = cfg
		arg := target.Interface()
		if c.Indirect {
			pp := reflect.New(target.Type())
			pp.Elem().Set(target)
			arg = pp.Interface()
		}
		uerr, panicked := unpack(cfg, arg, opts)
		if panicked != nil {
			return fmt.Errorf("%v\n%s", panicked, describe())
		}
		// what the call is about (independent of the outcome)
		ss := sites(view, st.Cfg, st.Sep)
		nMentioned := countLeaves(ss)
		for _, s := range ss {
			if s.fname != "" && s.fname[0] >= 0x80 {
				class("a mentioned setting belongs to a field whose Go name starts with an upper-case letter outside ASCII")
				classIf(st.Fault != nil && len(st.Fault.Path) == len(s.path) && strings.Join(st.Fault.Path, "\x00") == strings.Join(s.path, "\x00"), "the injected fault is the setting of such a field")
			}
			classIf(len(s.fname) > 30, "a mentioned setting belongs to a field whose Go name is longer than 30 bytes")
		}
		nUntouched := unmentionedNonZero(view, old, st.Cfg, st.Sep)

		if uerr != nil {
			// failure: the struct still holds its previous field values
			after := fingerprintOf(target.Elem())
			if d := diffFingerprints(before, after); d != "" {
				return fmt.Errorf("Unpack failed (%v) but changed the struct passed in\n %s\n%s\n after  %s", uerr, d, describe(), gen.Show(target.Elem()))
			}
			if st.Fault == nil && !hasValidateTag(view) {
				// nothing in the call is invalid: every mentioned setting must unpack on its own, or the failure is unexplained
				x := newExpectation(st.Sep)
				_, perr := x.merge(view, st.Global, old, st.Cfg, invalid, "")
				if x.outside {
					r.Discard()
					return nil
				}
				if perr == nil {
					return fmt.Errorf("Unpack failed although every mentioned setting unpacks into a fresh target of its field's type and no validator (under the tag name the call reads) rejects a value: %v\n%s", uerr, describe())
				}
				if _, ok := perr.(*badSetting); !ok {
					return perr
				}
				class("failure explained by a setting that does not convert on its own")
			}
			class("outcome: error")
			poisoned = st.Fault != nil && st.Fault.Kind == "unpack-after-store"
			if st.Fault != nil {
				class("fault: " + st.Fault.Kind)
				classIf(st.Fault.Index > 0, "fault after at least one processed setting")
				classIf(st.Fault.Index >= 3, "fault after at least three processed settings")
				nontrivial = nontrivial || st.Fault.Index > 0
			}
		} else {
			// success: exactly the mentioned settings were applied. A field that shares a pointer, map or non-flat slice
			// with another field has no setting; what it shares may have changed through the other field, so the
			// expectation starts from its present contents (its identity and direct contents are compared below)
			for _, p := range plan.spaths {
				o, ok1 := walkPath(old, p)
				d, ok2 := walkPath(target.Elem(), p)
				if ok1 && ok2 {
					o.Set(deepCopy(d))
				}
			}
			x := newExpectation(st.Sep)
			want, perr := x.merge(view, st.Global, old, st.Cfg, target.Elem(), "")
			if x.outside {
				r.Discard()
				return nil
			}
			if perr != nil {
				if _, ok := perr.(*badSetting); ok {
					return fmt.Errorf("Unpack succeeded although a mentioned setting cannot be unpacked on its own: %v\n%s\n result %s", perr, describe(), gen.Show(target.Elem()))
				}
				return perr
			}
			if !gen.EqualValues(want, target.Elem()) {
				return fmt.Errorf("Unpack succeeded with an unexpected result\n%s\n got    %s\n want   %s", describe(), gen.Show(target.Elem()), gen.Show(want))
			}
			if len(x.strict) > 0 {
				return fmt.Errorf("Unpack changed a part of the target the configuration does not mention\n %s\n%s\n got    %s\n want   %s", x.strict[0], describe(), gen.Show(target.Elem()), gen.Show(want))
			}
			class("outcome: ok")
			if st.Fault != nil {
				class("fault without effect: " + st.Fault.Kind)
			}
			for k := range x.listMerges {
				class("list: " + k)
			}
			for k := range x.classes {
				class(k)
			}
		}
		// a field that shares a pointer, map or non-flat slice with another one has no setting: it still refers to
		// the same object and holds the same direct contents (what it shares with the other field may have changed)
		for i, p := range plan.spaths {
			d, ok := walkPath(target.Elem(), p)
			if !ok || sharedBefore[i] == nil {
				continue
			}
			now := append([]string{header(d)}, fingerprintOf(d)...)
			if diff := diffFingerprints(sharedBefore[i], now); diff != "" {
				return fmt.Errorf("Unpack (error: %v) changed a field the configuration does not mention, which was pre-filled from the same slice, map or pointer as another field (path %v)\n %s\n%s\n after  %s", uerr, p, diff, describe(), gen.Show(target.Elem()))
			}
		}
		// targets of earlier calls are not this call's business
		for _, e := range earlier {
			if d := strictSame(e.copy, e.target.Elem(), ""); d != "" {
				return fmt.Errorf("Unpack changed the target of an earlier call (call %d), which was not passed to it\n %s\n%s", e.step+1, d, describe())
			}
		}

		history = append(history, fmt.Sprintf("call %d: %s, newly pre-filled target %v, same *Config as before %v, config %s -> error %v", k+1, st.optString(), st.Fresh, st.Reuse, showTree(st.Cfg), uerr))
		nontrivial = nontrivial || (nMentioned >= 1 && nUntouched >= 1)
		classIf(nMentioned == 0, "no setting mentioned")
		classIf(nMentioned >= 4, "four or more settings mentioned")
		classIf(nUntouched >= 1, "unmentioned non-zero field")
		class("global policy: " + map[string]string{"": "default"}[st.Global] + st.Global)
		if c.Alt != nil {
			class("option StructTag: " + map[string]string{"": "not given", "config": "the default, explicitly", "alt": "the second tag set", "none": "a tag name no field has"}[st.Tag])
			class("option ValidatorTag: " + map[string]string{"": "not given", "validate": "the default, explicitly", "altv": "the second tag set", "none": "a tag name no field has"}[st.VTag])
			class("option PathSep: " + map[string]string{"": "not given"}[st.Sep] + st.Sep)
			classIf(st.Sep != "" && mentionsSplitName(ss, st.Sep), "a mentioned setting is read through a name the separator splits")
			classIf(k > 0 && !st.Fresh, "call over the result of the previous call")
			classIf(k > 0 && st.Fresh, "call into a newly pre-filled target of a type unpacked before")
			classIf(st.Reuse, "the same *Config object unpacked again")
			classIf(st.Repeat && !st.Reuse, "the configuration of the previous call unpacked again from a new *Config object")
			for j := 0; j < k; j++ {
				classIf(tagSel(steps[j].Tag) != tagSel(st.Tag), "type unpacked earlier under another struct tag name")
				classIf(vtagSel(steps[j].VTag) != vtagSel(st.VTag), "type unpacked earlier under another validator tag name")
				classIf(steps[j].Sep != st.Sep, "type unpacked earlier under another path separator")
			}
		}
	}
	r.NonTrivialIf(nontrivial)
	feats := map[string]bool{}
	typeFeatures(c.T, feats)
	nameFeatures(c.T, feats)
	for k := range feats {
		class("type has " + k)
	}
	classIf(c.T.Kind != "struct", "target is a catalogue struct with methods")
	isUnp := c.T.Kind == kCfgUnp || c.T.Kind == kAnyUnp
	classIf(isUnp, "the struct passed in implements an Unpacker interface (ConfigUnpacker or Unpacker)")
	for i := range steps {
		if f := steps[i].Fault; f != nil && f.Kind == "unpack-after-store" {
			classIf(isUnp && len(f.Path) == 1, "the own Unpack of the struct passed in fails after it stored settings in its receiver")
			classIf(len(f.Path) > 1, "the own Unpack of a type below the top level fails after it stored settings in its receiver")
		}
	}
	classIf(c.Indirect, "Unpack receives a pointer to the pointer to the struct")
	classIf(len(steps) > 1, fmt.Sprintf("history of %d calls", len(steps)))
	if aliased > 0 {
		classIf(len(plan.spaths) > 0, "alias: two fields pre-filled from one pointer, map or non-flat slice (one of them never mentioned)")
		classIf(len(plan.use) > len(plan.spaths), "alias: two places pre-filled from one flat slice (both may be mentioned)")
	}
	for _, a := range plan.use {
		classIf(aliased > 0 && a.Cut > 0, "alias: the unmentioned or second place holds a prefix of the other's slice")
		classIf(aliased > 0 && a.Cut < 0, "alias: one place holds a prefix of the slice, its spare capacity is the other's contents")
	}
	classIf(aliasDropped > 0, "alias dropped: an injected validator tag made the two types differ")
	if c.Alt != nil && c.T.Kind == "struct" {
		viewFeatures(c.T, c.Alt, classIf)
	}
	return nil
}

// mentionsSplitName reports whether a mentioned setting is read through a field name the separator splits.
func mentionsSplitName(ss []site, sep string) bool {
	for _, s := range ss {
		for _, p := range s.path {
			if strings.Contains(p, sep) {
				return true
			}
		}
	}
	return false
}

// viewFeatures records how the two tag sets of the outermost struct differ.
func viewFeatures(t, alt *gen.TD, classIf func(bool, string)) {
	for i := range t.Fields {
		p, a := &t.Fields[i], &alt.Fields[i]
		if p.Unexp {
			continue
		}
		classIf(!p.Inline && !a.Inline && p.ConfigName() != a.ConfigName(), "tag sets differ: name of a field")
		classIf(p.Ignore != a.Ignore, "tag sets differ: ignore flag")
		classIf(p.Inline != a.Inline, "tag sets differ: inline flag")
		classIf(p.Policy != a.Policy, "tag sets differ: policy flag")
		for j := range t.Fields {
			classIf(i != j && !a.Inline && !t.Fields[j].Inline && !t.Fields[j].Unexp && a.ConfigName() == t.Fields[j].ConfigName(), "tag sets differ: a field takes the name another field has under the other tag")
		}
	}
}

var subUnpack = runlog.Register(&runlog.Sub[Case]{
	Name: "prefilled-unpack",
	Rule: "random struct type (reflect.StructOf over all primitive kinds, named variants, durations, regexps, pointers, slices, arrays, maps, nested and inline structs; ignored and unexported fields; replace/append/prepend/merge tags at any depth; GO FIELD NAMES: half of the fields are called F<i> / f<i> / G<i>x<n>, the others (tagged, untagged, ignored and inline fields alike) start with an upper-case letter outside ASCII (2-, 3- and 4-byte encodings; Kelvin sign and dotted capital I, whose lower case is an ASCII letter; capital sharp s, whose lower case is shorter; a letter without lower case; a digraph with a separate title case), carry such letters behind an ASCII first letter, are 30-300 bytes long, carry a tag that equals the Go name or differs from it only in case (upper-cased, lower-cased), or differ only in case from a sibling (exported/unexported, and - in this sub-check - exported/exported with different tags); unexported fields also start with a lower-case, caseless or title-case letter outside ASCII or an underscore (also before an upper-case letter); untagged fields are read under strings.ToLower of whatever the name is; catalogue types with InitDefaults, Validate and Unpack methods, among them types that implement the Unpacker interfaces and STORE settings in their receiver before they fail: UnpInt (IntUnpacker, overwrites itself, then rejects 13), CfgUnp (ConfigUnpacker: unpacks field by field into its receiver through a method-less twin type `type plain T`, then rejects hi == 13) and AnyUnp (Unpacker(interface{}): the same from the map it receives), as fields, behind pointers, in slices, arrays and maps; in 1 of 8 cases the target itself is a catalogue struct: with InitDefaults and Validate, or (3 of 8 of those) one that implements ConfigUnpacker / Unpacker), a pre-filled value, a configuration built from the type that mentions a random subset of the fields (valid settings of the right shape; nil settings count as not mentioned; settings under the names of ignored/unexported fields; LIST SPELLINGS: a slice place - field, element, map value, pointee, at any depth, pre-filled with nil, an empty or a 1-3 element slice - gets a list of 0-3 settings or, 1 time in 4, the PLAIN value of one element instead of the list [v] (only where the element's own setting is a primitive; also for nested list types, where one value stands for [[v]]), an array of one element gets the plain value 1 time in 3), a global policy option, and in 30% of the cases one injected fault (unconvertible setting, wrong shape, failing Validate of a primitive or of a struct after all its fields, failing Unpacker, the type's own Unpack failing after it stored the object's settings in its receiver, failing validate tag on a mentioned or an absent field) at a position biased to late fields. In 1 of 6 generated types two fields anywhere in the nest of struct values are pre-filled from the SAME slice (the whole slice, or two windows of one backing array so that the spare capacity of one is the contents of the other), map or pointer, and in 1 of 12 cases two places below slices share one flat slice: a field that shares a pointer, a map or a slice holding pointers or maps never gets a setting and must keep its identity and its direct contents (what it shares may change through the other field); places that share a flat slice may both be mentioned and must each come out as if they did not share. On success the target must equal the expectation built from the pre-filled value, the type's own InitDefaults, every mentioned primitive unpacked alone into a fresh zero target, and the list policy in force (unmentioned parts bit for bit), where a plain value given for a list is merged with the old elements exactly like the list of that one element (documentation of Unpack: 'Primitive values will be handled like arrays of length 1') - index-wise with the old tail kept, appended, prepended or replacing, by global option or tag - and an object given for a list is not asserted; on error the struct must hold its previous values (maps and pointees by identity only); without a fault Unpack must succeed. Non-trivial: at least one mentioned primitive setting and at least one unmentioned field with a non-zero pre-filled value, or Unpack failed at an injected fault that is processed after at least one mentioned setting. Distinct: hash of the whole case.",
	Gen:  genCase,
	Run:  runCase,
})

func TestPrefilledUnpack(t *testing.T) { subUnpack.Check(t, 140000, 3000000) }

func TestReplay(t *testing.T) { runlog.ReplayMain(t) }
