package c13

import (
	"testing"

	"verif/harness/internal/gen"
	"verif/harness/internal/runlog"
)

// The subset grid: one fixed, rich struct type with a fixed non-zero
// pre-filled value; every subset of its 11 settings, every position of a
// single invalid setting within the subset (or none), every global policy.
// It enumerates the quantifier of the property ("every subset of the fields,
// every failure position") completely for this one type.

type gridField struct {
	name  string
	valid *gen.Tree
	bad   *gen.Tree // nil: the field is skipped by Unpack, a fault cannot be placed there
	kind  string    // fault kind of bad
}

func gridType() (*gen.TD, *gen.TV) {
	ptr := func(e *gen.TD) *gen.TD { return &gen.TD{Kind: "ptr", Elem: e} }
	slice := func(e *gen.TD) *gen.TD { return &gen.TD{Kind: "slice", Elem: e} }
	inner := &gen.TD{Kind: "struct", Fields: []gen.FD{
		{Name: "X", Tag: "x", T: td("int")},
		{Name: "Y", Tag: "y", T: td("string")},
	}}
	inl := &gen.TD{Kind: "struct", Fields: []gen.FD{
		{Name: "H", Tag: "h", T: td("uint8")},
		{Name: "I", Tag: "i", T: td("dur")},
	}}
	t := &gen.TD{Kind: "struct", Fields: []gen.FD{
		{Name: "A", Tag: "a", T: td("int")},
		{Name: "B", Tag: "b", T: slice(td("int"))},
		{Name: "C", Tag: "c", T: &gen.TD{Kind: "map", Elem: td("int")}},
		{Name: "D", Tag: "d", T: ptr(inner)},
		{Name: "E", Tag: "e", Policy: "append", T: slice(td(kValStruct))},
		{Name: "F", Tag: "f", T: td(kDefStruct)},
		{Name: "G", Tag: "g", T: td("regexp")},
		{Name: "Inl", Inline: true, T: inl},
		{Name: "J", Tag: "j", Ignore: true, T: td("string")},
		{Name: "u", Tag: "u", Unexp: true, T: td("int")},
		{Name: "K", Tag: "k", T: td(kDefInt)},
		{Name: "Z", Tag: "z", T: td(kValInt)},
	}}
	i := func(n int64) *gen.TV { return &gen.TV{I: n} }
	s := func(x string) *gen.TV { return &gen.TV{S: x} }
	list := func(e ...*gen.TV) *gen.TV { return &gen.TV{Elems: e} }
	v := list(
		i(1),
		list(i(1), i(2), i(3)),
		&gen.TV{Keys: []string{"k", "j"}, Elems: []*gen.TV{i(1), i(2)}},
		list(list(i(7), s("old"))),
		list(list(i(1), s("p"))),
		list(i(1), s("p"), i(2), i(3)),
		s("a.*b$"),
		list(&gen.TV{U: 7}, i(1000000000)),
		s("ign"),
		i(5),
		i(3),
		i(1),
	)
	return t, v
}

func gridFields() []gridField {
	obj := func(k string, v *gen.Tree) *gen.Tree { return gen.Obj().Put(k, v) }
	return []gridField{
		{"a", gen.Int(42), gen.Str("zz"), "conv"},
		{"b", gen.List(gen.Int(9)), gen.List(gen.Int(9), gen.Str("zz")), "conv"},
		{"c", gen.Obj().Put("k", gen.Int(5)).Put("n", gen.Int(6)), gen.Obj().Put("k", gen.Int(5)).Put("n", gen.Str("zz")), "conv"},
		{"d", obj("x", gen.Int(8)), obj("x", gen.Str("zz")), "conv"},
		{"e", gen.List(obj("x", gen.Int(2))), gen.List(obj("x", gen.Int(13))), "val-struct"},
		{"f", obj("x", gen.Int(9)), gen.Obj().Put("x", gen.Int(9)).Put("z", gen.Int(13)), "val-struct"},
		{"g", gen.Str("new+"), gen.Str("("), "conv"},
		{"h", gen.Uint(9), gen.Int(300), "conv"},
		{"j", gen.Str("set"), nil, ""},
		{"k", gen.Int(4), gen.Str("zz"), "conv"},
		{"z", gen.Int(2), gen.Int(13), "val-leaf"},
	}
}

func enumGrid(yield func(Case) bool) {
	t, v := gridType()
	fs := gridFields()
	for mask := 0; mask < 1<<len(fs); mask++ {
		for _, global := range []string{"", "replace", "append", "prepend"} {
			for fault := -1; fault < len(fs); fault++ {
				if fault >= 0 && (mask&(1<<fault) == 0 || fs[fault].bad == nil) {
					continue
				}
				c := Case{T: t, P: v, Global: global, Cfg: gen.Obj()}
				for i, f := range fs {
					if mask&(1<<i) == 0 {
						continue
					}
					if i == fault {
						c.Cfg.Put(f.name, f.bad.Clone())
					} else {
						c.Cfg.Put(f.name, f.valid.Clone())
					}
				}
				if fault >= 0 {
					// the settings of all fields declared before it are processed first
					ss := sites(t, c.Cfg, "")
					before := 0
					for _, s := range ss {
						if s.leaf && topFieldIndex(t, s.path[0]) < topFieldIndex(t, fs[fault].name) {
							before++
						}
					}
					c.Fault = &Fault{Kind: fs[fault].kind, Path: []string{fs[fault].name}, Index: before, Of: countLeaves(ss)}
				}
				if !yield(c) {
					return
				}
			}
		}
	}
}

var subGrid = runlog.Register(&runlog.Sub[Case]{
	Name: "subset-grid",
	Rule: "one fixed struct type (int, []int, map, pointer to struct, append-tagged slice of a validating struct, struct with InitDefaults and Validate, regexp, inline struct, ignored and unexported field, primitive with InitDefaults, validating primitive) with a fixed non-zero pre-filled value: all 2^11 subsets of its settings x {no fault, one invalid setting at each mentioned position} x 4 global policies, checked by the same oracle as prefilled-unpack. Non-trivial: as for prefilled-unpack. The enumeration is complete for this type, value and these settings.",
	Enum: enumGrid,
	Run:  runCase,
})

func TestSubsetGrid(t *testing.T) { subGrid.Enumerate(t, true) }
