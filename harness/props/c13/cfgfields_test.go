package c13

// Sub-check "config-fields": places of type *ucfg.Config in a pre-filled
// target. A setting for such a place is merged into the configuration the
// place holds ("merging lists and maps according to the active policy"); a nil
// place receives the setting; places without a setting keep the very object
// with its contents. The reference for the merged contents is the library's
// own Merge of the two pieces of data under the policy in force (property
// C01's subject), so nothing about merging is re-implemented here.

import (
	"fmt"
	"reflect"
	"strings"
	"testing"

	ucfg "github.com/elastic/go-ucfg"
	"pgregory.net/rapid"

	"verif/harness/internal/canon"
	"verif/harness/internal/gen"
	"verif/harness/internal/runlog"
	"verif/harness/internal/uc"
)

// CfgField is one field of the target that holds configurations.
type CfgField struct {
	Kind   string      `json:"kind"`             // ptr: *Config | iface: interface{} holding a *Config | map: map[string]*Config | imap: map[string]interface{} holding *Config | slice: []*Config | array: [2]*Config
	Policy string      `json:"policy,omitempty"` // policy tag of the field
	Keys   []string    `json:"keys,omitempty"`   // map kinds: the keys of Old
	Old    []*gen.Tree `json:"old"`              // pre-filled contents (objects); a nil entry is a nil pointer; ptr/iface: one entry
	NilMap bool        `json:"nilmap,omitempty"` // map kinds / slice: the container itself is nil
	Set    *gen.Tree   `json:"set,omitempty"`    // the setting (object; for map kinds an object of objects; for slice/array a list of objects); nil: not mentioned; K == "nil": a nil setting
}

// CfgCase is one Unpack call into a struct {Keep int; F0..Fn; Z int}.
type CfgCase struct {
	Fields   []CfgField `json:"fields"`
	Global   string     `json:"global,omitempty"`
	Keep     int64      `json:"keep"`               // pre-filled value of the first field, never mentioned
	Z        *gen.Tree  `json:"z,omitempty"`        // setting of the last field (int); a string that is no number makes Unpack fail after all other fields
	First    *gen.Tree  `json:"first,omitempty"`    // setting of a field declared before the configuration fields (int); invalid: Unpack fails before them
	Indirect bool       `json:"indirect,omitempty"` // the configurations are built as children of a larger configuration
}

var cfgPtrType = reflect.TypeOf((*ucfg.Config)(nil))
var ifaceType = reflect.TypeOf((*interface{})(nil)).Elem()

func (f *CfgField) goType() reflect.Type {
	switch f.Kind {
	case "ptr":
		return cfgPtrType
	case "iface":
		return ifaceType
	case "map":
		return reflect.MapOf(reflect.TypeOf(""), cfgPtrType)
	case "imap":
		return reflect.MapOf(reflect.TypeOf(""), ifaceType)
	case "slice":
		return reflect.SliceOf(cfgPtrType)
	case "array":
		return reflect.ArrayOf(2, cfgPtrType)
	}
	panic("c13: unknown config field kind " + f.Kind)
}

func (c *CfgCase) goType() reflect.Type {
	fs := []reflect.StructField{
		{Name: "Keep", Type: reflect.TypeOf(int64(0)), Tag: `config:"keep"`},
		{Name: "First", Type: reflect.TypeOf(int(0)), Tag: `config:"first"`},
	}
	for i := range c.Fields {
		tag := fmt.Sprintf("f%d", i)
		if p := c.Fields[i].Policy; p != "" {
			tag += "," + p
		}
		fs = append(fs, reflect.StructField{Name: fmt.Sprintf("F%d", i), Type: c.Fields[i].goType(), Tag: reflect.StructTag(fmt.Sprintf(`config:"%s"`, tag))})
	}
	fs = append(fs, reflect.StructField{Name: "Z", Type: reflect.TypeOf(int(0)), Tag: `config:"z"`})
	return reflect.StructOf(fs)
}

// place is one pre-filled *Config of the target with what is expected of it.
type place struct {
	path string
	old  *ucfg.Config // the object the target was pre-filled with (nil: nil pointer)
	fp   string       // its stored contents before the call
}

func newCfg(t *gen.Tree, indirect bool) (*ucfg.Config, error) {
	if t == nil {
		return nil, nil
	}
	if !indirect {
		return ucfg.NewFrom(t.Go())
	}
	parent, err := ucfg.NewFrom(map[string]interface{}{"sub": t.Go(), "other": 1})
	if err != nil {
		return nil, err
	}
	return parent.Child("sub", -1)
}

func dumpCfg(c *ucfg.Config) string {
	if c == nil {
		return "<nil>"
	}
	d, err := uc.Dump(c)
	if err != nil {
		return "unpack error: " + err.Error()
	}
	return canon.String(canon.Split(canon.Of(d)))
}

// refMerge is the reference: the library's Merge of the two pieces of data under the policy.
func refMerge(old *gen.Tree, set *gen.Tree, pol string) (interface{}, error) {
	var base interface{} = map[string]interface{}{}
	if old != nil {
		base = old.Go()
	}
	ref, err := ucfg.NewFrom(base)
	if err != nil {
		return nil, err
	}
	if pol == "merge" {
		pol = ""
	}
	opts, err := policyOpts(pol)
	if err != nil {
		return nil, err
	}
	if err := ref.Merge(set.Go(), opts...); err != nil {
		return nil, err
	}
	return uc.Dump(ref)
}

func asCfg(v reflect.Value) (*ucfg.Config, bool) {
	if v.Kind() == reflect.Interface {
		if v.IsNil() {
			return nil, true
		}
		v = v.Elem()
	}
	if v.Type() != cfgPtrType {
		return nil, false
	}
	return v.Interface().(*ucfg.Config), true
}

func runCfgFields(c CfgCase, r *runlog.R) error {
	if len(c.Fields) == 0 {
		r.Discard()
		return nil
	}
	typ := c.goType()
	target := reflect.New(typ)
	tv := target.Elem()
	tv.Field(0).SetInt(c.Keep)
	// pre-fill
	olds := make([][]*ucfg.Config, len(c.Fields))
	for i := range c.Fields {
		f := &c.Fields[i]
		fv := tv.Field(i + 2)
		for _, o := range f.Old {
			if o != nil && o.K != "obj" {
				return fmt.Errorf("harness: malformed case")
			}
			cfg, err := newCfg(o, c.Indirect)
			if err != nil {
				return fmt.Errorf("harness: building a pre-filled configuration: %v", err)
			}
			olds[i] = append(olds[i], cfg)
		}
		val := func(cfg *ucfg.Config) reflect.Value {
			e := reflect.New(fv.Type()).Elem()
			if fv.Kind() == reflect.Map || fv.Kind() == reflect.Slice || fv.Kind() == reflect.Array {
				e = reflect.New(fv.Type().Elem()).Elem()
			}
			if cfg != nil {
				e.Set(reflect.ValueOf(cfg))
			}
			return e
		}
		switch f.Kind {
		case "ptr", "iface":
			if len(olds[i]) != 1 {
				return fmt.Errorf("harness: malformed case")
			}
			fv.Set(val(olds[i][0]))
		case "map", "imap":
			if len(f.Keys) != len(olds[i]) {
				return fmt.Errorf("harness: malformed case")
			}
			if !f.NilMap {
				m := reflect.MakeMap(fv.Type())
				for j, k := range f.Keys {
					m.SetMapIndex(reflect.ValueOf(k), val(olds[i][j]))
				}
				fv.Set(m)
			}
		case "slice":
			if !f.NilMap {
				s := reflect.MakeSlice(fv.Type(), len(olds[i]), len(olds[i]))
				for j := range olds[i] {
					s.Index(j).Set(val(olds[i][j]))
				}
				fv.Set(s)
			}
		case "array":
			if len(olds[i]) != 2 {
				return fmt.Errorf("harness: malformed case")
			}
			for j := range olds[i] {
				fv.Index(j).Set(val(olds[i][j]))
			}
		}
	}
	fps := make([][]string, len(c.Fields))
	for i := range olds {
		for _, o := range olds[i] {
			fp := ""
			if o != nil {
				fp = ucfg.VerifFingerprint(o, false)
			}
			fps[i] = append(fps[i], fp)
		}
	}
	before := fingerprintOf(tv)

	// the configuration
	src := gen.Obj()
	if c.First != nil {
		src.Put("first", c.First)
	}
	for i := range c.Fields {
		if s := c.Fields[i].Set; s != nil {
			src.Put(fmt.Sprintf("f%d", i), s)
		}
	}
	if c.Z != nil {
		src.Put("z", c.Z)
	}
	cfg, err := ucfg.NewFrom(src.Go())
	if err != nil {
		return fmt.Errorf("harness: NewFrom(config) failed: %v", err)
	}
	opts, err := policyOpts(c.Global)
	if err != nil {
		return err
	}
	describe := func() string {
		var b strings.Builder
		fmt.Fprintf(&b, " type   %v\n global policy %q, pre-filled configurations are children of a larger one: %v\n", typ, c.Global, c.Indirect)
		for i := range c.Fields {
			f := &c.Fields[i]
			var o []string
			for _, t := range f.Old {
				if t == nil {
					o = append(o, "nil")
				} else {
					o = append(o, showTree(t))
				}
			}
			fmt.Fprintf(&b, " F%d (%s, keys %q, container nil: %v) pre-filled with %s\n", i, f.Kind, f.Keys, f.NilMap, strings.Join(o, " ; "))
		}
		fmt.Fprintf(&b, " config %s", showTree(src))
		return b.String()
	}
	uerr, panicked := unpack(cfg, target.Interface(), opts)
	if panicked != nil {
		return fmt.Errorf("%v\n%s", panicked, describe())
	}
	bad := func(t *gen.Tree) bool { return t != nil && t.K == "str" }
	wantFail := bad(c.First) || bad(c.Z)
	r.ClassIf(bad(c.First), "fault before the configuration fields")
	r.ClassIf(bad(c.Z) && !bad(c.First), "fault after the configuration fields")
	r.Class("global policy: " + map[string]string{"": "default"}[c.Global] + c.Global)
	r.ClassIf(c.Indirect, "pre-filled configurations are children of a larger configuration")

	if uerr != nil {
		if !wantFail {
			return fmt.Errorf("Unpack failed although every setting is valid: %v\n%s", uerr, describe())
		}
		// the struct still holds its previous field values: the same configuration objects (their contents may
		// differ), the same maps, slices of the same length with the same elements
		if d := diffFingerprints(before, fingerprintOf(tv)); d != "" {
			return fmt.Errorf("Unpack failed (%v) but changed the struct passed in\n %s\n%s", uerr, d, describe())
		}
		if bad(c.First) {
			// nothing was processed before the failure: the contents are untouched as well
			for i := range olds {
				for j, o := range olds[i] {
					if o != nil && ucfg.VerifFingerprint(o, false) != fps[i][j] {
						return fmt.Errorf("Unpack failed at the first field (%v) but changed the contents of the configuration F%d[%d]\n%s\n now %s", uerr, i, j, describe(), dumpCfg(o))
					}
				}
			}
		}
		r.Class("outcome: error")
		r.NonTrivial()
		return nil
	}
	if wantFail {
		return fmt.Errorf("Unpack succeeded although a setting cannot be converted\n%s", describe())
	}
	r.Class("outcome: ok")
	if got := tv.Field(0).Int(); got != c.Keep {
		return fmt.Errorf("the unmentioned field Keep changed from %d to %d\n%s", c.Keep, got, describe())
	}

	mentioned, untouched := 0, 0
	for i := range c.Fields {
		f := &c.Fields[i]
		fv := tv.Field(i + 2)
		name := fmt.Sprintf("F%d", i)
		pol := c.Global
		if f.Policy != "" {
			pol = f.Policy
		}
		// same checks that a place without a setting kept its object and its contents
		same := func(where string, got reflect.Value, j int) error {
			g, ok := asCfg(got)
			if !ok || g != olds[i][j] {
				return fmt.Errorf("%s has no setting but does not hold the configuration object it was pre-filled with\n%s\n holds %s", where, describe(), dumpCfg(g))
			}
			if g != nil && ucfg.VerifFingerprint(g, false) != fps[i][j] {
				return fmt.Errorf("%s has no setting but the contents of its configuration changed\n%s\n now %s", where, describe(), dumpCfg(g))
			}
			untouched++
			return nil
		}
		// merged checks a place with a setting against the reference merge
		merged := func(where string, got reflect.Value, old *gen.Tree, set *gen.Tree, p string) error {
			g, ok := asCfg(got)
			if !ok || g == nil {
				return fmt.Errorf("%s has a setting but holds no configuration afterwards (%v)\n%s", where, got, describe())
			}
			want, err := refMerge(old, set, p)
			if err != nil {
				return fmt.Errorf("harness: reference merge failed: %v\n%s", err, describe())
			}
			have, err := uc.Dump(g)
			if err != nil {
				return fmt.Errorf("%s: the configuration cannot be unpacked: %v\n%s", where, err, describe())
			}
			if !canon.EqualSplit(have, want) {
				return fmt.Errorf("%s: the setting was not merged into the pre-filled configuration under the policy in force (%q)\n%s\n got  %s\n want %s", where, p, describe(),
					canon.String(canon.Split(canon.Of(have))), canon.String(canon.Split(canon.Of(want))))
			}
			mentioned++
			r.ClassIf(old != nil, "setting merged into a pre-filled configuration ("+f.Kind+")")
			r.ClassIf(old == nil, "a nil place receives the setting ("+f.Kind+")")
			r.ClassIf(old != nil && p != "" && p != "merge", "... under a non-default policy")
			return nil
		}
		isSet := f.Set != nil && f.Set.K != "nil"
		switch f.Kind {
		case "ptr", "iface":
			if !isSet {
				if err := same(name, fv, 0); err != nil {
					return err
				}
				continue
			}
			if f.Kind == "iface" && f.Old[0] == nil {
				mentioned++ // the untyped nil receives the generic value (sub-check iface-prefilled)
				continue
			}
			if err := merged(name, fv, f.Old[0], f.Set, pol); err != nil {
				return err
			}
		case "map", "imap":
			if !isSet {
				if fv.IsNil() != f.NilMap || fv.Len() != len(map[bool][]string{true: nil, false: f.Keys}[f.NilMap]) {
					return fmt.Errorf("%s has no setting but its map changed\n%s", name, describe())
				}
			}
			oldOf := map[string]int{}
			if !f.NilMap {
				for j, k := range f.Keys {
					oldOf[k] = j
				}
			}
			for k, j := range oldOf {
				e := fv.MapIndex(reflect.ValueOf(k))
				if !e.IsValid() {
					return fmt.Errorf("%s[%q] disappeared\n%s", name, k, describe())
				}
				if s := f.Set; isSet && s.Get(k) != nil {
					if f.Kind == "imap" && f.Old[j] == nil {
						continue
					}
					if err := merged(fmt.Sprintf("%s[%q]", name, k), e, f.Old[j], s.Get(k), pol); err != nil {
						return err
					}
				} else if err := same(fmt.Sprintf("%s[%q]", name, k), e, j); err != nil {
					return err
				}
			}
			if isSet {
				for j, k := range f.Set.Keys {
					if _, had := oldOf[k]; had || f.Kind == "imap" {
						continue
					}
					e := fv.MapIndex(reflect.ValueOf(k))
					if !e.IsValid() {
						return fmt.Errorf("%s[%q] has a setting but no entry\n%s", name, k, describe())
					}
					if err := merged(fmt.Sprintf("%s[%q]", name, k), e, nil, f.Set.Vals[j], pol); err != nil {
						return err
					}
				}
			}
		case "slice", "array":
			ol := len(f.Old)
			if f.NilMap {
				ol = 0
			}
			n := 0
			if isSet {
				n = len(f.Set.Vals)
			}
			type origin struct{ oldIdx, newIdx int }
			var plan []origin
			switch {
			case f.Kind == "array":
				for j := 0; j < 2; j++ {
					o := origin{j, -1}
					if isSet {
						o.newIdx = j
					}
					plan = append(plan, o)
				}
			case n == 0 && !(isSet && pol == "replace"):
				for j := 0; j < ol; j++ {
					plan = append(plan, origin{j, -1})
				}
			case pol == "replace":
				for j := 0; j < n; j++ {
					plan = append(plan, origin{-1, j})
				}
			case pol == "append":
				for j := 0; j < ol; j++ {
					plan = append(plan, origin{j, -1})
				}
				for j := 0; j < n; j++ {
					plan = append(plan, origin{-1, j})
				}
			case pol == "prepend":
				for j := 0; j < n; j++ {
					plan = append(plan, origin{-1, j})
				}
				for j := 0; j < ol; j++ {
					plan = append(plan, origin{j, -1})
				}
			default:
				for j := 0; j < n || j < ol; j++ {
					o := origin{-1, -1}
					if j < ol {
						o.oldIdx = j
					}
					if j < n {
						o.newIdx = j
					}
					plan = append(plan, o)
				}
			}
			if fv.Len() != len(plan) {
				return fmt.Errorf("%s holds %d configurations, want %d (policy %q, %d pre-filled, %d settings)\n%s", name, fv.Len(), len(plan), pol, ol, n, describe())
			}
			for j, o := range plan {
				where := fmt.Sprintf("%s[%d]", name, j)
				switch {
				case o.newIdx < 0:
					if err := same(where, fv.Index(j), o.oldIdx); err != nil {
						return err
					}
				case o.oldIdx < 0:
					if err := merged(where, fv.Index(j), nil, f.Set.Vals[o.newIdx], pol); err != nil {
						return err
					}
				default:
					if err := merged(where, fv.Index(j), f.Old[o.oldIdx], f.Set.Vals[o.newIdx], pol); err != nil {
						return err
					}
				}
			}
			r.ClassIf(isSet && ol > 0 && n > 0, "list of configurations: "+map[string]string{"": "index-wise", "merge": "index-wise"}[pol]+map[string]string{"replace": "replace", "append": "append", "prepend": "prepend"}[pol])
		}
	}
	r.NonTrivialIf(mentioned >= 1 && untouched >= 1)
	r.ClassIf(mentioned == 0, "no configuration place mentioned")
	return nil
}

// ---------------------------------------------------------------------------
// generator

var cfgKinds = []string{"ptr", "ptr", "ptr", "iface", "map", "map", "imap", "slice", "slice", "array"}

func genCfgTree(t *rapid.T) *gen.Tree {
	return gen.GenObj(t, &gen.TreeCfg{Depth: 2, Width: 3, Keys: []string{"a", "b", "c"}, NoFloat: true, NoNil: true, NoEmpty: true}, 2)
}

func genCfgFields(t *rapid.T) CfgCase {
	var c CfgCase
	c.Global = rapid.SampledFrom([]string{"", "", "replace", "append", "prepend"}).Draw(t, "global")
	c.Keep = int64(rapid.IntRange(1, 9).Draw(t, "keep"))
	c.Indirect = rapid.IntRange(0, 4).Draw(t, "indirect") == 0
	n := rapid.IntRange(1, 4).Draw(t, "nfields")
	oldOrNil := func() *gen.Tree {
		if rapid.IntRange(0, 3).Draw(t, "nilptr") == 0 {
			return nil
		}
		return genCfgTree(t)
	}
	for i := 0; i < n; i++ {
		f := CfgField{Kind: rapid.SampledFrom(cfgKinds).Draw(t, "kind")}
		if rapid.IntRange(0, 2).Draw(t, "haspol") == 0 {
			f.Policy = rapid.SampledFrom(tagPolicies).Draw(t, "fpol")
		}
		mention := rapid.IntRange(0, 9).Draw(t, "mention")
		switch f.Kind {
		case "ptr", "iface":
			f.Old = []*gen.Tree{oldOrNil()}
			if mention < 6 {
				f.Set = genCfgTree(t)
			}
		case "map", "imap":
			f.NilMap = rapid.IntRange(0, 5).Draw(t, "nilmap") == 0
			for _, k := range []string{"k", "j", "x y"} {
				if !f.NilMap && rapid.Bool().Draw(t, "haskey") {
					f.Keys = append(f.Keys, k)
					f.Old = append(f.Old, oldOrNil())
				}
			}
			if mention < 6 {
				f.Set = gen.Obj()
				for _, k := range []string{"k", "j", "n"} {
					if rapid.Bool().Draw(t, "setkey") {
						f.Set.Put(k, genCfgTree(t))
					}
				}
			}
		case "slice":
			f.NilMap = rapid.IntRange(0, 5).Draw(t, "nilslice") == 0
			if !f.NilMap {
				for j := rapid.IntRange(0, 3).Draw(t, "len"); j > 0; j-- {
					f.Old = append(f.Old, oldOrNil())
				}
			}
			if mention < 6 {
				f.Set = gen.List()
				for j := rapid.IntRange(0, 3).Draw(t, "setlen"); j > 0; j-- {
					f.Set.Vals = append(f.Set.Vals, genCfgTree(t))
				}
			}
		case "array":
			f.Old = []*gen.Tree{oldOrNil(), oldOrNil()}
			if mention < 6 {
				f.Set = gen.List(genCfgTree(t), genCfgTree(t))
			}
		}
		if mention == 6 {
			f.Set = gen.Nil() // a nil setting counts as not mentioned
		}
		c.Fields = append(c.Fields, f)
	}
	switch rapid.IntRange(0, 9).Draw(t, "fault") {
	case 0, 1:
		c.Z = gen.Str("zz")
	case 2:
		c.First = gen.Str("zz")
	case 3, 4:
		c.Z = gen.Int(4)
	case 5:
		c.First = gen.Int(5)
	}
	return c
}

var subCfgFields = runlog.Register(&runlog.Sub[CfgCase]{
	Name: "config-fields",
	Rule: "a struct {Keep int64; First int; F0..Fn; Z int} with 1-4 fields that hold configurations: *ucfg.Config, interface{} holding a *ucfg.Config, map[string]*ucfg.Config, map[string]interface{} holding *ucfg.Config values, []*ucfg.Config, [2]*ucfg.Config; each pre-filled with configurations built from random objects over the keys {a,b,c} (depth 2, lists inside) or with nil pointers (1/4), nil maps and slices (1/6); in 1 of 5 cases the pre-filled configurations are children of a larger configuration; policy tags replace/append/prepend/merge on 1/3 of the fields and a global policy; 60% of the fields get a setting (an object, an object of objects over old and new keys, a list of 0-3 objects), 10% a nil setting; in 20% the last field Z gets a setting that cannot be converted (Unpack fails after all configuration fields were processed), in 10% the field First (before them). Oracle, success: a place with a setting holds a configuration whose data equals the library's own Merge of the setting into the pre-filled data under the policy in force (field tag, else the global policy) - a nil place the setting alone; lists of configurations follow the list policy (index-wise with the old tail kept, append, prepend, replace; an empty list empties only under replace), maps are merged by key; a place without a setting (unmentioned field, unmentioned key, old element kept by the list policy) holds the very same *Config object with its stored contents unchanged (snapshot hook); Keep keeps its value. Failure: Unpack must fail exactly when Z or First has the invalid setting, and the struct then holds its previous values (the same configuration objects, maps, slice lengths; contents of the shared configurations may differ, but not when the failure comes before any of them was processed). Non-trivial: at least one place with a setting and one without on success, or a failure. Distinct: hash of the case.",
	Gen:  genCfgFields,
	Run:  runCfgFields,
})

func TestConfigFields(t *testing.T) { subCfgFields.Check(t, 20000, 400000) }
