package c13

import (
	"fmt"
	"math"
	"reflect"
	"regexp"
	"sort"
	"strings"

	ucfg "github.com/elastic/go-ucfg"

	"verif/harness/internal/gen"
)

// ---------------------------------------------------------------------------
// reflect helpers

var invalid reflect.Value

func newElem(t reflect.Type) reflect.Value { return reflect.New(t).Elem() }

// addr returns v or an addressable copy of it (map elements are not addressable).
func addr(v reflect.Value) reflect.Value {
	if v.CanAddr() {
		return v
	}
	n := newElem(v.Type())
	n.Set(v)
	return n
}

// deepCopy copies a value, including unexported fields; regular expressions are shared.
func deepCopy(v reflect.Value) reflect.Value {
	v = gen.Exported(addr(v))
	out := newElem(v.Type())
	switch v.Kind() {
	case reflect.Ptr:
		if v.IsNil() {
			return out
		}
		if v.Type() == gen.RegexpType {
			out.Set(v)
			return out
		}
		p := reflect.New(v.Type().Elem())
		p.Elem().Set(deepCopy(v.Elem()))
		out.Set(p)
	case reflect.Slice:
		if v.IsNil() {
			return out
		}
		s := reflect.MakeSlice(v.Type(), v.Len(), v.Len())
		for i := 0; i < v.Len(); i++ {
			s.Index(i).Set(deepCopy(v.Index(i)))
		}
		out.Set(s)
	case reflect.Array:
		for i := 0; i < v.Len(); i++ {
			out.Index(i).Set(deepCopy(v.Index(i)))
		}
	case reflect.Map:
		if v.IsNil() {
			return out
		}
		m := reflect.MakeMapWithSize(v.Type(), v.Len())
		iter := v.MapRange()
		for iter.Next() {
			m.SetMapIndex(iter.Key(), deepCopy(iter.Value()))
		}
		out.Set(m)
	case reflect.Struct:
		for i := 0; i < v.NumField(); i++ {
			gen.Exported(out.Field(i)).Set(deepCopy(v.Field(i)))
		}
	case reflect.Interface:
		if !v.IsNil() {
			out.Set(deepCopy(v.Elem()))
		}
	default:
		out.Set(v)
	}
	return out
}

func sortedKeys(m reflect.Value) []reflect.Value {
	keys := m.MapKeys()
	sort.Slice(keys, func(i, j int) bool { return keys[i].String() < keys[j].String() })
	return keys
}

// strictSame compares two values of one type bit for bit: floats by their
// bits, nil and empty collections are different, pointers by pointee,
// regular expressions by source. It returns "" or the first difference.
func strictSame(a, b reflect.Value, path string) string {
	a, b = gen.Exported(addr(a)), gen.Exported(addr(b))
	diff := func() string { return fmt.Sprintf("%s: want %s, got %s", path, gen.Show(a), gen.Show(b)) }
	switch a.Kind() {
	case reflect.Ptr:
		if a.IsNil() != b.IsNil() {
			return diff()
		}
		if a.IsNil() {
			return ""
		}
		if a.Type() == gen.RegexpType {
			if a.Interface().(*regexp.Regexp).String() != b.Interface().(*regexp.Regexp).String() {
				return diff()
			}
			return ""
		}
		return strictSame(a.Elem(), b.Elem(), path+"*")
	case reflect.Slice:
		if a.IsNil() != b.IsNil() || a.Len() != b.Len() {
			return diff()
		}
		for i := 0; i < a.Len(); i++ {
			if d := strictSame(a.Index(i), b.Index(i), fmt.Sprintf("%s[%d]", path, i)); d != "" {
				return d
			}
		}
	case reflect.Array:
		for i := 0; i < a.Len(); i++ {
			if d := strictSame(a.Index(i), b.Index(i), fmt.Sprintf("%s[%d]", path, i)); d != "" {
				return d
			}
		}
	case reflect.Map:
		if a.IsNil() != b.IsNil() || a.Len() != b.Len() {
			return diff()
		}
		for _, k := range sortedKeys(a) {
			bv := b.MapIndex(k)
			if !bv.IsValid() {
				return diff()
			}
			if d := strictSame(a.MapIndex(k), bv, fmt.Sprintf("%s[%q]", path, k.String())); d != "" {
				return d
			}
		}
	case reflect.Struct:
		for i := 0; i < a.NumField(); i++ {
			if d := strictSame(a.Field(i), b.Field(i), path+"."+a.Type().Field(i).Name); d != "" {
				return d
			}
		}
	case reflect.Float32, reflect.Float64:
		if math.Float64bits(a.Float()) != math.Float64bits(b.Float()) {
			return diff()
		}
	case reflect.Bool:
		if a.Bool() != b.Bool() {
			return diff()
		}
	case reflect.Int, reflect.Int8, reflect.Int16, reflect.Int32, reflect.Int64:
		if a.Int() != b.Int() {
			return diff()
		}
	case reflect.Uint, reflect.Uint8, reflect.Uint16, reflect.Uint32, reflect.Uint64, reflect.Uintptr:
		if a.Uint() != b.Uint() {
			return diff()
		}
	case reflect.String:
		if a.String() != b.String() {
			return diff()
		}
	case reflect.Interface:
		if a.IsNil() != b.IsNil() {
			return diff()
		}
		if a.IsNil() {
			return ""
		}
		if a.Elem().Type() != b.Elem().Type() {
			return fmt.Sprintf("%s: held a %v, holds a %v", path, a.Elem().Type(), b.Elem().Type())
		}
		return strictSame(a.Elem(), b.Elem(), path+"()")
	default:
		return path + ": cannot compare kind " + a.Kind().String()
	}
	return ""
}

// ---------------------------------------------------------------------------
// failure oracle: the fingerprint of everything the struct holds itself

// fingerprint lists, in a fixed traversal order, every primitive the value
// holds directly (struct fields, array and slice elements, recursively) and
// the identity of every pointer and map it holds; it does not look inside
// maps and pointees, whose contents may differ after a failed Unpack.
func fingerprint(v reflect.Value, path string, out *[]string) {
	v = gen.Exported(v)
	switch v.Kind() {
	case reflect.Ptr, reflect.Map:
		*out = append(*out, fmt.Sprintf("%s = %s@%#x", path, v.Kind(), v.Pointer()))
	case reflect.Slice:
		*out = append(*out, fmt.Sprintf("%s = slice nil=%v len=%d", path, v.IsNil(), v.Len()))
		for i := 0; i < v.Len(); i++ {
			fingerprint(v.Index(i), fmt.Sprintf("%s[%d]", path, i), out)
		}
	case reflect.Array:
		for i := 0; i < v.Len(); i++ {
			fingerprint(v.Index(i), fmt.Sprintf("%s[%d]", path, i), out)
		}
	case reflect.Struct:
		for i := 0; i < v.NumField(); i++ {
			fingerprint(v.Field(i), path+"."+v.Type().Field(i).Name, out)
		}
	case reflect.Float32, reflect.Float64:
		*out = append(*out, fmt.Sprintf("%s = float %#x", path, math.Float64bits(v.Float())))
	case reflect.Interface:
		if v.IsNil() {
			*out = append(*out, path+" = nil interface")
		} else {
			fingerprint(addr(v.Elem()), path+"()", out)
		}
	default:
		*out = append(*out, fmt.Sprintf("%s = %s", path, gen.Show(v)))
	}
}

func fingerprintOf(v reflect.Value) []string {
	var out []string
	fingerprint(v, "", &out)
	return out
}

func diffFingerprints(before, after []string) string {
	for i := 0; i < len(before) || i < len(after); i++ {
		var b, a string
		if i < len(before) {
			b = before[i]
		}
		if i < len(after) {
			a = after[i]
		}
		if a != b {
			return fmt.Sprintf("before: %s\n after:  %s", b, a)
		}
	}
	return ""
}

// ---------------------------------------------------------------------------
// success oracle: the expectation

// expectation builds the value Unpack must leave in the target and checks the
// untouched parts bit for bit on the way.
type expectation struct {
	strict     []string // differences found in parts the configuration does not mention
	outside    bool     // the case has a shape the generator never produces (nil inside a list or map): nothing is asserted
	leafTypes  map[string]reflect.Type
	overwrites int // mentioned primitive settings
	listMerges map[string]bool
	classes    map[string]bool
	sep        string // path separator of the call: field names are split by it
	types      map[*gen.TD]reflect.Type
}

func newExpectation(sep string) *expectation {
	return &expectation{leafTypes: map[string]reflect.Type{}, listMerges: map[string]bool{}, classes: map[string]bool{}, sep: sep}
}

// badSetting is returned when a mentioned setting cannot be unpacked on its own.
type badSetting struct{ msg string }

func (b *badSetting) Error() string { return b.msg }

// freshLeaf unpacks the setting alone into a zero value of the leaf type:
// conversions are the subject of C03 and are not re-implemented here.
func (x *expectation) freshLeaf(t *gen.TD, s *gen.Tree, path string) (reflect.Value, error) {
	typ, ok := x.leafTypes[t.Kind]
	if !ok {
		typ = reflect.StructOf([]reflect.StructField{{Name: "V", Type: t.Type(), Tag: `config:"v"`}})
		x.leafTypes[t.Kind] = typ
	}
	cfg, err := ucfg.NewFrom(map[string]interface{}{"v": s.Go()})
	if err != nil {
		return invalid, &badSetting{fmt.Sprintf("%s: NewFrom of the setting alone failed: %v", path, err)}
	}
	out := reflect.New(typ)
	if err := cfg.Unpack(out.Interface()); err != nil {
		return invalid, &badSetting{fmt.Sprintf("%s: setting %s does not unpack into a fresh %v: %v", path, showTree(s), typ.Field(0).Type, err)}
	}
	return out.Elem().Field(0), nil
}

func showTree(s *gen.Tree) string { return fmt.Sprintf("%#v", s.Go()) }

func mentioned(s *gen.Tree) bool { return s != nil && s.K != "nil" }

func sub(v reflect.Value, f func(reflect.Value) reflect.Value) reflect.Value {
	if !v.IsValid() {
		return invalid
	}
	return f(v)
}

func (x *expectation) checkStrict(want, got reflect.Value, path string) {
	if !got.IsValid() {
		return // the shapes differ further up; the overall comparison reports it
	}
	if d := strictSame(want, got, path); d != "" {
		x.strict = append(x.strict, d)
	}
}

// field computes the expectation for a struct field whose setting is s (nil: absent).
func (x *expectation) field(t *gen.TD, pol string, old reflect.Value, s *gen.Tree, got reflect.Value, path string) (reflect.Value, error) {
	if mentioned(s) {
		return x.merge(t, pol, old, s, got, path)
	}
	typ := old.Type()
	var want reflect.Value
	switch {
	case typ.Kind() == reflect.Ptr:
		// a pointer is left alone, whatever it points to
		want = deepCopy(old)
	case t.Kind == kUnpStr || t.Kind == kUnpInt:
		want = deepCopy(old)
	case typ.Kind() == reflect.Struct:
		// structs are visited even without a setting: nested defaults apply
		w, err := x.merge(t, pol, old, gen.Obj(), got, path)
		if err != nil {
			return invalid, err
		}
		want = w
	case hasInit(typ) && typ.Kind() == reflect.Map:
		want = deepCopy(old)
		if want.IsNil() {
			want.Set(reflect.MakeMap(typ))
		}
		callInit(want)
		x.classes["default of an absent field applied"] = true
	case hasInit(typ):
		// a primitive with defaults is reset to its default
		want = newElem(typ)
		callInit(want)
		x.classes["default of an absent field applied"] = true
	default:
		want = deepCopy(old)
	}
	x.checkStrict(want, got, path)
	return want, nil
}

// merge computes the expectation for a mentioned setting s unpacked into old.
func (x *expectation) merge(t *gen.TD, pol string, old reflect.Value, s *gen.Tree, got reflect.Value, path string) (reflect.Value, error) {
	typ := old.Type() // = t.Type(), which is expensive to rebuild
	if leafBase(t) != "" {
		x.overwrites++
		if typ == gen.RegexpType && !old.IsNil() {
			x.classes["pre-filled regexp overwritten"] = true
		}
		return x.freshLeaf(t, s, path)
	}
	sh := t.Shape()
	out := newElem(typ)
	switch sh.Kind {
	case "iface":
		return x.iface(sh, pol, old, s, got, path)
	case "ptr":
		oldE := newElem(typ.Elem())
		if !old.IsNil() {
			oldE = old.Elem()
			x.classes["setting merged through a non-nil pointer"] = true
		}
		gotE := invalid
		if got.IsValid() && !got.IsNil() {
			gotE = got.Elem()
		}
		w, err := x.merge(sh.Elem, pol, oldE, s, gotE, path+"*")
		if err != nil || x.outside {
			return invalid, err
		}
		p := reflect.New(typ.Elem())
		p.Elem().Set(w)
		out.Set(p)
		return out, nil

	case "slice":
		plain := s.IsPrim()
		switch {
		case plain:
			// "Primitive values will be handled like arrays of length 1" (documentation of Unpack): the value is
			// merged with the old list exactly like the list [value], under the policy in force
			s = gen.List(s)
		case s.K != "list":
			// an object given for a list: the library reads the (absent) list part of the object, i.e. a list without
			// elements. Neither the statement nor the documentation say what it stands for: nothing is asserted
			x.outside = true
			return invalid, nil
		}
		n := len(s.Vals)
		if n == 0 {
			if pol == "replace" {
				out.Set(reflect.MakeSlice(typ, 0, 0))
				if old.Len() > 0 {
					x.listMerges["replace by empty list"] = true
				}
				return out, nil
			}
			return deepCopy(old), nil
		}
		type origin struct{ oldIdx, newIdx int }
		var plan []origin
		ol := old.Len()
		switch pol {
		case "replace":
			for i := 0; i < n; i++ {
				plan = append(plan, origin{-1, i})
			}
		case "append":
			for i := 0; i < ol; i++ {
				plan = append(plan, origin{i, -1})
			}
			for i := 0; i < n; i++ {
				plan = append(plan, origin{-1, i})
			}
		case "prepend":
			for i := 0; i < n; i++ {
				plan = append(plan, origin{-1, i})
			}
			for i := 0; i < ol; i++ {
				plan = append(plan, origin{i, -1})
			}
		default: // index-wise
			for i := 0; i < n || i < ol; i++ {
				o := origin{-1, -1}
				if i < ol {
					o.oldIdx = i
				}
				if i < n {
					o.newIdx = i
				}
				plan = append(plan, o)
			}
		}
		if ol > 0 {
			name := pol
			if name == "" || name == "merge" {
				name = "index-wise"
				if ol > n {
					name = "index-wise, old tail kept"
				}
			}
			x.listMerges[name] = true
			if plain {
				x.listMerges["plain value for a pre-filled slice, "+name] = true
			}
		}
		if plain {
			switch {
			case old.IsNil():
				x.classes["plain value given for a list: nil slice"] = true
			case ol == 0:
				x.classes["plain value given for a list: empty non-nil slice"] = true
			case ol == 1:
				x.classes["plain value given for a list: pre-filled slice of 1 element"] = true
			default:
				x.classes["plain value given for a list: pre-filled slice of 2 or more elements"] = true
			}
			if strings.Contains(path, "[") || strings.Contains(path, "*") || strings.Contains(path, "(") {
				x.classes["plain value given for a list below a pointer, map, list or interface{} place"] = true
			}
			if strings.Count(path, ".") > 1 {
				x.classes["plain value given for a list field of a nested or inline struct"] = true
			}
		}
		res := reflect.MakeSlice(typ, len(plan), len(plan))
		for i, o := range plan {
			gotE := invalid
			if got.IsValid() && i < got.Len() {
				gotE = got.Index(i)
			}
			ep := fmt.Sprintf("%s[%d]", path, i)
			switch {
			case o.newIdx < 0:
				w := deepCopy(old.Index(o.oldIdx))
				x.checkStrict(w, gotE, ep)
				res.Index(i).Set(w)
			default:
				if !mentioned(s.Vals[o.newIdx]) {
					x.outside = true
					return invalid, nil
				}
				oldE := newElem(typ.Elem())
				if o.oldIdx >= 0 {
					oldE = old.Index(o.oldIdx)
				}
				w, err := x.merge(sh.Elem, pol, oldE, s.Vals[o.newIdx], gotE, ep)
				if err != nil || x.outside {
					return invalid, err
				}
				res.Index(i).Set(w)
			}
		}
		out.Set(res)
		return out, nil

	case "array":
		if s.IsPrim() {
			// the plain spelling of the list of one element (it fits an array of one element only)
			s = gen.List(s)
			if sh.N == 1 {
				x.classes["plain value given for an array of one element"] = true
			}
		}
		if s.K == "obj" {
			x.outside = true // an object given for a list: see the slice case
			return invalid, nil
		}
		if len(s.Vals) != sh.N {
			return invalid, &badSetting{fmt.Sprintf("%s: setting %s is not a list of %d elements", path, showTree(s), sh.N)}
		}
		for i := 0; i < sh.N; i++ {
			if !mentioned(s.Vals[i]) {
				x.outside = true
				return invalid, nil
			}
			w, err := x.merge(sh.Elem, pol, old.Index(i), s.Vals[i], sub(got, func(g reflect.Value) reflect.Value { return g.Index(i) }), fmt.Sprintf("%s[%d]", path, i))
			if err != nil || x.outside {
				return invalid, err
			}
			out.Index(i).Set(w)
		}
		return out, nil

	case "map":
		if s.K != "obj" {
			return invalid, &badSetting{fmt.Sprintf("%s: setting %s is not an object", path, showTree(s))}
		}
		m := reflect.MakeMap(typ)
		if !old.IsNil() {
			iter := old.MapRange()
			for iter.Next() {
				m.SetMapIndex(iter.Key(), deepCopy(iter.Value()))
			}
		}
		if hasInit(typ) {
			callInit(m)
		}
		for i, k := range s.Keys {
			if !mentioned(s.Vals[i]) {
				x.outside = true
				return invalid, nil
			}
			key := reflect.ValueOf(k).Convert(typ.Key())
			oldE := newElem(typ.Elem())
			if o := m.MapIndex(key); o.IsValid() {
				oldE.Set(o)
				x.classes["setting merged into an existing map entry"] = true
			}
			gotE := invalid
			if got.IsValid() && !got.IsNil() {
				if g := got.MapIndex(key); g.IsValid() {
					gotE = addr(g)
				}
			}
			w, err := x.merge(sh.Elem, pol, oldE, s.Vals[i], gotE, fmt.Sprintf("%s[%q]", path, k))
			if err != nil || x.outside {
				return invalid, err
			}
			m.SetMapIndex(key, w)
		}
		// entries the configuration does not mention stay as they were
		if got.IsValid() && !got.IsNil() {
			for _, key := range sortedKeys(m) {
				if s.Get(key.String()) != nil {
					continue
				}
				if g := got.MapIndex(key); g.IsValid() {
					x.checkStrict(addr(m.MapIndex(key)), addr(g), fmt.Sprintf("%s[%q]", path, key.String()))
				}
			}
		}
		out.Set(m)
		return out, nil

	case "struct":
		if s.K != "obj" {
			return invalid, &badSetting{fmt.Sprintf("%s: setting %s is not an object", path, showTree(s))}
		}
		out.Set(deepCopy(old))
		if hasInit(typ) {
			callInit(out)
		}
		for i := range sh.Fields {
			f := &sh.Fields[i]
			fv := gen.Exported(out.Field(i))
			gotF := sub(got, func(g reflect.Value) reflect.Value { return gen.Exported(g.Field(i)) })
			fp := path + "." + f.Name
			if f.Ignore || f.Unexp {
				// never touched by Unpack: as pre-filled or as InitDefaults set it
				x.checkStrict(fv, gotF, fp)
				if mentioned(lookup(s, f.ConfigName(), x.sep)) {
					x.classes["setting under the name of a skipped field"] = true
				}
				continue
			}
			fpol := pol
			if f.Policy != "" {
				fpol = f.Policy
			}
			var w reflect.Value
			var err error
			if f.Inline {
				w, err = x.merge(f.T, fpol, fv, s, gotF, fp)
			} else {
				w, err = x.field(f.T, fpol, fv, lookup(s, f.ConfigName(), x.sep), gotF, fp)
			}
			if err != nil || x.outside {
				return invalid, err
			}
			fv.Set(w)
		}
		return out, nil
	}
	return invalid, fmt.Errorf("c13: no expectation for kind %s", sh.Kind)
}

// ---------------------------------------------------------------------------
// classification helpers

// anyNonZero reports whether the value holds anything but zero values.
func anyNonZero(v reflect.Value) bool {
	v = gen.Exported(addr(v))
	switch v.Kind() {
	case reflect.Ptr, reflect.Interface:
		return !v.IsNil()
	case reflect.Slice, reflect.Map:
		return v.Len() > 0
	case reflect.Array:
		for i := 0; i < v.Len(); i++ {
			if anyNonZero(v.Index(i)) {
				return true
			}
		}
		return false
	case reflect.Struct:
		for i := 0; i < v.NumField(); i++ {
			if anyNonZero(v.Field(i)) {
				return true
			}
		}
		return false
	}
	return !v.IsZero()
}

// unmentionedNonZero counts the struct fields (top level, inline structs and
// structs reached through mentioned settings) that the configuration does not
// mention and whose pre-filled value is not zero.
func unmentionedNonZero(t *gen.TD, v reflect.Value, s *gen.Tree, sep string) int {
	sh := t.Shape()
	n := 0
	for i := range sh.Fields {
		f := &sh.Fields[i]
		fv := gen.Exported(v.Field(i))
		if f.Inline {
			n += unmentionedNonZero(f.T, fv, s, sep)
			continue
		}
		fs := lookup(s, f.ConfigName(), sep)
		if f.Ignore || f.Unexp || !mentioned(fs) {
			if anyNonZero(fv) {
				n++
			}
			continue
		}
		ft := f.T
		for ft.Shape().Kind == "ptr" && !fv.IsNil() {
			ft, fv = ft.Shape().Elem, fv.Elem()
		}
		if ft.Shape().Kind == "struct" && leafBase(ft) == "" && fs.K == "obj" {
			n += unmentionedNonZero(ft, fv, fs, sep)
		}
	}
	return n
}

// typeFeatures records what the type contains, for the class histogram.
func typeFeatures(t *gen.TD, seen map[string]bool) {
	if strings.HasPrefix(t.Kind, "cat:") {
		seen["catalogue type "+strings.TrimPrefix(t.Kind, "cat:c13_")] = true
	}
	sh := t.Shape()
	switch sh.Kind {
	case "iface":
		seen["interface{} place"] = true
		if sh.Elem != nil {
			typeFeatures(sh.Elem, seen)
		}
	case "ptr", "slice", "array", "map":
		seen[sh.Kind] = true
		if sh.Elem.Kind == "iface" {
			seen[sh.Kind+" of interface{}"] = true
		}
		typeFeatures(sh.Elem, seen)
	case "regexp":
		seen["regexp"] = true
	case "struct":
		for i := range sh.Fields {
			f := &sh.Fields[i]
			switch {
			case f.Inline:
				seen["inline field"] = true
			case f.Ignore:
				seen["ignored field"] = true
			case f.Unexp:
				seen["unexported field"] = true
			}
			if f.Policy != "" {
				seen["policy tag "+f.Policy] = true
			}
			typeFeatures(f.T, seen)
		}
	}
}

func hasValidateTag(t *gen.TD) bool {
	sh := t.Shape()
	if sh.Elem != nil && hasValidateTag(sh.Elem) {
		return true
	}
	for i := range sh.Fields {
		if sh.Fields[i].Validate != "" || hasValidateTag(sh.Fields[i].T) {
			return true
		}
	}
	return false
}
