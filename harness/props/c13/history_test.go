package c13

import (
	"fmt"
	"reflect"
	"strings"
	"testing"

	"pgregory.net/rapid"

	"verif/harness/internal/gen"
	"verif/harness/internal/runlog"
)

// ---------------------------------------------------------------------------
// aliasing inside the pre-filled target

// flatTD reports whether values of the type hold no pointers or maps (regular
// expressions are immutable and count as primitives): two places pre-filled
// from one flat slice share nothing but the slice's backing array, which
// Unpack never writes to.
func flatTD(t *gen.TD) bool {
	if leafBase(t) != "" {
		return true
	}
	sh := t.Shape()
	switch sh.Kind {
	case "slice", "array":
		return flatTD(sh.Elem)
	case "struct":
		for i := range sh.Fields {
			if !flatTD(sh.Fields[i].T) {
				return false
			}
		}
		return true
	}
	return false
}

// resolveTD follows a path of field and element indices through the type:
// the description at its end, the Go path (".F1.F0") if only struct values
// were passed, and whether the path fits the type at all.
func resolveTD(t *gen.TD, path []int) (end *gen.TD, gp string, structOnly, ok bool) {
	structOnly = true
	for _, i := range path {
		switch {
		case t.Kind == "struct":
			if i < 0 || i >= len(t.Fields) {
				return nil, "", false, false
			}
			gp += "." + t.Fields[i].Name
			t = t.Fields[i].T
		case t.Kind == "slice":
			structOnly = false
			t = t.Elem
		default:
			return nil, "", false, false
		}
	}
	return t, gp, structOnly, true
}

// walkPath follows the same kind of path through a value.
func walkPath(v reflect.Value, path []int) (reflect.Value, bool) {
	for _, i := range path {
		v = gen.Exported(v)
		switch v.Kind() {
		case reflect.Struct:
			if i < 0 || i >= v.NumField() {
				return invalid, false
			}
			v = v.Field(i)
		case reflect.Slice:
			if i < 0 || i >= v.Len() {
				return invalid, false
			}
			v = v.Index(i)
		default:
			return invalid, false
		}
	}
	return gen.Exported(v), true
}

// aliasPlan is what the aliases of a case mean for the generator and the oracle.
type aliasPlan struct {
	use     []Alias         // aliases that fit the type
	shallow map[string]bool // Go paths of destinations of non-flat aliases: never mentioned, compared by identity and direct contents only
	spaths  [][]int         // their index paths
}

func planAliases(c *Case) *aliasPlan {
	p := &aliasPlan{shallow: map[string]bool{}}
	for _, a := range c.Alias {
		st, _, _, ok1 := resolveTD(c.T, a.Src)
		dt, gp, structOnly, ok2 := resolveTD(c.T, a.Dst)
		if !ok1 || !ok2 || len(a.Src) == 0 || len(a.Dst) == 0 {
			continue
		}
		switch st.Kind {
		case "slice", "map", "ptr":
		default:
			continue
		}
		if !(flatTD(st) && flatTD(dt)) {
			if !structOnly {
				continue // a shared pointer or map below a list: the oracle has no shallow comparison there
			}
			p.shallow[gp] = true
			p.spaths = append(p.spaths, a.Dst)
		}
		p.use = append(p.use, a)
	}
	return p
}

func noMentionSet(c *Case) map[string]bool { return planAliases(c).shallow }

// aliasRoots lists the fields of the outermost struct that take part in an alias.
func aliasRoots(c *Case) map[int]bool {
	m := map[int]bool{}
	for _, a := range c.Alias {
		if len(a.Src) > 0 && len(a.Dst) > 0 {
			m[a.Src[0]], m[a.Dst[0]] = true, true
		}
	}
	return m
}

// apply makes the destinations share the sources' slices, maps and pointers.
// It returns the number of aliases that took effect (an alias is dropped when
// a fault injected into the type of one side made the two types differ).
func (p *aliasPlan) apply(root reflect.Value) (applied, dropped int) {
	for _, a := range p.use {
		src, ok1 := walkPath(root, a.Src)
		dst, ok2 := walkPath(root, a.Dst)
		if !ok1 || !ok2 {
			continue // an element index beyond the pre-filled length
		}
		if src.Type() != dst.Type() || !dst.CanSet() {
			dropped++
			continue
		}
		switch {
		case src.Kind() != reflect.Slice || a.Cut == 0:
			dst.Set(src)
		case a.Cut > 0:
			if a.Cut < src.Len() {
				dst.Set(src.Slice(0, a.Cut))
			} else {
				dst.Set(src)
			}
		default:
			dst.Set(src)
			if -a.Cut < src.Len() && src.CanSet() {
				src.Set(src.Slice(0, -a.Cut))
			}
		}
		applied++
	}
	return
}

// header identifies what a slice, map or pointer value refers to.
func header(v reflect.Value) string {
	switch v.Kind() {
	case reflect.Slice:
		return fmt.Sprintf("slice@%#x len=%d cap=%d nil=%v", v.Pointer(), v.Len(), v.Cap(), v.IsNil())
	case reflect.Map, reflect.Ptr:
		return fmt.Sprintf("%s@%#x", v.Kind(), v.Pointer())
	}
	return ""
}

type fieldRef struct {
	path []int
	fd   *gen.FD
}

// valueFields lists the fields reached through struct values only.
func valueFields(t *gen.TD, path []int, out *[]fieldRef) {
	for i := range t.Fields {
		f := &t.Fields[i]
		p := append(append([]int{}, path...), i)
		*out = append(*out, fieldRef{p, f})
		if f.T.Kind == "struct" {
			valueFields(f.T, p, out)
		}
	}
}

func isPrefix(a, b []int) bool {
	if len(a) > len(b) {
		return false
	}
	for i := range a {
		if a[i] != b[i] {
			return false
		}
	}
	return true
}

// genFieldAlias gives one field the type of another field (a slice, map or
// pointer) anywhere in the nest of struct values and records that it is
// pre-filled from that field. Must run before the value is drawn.
func genFieldAlias(t *rapid.T, c *Case) {
	var all, srcs []fieldRef
	valueFields(c.T, nil, &all)
	for _, f := range all {
		switch f.fd.T.Kind {
		case "slice", "map", "ptr":
			srcs = append(srcs, f)
		}
	}
	if len(srcs) == 0 || len(all) < 2 {
		return
	}
	src := srcs[rapid.IntRange(0, len(srcs)-1).Draw(t, "asrc")]
	var dsts []fieldRef
	for _, f := range all {
		if !isPrefix(f.path, src.path) { // neither the source nor a struct that contains it
			dsts = append(dsts, f)
		}
	}
	if len(dsts) == 0 {
		return
	}
	dst := dsts[rapid.IntRange(0, len(dsts)-1).Draw(t, "adst")]
	dst.fd.T = cloneTD(src.fd.T)
	if dst.fd.Inline {
		dst.fd.Inline = false
		dst.fd.Tag = fmt.Sprintf("fa%d", len(all))
	}
	a := Alias{Src: src.path, Dst: dst.path}
	if src.fd.T.Kind == "slice" {
		a.Cut = rapid.SampledFrom(aliasCuts).Draw(t, "acut")
	}
	c.Alias = append(c.Alias, a)
}

var aliasCuts = []int{0, 0, -1, 1, -2, 2}

// genElemAlias lets two places below slices (elements of one slice, or the
// same field of two elements) share one flat slice. Must run after the value
// is drawn.
func genElemAlias(t *rapid.T, c *Case) {
	type place struct {
		path []int
	}
	groups := map[*gen.TD][]place{}
	var order []*gen.TD
	var walk func(td *gen.TD, tv *gen.TV, path []int, below bool)
	walk = func(td *gen.TD, tv *gen.TV, path []int, below bool) {
		if tv == nil {
			return
		}
		switch td.Kind {
		case "struct":
			for i := range td.Fields {
				if i < len(tv.Elems) {
					walk(td.Fields[i].T, tv.Elems[i], append(append([]int{}, path...), i), below)
				}
			}
		case "slice":
			if below && flatTD(td) {
				if _, seen := groups[td]; !seen {
					order = append(order, td)
				}
				groups[td] = append(groups[td], place{path})
			}
			if tv.Nil {
				return
			}
			for i, e := range tv.Elems {
				walk(td.Elem, e, append(append([]int{}, path...), i), true)
			}
		}
	}
	walk(c.T, c.P, nil, false)
	var cands []*gen.TD
	for _, k := range order {
		if len(groups[k]) >= 2 {
			cands = append(cands, k)
		}
	}
	if len(cands) == 0 {
		return
	}
	g := groups[cands[rapid.IntRange(0, len(cands)-1).Draw(t, "egrp")]]
	i := rapid.IntRange(0, len(g)-1).Draw(t, "esrc")
	j := rapid.IntRange(0, len(g)-2).Draw(t, "edst")
	if j >= i {
		j++
	}
	c.Alias = append(c.Alias, Alias{Src: g[i].path, Dst: g[j].path, Cut: rapid.SampledFrom(aliasCuts).Draw(t, "ecut")})
}

// ---------------------------------------------------------------------------
// the second tag set

var pathSeps = []string{".", "/"}

// altgen derives the description of the type under the tag names alt/altv.
type altgen struct {
	t       *rapid.T
	counter int
	used    map[string]bool // configuration names taken in the alt view (unique over the whole type: inline structs share a namespace)
	primary []string        // names of the config view
	lastDot string
}

// collectNames lists the names of the config view that fields read (into) and
// the names under which the generator writes settings for unexported fields
// (reserved: no field of the other view may read them).
func collectNames(t *gen.TD, into *[]string, reserved map[string]bool) {
	if t.Elem != nil {
		collectNames(t.Elem, into, reserved)
	}
	for i := range t.Fields {
		f := &t.Fields[i]
		switch {
		case f.Unexp:
			reserved[f.ConfigName()] = true
		case !f.Inline:
			*into = append(*into, f.ConfigName())
		}
		collectNames(f.T, into, reserved)
	}
}

func inlineable(t *gen.TD) bool {
	return t.Kind == "struct" || t.Kind == kDefStruct || t.Kind == kValStruct
}

// dotted draws a name the path separators split ("d3.e4", "d3/e5"); half of
// them continue below the intermediate object of the previous one.
func dottedName(t *rapid.T, counter *int, last *string) string {
	sep := rapid.SampledFrom(pathSeps).Draw(t, "dsep")
	*counter++
	if *last != "" && strings.Contains(*last, sep) && rapid.Bool().Draw(t, "dshare") {
		return fmt.Sprintf("%s%se%d", (*last)[:strings.Index(*last, sep)], sep, *counter)
	}
	n := fmt.Sprintf("d%d%se%d", *counter, sep, *counter)
	*last = n
	return n
}

func (g *altgen) derive(t *gen.TD) *gen.TD {
	switch {
	case t.Kind == "struct":
		out := &gen.TD{Kind: "struct", Fields: make([]gen.FD, len(t.Fields))}
		for i := range t.Fields {
			pf := &t.Fields[i]
			f := &out.Fields[i]
			f.Name, f.Unexp = pf.Name, pf.Unexp
			f.T = g.derive(pf.T)
			if f.Unexp {
				f.Tag = pf.Tag
				continue
			}
			switch k := rapid.IntRange(0, 11).Draw(g.t, "aname"); {
			case k <= 2:
				f.Tag = pf.Tag // the same name under both tags
			case k <= 6:
				g.counter++
				f.Tag = fmt.Sprintf("g%d", g.counter)
			case k <= 8 && len(g.primary) > 0:
				f.Tag = rapid.SampledFrom(g.primary).Draw(g.t, "aswap") // the name another field has under "config"
			case k == 9:
				f.Tag = "" // lower-cased Go name
			default:
				f.Tag = dottedName(g.t, &g.counter, &g.lastDot)
			}
			if inlineable(pf.T) && rapid.IntRange(0, 5).Draw(g.t, "ainl") < map[bool]int{true: 3, false: 1}[pf.Inline] {
				f.Inline, f.Tag = true, ""
			}
			if !f.Inline {
				if g.used[f.ConfigName()] {
					g.counter++
					f.Tag = fmt.Sprintf("g%d", g.counter)
				}
				g.used[f.ConfigName()] = true
			}
			if rapid.IntRange(0, 7).Draw(g.t, "aign") < map[bool]int{true: 4, false: 1}[pf.Ignore] {
				f.Ignore = true
			} else if rapid.IntRange(0, 3).Draw(g.t, "ahaspol") == 0 {
				f.Policy = rapid.SampledFrom(tagPolicies).Draw(g.t, "apol")
			}
		}
		return out
	case t.Elem != nil:
		return &gen.TD{Kind: t.Kind, N: t.N, Elem: g.derive(t.Elem)}
	}
	return t
}

// dotify renames some fields of the config view to names the separators split.
func dotify(t *rapid.T, td *gen.TD, counter *int, last *string) {
	if td.Elem != nil {
		dotify(t, td.Elem, counter, last)
	}
	for i := range td.Fields {
		f := &td.Fields[i]
		if !f.Inline && !f.Unexp && f.Tag != "" && rapid.IntRange(0, 7).Draw(t, "pdot") == 0 {
			f.Tag = dottedName(t, counter, last)
		}
		dotify(t, f.T, counter, last)
	}
}

// ---------------------------------------------------------------------------
// histories

var (
	tagChoices  = []string{"", "alt", "alt", "none", "config"}
	vtagChoices = []string{"", "", "altv", "altv", "none", "validate"}
	sepChoices  = []string{"", "", ".", ".", "/"}
)

func genHistory(t *rapid.T) Case {
	tg := &tgen{t: t, avoid: avoided()}
	var c Case
	if rapid.IntRange(0, 7).Draw(t, "cattop") == 0 {
		c.T = td(rapid.SampledFrom(topKinds).Draw(t, "topk"))
		c.Alt = c.T
	} else {
		c.T = tg.structT(runlog.Pick(3, 4))
		last := ""
		dotify(t, c.T, &tg.counter, &last)
		if rapid.IntRange(0, 3).Draw(t, "alias") == 0 {
			genFieldAlias(t, &c)
		}
		ag := &altgen{t: t, used: map[string]bool{}}
		collectNames(c.T, &ag.primary, ag.used)
		c.Alt = ag.derive(c.T)
		// both sides of a field alias are of one Go type: the same tags under both names
		for _, a := range c.Alias {
			src, _, _, _ := resolveAltField(c.Alt, a.Src)
			dst, _, _, _ := resolveAltField(c.Alt, a.Dst)
			if src != nil && dst != nil {
				dst.T = cloneTD(src.T)
			}
		}
	}
	c.P = gen.GenTV(t, &gen.TDCfg{NilPtrElems: true}, c.T, false)
	if rapid.IntRange(0, 7).Draw(t, "ealias") == 0 {
		genElemAlias(t, &c)
	}
	c.Indirect = rapid.IntRange(0, 7).Draw(t, "indirect") == 0
	noMention, spare := noMentionSet(&c), aliasRoots(&c)

	n := rapid.SampledFrom([]int{1, 2, 2, 2, 2, 3, 3}).Draw(t, "steps")
	steps := make([]Step, n)
	for k := range steps {
		st := &steps[k]
		st.Fresh = k == 0 || rapid.Bool().Draw(t, "fresh")
		if k > 0 && rapid.IntRange(0, 3).Draw(t, "reuse") == 0 {
			// the same configuration again (mostly the same *Config object): the names and the separator it was written
			// for, any validator tag and policy
			prev := &steps[k-1]
			st.Reuse = rapid.IntRange(0, 2).Draw(t, "sameobj") > 0 // otherwise a new *Config object made from the same tree
			st.Repeat = true
			st.Tag, st.Sep, st.Cfg = prev.Tag, prev.Sep, prev.Cfg.Clone()
			st.VTag = rapid.SampledFrom(vtagChoices).Draw(t, "vtag")
			st.Global = rapid.SampledFrom([]string{"", "", "replace", "append", "prepend"}).Draw(t, "global")
			if prev.Fault != nil && !strings.HasPrefix(prev.Fault.Kind, "val-a") && (prev.Fault.Kind != "val-tag" || vtagSel(st.VTag) == vtagSel(prev.VTag)) {
				f := *prev.Fault
				st.Fault = &f
			}
			continue
		}
		st.Tag = rapid.SampledFrom(tagChoices).Draw(t, "tag")
		st.VTag = rapid.SampledFrom(vtagChoices).Draw(t, "vtag")
		st.Sep = rapid.SampledFrom(sepChoices).Draw(t, "sep")
		st.Global = rapid.SampledFrom([]string{"", "", "replace", "append", "prepend"}).Draw(t, "global")
		v := makeView(c.T, c.Alt, st.Tag, st.VTag)
		var others []*gen.TD
		for _, o := range []string{"", "alt", "none"} {
			if tagSel(o) != tagSel(st.Tag) {
				others = append(others, makeView(c.T, c.Alt, o, "none").td)
			}
		}
		cg := &cgen{t: t, sep: st.Sep, noMention: noMention, foreignOn: true}
		st.Cfg = gen.Obj()
		cg.object(st.Cfg, v.td.Shape(), c.P, "", others)
		if rapid.IntRange(0, 9).Draw(t, "fault") < 3 {
			inject(t, &c, st, v, k == 0, spare)
		}
	}
	c.Tag, c.VTag, c.Sep, c.Global, c.Cfg, c.Fault = steps[0].Tag, steps[0].VTag, steps[0].Sep, steps[0].Global, steps[0].Cfg, steps[0].Fault
	c.More = steps[1:]
	return c
}

// resolveAltField returns the field description at the end of a path of field indices.
func resolveAltField(t *gen.TD, path []int) (fd *gen.FD, gp string, structOnly, ok bool) {
	for n, i := range path {
		if t.Kind != "struct" || i < 0 || i >= len(t.Fields) {
			return nil, "", false, false
		}
		if n == len(path)-1 {
			return &t.Fields[i], "", true, true
		}
		t = t.Fields[i].T
	}
	return nil, "", false, false
}

var subHistory = runlog.Register(&runlog.Sub[Case]{
	Name: "option-history",
	Rule: "a struct type as in prefilled-unpack (incl. its Go field names: non-ASCII upper-case first letters, long names, tags equal to the name, exported/unexported names that differ only in case - under a tag name no field has such an exported field is read under the lower-cased name, and no setting is written for the unexported one) whose fields carry two tag sets - names, ignore/inline flags and policy flags under `config` and, independently drawn, under `alt` (same name, new name, the name another field has under `config`, no name, a name with a separator in it; the catalogue structs have hand-written `alt` tags with swapped names and other flags) and validator tags under `validate` and `altv` - and a history of 1 to 3 Unpack calls in one process, each with its own options: StructTag (none, the default named explicitly, `alt`, a tag name no field has), ValidatorTag (likewise), PathSep (none, `.`, `/`; 1 in 8 names contains a separator and is written below intermediate objects when the call splits it, as one key otherwise), a global policy, its own configuration written for the names the call reads (plus settings under names only the other tag sets or the other spelling read, which no field may take) and in 30% its own injected fault. A later call unpacks over the result of the previous one or into a newly pre-filled target, and in 1 of 4 cases unpacks the previous configuration again (2 of 3 times the same *Config object, else a new one made from the same data; same names, any validator tag and policy). In 1 of 4 generated types two fields anywhere in the nest of struct values are pre-filled from the SAME slice (whole, or two windows of one backing array), map or pointer, in 1 of 8 cases two places below slices share one flat slice; in 1 of 8 cases Unpack receives a pointer to the pointer. Every call is checked like a case of prefilled-unpack against the state the target had before that call, under the view its options select: success must equal the expectation, an error must leave the struct as it was, a call without fault and without a validator tag under the tag name it reads must succeed. A field that shares a pointer, map or non-flat slice with another field never gets a setting and must keep its identity and direct contents (what it shares may change); targets of earlier calls must not change when a later call unpacks into another target. Non-trivial: some call of the history is non-trivial in the sense of prefilled-unpack. Distinct: hash of the whole case.",
	Gen:  genHistory,
	Run:  runCase,
})

func TestOptionHistory(t *testing.T) { subHistory.Check(t, 50000, 1000000) }
