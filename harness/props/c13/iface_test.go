package c13

import (
	"fmt"
	"reflect"
	"testing"

	"pgregory.net/rapid"

	"verif/harness/internal/gen"
	"verif/harness/internal/runlog"
)

// Places of type interface{}. A description {Kind: "iface", Elem: E} stands
// for a place of the Go type interface{} that is pre-filled with a value of
// the type E describes (any type the generator knows: a struct held by value,
// pointers to it, arrays, maps, slices, primitives, named and catalogue
// types, collections of interface{} again); Elem == nil is a place that is
// always the untyped nil. The value description of such a place is {Nil:
// true} for the untyped nil, {Elems: [v]} otherwise (typed nil pointers are
// values of a pointer type E).
//
// Reading (DESIGN 6.19 style, taken from the statement "recursively" and
// checked against the code): a setting for a place that holds a value of the
// dynamic type T is merged into that value exactly like into a field of type
// T - the fields, entries and elements the setting mentions are overwritten,
// everything else the held value contains stays, and the place afterwards
// holds a T again (leading pointer levels may be dropped for pointers to
// lists, maps and primitives: the statement says nothing about them, the
// contents are compared through pointers). A place that holds the untyped nil
// receives the generic value of the setting.

func init() { gen.IfaceEqual = heldEqual }

// heldEqual compares what two interface{} places hold: through pointers, then
// like values of their common type.
func heldEqual(a, b interface{}) bool {
	va, vb := chasePtrs(reflect.ValueOf(a)), chasePtrs(reflect.ValueOf(b))
	aNil := va.Kind() == reflect.Ptr && va.Type() != gen.RegexpType
	bNil := vb.Kind() == reflect.Ptr && vb.Type() != gen.RegexpType
	if aNil || bNil {
		return aNil && bNil // both chains end in nil
	}
	if va.Type() != vb.Type() {
		return false
	}
	return gen.EqualValues(addr(va), addr(vb))
}

// chasePtrs follows non-nil pointers (regular expressions are values).
func chasePtrs(v reflect.Value) reflect.Value {
	for v.Kind() == reflect.Ptr && v.Type() != gen.RegexpType && !v.IsNil() {
		v = v.Elem()
	}
	return v
}

func hasIface(t *gen.TD) bool {
	sh := t.Shape()
	if sh.Kind == "iface" {
		return true
	}
	if sh.Elem != nil && hasIface(sh.Elem) {
		return true
	}
	for i := range sh.Fields {
		if hasIface(sh.Fields[i].T) {
			return true
		}
	}
	return false
}

// fillIfaces stores the described values into the interface{} places of v,
// which gen.TD.Set leaves nil. build maps a description to its Go type.
func fillIfaces(v reflect.Value, t *gen.TD, tv *gen.TV) {
	if tv == nil || !hasIface(t) {
		return
	}
	sh := t.Shape()
	v = gen.Exported(v)
	switch sh.Kind {
	case "iface":
		if tv.Nil || sh.Elem == nil || len(tv.Elems) == 0 {
			return
		}
		nv := newElem(sh.Elem.Type())
		sh.Elem.Set(nv, tv.Elems[0])
		fillIfaces(nv, sh.Elem, tv.Elems[0])
		v.Set(nv)
	case "ptr":
		if !v.IsNil() && len(tv.Elems) > 0 {
			fillIfaces(v.Elem(), sh.Elem, tv.Elems[0])
		}
	case "slice", "array":
		for i := 0; i < v.Len() && i < len(tv.Elems); i++ {
			fillIfaces(v.Index(i), sh.Elem, tv.Elems[i])
		}
	case "map":
		if v.IsNil() {
			return
		}
		for i, k := range tv.Keys {
			key := reflect.ValueOf(k).Convert(v.Type().Key())
			o := v.MapIndex(key)
			if !o.IsValid() {
				continue
			}
			e := newElem(v.Type().Elem())
			e.Set(o)
			fillIfaces(e, sh.Elem, tv.Elems[i])
			v.SetMapIndex(key, e)
		}
	case "struct":
		for i := range sh.Fields {
			if i < len(tv.Elems) {
				fillIfaces(v.Field(i), sh.Fields[i].T, tv.Elems[i])
			}
		}
	}
}

// heldPass draws what the interface{} places of a generated value hold.
func heldPass(t *rapid.T, td *gen.TD, tv *gen.TV) {
	if tv == nil || !hasIface(td) {
		return
	}
	sh := td.Shape()
	switch sh.Kind {
	case "iface":
		tv.Tree, tv.Elems = nil, nil
		if sh.Elem == nil || rapid.IntRange(0, 6).Draw(t, "untypednil") == 0 {
			tv.Nil = true
			return
		}
		tv.Nil = false
		e := gen.GenTV(t, &gen.TDCfg{NilPtrElems: true}, sh.Elem, false)
		heldPass(t, sh.Elem, e)
		tv.Elems = []*gen.TV{e}
	case "ptr":
		if !tv.Nil && len(tv.Elems) > 0 {
			heldPass(t, sh.Elem, tv.Elems[0])
		}
	case "slice", "array", "map":
		for _, e := range tv.Elems {
			heldPass(t, sh.Elem, e)
		}
	case "struct":
		for i := range sh.Fields {
			if i < len(tv.Elems) {
				heldPass(t, sh.Fields[i].T, tv.Elems[i])
			}
		}
	}
}

// heldT draws the type an interface{} place is pre-filled with.
func (g *tgen) heldT(depth int) *gen.TD {
	ptr := func(e *gen.TD) *gen.TD { return &gen.TD{Kind: "ptr", Elem: e} }
	strct := func() *gen.TD {
		if depth <= 0 || rapid.IntRange(0, 3).Draw(g.t, "heldcat") == 0 {
			return td(rapid.SampledFrom([]string{kDefStruct, kValStruct, kDefOuter, kValStruct}).Draw(g.t, "heldcatk"))
		}
		return g.structT(depth - 1)
	}
	cont := func() *gen.TD {
		e := g.typ(depth - 1)
		switch rapid.IntRange(0, 2).Draw(g.t, "heldcont") {
		case 0:
			return &gen.TD{Kind: "slice", Elem: e}
		case 1:
			if g.avoid["D26"] && containsArray(e) {
				e = td("int")
			}
			return &gen.TD{Kind: "map", Elem: e}
		}
		return &gen.TD{Kind: "array", N: rapid.IntRange(0, 3).Draw(g.t, "n"), Elem: e}
	}
	switch k := rapid.IntRange(0, 19).Draw(g.t, "held"); {
	case k <= 4:
		return strct() // a struct held by value
	case k <= 6:
		return ptr(strct())
	case k == 7:
		return ptr(ptr(strct()))
	case k <= 10:
		return cont()
	case k == 11:
		e := cont()
		if g.avoid["D26"] && e.Kind == "array" || g.avoid["D30"] && e.Kind != "array" {
			return e
		}
		return ptr(e)
	case k <= 14:
		return td(g.leafKind())
	case k == 15:
		return td(rapid.SampledFrom([]string{kDefInt, kValInt, kUnpStr, kDefMap}).Draw(g.t, "heldcatl"))
	case k == 16:
		return ptr(td(g.leafKind()))
	case k == 17:
		return nil // always the untyped nil
	}
	e := g.typ(depth - 1)
	if e.Kind == "iface" {
		return e.Elem // an interface{} holds what the inner interface{} holds
	}
	return e
}

// ifaceT draws a type with places of type interface{}: the place itself, or a
// map, slice or array of such places.
func (g *tgen) ifaceT(depth int) *gen.TD {
	place := &gen.TD{Kind: "iface", Elem: g.heldT(depth)}
	switch rapid.IntRange(0, 9).Draw(g.t, "ifacein") {
	case 0, 1, 2, 3:
		return place
	case 4, 5:
		return &gen.TD{Kind: "map", Elem: place}
	case 6, 7:
		return &gen.TD{Kind: "slice", Elem: place}
	}
	return &gen.TD{Kind: "array", N: rapid.IntRange(1, 3).Draw(g.t, "n"), Elem: place}
}

// genericSetting draws a setting for a place that holds the untyped nil.
func (g *cgen) genericSetting() *gen.Tree {
	return g.pick(gen.Int(7), gen.Str("new"), gen.Bool(true), gen.Float(1.5), gen.Uint(9), gen.Int(-3),
		gen.Obj().Put("k", gen.Int(1)).Put("j", gen.Str("x")),
		gen.List(gen.Int(1), gen.Str("a")),
		gen.Obj().Put("n", gen.List(gen.Obj().Put("k", gen.Bool(false)))))
}

// genericTD describes a generic value (what Unpack stores into an empty
// interface{}) as a type, so that a later call of a history can be followed.
func genericTD(t reflect.Type) *gen.TD {
	switch t {
	case reflect.TypeOf(map[string]interface{}(nil)):
		return &gen.TD{Kind: "map", Elem: &gen.TD{Kind: "iface"}}
	case reflect.TypeOf([]interface{}(nil)):
		return &gen.TD{Kind: "slice", Elem: &gen.TD{Kind: "iface"}}
	case reflect.TypeOf(false):
		return td("bool")
	case reflect.TypeOf(int64(0)):
		return td("int64")
	case reflect.TypeOf(uint64(0)):
		return td("uint64")
	case reflect.TypeOf(float64(0)):
		return td("float64")
	case reflect.TypeOf(""):
		return td("string")
	}
	return nil
}

// heldTD finds the description of the value an interface{} place holds: the
// type the place was pre-filled with, that type without leading pointers, or
// a generic value stored by an earlier call.
func (x *expectation) heldTD(sh *gen.TD, held reflect.Type) (t *gen.TD, generic bool) {
	for e := sh.Elem; e != nil; e = e.Elem {
		if e.Kind == "iface" {
			continue
		}
		if x.typeOf(e) == held {
			return e, false
		}
		if e.Kind != "ptr" {
			break
		}
	}
	return genericTD(held), true
}

func (x *expectation) typeOf(t *gen.TD) reflect.Type {
	if x.types == nil {
		x.types = map[*gen.TD]reflect.Type{}
	}
	typ, ok := x.types[t]
	if !ok {
		typ = t.Type()
		x.types[t] = typ
	}
	return typ
}

// iface computes the expectation for a mentioned setting s of an interface{} place.
func (x *expectation) iface(sh *gen.TD, pol string, old reflect.Value, s *gen.Tree, got reflect.Value, path string) (reflect.Value, error) {
	out := newElem(old.Type())
	if old.IsNil() {
		// the untyped nil: the place receives the generic value of the setting
		w, err := x.freshLeaf(&gen.TD{Kind: "iface"}, s, path)
		if err != nil {
			return invalid, err
		}
		x.overwrites++
		x.classes["iface: a place holding the untyped nil receives the generic value of its setting"] = true
		out.Set(w)
		return out, nil
	}
	held := old.Elem()
	ht, generic := x.heldTD(sh, held.Type())
	if ht == nil {
		x.outside = true
		return invalid, nil
	}
	switch k := stripPtr(ht).Shape().Kind; {
	case leafBase(stripPtr(ht)) != "":
	case (k == "slice" || k == "array") && s.K != "list" && (generic || !s.IsPrim()), (k == "map" || k == "struct") && s.K == "list":
		// The generator writes lists or plain values (for lists of one element) for pre-filled lists and objects for
		// maps and structs, so this only happens when a later call of a history meets a value an earlier call stored.
		// The library takes a setting that is no list for a list of one element and a list for an object without
		// named settings (it is silently ignored): not followed for generic values
		x.outside = true
		return invalid, nil
	}
	if generic {
		x.classes["iface: setting merged into a generic value an earlier call stored"] = true
	}
	// what the place holds now, as a value of the type it held before (pointer levels that were dropped are put back)
	gotH := invalid
	if got.IsValid() && !got.IsNil() {
		g := got.Elem()
		for n := 0; g.Type() != held.Type() && n < 3; n++ {
			p := reflect.New(g.Type())
			p.Elem().Set(g)
			g = p
		}
		switch {
		case g.Type() != held.Type():
			return invalid, fmt.Errorf("%s: the place held a %v and holds a %v after a successful Unpack", path, held.Type(), got.Elem().Type())
		case got.Elem().Type() != held.Type():
			x.classes["iface: leading pointer of the held value dropped (held *T, holds T afterwards; contents compared)"] = true
		}
		gotH = addr(g)
	}
	w, err := x.merge(ht, pol, addr(held), s, gotH, path+"()")
	if err != nil || x.outside {
		return invalid, err
	}
	x.classes["iface: setting merged into "+heldClass(held)] = true
	out.Set(w)
	return out, nil
}

// heldClass names the kind of value an interface{} place holds.
func heldClass(held reflect.Value) string {
	levels := 0
	v := held
	for v.Kind() == reflect.Ptr && v.Type() != gen.RegexpType {
		levels++
		if v.IsNil() {
			return fmt.Sprintf("a typed nil pointer (%d levels to %s)", levels, kindClass(v.Type().Elem(), invalid))
		}
		v = v.Elem()
	}
	how := "held by value"
	switch levels {
	case 0:
	case 1:
		how = "held by pointer"
	default:
		how = "held by pointer to pointer"
	}
	return kindClass(v.Type(), v) + " " + how
}

func kindClass(t reflect.Type, v reflect.Value) string {
	for t.Kind() == reflect.Ptr && t != gen.RegexpType {
		t = t.Elem()
	}
	switch t.Kind() {
	case reflect.Struct:
		if t.Name() != "" {
			return "a catalogue struct (methods)"
		}
		return "a struct"
	case reflect.Map:
		if v.IsValid() && v.IsNil() {
			return "a nil map"
		}
		if t.Elem().Kind() == reflect.Interface {
			return "a map of interface{}"
		}
		return "a map"
	case reflect.Slice:
		if v.IsValid() && v.IsNil() {
			return "a nil slice"
		}
		if t.Elem().Kind() == reflect.Interface {
			return "a slice of interface{}"
		}
		return "a slice"
	case reflect.Array:
		return "an array"
	case reflect.Ptr:
		return "a regexp"
	}
	if t.PkgPath() != "" {
		return "a named primitive"
	}
	return "a primitive"
}

func genIfaceCase(t *rapid.T) Case {
	tg := &tgen{t: t, avoid: avoided(), exportedTwins: true, iface: 35}
	var c Case
	c.T = tg.structT(runlog.Pick(3, 4))
	if !hasIface(c.T) {
		// at least one place: the first field that may carry one
		for i := range c.T.Fields {
			if f := &c.T.Fields[i]; !f.Inline {
				f.T = tg.ifaceT(2)
				break
			}
		}
	}
	if rapid.IntRange(0, 9).Draw(t, "alias") == 0 {
		genFieldAlias(t, &c)
	}
	c.P = gen.GenTV(t, &gen.TDCfg{NilPtrElems: true}, c.T, false)
	heldPass(t, c.T, c.P)
	c.Global = rapid.SampledFrom([]string{"", "", "replace", "append", "prepend"}).Draw(t, "global")
	c.Indirect = rapid.IntRange(0, 15).Draw(t, "indirect") == 0
	v := makeView(c.T, nil, "", "")
	cg := &cgen{t: t, noMention: noMentionSet(&c), mention: 85}
	c.Cfg = gen.Obj()
	cg.object(c.Cfg, v.td.Shape(), c.P, "", nil)
	if rapid.IntRange(0, 9).Draw(t, "fault") < 3 {
		st := c.steps()[0]
		inject(t, &c, &st, v, true, aliasRoots(&c))
		c.Fault = st.Fault
	}
	if rapid.IntRange(0, 3).Draw(t, "second") == 0 {
		// a second call, mostly over the result of the first: the places hold what the first call left there
		// (generic values where the untyped nil was); its settings are drawn for the pre-filled value again
		st := Step{Fresh: rapid.IntRange(0, 3).Draw(t, "fresh") == 0}
		st.Global = rapid.SampledFrom([]string{"", "", "replace", "append", "prepend"}).Draw(t, "global2")
		if rapid.IntRange(0, 3).Draw(t, "reuse") == 0 {
			st.Reuse, st.Repeat, st.Cfg = rapid.Bool().Draw(t, "sameobj"), true, c.Cfg.Clone()
			if c.Fault != nil && c.Fault.Kind != "val-absent" {
				f := *c.Fault
				st.Fault = &f
			}
		} else {
			st.Cfg = gen.Obj()
			cg.object(st.Cfg, v.td.Shape(), c.P, "", nil)
			if rapid.IntRange(0, 9).Draw(t, "fault2") < 2 {
				inject(t, &c, &st, v, false, aliasRoots(&c))
			}
		}
		c.More = []Step{st}
	}
	return c
}

var subIface = runlog.Register(&runlog.Sub[Case]{
	Name: "iface-prefilled",
	Rule: "a struct type as in prefilled-unpack in which about a third of the field, element and pointee types are places of type interface{} - a field interface{}, map[string]interface{}, []interface{} or [N]interface{}, at any depth (also inside the values such a place holds) - and every such place is pre-filled with a typed value of every kind the generator knows: a struct held BY VALUE (StructOf or a catalogue struct with InitDefaults/Validate), a pointer or a pointer to a pointer to a struct, an array, a map (also nil), a slice (also nil), pointers to those, primitives of all kinds, named and catalogue primitives, pointers to primitives, typed nil pointers, maps/slices of interface{} again (the generic shapes), or the untyped nil (1 in 7 places; some places never hold anything else). The entries of one map or list of interface{} hold values of one type or nil. The configuration mentions a random subset of the fields (85%) with settings valid for what the place HOLDS (for the untyped nil: any primitive, object or list); global policy and policy tags as in prefilled-unpack; in 30% one injected fault as there (a fault below a place that holds the untyped nil has no effect, which is classed). 1 in 4 cases has a second Unpack call in the same process - 3 of 4 times over the result of the first (places that held the untyped nil hold generic values by then, which a setting is merged into under the same rule; a setting that does not convert to what the place holds now explains a failure), else into a newly pre-filled target; 1 of 4 second calls unpacks the first configuration again (the same *Config object or a new one). Oracle as in prefilled-unpack with one more rule: a setting for an interface{} place is merged into the value the place holds like into a field of that value's type - mentioned fields/entries/elements overwritten (list policy in force), everything else the held value contains bit for bit as before, InitDefaults of a held struct re-applied as for a struct field - and the place holds a value of the same type afterwards (a leading pointer to a list, map, array or primitive may be dropped: classed, contents compared through pointers); a place holding the untyped nil receives the generic value of the setting (obtained by unpacking the setting alone into a fresh interface{}); unmentioned places keep the very value (same dynamic type, bit for bit). On error the struct holds its previous values (held structs, arrays and slices by value, held pointers and maps by identity). Non-trivial and distinct as in prefilled-unpack.",
	Gen:  genIfaceCase,
	Run:  runCase,
})

func TestIfacePrefilled(t *testing.T) { subIface.Check(t, 50000, 1000000) }
