package c13

import (
	"errors"
	"reflect"

	ucfg "github.com/elastic/go-ucfg"

	"verif/harness/internal/gen"
)

// The catalogue: hand-written types that carry the methods reflect.StructOf
// types cannot have. The struct types carry a second tag set under the tag name
// "alt" (other names, names swapped between fields, other ignore, inline and
// policy flags), which Unpack reads when called with StructTag("alt"). Every type is registered together with its structural
// shape, which drives value generation, configuration building and the
// expectation. The number 13 is the one value the Validate methods reject; the
// value generators never produce it, so only an injected fault does.

// DefStruct has defaults for two of its three settings and rejects z == 13.
type DefStruct struct {
	X    int    `config:"x" alt:"dx"`
	Y    string `config:"y" alt:"dy,ignore"`
	Z    int    `config:"z" alt:"z"`
	keep int
}

func (d *DefStruct) InitDefaults() { d.X = 5; d.Y = "def" }

func (d DefStruct) Validate() error {
	if d.Z == 13 {
		return errors.New("defstruct: z must not be 13")
	}
	return nil
}

// DefInt is a primitive with a default.
type DefInt int

func (d *DefInt) InitDefaults() { *d = 7 }

// DefMap is a map with a default entry.
type DefMap map[string]int

func (d DefMap) InitDefaults() { d["dflt"] = 1 }

// ValStruct has no defaults and rejects x == 13 (checked after all of its fields were processed).
type ValStruct struct {
	X int    `config:"x" alt:"vx"`
	Y string `config:"y" alt:"x"`
}

func (v ValStruct) Validate() error {
	if v.X == 13 {
		return errors.New("valstruct: x must not be 13")
	}
	return nil
}

// ValInt is a primitive that rejects 13.
type ValInt int

func (v ValInt) Validate() error {
	if v == 13 {
		return errors.New("valint: must not be 13")
	}
	return nil
}

// UnpStr unpacks itself from a string setting and rejects "bad". Unpack
// overwrites the whole value, so it does not matter whether the library calls
// it on the existing value or on a fresh one.
type UnpStr struct{ S string }

func (u *UnpStr) Unpack(s string) error {
	if s == "bad" {
		return errors.New("unpstr: bad")
	}
	u.S = "<" + s + ">"
	return nil
}

// UnpInt unpacks itself from an integer setting (IntUnpacker). It STORES the
// value in its receiver before it looks at it: 13 is rejected after the
// receiver was overwritten. Like UnpStr it overwrites the whole value.
type UnpInt struct {
	N    int64
	Seen bool
}

func (u *UnpInt) Unpack(i int64) error {
	*u = UnpInt{N: i + 1000, Seen: true}
	if i == 13 {
		return errors.New("unpint: must not be 13")
	}
	return nil
}

// CfgUnp unpacks itself from an object (ConfigUnpacker) the way most
// hand-written Unpack methods do: field by field through a twin type without
// methods, straight into the receiver, and THEN it checks the result: hi == 13
// is rejected after the receiver's fields were overwritten. On success it
// behaves like a plain struct of the same fields (the settings merge into the
// receiver). The inner Unpack runs without the options of the outer call, so
// the fields are primitives that read the same names under every tag name.
type CfgUnp struct {
	Lo   int    `config:"lo" alt:"lo"`
	Unit string `config:"unit" alt:"unit"`
	Hi   int    `config:"hi" alt:"hi"`
	keep int
}

func (u *CfgUnp) Unpack(c *ucfg.Config) error {
	type plain CfgUnp
	if err := c.Unpack((*plain)(u)); err != nil {
		return err
	}
	if u.Hi == 13 {
		return errors.New("cfgunp: hi must not be 13")
	}
	return nil
}

// AnyUnp does the same through the generic Unpacker interface: it receives the
// object as map[string]interface{}, unpacks that field by field into its
// receiver and rejects n == 13 afterwards.
type AnyUnp struct {
	N    int64  `config:"n" alt:"n"`
	S    string `config:"s" alt:"s"`
	B    bool   `config:"b" alt:"b"`
	keep string
}

func (u *AnyUnp) Unpack(v interface{}) error {
	m, ok := v.(map[string]interface{})
	if !ok && v != nil { // (an object without settings arrives as nil)
		return errors.New("anyunp: object required")
	}
	c, err := ucfg.NewFrom(m)
	if err != nil {
		return err
	}
	type plain AnyUnp
	if err := c.Unpack((*plain)(u)); err != nil {
		return err
	}
	if u.N == 13 {
		return errors.New("anyunp: n must not be 13")
	}
	return nil
}

// DefOuter has defaults of its own and contains types that have defaults
// (initialisation is top-down: the outer defaults run first).
type DefOuter struct {
	A   int        `config:"a" alt:"oa"`
	In  DefStruct  `config:"in" alt:",inline"`
	P   *DefStruct `config:"p" alt:"in"`
	L   []DefInt   `config:"l" alt:"ol,prepend"`
	hid string
	Ig  int `config:"ig,ignore" alt:"ig"`
}

func (o *DefOuter) InitDefaults() {
	o.A = 3
	o.In.X = 9 // overwritten by the defaults of DefStruct, which run afterwards
	o.In.Z = 8
	o.hid = "init"
	o.Ig = 4
	if o.L == nil {
		o.L = []DefInt{2}
	}
}

// Top is used as the type of the whole target: the struct passed to Unpack
// has defaults and a Validate method of its own (it rejects z == 13 after all
// fields were processed).
type Top struct {
	A   int            `config:"a" alt:"z"`
	S   []int          `config:"s" alt:"ts,append"`
	M   map[string]int `config:"m" alt:"tm"`
	D   DefStruct      `config:"d" alt:"td"`
	PV  *ValStruct     `config:"pv" alt:"tpv,replace"`
	R   []ValStruct    `config:"r,replace" alt:"r"`
	hid int
	Ig  string `config:"ig,ignore" alt:"tig"`
	N   DefInt `config:"n" alt:"n,ignore"`
	Z   int    `config:"z" alt:"a"`
}

func (t *Top) InitDefaults() {
	if t.A == 0 {
		t.A = 11
	}
	t.hid = 77
}

func (t Top) Validate() error {
	if t.Z == 13 {
		return errors.New("top: z must not be 13")
	}
	return nil
}

const (
	kTop       = "cat:c13_top"
	kDefStruct = "cat:c13_defstruct"
	kDefInt    = "cat:c13_defint"
	kDefMap    = "cat:c13_defmap"
	kValStruct = "cat:c13_valstruct"
	kValInt    = "cat:c13_valint"
	kUnpStr    = "cat:c13_unpstr"
	kDefOuter  = "cat:c13_defouter"
	kUnpInt    = "cat:c13_unpint"
	kCfgUnp    = "cat:c13_cfgunp"
	kAnyUnp    = "cat:c13_anyunp"
)

var catKinds = []string{kDefStruct, kDefInt, kDefMap, kValStruct, kValInt, kUnpStr, kDefOuter, kCfgUnp, kDefStruct, kValStruct, kUnpInt, kAnyUnp, kCfgUnp}

func td(kind string) *gen.TD { return &gen.TD{Kind: kind} }

func ptrTo(e *gen.TD) *gen.TD   { return &gen.TD{Kind: "ptr", Elem: e} }
func sliceOf(e *gen.TD) *gen.TD { return &gen.TD{Kind: "slice", Elem: e} }

// registerStruct registers a catalogue struct with its shape under the tag
// name "config", under "alt" (hand-written next to the Go type above) and
// under a tag name it does not carry (derived: lower-cased Go names, no flags).
func registerStruct(name string, typ reflect.Type, primary, alt []gen.FD) {
	shape := &gen.TD{Kind: "struct", Fields: primary}
	gen.RegisterCat(name, typ, shape)
	gen.RegisterCat(name+"@alt", typ, &gen.TD{Kind: "struct", Fields: alt})
	gen.RegisterCat(name+"@bare", typ, bareShape(shape))
}

func init() {
	gen.RegisterCat("c13_defint", reflect.TypeOf(DefInt(0)), td("int"))
	gen.RegisterCat("c13_defmap", reflect.TypeOf(DefMap(nil)), &gen.TD{Kind: "map", Elem: td("int")})
	gen.RegisterCat("c13_valint", reflect.TypeOf(ValInt(0)), td("int"))
	gen.RegisterCat("c13_unpstr", reflect.TypeOf(UnpStr{}), &gen.TD{Kind: "struct", Fields: []gen.FD{
		{Name: "S", Tag: "s", T: td("string")},
	}})
	gen.RegisterCat("c13_unpint", reflect.TypeOf(UnpInt{}), &gen.TD{Kind: "struct", Fields: []gen.FD{
		{Name: "N", Tag: "n", T: td("int64")},
		{Name: "Seen", Tag: "seen", T: td("bool")},
	}})
	cfgUnp := []gen.FD{
		{Name: "Lo", Tag: "lo", T: td("int")},
		{Name: "Unit", Tag: "unit", T: td("string")},
		{Name: "Hi", Tag: "hi", T: td("int")},
		{Name: "keep", Tag: "keep", Unexp: true, T: td("int")},
	}
	registerStruct("c13_cfgunp", reflect.TypeOf(CfgUnp{}), cfgUnp, cfgUnp)
	anyUnp := []gen.FD{
		{Name: "N", Tag: "n", T: td("int64")},
		{Name: "S", Tag: "s", T: td("string")},
		{Name: "B", Tag: "b", T: td("bool")},
		{Name: "keep", Tag: "keep", Unexp: true, T: td("string")},
	}
	registerStruct("c13_anyunp", reflect.TypeOf(AnyUnp{}), anyUnp, anyUnp)
	registerStruct("c13_defstruct", reflect.TypeOf(DefStruct{}), []gen.FD{
		{Name: "X", Tag: "x", T: td("int")},
		{Name: "Y", Tag: "y", T: td("string")},
		{Name: "Z", Tag: "z", T: td("int")},
		{Name: "keep", Tag: "keep", Unexp: true, T: td("int")},
	}, []gen.FD{
		{Name: "X", Tag: "dx", T: td("int")},
		{Name: "Y", Tag: "dy", Ignore: true, T: td("string")},
		{Name: "Z", Tag: "z", T: td("int")},
		{Name: "keep", Tag: "keep", Unexp: true, T: td("int")},
	})
	registerStruct("c13_valstruct", reflect.TypeOf(ValStruct{}), []gen.FD{
		{Name: "X", Tag: "x", T: td("int")},
		{Name: "Y", Tag: "y", T: td("string")},
	}, []gen.FD{
		{Name: "X", Tag: "vx", T: td("int")},
		{Name: "Y", Tag: "x", T: td("string")},
	})
	registerStruct("c13_defouter", reflect.TypeOf(DefOuter{}), []gen.FD{
		{Name: "A", Tag: "a", T: td("int")},
		{Name: "In", Tag: "in", T: td(kDefStruct)},
		{Name: "P", Tag: "p", T: ptrTo(td(kDefStruct))},
		{Name: "L", Tag: "l", T: sliceOf(td(kDefInt))},
		{Name: "hid", Tag: "hid", Unexp: true, T: td("string")},
		{Name: "Ig", Tag: "ig", Ignore: true, T: td("int")},
	}, []gen.FD{
		{Name: "A", Tag: "oa", T: td("int")},
		{Name: "In", Inline: true, T: td(kDefStruct + "@alt")},
		{Name: "P", Tag: "in", T: ptrTo(td(kDefStruct + "@alt"))},
		{Name: "L", Tag: "ol", Policy: "prepend", T: sliceOf(td(kDefInt))},
		{Name: "hid", Tag: "hid", Unexp: true, T: td("string")},
		{Name: "Ig", Tag: "ig", T: td("int")},
	})
	registerStruct("c13_top", reflect.TypeOf(Top{}), []gen.FD{
		{Name: "A", Tag: "a", T: td("int")},
		{Name: "S", Tag: "s", T: sliceOf(td("int"))},
		{Name: "M", Tag: "m", T: &gen.TD{Kind: "map", Elem: td("int")}},
		{Name: "D", Tag: "d", T: td(kDefStruct)},
		{Name: "PV", Tag: "pv", T: ptrTo(td(kValStruct))},
		{Name: "R", Tag: "r", Policy: "replace", T: sliceOf(td(kValStruct))},
		{Name: "hid", Tag: "hid", Unexp: true, T: td("int")},
		{Name: "Ig", Tag: "ig", Ignore: true, T: td("string")},
		{Name: "N", Tag: "n", T: td(kDefInt)},
		{Name: "Z", Tag: "z", T: td("int")},
	}, []gen.FD{
		{Name: "A", Tag: "z", T: td("int")},
		{Name: "S", Tag: "ts", Policy: "append", T: sliceOf(td("int"))},
		{Name: "M", Tag: "tm", T: &gen.TD{Kind: "map", Elem: td("int")}},
		{Name: "D", Tag: "td", T: td(kDefStruct + "@alt")},
		{Name: "PV", Tag: "tpv", Policy: "replace", T: ptrTo(td(kValStruct + "@alt"))},
		{Name: "R", Tag: "r", T: sliceOf(td(kValStruct + "@alt"))},
		{Name: "hid", Tag: "hid", Unexp: true, T: td("int")},
		{Name: "Ig", Tag: "tig", T: td("string")},
		{Name: "N", Tag: "n", Ignore: true, T: td(kDefInt)},
		{Name: "Z", Tag: "a", T: td("int")},
	})
}

// topKinds are the catalogue structs that also serve as the type of the whole target.
var topKinds = []string{kTop, kCfgUnp, kTop, kDefStruct, kAnyUnp, kValStruct, kDefOuter, kCfgUnp}

type initer interface{ InitDefaults() }

var initerType = reflect.TypeOf((*initer)(nil)).Elem()

// hasInit reports whether values of the type get defaults from an InitDefaults method.
func hasInit(t reflect.Type) bool {
	return t.Implements(initerType) || reflect.PtrTo(t).Implements(initerType)
}

// callInit runs the type's own InitDefaults on v (which must be addressable).
func callInit(v reflect.Value) {
	if v.Type().Implements(initerType) {
		v.Interface().(initer).InitDefaults()
		return
	}
	if reflect.PtrTo(v.Type()).Implements(initerType) {
		v.Addr().Interface().(initer).InitDefaults()
	}
}

// leafBase returns the primitive kind a setting for the type must have
// ("int8", "string", "dur", "regexp", "unpstr", ...), or "" if the type is
// unpacked from an object or a list.
func leafBase(t *gen.TD) string {
	if t.Kind == kUnpStr {
		return "unpstr"
	}
	if t.Kind == kUnpInt {
		return "unpint"
	}
	sh := t.Shape()
	if sh.IsLeaf() {
		return sh.Base()
	}
	return ""
}
